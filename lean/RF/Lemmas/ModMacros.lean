import RF.Model.ModMacros
import RF.Lemmas.Modules
/-!
Lemmas for the macro-based module discovery (`RF/Model/ModMacros.lean`):

1. `visitS_eq`: the literal walk of the code over surface items (`visit_cfg_if` calling
   `visit_sub_mod` for every collected `mod`, inline modules walked by the same loop) is the walk
   `visitItemsW` of the flat list `discItems`, whatever the recursion into loaded files does;
2. `parse_then_visit`: the structural definition of the discovered list is "parse the macro body,
   then list what the parser returned" (`parseMacroBody`);
3. `disc_eq_exp`: on tame items the code discovers exactly what the specification expands.
-/
namespace RF.Lemmas.ModMacros
open RF.Modules RF.Lemmas.Modules

theorem sitem_ind {P : SItem → Prop} {Q : List SItem → Prop} {R : List (List SItem) → Prop}
    (h1 : ∀ n a, P (.ext n a)) (h2 : ∀ n a is, Q is → P (.inline n a is))
    (h3 : ∀ sh bs, R bs → P (.cfgIf sh bs)) (h4 : ∀ sh bs, R bs → P (.cfgMatch sh bs))
    (h5 : P .other) (h6 : P .junk)
    (h7 : Q []) (h8 : ∀ d ds, P d → Q ds → Q (d :: ds))
    (h9 : R []) (h10 : ∀ b bs, Q b → R bs → R (b :: bs)) :
    (∀ d, P d) ∧ (∀ ds, Q ds) ∧ (∀ bs, R bs) :=
  ⟨fun d => SItem.rec (motive_1 := P) (motive_2 := Q) (motive_3 := R) h1 h2 h3 h4 h5 h6 h7 h8 h9 h10 d,
   fun ds => SItem.rec_1 (motive_1 := P) (motive_2 := Q) (motive_3 := R) h1 h2 h3 h4 h5 h6 h7 h8 h9 h10 ds,
   fun bs => SItem.rec_2 (motive_1 := P) (motive_2 := Q) (motive_3 := R) h1 h2 h3 h4 h5 h6 h7 h8 h9 h10 bs⟩

/-! ## The core walk over an appended list -/

theorem visitItemsW_append (fs : FS) (rec : RecFn) (cur : FileName) (xs ys : List Decl) :
    ∀ st, visitItemsW fs rec cur st (xs ++ ys) =
      match visitItemsW fs rec cur st xs with
      | .error e => .error e
      | .ok st' => visitItemsW fs rec cur st' ys := by
  induction xs with
  | nil => intro st; simp [visitItemsW]
  | cons d ds ih =>
    intro st
    simp only [List.cons_append, visitItemsW]
    cases visitSubModW fs rec cur st d with
    | error e => rfl
    | ok st1 => exact ih st1

theorem visitItemsW_single (fs : FS) (rec : RecFn) (cur : FileName) (d : Decl) (st : St) :
    visitItemsW fs rec cur st [d] = visitSubModW fs rec cur st d := by
  simp only [visitItemsW]
  cases visitSubModW fs rec cur st d <;> rfl

/-! ## The literal walk is the walk of the discovered list -/

theorem visitS_eq (fs : FS) (rec : RecFn) (cur : FileName) :
    (∀ it : SItem, ∀ st,
      visitItemS fs rec cur st it = visitItemsW fs rec cur st (discItem it)) ∧
    (∀ items : List SItem, ∀ st,
      visitItemsS fs rec cur st items = visitItemsW fs rec cur st (discItems items) ∧
      visitBranchItemsS fs rec cur st items = visitItemsW fs rec cur st (discBranchItems items)) ∧
    (∀ bs : List (List SItem), ∀ st,
      visitBranchesS fs rec cur st bs = visitItemsW fs rec cur st (discBranches bs)) := by
  apply sitem_ind
  · intro n a st
    rw [visitItemS, discItem, visitItemsW_single]
  · intro n a items ih st
    rw [visitItemS, discItem, visitItemsW_single, visitSubModW]
    split
    · rfl
    · rw [(ih _).1]
      cases visitItemsW fs rec cur _ (discItems items) <;> rfl
  · intro sh bs ih st
    rw [visitItemS, discItem]
    split
    · exact ih st
    · rfl
  · intro sh bs ih st
    rw [visitItemS, discItem]
    split
    · exact ih st
    · rfl
  · intro st; simp [visitItemS, discItem, visitItemsW]
  · intro st; simp [visitItemS, discItem, visitItemsW]
  · intro st; simp [visitItemsS, visitBranchItemsS, discItems, discBranchItems, visitItemsW]
  · intro d ds ihd ihds st
    constructor
    · rw [visitItemsS, discItems, visitItemsW_append, ihd st]
      cases visitItemsW fs rec cur st (discItem d) with
      | error e => rfl
      | ok st1 => exact (ihds st1).1
    · rw [visitBranchItemsS, discBranchItems, visitItemsW_append]
      split
      · rw [ihd st]
        cases visitItemsW fs rec cur st (discItem d) with
        | error e => rfl
        | ok st1 => exact (ihds st1).2
      · simp only [visitItemsW]
        exact (ihds st).2
  · intro st; simp [visitBranchesS, discBranches, visitItemsW]
  · intro b bs ihb ihbs st
    rw [visitBranchesS, discBranches, visitItemsW_append, (ihb st).2]
    cases visitItemsW fs rec cur st (discBranchItems b) with
    | error e => rfl
    | ok st1 => exact ihbs st1

theorem visitItemsS_eq (fs : FS) (rec : RecFn) (cur : FileName) (st : St) (items : List SItem) :
    visitItemsS fs rec cur st items = visitItemsW fs rec cur st (discItems items) :=
  ((visitS_eq fs rec cur).2.1 items st).1

theorem visitCrateS_eq (sfs : SFS) (fuel : Nat) (rootName : FileName) (rootSkip : Bool)
    (rootItems : List SItem) (own : Ownership) (recursive : Bool) :
    visitCrateS sfs fuel rootName rootSkip rootItems own recursive =
      visitCrate (codeFS sfs) fuel rootName rootSkip (discItems rootItems) own recursive := by
  unfold visitCrateS visitCrate
  simp only [visitItemsS_eq]
  cases recursive <;> rfl

/-! ## "Parse, then visit what the parser returned" -/

theorem discItems_append (xs ys : List SItem) :
    discItems (xs ++ ys) = discItems xs ++ discItems ys := by
  induction xs with
  | nil => simp [discItems]
  | cons d ds ih => simp [discItems, ih]

theorem discBranchItems_filter (b : List SItem) :
    discBranchItems b = discItems (b.filter isModItem) := by
  induction b with
  | nil => simp [discBranchItems, discItems]
  | cons d ds ih =>
    rw [discBranchItems, List.filter_cons]
    split <;> simp [discItems, ih]

theorem discBranches_flatten (bs : List (List SItem)) :
    discBranches bs = discItems (bs.flatten.filter isModItem) := by
  induction bs with
  | nil => simp [discBranches, discItems]
  | cons b bs ih =>
    rw [discBranches, List.flatten_cons, List.filter_append, discItems_append, ih,
      discBranchItems_filter]

/-- What the resolver visits for a `cfg_if!` call is the discovery applied to the list
`parse_cfg_if` returns (nothing on `Err`). -/
theorem parse_then_visit (sh : MacShape) (bs : List (List SItem)) :
    discItem (.cfgIf sh bs) = (match parseMacroBody sh bs with
      | some mods => discItems mods
      | none => []) ∧
    discItem (.cfgMatch sh bs) = (match parseMacroBody sh bs with
      | some mods => discItems mods
      | none => []) := by
  unfold parseMacroBody
  rw [discItem, discItem]
  split <;> simp [discBranches_flatten]

/-! ## Tame items: code = specification -/

theorem discBranchItems_noMacro (b : List SItem) (h : noMacroItems b = true) :
    discBranchItems b = discItems b := by
  induction b with
  | nil => simp [discBranchItems, discItems]
  | cons d ds ih =>
    rw [noMacroItems, Bool.and_eq_true] at h
    rw [discBranchItems, discItems, ih h.2]
    cases d <;> simp_all [isModItem, isMacroItem, discItem]

theorem branchesParse_of_tame (bs : List (List SItem)) (h : tameBranches bs = true) :
    branchesParse bs = true := by
  induction bs with
  | nil => rfl
  | cons b bs ih =>
    rw [tameBranches] at h
    simp only [Bool.and_eq_true] at h
    simp [branchesParse, h.1.1.1, ih h.2]

theorem disc_eq_exp :
    (∀ it : SItem, tameItem it = true → discItem it = expItem it) ∧
    (∀ items : List SItem, tameItems items = true → discItems items = expItems items) ∧
    (∀ bs : List (List SItem), tameBranches bs = true → discBranches bs = expBranches bs) := by
  apply sitem_ind
  · intro n a _; rw [discItem, expItem]
  · intro n a items ih h
    rw [tameItem] at h
    rw [discItem, expItem, ih h]
  · intro sh bs ih h
    rw [tameItem, Bool.and_eq_true, decide_eq_true_eq] at h
    rw [discItem, expItem, macroAccepted, branchesParse_of_tame bs h.2, h.1, ih h.2]
    simp
  · intro sh bs ih h
    rw [tameItem, Bool.and_eq_true, decide_eq_true_eq] at h
    rw [discItem, expItem, macroAccepted, branchesParse_of_tame bs h.2, h.1, ih h.2]
    simp
  · intro _; rw [discItem, expItem]
  · intro _; rw [discItem, expItem]
  · intro _; rw [discItems, expItems]
  · intro d ds ihd ihds h
    rw [tameItems, Bool.and_eq_true] at h
    rw [discItems, expItems, ihd h.1, ihds h.2]
  · intro _; rw [discBranches, expBranches]
  · intro b bs ihb ihbs h
    rw [tameBranches] at h
    simp only [Bool.and_eq_true] at h
    rw [discBranches, expBranches, discBranchItems_noMacro b h.1.1.2, ihb h.1.2, ihbs h.2, h.1.1.1]
    simp

theorem codeFS_eq_specFS (sfs : SFS) (h : sfsTame sfs = true) : codeFS sfs = specFS sfs := by
  unfold codeFS specFS
  apply List.map_congr_left
  intro e he
  have ht : nodeTame e.2 = true := by
    unfold sfsTame at h
    exact (List.all_eq_true.1 h) e he
  cases hn : e.2 with
  | dir => rfl
  | file s g items =>
    rw [hn] at ht
    simp only [lowerNode]
    rw [disc_eq_exp.2.1 items ht]

end RF.Lemmas.ModMacros
