import RF.Model.CharClasses
import RF.Model.Skip
/-!
# Model of the re-indentation of a formatted `macro_rules!` body (`/repo/src/macros.rs`, `MacroBranch::rewrite`)

A macro arm's body is formatted on its own (`format_snippet` as items, else `format_code_block` as
statements) by a nested formatter that starts at indentation 0; the result is a
`FormattedSnippet { snippet, non_formatted_ranges }` where `non_formatted_ranges` is the nested
top-level visitor's `skipped_range` (1-based inclusive lines of `snippet`; `lib.rs`
`format_snippet`/`format_code_block`, shifted by `unwrap_code_block` for a wrapped block).
`MacroBranch::rewrite` then puts the arm's body indentation in front of every line

    LineClasses::new(new_body_snippet.snippet.trim_end()).enumerate().fold((String::new(), true),
        |(mut s, need_indent), (i, (kind, ref l))| {
            if !is_empty_line(l) && need_indent && !new_body_snippet.is_line_non_formatted(i + 1) {
                s += &indent_str;
            }
            (s + l + "\n", indent_next_line(kind, l, &config))
        }).0

i.e. every line EXCEPT blank lines, the lines after a line that ends inside a string literal, and
the lines of a recorded skipped range.  Then the macro variables are put back
(`new_body.replace(new, old)` for every substitution) and the arm is assembled.

This is the second reader of `FmtVisitor::skipped_range` (the first is `FormatLines`, C07): if the
recorded range of a skipped node does not cover all the lines of its verbatim copy, the uncovered
lines get the body indentation added to the indentation they were copied with — the skipped node's
bytes change, and change again on the next run.
-/
namespace RF.MacroBody
open RF.CharClasses

/-- `FormattedSnippet::is_line_non_formatted(n)` (`lib.rs`): `any(|(low, high)| low <= n && n <= high)`. -/
def isLineNonFormatted (ranges : List (Nat × Nat)) (n : Nat) : Bool :=
  ranges.any (fun r => decide (r.1 ≤ n) && decide (n ≤ r.2))

/-- `FormattedSnippet::unwrap_code_block(header_lines)` (`lib.rs`): both ends `saturating_sub`. -/
def unwrapCodeBlock (headerLines : Nat) (ranges : List (Nat × Nat)) : List (Nat × Nat) :=
  ranges.map (fun r => (r.1 - headerLines, r.2 - headerLines))

/-- `utils::is_empty_line`: empty or all `char::is_whitespace`. -/
def isEmptyLine (s : List Char) : Bool := s.all RF.Skip.isWhitespace

/-- `str::ends_with('\\')` -/
def endsWithBackslash (s : List Char) : Bool := s.getLast? == some '\\'

/-- The two options `indent_next_line` reads. -/
structure Cfg where
  formatStrings : Bool      -- `config.format_strings()`
  ed2024 : Bool             -- `config.style_edition() >= StyleEdition::Edition2024`
  deriving DecidableEq, Repr

/-- `utils::indent_next_line(kind, line, config)` (`utils.rs:655-668`). -/
def indentNextLine (c : Cfg) (kind : Kind) (line : List Char) : Bool :=
  if kind.isString then c.formatStrings && endsWithBackslash line
  else if c.ed2024 then !kind.isCommentedString
  else true

/-- The fold, line by line: `i` = 0-based index of the head of the list, `need` = `need_indent`. -/
def reindentLines (ind : List Char) (ranges : List (Nat × Nat)) (c : Cfg) :
    Nat → Bool → List (Kind × List Char) → List (List Char)
  | _, _, [] => []
  | i, need, (kind, l) :: rest =>
    (if !isEmptyLine l && need && !isLineNonFormatted ranges (i + 1) then ind ++ l else l) ::
      reindentLines ind ranges c (i + 1) (indentNextLine c kind l) rest

/-- Each line followed by `"\n"`. -/
def joinLines : List (List Char) → List Char
  | [] => []
  | l :: r => l ++ '\n' :: joinLines r

/-- `new_body` before the macro variables are put back. -/
def reindent (ind : List Char) (ranges : List (Nat × Nat)) (c : Cfg) (snippet : List Char) :
    List Char :=
  joinLines (reindentLines ind ranges c 0 true (lineClasses (RF.Skip.trimEnd snippet)))

/-- `str::replace(pat, rep)`: non-overlapping matches from the left (an empty pattern never occurs
here: a substitution's new name is `z` + the variable's name). -/
def replaceAll (pat rep : List Char) : List Char → List Char
  | [] => []
  | c :: r =>
    match pat with
    | [] => c :: r
    | p :: ps =>
      if (p :: ps).isPrefixOf (c :: r) then rep ++ replaceAll (p :: ps) rep (r.drop ps.length)
      else c :: replaceAll (p :: ps) rep r
termination_by s => s.length
decreasing_by
  all_goals simp only [List.length_cons, List.length_drop]
  all_goals omega

/-- `for (old, new) in &substs { new_body = new_body.replace(new, old) }` -/
def undoSubsts : List (List Char × List Char) → List Char → List Char
  | [], s => s
  | (old, new) :: r, s => undoSubsts r (replaceAll new old s)

/-- The end of `MacroBranch::rewrite`, from `result += " {"` on: `prefix` is what `result` holds
before (`format_macro_args` and `" =>"`), `armIndent` is `shape.indent.to_string(config)`.
`has_block_body` (`=> {{ … }}`): `result += new_body.trim()`; otherwise a non-empty body goes on
its own lines. -/
def assembleArm (pre armIndent : List Char) (hasBlockBody : Bool) (newBody : List Char) :
    List Char :=
  let r := pre ++ [' ', '{']
  let r :=
    if hasBlockBody then r ++ RF.Skip.trim newBody
    else if !newBody.isEmpty then r ++ ['\n'] ++ newBody ++ armIndent
    else r
  r ++ ['}']

/-- The whole tail of `MacroBranch::rewrite` after the body was formatted. -/
def rewriteTail (pre armIndent bodyIndent : List Char) (hasBlockBody : Bool) (c : Cfg)
    (substs : List (List Char × List Char)) (ranges : List (Nat × Nat)) (snippet : List Char) :
    List Char :=
  assembleArm pre armIndent hasBlockBody (undoSubsts substs (reindent bodyIndent ranges c snippet))

/-! ## `format_code_block` (`lib.rs`): a statement-shaped body is wrapped in `fn main() {` … `}`

`format_code_block(code, config)` = `enclose_in_main_block`, `format_snippet` of the wrapped text,
then the wrapper's header and closing brace are cut off, the ranges shifted (`unwrap_code_block`)
and every line un-indented by one level. -/

/-- `Indent::from_width(config, config.tab_spaces()).to_string(config)`: one level. -/
def levelIndent (hardTabs : Bool) (tabSpaces : Nat) : List Char :=
  if hardTabs then ['\t'] else List.replicate tabSpaces ' '

/-- The loop of `enclose_in_main_block`.  `skipEmpty` = the condition reads
`need_indent && !line.is_empty()` (generated: `RF.Gen.SkipSites.encloseSkipsEmptyLines`); before
/repo 22cb75b it was `need_indent` alone. -/
def encloseLines (ind : List Char) (c : Cfg) (skipEmpty : Bool) :
    Bool → List (Kind × List Char) → List Char
  | _, [] => []
  | need, (kind, l) :: rest =>
    (if need && (!skipEmpty || !l.isEmpty) then ind else []) ++ l ++ '\n' ::
      encloseLines ind c skipEmpty (indentNextLine c kind l) rest

def fnMainPrefix : List Char := "fn main() {\n".toList

/-- `enclose_in_main_block(s, config)` -/
def encloseInMainBlock (ind : List Char) (c : Cfg) (skipEmpty : Bool) (s : List Char) : List Char :=
  fnMainPrefix ++ encloseLines ind c skipEmpty true (lineClasses s) ++ ['}']

/-- One line of the un-indenting loop; `none` = the `return None` for a line wider than
`max_width`.  Lengths are in characters (bytes in the code: ASCII texts). -/
def unwrapLine (ind : List Char) (offset maxWidth : Nat) (isIndented : Bool) (l : List Char) :
    Option (List Char) :=
  if !isIndented then some l
  else if l.length > maxWidth then none
  else if l.length > ind.length then (if ind.isPrefixOf l then some (l.drop offset) else some l)
  else some l

def unwrapLines (ind : List Char) (offset maxWidth : Nat) (c : Cfg) :
    Bool → List (Kind × List Char) → Option (List (List Char))
  | _, [] => some []
  | isInd, (kind, l) :: rest =>
    match unwrapLine ind offset maxWidth isInd l,
          unwrapLines ind offset maxWidth c (indentNextLine c kind l) rest with
    | some t, some r => some (t :: r)
    | _, _ => none

/-- `str::rfind('}')` as an index. -/
def rfindBrace (s : List Char) : Option Nat :=
  match s.reverse.findIdx? (· == '}') with
  | some i => some (s.length - 1 - i)
  | none => none

/-- Lines joined by `"\n"` (no final one). -/
def intercalateNl : List (List Char) → List Char
  | [] => []
  | [l] => l
  | l :: r => l ++ '\n' :: intercalateNl r

/-- The second half of `format_code_block`, from the formatted wrapped text and its ranges:
`(snippet, non_formatted_ranges)`, or `none` when a line is wider than `max_width`. -/
def unwrapFormatted (hardTabs : Bool) (tabSpaces maxWidth : Nat) (c : Cfg)
    (formatted : List Char) (ranges : List (Nat × Nat)) : Option (List Char × List (Nat × Nat)) :=
  let blockLen := (rfindBrace formatted).getD formatted.length
  let blockStart := min fnMainPrefix.length blockLen
  let headerLines := RF.Skip.countNl (formatted.take blockStart)
  let inner := (formatted.drop blockStart).take (blockLen - blockStart)
  let ind := levelIndent hardTabs tabSpaces
  let offset := if hardTabs then 1 else tabSpaces
  match unwrapLines ind offset maxWidth c true (lineClasses inner) with
  | some ls => some (intercalateNl ls, unwrapCodeBlock headerLines ranges)
  | none => none

end RF.MacroBody
