import RF.Model.StringFmt
/-!
# Model of the comment wrapping of `src/comment.rs` that calls `rewrite_string`

`rewrite_comment_inner` (comment.rs:907-949) with `CommentRewrite::{new, handle_line, finish}` on the
**plain-line path**: no line of the comment opens a code block (```` ``` ````) and, under `wrap_comments`, no
line starts an itemized block (`ItemizedBlock::new`).  On any other input the model answers `outside`
(`Outcome.outside`), so the correspondence covers exactly the inputs on which it answers.

Texts are `List Char`; byte offsets of the Rust code (`&line[3..]`, `line.len() - 2`) are character offsets
here, which is the same thing for the ASCII comment markers they skip (custom openers with non-ASCII
characters are outside the domain of the correspondence).  Same conventions as `RF/Model/StringFmt.lean`.
-/
namespace RF.CommentFmt
open RF.StringFmt

/-! ## small string helpers -/

def trimStart (l : List Char) : List Char := l.dropWhile isWs
def trimEnd (l : List Char) : List Char := trimEndWs l
def trim (l : List Char) : List Char := trimEnd (trimStart l)
def startsWith (l : List Char) (p : String) : Bool := p.toList.isPrefixOf l
def endsWith (l : List Char) (p : String) : Bool := p.toList.reverse.isPrefixOf l.reverse
def countNewlines (l : List Char) : Nat := l.count '\n'

/-! ## comment styles (comment.rs:19-142) -/

inductive Style where
  | doubleSlash | tripleSlash | doc | singleBullet | doubleBullet | exclamation
  | custom (opener : List Char)
  deriving Repr, DecidableEq

/-- `is_custom_comment` (comment.rs:19): `//` followed by a character that is neither alphanumeric nor
white space.  `char::is_alphanumeric` is modelled on ASCII (letters beyond are taken as alphanumeric). -/
def isAlphanumeric (c : Char) : Bool :=
  c.isAlphanum || (c.toNat ≥ 0xAA && !isWs c && c.toNat != 0xAB && c.toNat != 0xAC && c.toNat != 0xAD &&
    c.toNat != 0xAE && c.toNat != 0xAF && c.toNat != 0xB0 && c.toNat != 0xB1 && c.toNat != 0xB4 &&
    c.toNat != 0xB6 && c.toNat != 0xB7 && c.toNat != 0xB8 && c.toNat != 0xBB && c.toNat != 0xBF &&
    c.toNat != 0xD7 && c.toNat != 0xF7)

def isCustomComment (comment : List Char) : Bool :=
  if !startsWith comment "//" then false
  else match comment[2]? with
    | some c => !isAlphanumeric c && !isWs c
    | none => false

/-- `custom_opener` (comment.rs:40): the first line up to and including its first blank. -/
def customOpener (s : List Char) : List Char :=
  match lines s with
  | [] => []
  | first :: _ =>
    match position (· == ' ') first with
    | some i => first.take (i + 1)
    | none => first

/-- `comment_style(orig, normalize_comments)` (comment.rs:114-142). -/
def commentStyle (orig : List Char) (normalize : Bool) : Style :=
  let triple := startsWith orig "///" && (orig[3]?.map (· != '/')).getD true
  let dbl := startsWith orig "/**" && !startsWith orig "/**/"
  if !normalize then
    if dbl then .doubleBullet
    else if startsWith orig "/*!" then .exclamation
    else if startsWith orig "/*" then .singleBullet
    else if triple then .tripleSlash
    else if startsWith orig "//!" then .doc
    else if isCustomComment orig then .custom (customOpener orig)
    else .doubleSlash
  else if triple || dbl then .tripleSlash
  else if startsWith orig "//!" || startsWith orig "/*!" then .doc
  else if isCustomComment orig then .custom (customOpener orig)
  else .doubleSlash

def Style.isBlockComment : Style → Bool
  | .singleBullet | .doubleBullet | .exclamation => true
  | _ => false

def Style.opener : Style → List Char
  | .doubleSlash => "// ".toList | .tripleSlash => "/// ".toList | .doc => "//! ".toList
  | .singleBullet => "/* ".toList | .doubleBullet => "/** ".toList | .exclamation => "/*! ".toList
  | .custom o => o

def Style.closer : Style → List Char
  | .singleBullet | .doubleBullet | .exclamation => " */".toList
  | _ => []

def Style.lineStart : Style → List Char
  | .doubleSlash => "// ".toList | .tripleSlash => "/// ".toList | .doc => "//! ".toList
  | .singleBullet | .doubleBullet | .exclamation => " * ".toList
  | .custom o => o

/-! ## per-line helpers -/

/-- `trim_end_unless_two_whitespaces` (comment.rs:1054). -/
def trimEndUnlessTwoWhitespaces (s : List Char) (isDoc : Bool) : List Char :=
  if isDoc && endsWith s "  " then s else trimEnd s

/-- `&line[n..]` with a byte offset: `none` (a panic) when `n` is past the end or inside a character. -/
def dropBytes : Nat → List Char → Option (List Char)
  | 0, l => some l
  | _ + 1, [] => none
  | n + 1, c :: r => if c.utf8Size ≤ n + 1 then dropBytes (n + 1 - c.utf8Size) r else none

/-- `left_trim_comment_line` (comment.rs:1093-1126); `none` = the slice `&line[opener.trim_end().len()..]`
panics (a line of a custom-style comment that is shorter than the opener). -/
def leftTrimCommentLine (line : List Char) (style : Style) : Option (List Char × Bool) :=
  if startsWith line "//! " || startsWith line "/// " || startsWith line "/*! " || startsWith line "/** " then
    some (line.drop 4, true)
  else match style with
    | .custom opener =>
      if opener.isPrefixOf line then some (line.drop opener.length, true)
      else (dropBytes (byteLen (trimEnd opener)) line).map (·, false)
    | _ =>
      if startsWith line "/* " || startsWith line "// " || startsWith line "//!" || startsWith line "///" ||
          startsWith line "** " || startsWith line "/*!" || (startsWith line "/**" && !startsWith line "/**/") then
        some (line.drop 3, line[2]? == some ' ')
      else if startsWith line "/*" || startsWith line "* " || startsWith line "//" || startsWith line "**" then
        some (line.drop 2, line[1]? == some ' ')
      else if startsWith line "*" then some (line.drop 1, false)
      else some (line, startsWith line " ")

/-- `ItemizedBlock::get_marker_length` (comment.rs:462-483). -/
def splitOnce (sep : List Char) : List Char → Option (List Char)
  | [] => if sep.isEmpty then some [] else none
  | c :: r => if sep.isPrefixOf (c :: r) then some [] else (splitOnce sep r).map (c :: ·)

def markerLength (trimmed : List Char) : Option Nat :=
  if startsWith trimmed "* " || startsWith trimmed "- " || startsWith trimmed "> " || startsWith trimmed "+ " then some 2
  else
    let try1 (suffix : List Char) : Option Nat :=
      match splitOnce suffix trimmed with
      | some pre => if (pre.length == 1 || pre.length == 2) && pre.all Char.isDigit then some (pre.length + 2) else none
      | none => none
    match try1 ". ".toList with
    | some n => some n
    | none => try1 ") ".toList

/-- `has_url` of comment.rs (977-993): the four schemes, or the reference-link pattern `^\[.+\]\s?:`. -/
def refLinkAfter : List Char → Bool
  | [] => false
  | c :: r =>
    (c == ']' && (match r with
        | ':' :: _ => true
        | w :: ':' :: _ => isWs w
        | _ => false)) || refLinkAfter r

def hasUrl (s : List Char) : Bool :=
  hasUrlScheme s ||
    (match s with
     | '[' :: _ :: r => refLinkAfter r
     | _ => false)

/-- `is_table_item` (comment.rs:996). -/
def isTableItem (s : List Char) : Bool :=
  let t := trimStart s
  startsWith t "|" && (match rposition (· == '|') t with
    | some 0 | none => false
    | _ => true)

/-- `last_line_width` (utils.rs:207). -/
def lastLineWidth (s : List Char) : Nat := width ((splitNl s).getLastD [])

/-! ## `CommentRewrite` -/

/-- The part of `Config` the plain-line path reads. -/
structure Cfg where
  wrap : Bool                -- wrap_comments
  normalize : Bool           -- normalize_comments
  shapeCfg : RF.Shape.Config -- max_width, hard_tabs, tab_spaces
  deriving Repr, DecidableEq

/-- The mutable fields of `CommentRewrite` on the plain-line path. -/
structure State where
  result : List Char
  prevMulti : Bool           -- is_prev_line_multi_line
  fmtShape : RF.Shape.Shape  -- fmt.shape
  inCode : Bool              -- code_block_attr.is_some()
  deriving Repr, DecidableEq

inductive Outcome (α : Type) where
  | ok (a : α)
  | outside               -- a code block or an itemized block: not modelled
  | panic
  deriving Repr, DecidableEq

/-- The constants `CommentRewrite::new` computes (comment.rs:595-645). -/
structure Ctx where
  opener : List Char
  closer : List Char
  lineStart : List Char
  style : Style
  maxWidth : Nat
  indentStr : List Char
  commentLineSeparator : List Char
  fmtIndent : RF.Shape.Indent
  cfg : Cfg
  deriving Repr, DecidableEq

def Ctx.fmt (x : Ctx) (shape : RF.Shape.Shape) : Fmt :=
  { opener := [], closer := [], lineStart := x.lineStart, lineEnd := [], shape, trimEnd := true, config := x.cfg.shapeCfg }

def mkCtx (orig : List Char) (blockStyle : Bool) (shape : RF.Shape.Shape) (cfg : Cfg) : Outcome Ctx :=
  let style := if blockStyle then Style.singleBullet else commentStyle orig cfg.normalize
  let (opener, closer, lineStart) := (style.opener, style.closer, style.lineStart)
  let maxWidth := (RF.Shape.checkedSub shape.width (byteLen closer + byteLen opener)).getD 1
  match shape.indent.to_string_with_newline cfg.shapeCfg with
  | .error _ => .panic
  | .ok indentStr =>
    .ok { opener, closer, lineStart, style, maxWidth, indentStr,
          commentLineSeparator := indentStr ++ lineStart, fmtIndent := shape.indent, cfg }

def popIf (b : Bool) (l : List Char) : List Char := if b then l.dropLast else l

/-- `handle_line` (comment.rs:717-904) on the plain-line path.  `some true` = stop the loop. -/
def handleLine (x : Ctx) (numNewlines : Nat) (st : State) (i : Nat) (line : List Char) (hasLeadingWs isDoc : Bool) :
    Outcome (State × Bool) :=
  let isLast := i == numNewlines
  if st.inCode then .outside
  else if startsWith line "```" then .outside
  else if x.cfg.wrap && (markerLength (trimStart line)).isSome then .outside
  else
    -- the separator in front of the line
    let pre : Option (List Char × Bool) :=   -- (result, returned early with `false`)
      if st.result == x.opener then
        let forceLeadingWs := x.opener == "/* ".toList && numNewlines == 0
        let r := popIf (!hasLeadingWs && !forceLeadingWs && st.result.getLast? == some ' ') st.result
        if line.isEmpty then some (r, true) else some (r, false)
      else if st.prevMulti && !line.isEmpty then some (st.result ++ [' '], false)
      else if isLast && line.isEmpty then none
      else
        let r := st.result ++ x.commentLineSeparator
        some (popIf (!hasLeadingWs && r.getLast? == some ' ') r, false)
    match pre with
    | none =>
      -- trailing blank lines are unwanted
      .ok ({ st with result := if !x.closer.isEmpty then st.result ++ x.indentStr else st.result }, true)
    | some (r, true) => .ok ({ st with result := r }, false)
    | some (r, false) =>
      let isMarkdownHeader := isDoc && startsWith line "#"
      let shouldWrap := x.cfg.wrap && !isMarkdownHeader && width line > st.fmtShape.width && !hasUrl line && !isTableItem line
      let legacy := RF.Shape.Shape.legacy x.maxWidth x.fmtIndent
      if shouldWrap then
        -- the assignment to `self.fmt.shape` after the `match` (comment.rs:879-889); `baseOffset` is
        -- `self.fmt.shape.offset` at that point
        let finishWrap (r : List Char) (multi : Bool) (baseOffset : Nat) : Outcome (State × Bool) :=
          if multi then
            -- 1 = " "
            let llw := 1 + lastLineWidth r
            if llw < byteLen x.lineStart then .panic
            else
              let offset := llw - byteLen x.lineStart
              .ok ({ st with result := r, prevMulti := true,
                             fmtShape := ⟨x.maxWidth - offset, x.fmtIndent, baseOffset + offset⟩ }, false)
          else .ok ({ st with result := r, prevMulti := false, fmtShape := legacy }, false)
        match rewriteString line (x.fmt st.fmtShape) x.maxWidth with
        | .error _ => .panic
        | .ok (some s) => finishWrap (r ++ s) (s.contains '\n') st.fmtShape.offset
        | .ok none =>
          if st.prevMulti then
            -- remove the trailing space, then start the rewrite on the next line
            let r := r.dropLast ++ x.commentLineSeparator
            match rewriteString line (x.fmt legacy) x.maxWidth with
            | .error _ => .panic
            | .ok (some s) => finishWrap (r ++ s) (s.contains '\n') legacy.offset
            | .ok none => finishWrap (r ++ line) false legacy.offset
          else finishWrap (r ++ line) false st.fmtShape.offset
      else
        let r := popIf (line.isEmpty && r.getLast? == some ' ' && !isLast) r
        .ok ({ st with result := r ++ line, prevMulti := false, fmtShape := legacy }, false)

/-- `finish` (comment.rs:670-715) with an empty code buffer and no itemized block. -/
def finish (x : Ctx) (st : State) : List Char :=
  let r := st.result ++ x.closer
  if x.opener.reverse.isPrefixOf r.reverse && x.opener.getLast? == some ' ' then r.dropLast else r

/-- The `(line, has_leading_whitespace)` that `rewrite_comment_inner` hands to `handle_line`
(comment.rs:917-940); `none` = `left_trim_comment_line` panics. -/
def prepLine (orig : List Char) (style : Style) (lineBreaks : Nat) (normalize isDoc : Bool) (i : Nat)
    (line : List Char) : Option (List Char × Bool) :=
  let l := trimEndUnlessTwoWhitespaces (trimStart line) isDoc
  -- drop the old closer
  let l := if i == lineBreaks && endsWith l "*/" && !startsWith l "//" then trimEnd (l.take (l.length - 2)) else l
  match leftTrimCommentLine l style with
  | none => none
  | some (l, hlw) =>
    if startsWith orig "/*" && lineBreaks == 0 then some (trimStart l, hlw || normalize) else some (l, hlw || normalize)

def loopLines (x : Ctx) (numNewlines : Nat) (isDoc : Bool) : State → List (Nat × Option (List Char × Bool)) → Outcome State
  | st, [] => .ok st
  | _, (_, none) :: _ => .panic      -- the iterator is lazy: the line is prepared when the loop reaches it
  | st, (i, some (line, hlw)) :: rest =>
    match handleLine x numNewlines st i line hlw isDoc with
    | .ok (st', true) => .ok st'
    | .ok (st', false) => loopLines x numNewlines isDoc st' rest
    | .outside => .outside
    | .panic => .panic

/-- `rewrite_comment_inner(orig, block_style, style, shape, config, is_doc_comment)` (comment.rs:907-949);
`style` is the one `identify_comment` computed with `comment_style(orig, false)`. -/
def rewriteCommentInner (orig : List Char) (blockStyle : Bool) (style : Style) (shape : RF.Shape.Shape) (cfg : Cfg)
    (isDoc : Bool) : Outcome (List Char) :=
  match mkCtx orig blockStyle shape cfg with
  | .panic => .panic
  | .outside => .outside
  | .ok x =>
    let lineBreaks := countNewlines (trimEnd orig)
    let ls := (lines orig).zipIdx.map (fun (l, i) => (i, prepLine orig style lineBreaks cfg.normalize isDoc i l))
    let st0 : State := { result := x.opener, prevMulti := false,
                         fmtShape := RF.Shape.Shape.legacy x.maxWidth shape.indent, inCode := false }
    match loopLines x (countNewlines orig) isDoc st0 ls with
    | .ok st => .ok (finish x st)
    | .outside => .outside
    | .panic => .panic

end RF.CommentFmt
