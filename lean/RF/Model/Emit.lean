import RF.Model.Diff
import RF.Model.Backup
import RF.Gen.Emitters
/-!
Model of the emit layer (C06): the seven `Emitter::emit_formatted_file` of `src/emitter/*.rs`,
the part of the command line that selects one (`src/bin/main.rs`: `GetOptsOptions::from_matches`,
`apply_to`, `format_string`), and the two exit-code formulas (`format`, `format_string`).

Which emitter a configuration gets (`createEmitter`) and which file-system calls an emitter makes
(`fsOps`) are NOT written here: they are `RF.Gen.Emitters`, generated from the source on every run.

An emitter sees `(original_text, formatted_text)` (`source_file.rs::write_file`) and, in five of
the seven, the edit script `diff::lines(original_text, formatted_text)` of the external `diff`
crate, which is a parameter (`Input.script`); `make_diff` on a script is `RF.Diff.makeDiff`.
Lines are an arbitrary type `α`.
-/
namespace RF.Emit
open RF.Gen.Emitters RF.Diff

/-- what the emitters read from `Config` -/
structure Cfg where
  printNames : Bool   -- `print_misformatted_file_names()` (`-l`)
  quiet      : Bool   -- `verbose() == Verbosity::Quiet`
  deriving Repr, DecidableEq

/-- `FormattedFile` plus the diff crate's answer for it -/
structure Input (α : Type) where
  orig   : List Char          -- original_text
  fmt    : List Char          -- formatted_text
  script : List (Edit α)      -- diff::lines(original_text, formatted_text)

/-- what `emit_formatted_file` prints for one file (the file name it interpolates is left out) -/
inductive Out (α : Type) where
  | nothing
  /-- stdout.rs:27-30: `"{filename}:\n\n"` when `header`, then the formatted text -/
  | formatted (header : Bool) (text : List Char)
  /-- `writeln!(output, "{filename}")`: files.rs:32 and diff.rs:31 under `-l` -/
  | fileName
  /-- diff.rs:33-37 `print_diff(mismatch, …)` (written to the terminal, not to `output`) -/
  | hunks (ms : List (Mismatch α))
  /-- diff.rs:43 "Incorrect newline style in {filename}" -/
  | newlineStyle
  /-- modified_lines.rs:21 `Display` of `ModifiedLines::from(mismatch)` -/
  | modified (cs : List (Chunk α))
  /-- json.rs:46-48: `none` = nothing pushed on `mismatched_files` for this file -/
  | json (blocks : Option (List (JsonBlock α)))
  /-- checkstyle.rs:32 `output_checkstyle_file`: the (line, message) of each `<error>` -/
  | checkstyle (errs : List (Nat × α))
  deriving Repr, DecidableEq

structure Result (α : Type) where
  ops     : List FsOp    -- file-system calls made, in order (when none of them fails)
  out     : Out α
  hasDiff : Bool         -- `EmitterResult::has_diff`
  deriving Repr, DecidableEq

/-- `emit_formatted_file` of each emitter.
files.rs:17-37, files_with_backup.rs:8-31, stdout.rs:17-33, diff.rs:15-48, json.rs:33-52,
modified_lines.rs:8-24, checkstyle.rs:21-34.  `EmitterResult::default()` is `has_diff: false`. -/
def emit {α : Type} (kind : EmitterKind) (cfg : Cfg) (i : Input α) : Result α :=
  let ops := RF.Backup.guardedOps kind i.orig i.fmt
  match kind with
  | .files =>
    ⟨ops, if i.orig ≠ i.fmt ∧ cfg.printNames = true then .fileName else .nothing, false⟩
  | .filesWithBackup => ⟨ops, .nothing, false⟩
  | .stdout => ⟨ops, .formatted (!cfg.quiet) i.fmt, false⟩
  | .diff =>
    let ms := makeDiff i.script 3
    if !ms.isEmpty then ⟨ops, if cfg.printNames then .fileName else .hunks ms, true⟩
    else if i.orig ≠ i.fmt then ⟨ops, .newlineStyle, true⟩
    else ⟨ops, .nothing, false⟩
  | .json =>
    let ms := makeDiff i.script 0
    ⟨ops, .json (if !ms.isEmpty then some (ms.map jsonBlock) else none), !ms.isEmpty⟩
  | .modifiedLines =>
    let ms := makeDiff i.script 0
    ⟨ops, .modified (ofMismatches ms), !ms.isEmpty⟩
  | .checkstyle =>
    ⟨ops, .checkstyle (checkstyleErrors (makeDiff i.script 0)), false⟩

/-- what a reader of the json report takes from one block to patch the original -/
def blockChunk {α : Type} (b : JsonBlock α) : Chunk α :=
  ⟨b.originalBeginLine, b.original.length, b.expected⟩

/-! ### Session flags and exit codes -/

/-- `ReportedErrors` (formatting.rs:372-394), fields in declaration order -/
structure Flags where
  operational  : Bool
  parsing      : Bool
  formatting   : Bool
  macroFailure : Bool
  checkErrors  : Bool
  diff         : Bool
  unformatted  : Bool
  deriving Repr, DecidableEq

/-- `has_diff` after a session over `files`: formatting.rs:288-300 `handle_formatted_file` calls
`report.add_diff()` when the emitter's result says so, and `ReportedErrors::add` ors it in. -/
def sessionDiff {α : Type} (kind : EmitterKind) (cfg : Cfg) (files : List (Input α)) : Bool :=
  files.any fun i => (emit kind cfg i).hasDiff

/-- bin/main.rs:387-395, the end of `format` (files given as paths) -/
def exitFormat (check : Bool) (f : Flags) : Nat :=
  if f.operational || f.parsing || ((f.diff || f.checkErrors) && check) then 1 else 0

/-- bin/main.rs:322-328, the end of `format_string` (standard input): `has_diff` is not read -/
def exitFormatString (f : Flags) : Nat :=
  if f.operational || f.parsing then 1 else 0

/-! ### Command line → emit mode, make_backup -/

/-- bin/main.rs:804-813 `emit_mode_from_emit_str` -/
def emitModeFromStr (s : List Char) : Option EmitMode :=
  if s = ['f', 'i', 'l', 'e', 's'] then some .files
  else if s = ['s', 't', 'd', 'o', 'u', 't'] then some .stdout
  else if s = ['c', 'o', 'v', 'e', 'r', 'a', 'g', 'e'] then some .coverage
  else if s = ['c', 'h', 'e', 'c', 'k', 's', 't', 'y', 'l', 'e'] then some .checkstyle
  else if s = ['j', 's', 'o', 'n'] then some .json
  else none

/-- the options of `GetOptsOptions` that matter here, after `from_matches` -/
structure Cli where
  check        : Bool
  emit         : Option EmitMode   -- `--emit`
  backup       : Bool              -- `--backup`
  printNames   : Bool              -- `-l` / `--files-with-diff`
  quiet        : Bool
  verbose      : Bool
  inlineEmit   : Option EmitMode   -- `--config emit_mode=…` (any variant; not validated)
  inlineBackup : Option Bool       -- `--config make_backup=…`
  deriving Repr, DecidableEq

inductive CliError where
  | verboseAndQuiet   -- "Can't use both `--verbose` and `--quiet`"
  | emitAndCheck      -- "Invalid to use `--emit` and `--check`"
  | badEmit           -- "Invalid value for `--emit`"
  | unstableEmit      -- stable channel, mode outside STABLE_EMIT_MODES
  | stdinBadEmit      -- "Emit mode {0} not supported with standard output."
  deriving Repr, DecidableEq

/-- bin/main.rs:615-622: `--emit` is refused together with `--check`, then parsed -/
def parseEmit (check : Bool) : Option (List Char) → Except CliError (Option EmitMode)
  | none => .ok none
  | some s =>
    if check then .error CliError.emitAndCheck else
    match emitModeFromStr s with
    | none => .error CliError.badEmit
    | some m => .ok (some m)

/-- bin/main.rs:541 `STABLE_EMIT_MODES.contains` -/
def stableEmit : EmitMode → Bool
  | .files | .stdout | .diff => true
  | _ => false

/-- bin/main.rs:553-672 `from_matches`, the checks that concern these options, in source order.
`nightly` is `is_nightly()`. -/
def fromMatches (nightly check : Bool) (emitStr : Option (List Char)) (backup printNames quiet
    verbose : Bool) (inlineEmit : Option EmitMode) (inlineBackup : Option Bool) :
    Except CliError Cli :=
  if verbose && quiet then .error CliError.verboseAndQuiet else
  match parseEmit check emitStr with
  | .error e => .error e
  | .ok emit =>
    if !nightly && (match emit with
      | some m => !stableEmit m
      | none => false) then .error CliError.unstableEmit
    else .ok ⟨check, emit, backup, printNames, quiet, verbose, inlineEmit, inlineBackup⟩

/-- what the configuration file (or the defaults: `Files`, `false`, `false`) says -/
structure Base where
  emitMode   : EmitMode
  makeBackup : Bool
  printNames : Bool
  deriving Repr, DecidableEq

def Base.default : Base := ⟨.files, false, false⟩

/-- the resolved settings -/
structure Resolved where
  emitMode   : EmitMode
  makeBackup : Bool
  cfg        : Cfg
  deriving Repr, DecidableEq

/-- bin/main.rs:688-741 `CliOptions::apply_to` on top of the file configuration (this is what
`load_config` returns; `format` uses it as is).  The `--config key=val` pairs are applied LAST
(:738-740), after `--check` has set `Diff`. -/
def applyTo (c : Cli) (b : Base) : Resolved :=
  let mode0 := if c.check then EmitMode.diff else match c.emit with
    | some m => m
    | none => b.emitMode
  let mode := match c.inlineEmit with
    | some m => m
    | none => mode0
  let bk0 := if c.backup then true else b.makeBackup
  let bk := match c.inlineBackup with
    | some v => v
    | none => bk0
  ⟨mode, bk, ⟨c.printNames || b.printNames, c.quiet⟩⟩

/-- bin/main.rs:278-305, the head of `format_string`: on standard input the mode is forced once
more after `load_config`, and verbosity is set to `Quiet`. -/
def stdinResolve (c : Cli) (b : Base) : Except CliError Resolved :=
  let r := applyTo c b
  if c.check then .ok { r with emitMode := .diff, cfg := { r.cfg with quiet := true } } else
  match c.emit with
  | none => .ok { r with emitMode := .stdout, cfg := { r.cfg with quiet := true } }
  | some .stdout => .ok { r with emitMode := .stdout, cfg := { r.cfg with quiet := true } }
  | some .checkstyle => .ok { r with emitMode := .checkstyle, cfg := { r.cfg with quiet := true } }
  | some .json => .ok { r with emitMode := .json, cfg := { r.cfg with quiet := true } }
  | some _ => .error .stdinBadEmit

/-- the emitter a resolved configuration gets (lib.rs:521-537, generated) -/
def Resolved.kind (r : Resolved) : EmitterKind := createEmitter r.emitMode r.makeBackup

/-- exit status of the process for a formatting run.  `main` turns an `Err` of `execute` into 1. -/
def exitCode (stdin : Bool) (c : Cli) (b : Base) (f : Flags) : Nat :=
  if stdin then
    match stdinResolve c b with
    | .error _ => 1
    | .ok _ => exitFormatString f
  else exitFormat c.check f

end RF.Emit
