#!/usr/bin/env python3
"""apply_sweeps.py <suffix>: writes corpus/c02_dirty.txt, corpus/c02_boundary_dirty.txt, corpus/c09_fixdiff.txt and the F22-* / C09-FIXDIFF
known findings from the sweep outputs .build/sweep/{c02_sweep,boundary_sweep02_,c09_sweep,c09_sweepb}<suffix>.txt"""
import json,re,sys
from collections import Counter
V='/verif/'; sfx=sys.argv[1]
def lines(p): return [l.rstrip('\n') for l in open(p) if l.strip()]
new=sorted(set(lines(V+f'.build/sweep/c02_sweep{sfx}.txt')))
head=[l for l in open(V+'corpus/c02_dirty.txt') if l.startswith('#')]
open(V+'corpus/c02_dirty.txt','w').write(''.join(head)+'\n'.join(new)+'\n')
def fam(i):
    v=i.rsplit('|',1)[1]
    if v.startswith('relayout'): return 'relayout'
    if v=='base': return 'base'
    if '=' in v: return v.split('=')[0]
    return 'width'
fc=Counter(fam(i) for i in new); ex={}
for i in new: ex.setdefault(fam(i),i)
b=lines(V+f'.build/sweep/boundary_sweep02_{sfx.lstrip("_")}.txt') if sfx else lines(V+'.build/sweep/boundary_sweep02.txt')
ni=sorted(set(x.split('\t')[0] for x in b if 'not-idempotent' in x or 'second-pass' in x))
to=sorted(set(re.sub(r'\|bw.*','|*',x.split('\t')[0]) for x in b if 'timeout' in x))
oldstar=[x.strip() for x in open(V+'corpus/c02_boundary_dirty.txt') if x.strip().endswith('|*')]
headb=[l for l in open(V+'corpus/c02_boundary_dirty.txt') if l.startswith('#')]
open(V+'corpus/c02_boundary_dirty.txt','w').write(''.join(headb)+'\n'.join(ni+sorted(set(to+oldstar)))+'\n')
a=sorted(set(lines(V+f'.build/sweep/c09_sweep{sfx}.txt'))); bb=sorted(set(lines(V+f'.build/sweep/c09_sweepb{sfx}.txt')))
headf=[l for l in open(V+'corpus/c09_fixdiff.txt') if l.startswith('#')]
open(V+'corpus/c09_fixdiff.txt','w').write(''.join(headf)+'\n'.join(a+bb)+'\n')
out=[]; seen=set()
for l in lines(V+'known_findings.jsonl'):
    if l.startswith('#'): out.append(l); continue
    d=json.loads(l)
    pr=d.get('match',{}).get('probe','') if isinstance(d.get('match'),dict) else ''
    if d['property']=='C02' and pr.startswith('c02-dirty:'):
        f=pr.split(':',1)[1]
        if f=='boundary':
            d['what']=f"rustfmt is not idempotent on {len(ni)} enumerated (fixture item, max_width) elements of the boundary-width universe (listed in corpus/c02_boundary_dirty.txt, {len(set(x.split('|')[0] for x in ni))} items, e.g. {ni[0]}): a second run changes the first run's output"
        elif f in fc:
            d['what']=f"rustfmt is not idempotent on {fc[f]} enumerated fixture variants of family `{f}` (listed in corpus/c02_dirty.txt, e.g. {ex[f]}): a second run changes the first run's output"
        else:
            print('family gone:',f); continue
        seen.add(f); out.append(json.dumps(d)); continue
    if d['property']=='C09' and d['id']=='C09-FIXDIFF':
        d['what']=re.sub(r"^on \d+ enumerated", f"on {len(a)+len(bb)} enumerated", d['what'])
    out.append(json.dumps(d) if not l.startswith('{"property"') or d['property'] in ('C02','C09') else l)
for f in fc:
    if f not in seen and f!='boundary':
        out.append(json.dumps({"property":"C02","id":f"F22-{f}","status":"known","match":{"probe":f"c02-dirty:{f}"},"what":f"rustfmt is not idempotent on {fc[f]} enumerated fixture variants of family `{f}` (listed in corpus/c02_dirty.txt, e.g. {ex[f]}): a second run changes the first run's output"})); print('family new:',f)
open(V+'known_findings.jsonl','w').write('\n'.join(out)+'\n')
print('c02 dirty',len(new),dict(fc)); print('boundary',len(ni),to); print('c09 fixdiff',len(a),len(bb))
