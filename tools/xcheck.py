import os, random, subprocess, sys, shutil, tempfile, hashlib
sys.path.insert(0, os.path.dirname(__file__))
from enc import *
KINDS={}
BIN='/repo/target/debug/rustfmt'
ENV=dict(os.environ, LD_LIBRARY_PATH=os.path.expanduser('~/.rustup/toolchains/nightly-2025-04-02-x86_64-unknown-linux-gnu/lib'))
MODEL='/tmp/lw/c13/.lake/build/bin/rfmodel'
NAMES=['a','b','c']
def rand_attrs(r, inline, pathp=None):
    pathp=PATHP if pathp is None else pathp
    at=[]
    if r.random()<0.08: at.append('s')
    if r.random()<pathp:
        at.append('p'+r.choice(['a.rs','b.rs','x/a.rs','../a.rs','b/mod.rs','a','b','../b','c.rs','lib.rs','./a.rs','a/../b.rs'] if not inline else ['a','b','x','../a','a/b','.']))
    if not inline and r.random()<CFGP:
        at.append('c'+r.choice(['a.rs','b.rs','c.rs','b/mod.rs','zz.rs']))
        if r.random()<0.3: at.append('c'+r.choice(['a.rs','b.rs','c.rs']))
    return at
def rand_decls(r, depth, n=None):
    ds=[]
    for _ in range(n if n is not None else r.choice([0,1,1,2,2,3])):
        if depth>0 and r.random()<0.3:
            ds.append(('i', r.choice(NAMES), rand_attrs(r,True), rand_decls(r, depth-1)))
        else:
            ds.append(('e', r.choice(NAMES), rand_attrs(r,False)))
    return ds
def rand_tree(r):
    tree={}
    def norm(p):
        return os.path.normpath(p) if p else p
    def gen_items(ds, d, rel, depth):
        for dcl in ds:
            pa=[a[1:] for a in dcl[2] if a[0]=='p']
            if dcl[0]=='e':
                if r.random()<0.12: continue
                if pa:
                    t=norm(os.path.join(d,pa[0]))
                    if t.startswith('..') or not t.endswith('.rs'): continue
                    if t not in tree: gen_file(t, os.path.dirname(t), None, depth-1)
                else:
                    base=os.path.join(d, rel) if rel and r.random()<0.85 else d
                    c1=os.path.join(base,dcl[1]+'.rs'); c2=os.path.join(base,dcl[1],'mod.rs')
                    if c1 in tree or c2 in tree: continue
                    if r.random()<0.6: gen_file(c1, base, dcl[1], depth-1)
                    else: gen_file(c2, os.path.join(base,dcl[1]), None, depth-1)
            else:
                if pa:
                    nd=norm(os.path.join(d,pa[0]))
                    if nd.startswith('..'): continue
                    gen_items(dcl[3], '' if nd=='.' else nd, None, depth)
                else:
                    nd=os.path.join(d, rel, dcl[1]) if rel else os.path.join(d,dcl[1])
                    if rel and r.random()<0.3: nd=os.path.join(d,rel)   # the probe quirk location
                    gen_items(dcl[3], nd, None, depth)
    def gen_file(path, d, rel, depth):
        ds=rand_decls(r, 2, None if depth>0 else 0)
        tree[path]=(r.random()<0.06, r.random()<0.06, ds)
        gen_items(ds, d, rel, depth)
    rootname=r.choice(['lib.rs','lib.rs','a.rs','mod.rs'])
    if r.random()<0.4:
        tree[rootname[:-3]]='d'
    ds=rand_decls(r,2,r.choice([1,2,3]))
    tree[rootname]=(r.random()<0.05, r.random()<0.05, ds)
    gen_items(ds,'', rootname[:-3] if rootname[:-3] in tree else None, 3)
    # decoys
    for _ in range(r.choice([0,1,2,3])):
        dd=r.choice(['']+[os.path.dirname(k) for k in tree if tree[k]!='d'])
        k=os.path.join(dd, r.choice(NAMES)+r.choice(['.rs','/mod.rs']))
        if k not in tree and not any(x==k or x.startswith(k+'/') or k.startswith(x+'/') and tree[x]!='d' for x in tree): tree[k]=(False,False,rand_decls(r,1,r.choice([0,1])))
    # drop dir entries that have children
    for k in [k for k in tree if tree[k]=='d']:
        if any(x.startswith(k+'/') for x in tree): del tree[k]
    return tree, rootname
def render_attr(a):
    if a=='s': return '#[rustfmt::skip]'
    if a[0]=='p': return f'#[path = "{a[1:]}"]'
    return f'#[cfg_attr(any(), path = "{a[1:]}")]'
def render(ds, ind=''):
    out=''
    for d in ds:
        for a in d[2]: out+=ind+render_attr(a)+'\n'
        if d[0]=='e': out+=f'{ind}mod {d[1]};\n'
        else: out+=f'{ind}mod {d[1]} {{\n'+render(d[3],ind+'    ')+f'{ind}}}\n'
    return out
def content(v):
    s=''
    if v[0]: s+='#![rustfmt::skip]\n'
    if v[1]: s+='// @generated\n'
    s+='fn  zz( ){}\n'+render(v[2])
    return s
def run_case(seed, verbose=False):
    r=random.Random(seed)
    tree,rootname=rand_tree(r)
    sc=r.random()<0.1; fg=r.random()<0.5
    base=os.path.realpath(tempfile.mkdtemp(prefix='c13_'))
    try:
        for k,v in tree.items():
            full=os.path.join(base,k)
            if v=='d': os.makedirs(full,exist_ok=True); continue
            os.makedirs(os.path.dirname(full),exist_ok=True)
            open(full,'w').write(content(v))
        before={k:open(os.path.join(base,k)).read() for k,v in tree.items() if v!='d'}
        ign=r.random()<0.25
        ignlist=[base+'/'+k for k in tree if tree[k]!='d' and os.path.basename(k)=='b.rs'] if ign else []
        if ign: open(os.path.join(base,'rustfmt.toml'),'w').write('ignore = ["b.rs"]\n')
        cfg=f'skip_children={"true" if sc else "false"},format_generated_files={"true" if fg else "false"}'
        p=subprocess.run([BIN,'--config',cfg,os.path.join(base,rootname)],cwd=base,env=ENV,capture_output=True,text=True)
        changed=sorted(os.path.join(base,k) for k in before if open(os.path.join(base,k)).read()!=before[k])
        err=None
        if 'failed to resolve mod' in p.stderr:
            if 'does not exist' in p.stderr: err='err:missing'
            elif 'found at both' in p.stderr: err='err:ambiguous'
            elif 'cannot parse' in p.stderr: err='err:parse'
            else: err='err:?'
        real = err if err else ' '.join(changed) if changed else '_'
        atree={base+'/'+k:v for k,v in tree.items()}
        req=f"mod.resolve {fs(atree)} {path(base+'/'+rootname)} {int(sc)} {int(fg)} {paths(ignlist)}\n"
        req2=f"mod.spec {fs(atree)} {path(base+'/'+rootname)} {int(sc)} {int(fg)} {paths(ignlist)}\n"
        req3=f"mod.hyps {fs(atree)} {path(base+'/'+rootname)}\n"
        out=subprocess.run([MODEL],input=req+req2+req3,capture_output=True,text=True).stdout.split('\n')
        m=dec(out[0]); sp=dec(out[1]); hy=out[2]
        if hy=='plain:1,closed:1,unique:1,probe:1':
            KINDS['hyps']=KINDS.get('hyps',0)+1
            if sp not in ('err:circular','err:fuel') and m!='err:fuel' and (m.startswith('err')!=sp.startswith('err') or (not m.startswith('err') and set(m.split())!=set(sp.split()))):
                print('THEOREM VIOLATION?', seed, m, sp); KINDS['viol']=KINDS.get('viol',0)+1
        elif m!=sp and not m.startswith('err') :
            KINDS['dev:'+hy]=KINDS.get('dev:'+hy,0)+1
        m2=m.replace('err:notfound','err:missing').replace('err:pathattr','err:missing')
        nm=lambda x: x if x.startswith('err') or x=='_' else os.path.normpath(x)
        ok = (set(map(nm,m2.split()))==set(map(nm,real.split()))) or (ign and '..' in m2)
        if verbose or not ok:
            print('seed',seed,'OK' if ok else 'MISMATCH', 'root',rootname,'sc',sc,'fg',fg)
            if not ok:
                for k,v in tree.items(): print('  ',k, v if v=='d' else (v[0],v[1],render(v[2]).replace('\n',' | ')))
                print('  real :',real.replace(base+'/',''));print('  model:',m.replace(base+'/',''));print('  stderr:',p.stderr[:300].replace(base+'/',''))
        KINDS[m if m.startswith('err') else 'ok']=KINDS.get(m if m.startswith('err') else 'ok',0)+1
        return ok, (m!=sp), m.startswith('err')
    finally:
        shutil.rmtree(base)
if __name__=='__main__':
    a,b=int(sys.argv[1]),int(sys.argv[2])
    CFGP=float(sys.argv[3]) if len(sys.argv)>3 else 0.0
    PATHP=float(sys.argv[4]) if len(sys.argv)>4 else 0.12
    DENS=float(sys.argv[5]) if len(sys.argv)>5 else 0.75
    bad=0;diffspec=0;errs=0
    for s in range(a,b):
        ok,ds,e=run_case(s)
        bad+=not ok; diffspec+=ds; errs+=e
    print(KINDS)
    print('cases',b-a,'mismatches',bad,'model!=spec',diffspec,'errors',errs)
