//! Shape/Indent correspondence (placeholder until the hooks for shape.rs are integrated).
use crate::util::*;

pub fn shape_cases(_o: &mut Outcome, _rng: &mut Rng, _thorough: bool) {}
