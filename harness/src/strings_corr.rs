//! `src/string.rs` (`rewrite_string`, `break_string`, `detect_url`, …) and the comment wrapping that
//! uses it against the Lean model `RF/Model/StringFmt.lean` (driver `RF/Driver/StringFmt.lean`),
//! through `verif_hooks::strings`.  Carries the string-literal part of C01 ("literals keep their value",
//! "re-indentation after string line-continuations"), the word-preservation part of C03 and the
//! re-breaking part of C02.
//!
//! Three kinds of comparison:
//!  * `corr`   model vs code: `str.class`, `str.break`, `str.url`, `str.valid`, `str.trimlf`, `str.rewrite`, and
//!             `str.strip` (the hand-written matcher vs the `regex` crate run on the literal read out of string.rs);
//!  * `oracle` the Lean specifications judge what the real code returned: `str.valeq` (the body of the rewritten
//!             literal denotes the same string), `cmt.payloadeq` / `cmt.refines` (nothing but white space and
//!             decoration differs; words are only ever cut after a punctuation character);
//!  * `assume` `strValue` against `rustc_lexer::unescape` (the specification describes Rust, not rustfmt).
//!
//! Domain of the correspondence: texts in which every grapheme cluster is one `char` on which the model's
//! character classes agree with the code's (checked per run; all of U+0000..U+00FF is an obligation).  Texts
//! outside (wide characters, combining marks, CR LF) are run too and only counted (`outside-domain:*`).
//!
//! Universe: exhaustive over short strings on {a b ␠ ⏎ \ " , . : / h t p} × widths 1..12 × formats × indents,
//! the same behind prefixes that reach `MIN_STRING`, sequences of tokens (URLs, continuations, escapes, runs of
//! blanks), seeded random long texts, and the string literals and comments of the repo's fixtures.
//! END-TO-END: `fn main() { let s = "<text>"; }` and `// <text>` through the real formatter with
//! format_strings / wrap_comments / normalize_comments at widths 20..100, judged by the same Lean oracles.
use std::collections::HashMap;
use std::path::Path;

use rustfmt_nightly::verif_hooks::strings as hs;
use rustfmt_nightly::Config;
use serde_json::json;

use crate::pool::{self, Job, Status};
use crate::util::*;

const ALPHA: [char; 13] = ['a', 'b', ' ', '\n', '\\', '"', ',', '.', ':', '/', 'h', 't', 'p'];

fn guard<T>(f: impl FnOnce() -> T) -> Option<T> {
    std::panic::catch_unwind(std::panic::AssertUnwindSafe(f)).ok()
}

fn b(x: bool) -> &'static str {
    if x { "1" } else { "0" }
}

/// A `StringFormat` and the call's other arguments as plain data.
#[derive(Clone, Debug)]
pub struct F {
    pub opener: String,
    pub closer: String,
    pub ls: String,
    pub le: String,
    /// width, block_indent, alignment, offset
    pub shape: (usize, usize, usize, usize),
    pub trim: bool,
    pub mw: usize,
    pub ht: bool,
    pub ts: usize,
    pub nm: usize,
}

impl F {
    /// `StringFormat::new(shape, config)` with `newline_max_chars = shape.width - 2` (expr.rs:1342-1346)
    pub fn lit(w: usize, block: usize, align: usize, mw: usize) -> F {
        F { opener: "\"".into(), closer: "\"".into(), ls: " ".into(), le: "\\".into(), shape: (w, block, align, align), trim: false, mw, ht: false, ts: 4, nm: w.saturating_sub(2) }
    }
    /// the format `CommentRewrite::new` builds (comment.rs:628-636) with `newline_max_chars = max_width`
    pub fn cmt(ls: &str, w: usize, block: usize, align: usize, mw: usize) -> F {
        F { opener: "".into(), closer: "".into(), ls: ls.into(), le: "".into(), shape: (w, block, align, align), trim: true, mw, ht: false, ts: 4, nm: w }
    }
    fn plain(&self) -> hs::PlainFormat {
        hs::PlainFormat { opener: self.opener.clone(), closer: self.closer.clone(), line_start: self.ls.clone(), line_end: self.le.clone(), shape: self.shape, trim_end: self.trim }
    }
    fn request(&self, orig: &str) -> String {
        format!(
            "str.rewrite {} {} {} {} {} {} {} {} {} {} {} {} {} {}",
            enc_str(&self.opener), enc_str(&self.closer), enc_str(&self.ls), enc_str(&self.le), self.shape.0, self.shape.1, self.shape.2, self.shape.3,
            b(self.trim), self.mw, b(self.ht), self.ts, self.nm, enc_str(orig)
        )
    }
}

fn mk_cfg(mw: usize, ht: bool, ts: usize) -> Config {
    let mut c = Config::default();
    c.set().max_width(mw);
    c.set().hard_tabs(ht);
    c.set().tab_spaces(ts);
    c
}

/// What the real `rewrite_string` returns, in the model's answer encoding.
fn rewrite_real(f: &F, orig: &str, c: &Config) -> (String, Option<String>) {
    match guard(|| hs::rewrite_string(orig, &f.plain(), c, f.nm)) {
        None => ("panic".into(), None),
        Some(None) => ("none".into(), None),
        Some(Some(s)) => (format!("S:{}", enc_str(&s)), Some(s)),
    }
}

fn break_real(mw: usize, trim: bool, le: &str, input: &str) -> String {
    match guard(|| hs::break_string(mw, trim, le, input)) {
        None => "panic".into(),
        Some((k, line, len)) => format!("{}:{}:{}", k, enc_str(&line), len),
    }
}

/// Which characters the model classifies like the code (`str.class`), asked once per run.
pub struct Domain {
    ok: HashMap<char, bool>,
}

impl Domain {
    pub fn contains(&self, text: &str) -> bool {
        hs::graphemes(text).iter().all(|g| {
            let mut it = g.chars();
            match (it.next(), it.next()) {
                (Some(c), None) => *self.ok.get(&c).unwrap_or(&false),
                _ => false,
            }
        })
    }
}

fn class_real(c: char) -> String {
    let s = c.to_string();
    let (ws, nl, p, x, w) = hs::grapheme_class(&s);
    format!("{}{}{}{}:{}", b(ws), b(nl), b(p), b(x), w)
}

/// Characters used by the generators beyond Latin-1 (narrow letters inside the domain, and wide / combining /
/// punctuation characters that fall outside it).
const EXOTIC: &[char] = &['λ', 'ж', 'ß', 'é', 'ı', 'ñ', '\u{2003}', '\u{3000}', '中', '文', '\u{0301}', '…', '—', '‘', '\u{200B}', '😀', '\u{FE0F}', 'ａ', '。', '、'];

fn domain(o: &mut Outcome) -> Domain {
    let mut chars: Vec<char> = (0u32..0x250).filter_map(char::from_u32).collect();
    chars.extend_from_slice(EXOTIC);
    let reqs: Vec<String> = chars.iter().map(|c| format!("str.class {}", enc_str(&c.to_string()))).collect();
    let answers = run_model(&reqs, 1);
    let mut ok = HashMap::new();
    for ((c, req), a) in chars.iter().zip(reqs.iter()).zip(answers.iter()) {
        let real = class_real(*c);
        let agree = &real == a;
        ok.insert(*c, agree);
        if (*c as u32) < 0x100 {
            // obligation: the model's classes are exact on Latin-1
            o.push("corr", "str.class", req.clone(), real, "latin-1".into(), true);
        } else {
            o.count(if agree { "class:beyond-latin1:agree" } else { "class:beyond-latin1:differ" });
        }
    }
    Domain { ok }
}

/// all strings over `alpha` of length 0..=n
fn all_strings(alpha: &[&str], n: usize) -> Vec<String> {
    let mut res = vec![String::new()];
    let mut layer = vec![String::new()];
    for _ in 0..n {
        let mut next = Vec::with_capacity(layer.len() * alpha.len());
        for s in &layer {
            for a in alpha {
                let mut t = s.clone();
                t.push_str(a);
                next.push(t);
            }
        }
        res.extend(next.iter().cloned());
        layer = next;
    }
    res
}

fn alpha_strs() -> Vec<String> {
    ALPHA.iter().map(|c| c.to_string()).collect()
}

const TOKENS: &[&str] = &[
    "a", "bb", " ", "   ", "\n", "\\", "\\\\", "\\\"", "\\n", ",", ". ", "::", ":", "/", "http://x", "ftp://", "https://a.b/c", "file://", "aaaaaaaaaa", "\\\n   ", "\\\n", "\t", "b,b.b",
];

/// One work item of the rewrite families.
#[derive(Clone)]
struct Item {
    f: F,
    text: String,
    desc: &'static str,
}

/// The formats of the exhaustive families at one width.
fn formats_at(w: usize, thorough: bool) -> Vec<F> {
    let mut v = vec![];
    let indents: &[(usize, usize)] = if thorough { &[(0, 0), (4, 0), (4, 3)] } else { &[(0, 0), (4, 3)] };
    for &(blk, al) in indents {
        // a literal in a page exactly as wide as its shape, and in a wide page
        v.push(F::lit(w, blk, al, blk + al + w));
        v.push(F::lit(w, blk, al, 100));
        v.push(F::cmt("// ", w, blk, al, 100));
        v.push(F::cmt(" * ", w, blk, al, blk + al + w + 3));
        if thorough {
            // the unit tests' format with a visible line end, and a bare-line format (ItemizedBlock's)
            let mut t = F::cmt("// ", w, blk, al, 100);
            t.le = "@".into();
            v.push(t);
            v.push(F::cmt("", w, blk, al, 100));
            let mut u = F::cmt(" * ", w, blk, al, 100);
            u.opener = "/* ".into();
            u.closer = " */".into();
            v.push(u);
        }
    }
    v
}

fn random_text(rng: &mut Rng, exotic: bool) -> String {
    let n = rng.range(1, 14);
    let mut s = String::new();
    for _ in 0..n {
        match rng.below(if exotic { 16 } else { 14 }) {
            0 | 1 | 2 => {
                for _ in 0..rng.range(1, 12) {
                    s.push(*rng.pick(&['a', 'b', 'c', 'x', 'Z', '0', '_', '-', '(', ')', 'é', 'λ']));
                }
            }
            3 | 4 => s.push(' '),
            5 => {
                for _ in 0..rng.range(2, 9) {
                    s.push(' ');
                }
            }
            6 => s.push_str(*rng.pick(&["\\\\", "\\\"", "\\n", "\\t", "\\x41", "\\u{e9}", "\\'", "\\0"])),
            7 => {
                s.push_str("\\\n");
                for _ in 0..rng.below(10) {
                    s.push(' ');
                }
            }
            8 => {
                s.push_str(*rng.pick(&["http://", "https://", "ftp://", "file://"]));
                for _ in 0..rng.range(0, 20) {
                    s.push(*rng.pick(&['a', 'b', '.', '/', '?', '=', '-', '_']));
                }
            }
            9 => s.push_str(*rng.pick(&[",", ".", ", ", ". ", ":", "::", ";", "!", "?", "a::b::c", "/"])),
            10 => s.push('\n'),
            11 => s.push_str(*rng.pick(&["\t", "\r", "\u{a0}", " \n", "\n ", "\n\n"])),
            12 => s.push_str(*rng.pick(&["\"", "'", "#", "%", "&", "*", "@", "¿", "·"])),
            13 => s.push_str(*rng.pick(&["aaaaaaaaaa", "bbbbbbbbbbb ", "cccccccccccc,", "dddddddddd\\"])),
            14 => s.push_str(*rng.pick(&["中文", "e\u{0301}", "\r\n", "😀", "…", "—", "ａ", "\u{3000}", "\u{2003}"])),
            _ => s.push_str(*rng.pick(&["λόγος", "жук", "ñandú"])),
        }
    }
    s
}

fn random_format(rng: &mut Rng) -> F {
    let w = match rng.below(4) {
        0 => rng.range(1, 12),
        1 => rng.range(10, 30),
        _ => rng.range(12, 60),
    };
    let (blk, al) = *rng.pick(&[(0usize, 0usize), (4, 0), (8, 0), (4, 3), (0, 7), (12, 1)]);
    let mw = match rng.below(3) {
        0 => blk + al + w,
        1 => blk + al + w + rng.below(6),
        _ => 100,
    };
    let mut f = match rng.below(6) {
        0 | 1 | 2 => F::lit(w, blk, al, mw),
        3 => F::cmt("// ", w, blk, al, mw),
        4 => F::cmt(*rng.pick(&[" * ", "/// ", "//! ", "", "   ", "> "]), w, blk, al, mw),
        _ => {
            let mut t = F::cmt("// ", w, blk, al, mw);
            t.le = rng.pick(&["@", "\\", ""]).to_string();
            t.trim = rng.chance(1, 2);
            t
        }
    };
    if rng.chance(1, 8) {
        f.ht = true;
        f.ts = *rng.pick(&[1usize, 2, 4, 8]);
    }
    if rng.chance(1, 5) {
        f.nm = rng.range(0, w + 4);
    }
    if rng.chance(1, 10) {
        f.shape.3 = rng.below(6);
    }
    f
}

/// String literals (the text between the quotes) and comments of a source text, by `rustc_lexer`.
pub fn literals_and_comments(src: &str) -> (Vec<String>, Vec<String>) {
    use rustc_lexer::{LiteralKind as LK, TokenKind as K};
    let (mut lits, mut cmts) = (vec![], vec![]);
    let mut pos = 0usize;
    for t in rustc_lexer::tokenize(src) {
        let len = t.len as usize;
        let text = &src[pos..pos + len];
        pos += len;
        match t.kind {
            K::Literal { kind: LK::Str { terminated: true }, suffix_start } => {
                let lit = &text[..suffix_start as usize];
                if lit.len() >= 2 && suffix_start as usize == text.len() {
                    lits.push(lit[1..lit.len() - 1].to_string());
                }
            }
            K::LineComment { .. } | K::BlockComment { terminated: true, .. } => cmts.push(text.to_string()),
            _ => {}
        }
    }
    (lits, cmts)
}

/// The value `rustc` gives a string body (`None` when it has an invalid escape).
fn rustc_value(body: &str) -> Option<String> {
    use rustc_lexer::unescape::{unescape_unicode, Mode};
    let mut out = String::new();
    let mut bad = false;
    unescape_unicode(body, Mode::Str, &mut |_, r| match r {
        Ok(c) => out.push(c),
        Err(e) => {
            if e.is_fatal() {
                bad = true
            }
        }
    });
    if bad { None } else { Some(out) }
}

/// The Lean specifications on what the real `rewrite_string` returned.
fn judge_rewrite(o: &mut Outcome, f: &F, orig: &str, s: &str, desc: &'static str, parts: Parts) {
    if f.opener == "\"" && f.closer == "\"" && f.le == "\\" && !f.trim {
        if !parts.lit {
            return;
        }
        if let Some(body) = s.strip_prefix('"').and_then(|x| x.strip_suffix('"')) {
            if orig.contains('\r') {
                // `strip_value_counterexample`: backslash-CR is a continuation for the regex only
                o.count("oracle-skipped:literal-with-CR");
            } else {
                o.push("oracle", "str.valeq", format!("str.valeq {} {}", enc_str(orig), enc_str(body)), "ok".into(), desc.into(), s.contains('\n'));
            }
        } else {
            o.direct_failures.push(json!({"sig": "strings:literal-lost-its-quotes", "orig": orig, "out": s}));
        }
    } else if f.trim && f.opener.is_empty() && f.closer.is_empty() && f.le.is_empty() {
        if !parts.cmt {
            return;
        }
        if orig.contains("\\\n") || orig.contains("\\\r") {
            // the continuation regex is applied to comment text too (known finding STR-CMT-CR, probed end to end)
            o.count("oracle-skipped:comment-with-backslash-newline");
        } else {
            o.push("oracle", "cmt.payloadeq", format!("cmt.payloadeq {} {} {}", enc_str(&f.ls), enc_str(orig), enc_str(s)), "ok".into(), desc.into(), s.contains('\n'));
            o.push("oracle", "cmt.refines", format!("cmt.refines {} {} {}", enc_str(&f.ls), enc_str(orig), enc_str(s)), "ok".into(), desc.into(), s.contains('\n'));
            if no_punct(orig) && (f.ls.is_empty() || f.ls.ends_with(' ')) {
                // `rewriteString_words_partial`: without punctuation the word list itself is preserved
                o.push("oracle", "cmt.wordseq", format!("cmt.wordseq {} {} {}", enc_str(&f.ls), enc_str(orig), enc_str(s)), "ok".into(), desc.into(), s.contains('\n'));
            }
        }
    }
}

/// no punctuation character (general category Po below U+0100) other than a backslash
fn no_punct(s: &str) -> bool {
    !s.chars().any(|c| "!\"#%&'*,./:;?@¡§¶·¿".contains(c))
}

/// Which parts of the universe to run: the integrator calls `cases_c01` / `cases_c02` / `cases_c03`,
/// `rfverif strings` runs everything.
#[derive(Clone, Copy)]
pub struct Parts {
    /// model-vs-code correspondence of everything in string.rs
    pub corr: bool,
    /// string literals: value oracle in-process and end to end (C01)
    pub lit: bool,
    /// comments: payload / word-refinement oracles in-process and end to end, probes (C03)
    pub cmt: bool,
    /// re-breaking at the same width is the identity, in-process and end to end (C02)
    pub idem: bool,
}

/// Reads the regex literal of `rewrite_string` out of string.rs (as the `regex` crate sees it).
fn regex_literal() -> Option<String> {
    let src = std::fs::read_to_string(repo_dir().join("src/string.rs")).ok()?;
    let at = src.find("let strip_line_breaks_re = Regex::new(r\"")?;
    let rest = &src[at + "let strip_line_breaks_re = Regex::new(r\"".len()..];
    let end = rest.find("\").unwrap();")?;
    Some(rest[..end].to_string())
}

pub fn cases_parts(o: &mut Outcome, rng: &mut Rng, thorough: bool, parts: Parts) {
    let dom = domain(o);
    let alpha = alpha_strs();
    let alpha_refs: Vec<&str> = alpha.iter().map(|s| s.as_str()).collect();

    // ---- break_string / detect_url / is_valid_linebreak: exhaustive short strings
    let short = all_strings(&alpha_refs, if thorough { 4 } else { 3 });
    let prefixes = ["aaaaaaaaa", "aaaaaaaaaa", "aaaa aaaaaa", "aaaaaaaaaa ", "aaaaaaaaaa,", "aa http://a"];
    let suffixes = ["", "bb b"];
    let mid = all_strings(&alpha_refs, 2);
    let mut padded: Vec<String> = vec![];
    for p in prefixes {
        for m in &mid {
            for s in suffixes {
                padded.push(format!("{}{}{}", p, m, s));
            }
        }
    }
    if thorough {
        // three free graphemes behind the two prefixes that end exactly at MIN_STRING
        for p in ["aaaaaaaaaa", "aaaa aaaaaa"] {
            for m in all_strings(&alpha_refs, 3).iter().filter(|m| m.chars().count() == 3) {
                padded.push(format!("{}{}", p, m));
            }
        }
    }
    let toks = all_strings(TOKENS, if thorough { 3 } else { 2 });
    let mut break_inputs: Vec<(&str, &'static str, std::ops::RangeInclusive<usize>)> = vec![];
    for s in short.iter().filter(|_| parts.corr) {
        break_inputs.push((s, "exhaustive-short", 1..=(if thorough { 6 } else { 5 })));
    }
    for s in padded.iter().filter(|_| parts.corr) {
        break_inputs.push((s, "exhaustive-padded", 9..=16));
    }
    for s in toks.iter().filter(|_| parts.corr) {
        break_inputs.push((s, "token-sequences", 1..=1));
    }
    for (s, desc, widths) in break_inputs {
        let n = hs::graphemes(s).len();
        let ws: Vec<usize> = if desc == "token-sequences" { vec![1, 4, 9, 11, 12, 15, 22] } else { widths.collect() };
        for w in ws {
            for trim in [false, true] {
                for le in ["", "\\"] {
                    let ans = break_real(w, trim, le, s);
                    o.count(&format!("break:{}", &ans[..1]));
                    o.push("corr", "str.break", format!("str.break {} {} {} {}", w, b(trim), enc_str(le), enc_str(s)), ans, desc.into(), n > w);
                }
            }
        }
        if desc != "exhaustive-short" || n <= 3 {
            for idx in 0..n.min(24) {
                let u = match guard(|| hs::detect_url(s, idx)) {
                    None => "panic".to_string(),
                    Some(None) => "none".to_string(),
                    Some(Some(k)) => k.to_string(),
                };
                o.count(&format!("url:{}", if u == "none" || u == "panic" { u.as_str() } else { "some" }));
                o.push("corr", "str.url", format!("str.url {} {}", enc_str(s), idx), u, desc.into(), true);
                o.push("corr", "str.valid", format!("str.valid {} {}", enc_str(s), idx), b(hs::is_valid_linebreak(s, idx)).into(), desc.into(), true);
            }
        }
        for trim in [false, true] {
            o.push("corr", "str.trimlf", format!("str.trimlf {} {}", b(trim), enc_str(s)), enc_str(&hs::trim_end_but_line_feed(trim, s)), desc.into(), trim);
        }
    }

    // ---- the regex: the `regex` crate on the literal of string.rs vs the hand-written matcher
    match regex_literal().and_then(|l| regex::Regex::new(&l).ok()).filter(|_| parts.corr) {
        None if !parts.corr => {}
        None => o.direct_failures.push(json!({"sig": "strings:regex-literal-not-found", "what": "src/string.rs no longer has `let strip_line_breaks_re = Regex::new(r\"…\").unwrap();`"})),
        Some(re) => {
            let strip_alpha = ["a", " ", "\n", "\r", "\\", "\t", "\u{b}", "\u{c}", "\""];
            for s in all_strings(&strip_alpha, if thorough { 6 } else { 5 }) {
                o.push("corr", "str.strip", format!("str.strip {}", enc_str(&s)), enc_str(&re.replace_all(&s, "$1")), "exhaustive".into(), s.contains('\\'));
            }
            for s in toks.iter().chain(padded.iter()) {
                o.push("corr", "str.strip", format!("str.strip {}", enc_str(s)), enc_str(&re.replace_all(s, "$1")), "tokens".into(), s.contains('\\'));
            }
        }
    }

    // ---- rewrite_string
    let mut items: Vec<Item> = vec![];
    for w in 1..=12usize {
        for f in formats_at(w, thorough) {
            for s in short.iter().filter(|s| s.chars().count() <= 3) {
                items.push(Item { f: f.clone(), text: s.clone(), desc: "exhaustive-short" });
            }
        }
    }
    if thorough {
        // four graphemes: at the two widths where a text of four can be broken in the middle
        for w in [3usize, 4] {
            for f in [F::lit(w, 0, 0, w), F::lit(w, 0, 0, 100), F::cmt("// ", w, 0, 0, 100), F::cmt(" * ", w, 0, 0, w + 3)] {
                for s in short.iter().filter(|s| s.chars().count() == 4) {
                    items.push(Item { f: f.clone(), text: s.clone(), desc: "exhaustive-short" });
                }
            }
        }
    }
    for w in [9usize, 11, 12, 13, 14, 16] {
        for f in formats_at(w, false) {
            for s in &padded {
                if thorough || s.len() % 3 == w % 3 {
                    items.push(Item { f: f.clone(), text: s.clone(), desc: "exhaustive-padded" });
                }
            }
        }
    }
    for w in [3usize, 9, 12, 15, 24] {
        for f in formats_at(w, false) {
            for s in &toks {
                let n = s.len();
                if (thorough && (n + w) % 3 == 0) || (!thorough && n % 2 == w % 2) {
                    items.push(Item { f: f.clone(), text: s.clone(), desc: "token-sequences" });
                }
            }
        }
    }
    for _ in 0..(if thorough { 60000 } else { 6000 }) {
        let f = random_format(rng);
        let text = random_text(rng, false);
        items.push(Item { f, text, desc: "random" });
    }
    for _ in 0..(if thorough { 6000 } else { 800 }) {
        let f = random_format(rng);
        let text = random_text(rng, true);
        items.push(Item { f, text, desc: "random-exotic" });
    }
    // fixtures: string literals and the text of comments
    let progs = crate::corpus::programs(&["tests/source", "tests/target", "src"]);
    let mut lits: Vec<String> = vec![];
    let mut cmts: Vec<String> = vec![];
    for p in &progs {
        let (l, c) = literals_and_comments(&p.src);
        lits.extend(l);
        cmts.extend(c);
    }
    lits.sort();
    lits.dedup();
    cmts.sort();
    cmts.dedup();
    o.count_n("fixtures:string-literals", lits.len() as u64);
    o.count_n("fixtures:comments", cmts.len() as u64);
    let lit_widths: &[usize] = if thorough { &[8, 12, 16, 20, 27, 40, 60, 80] } else { &[12, 27, 60] };
    for (i, l) in lits.iter().enumerate() {
        if l.len() < 6 || (!thorough && i % 3 != (rng.0 % 3) as usize) {
            continue;
        }
        for &w in lit_widths {
            items.push(Item { f: F::lit(w, 4, 9, 4 + 9 + w), text: l.clone(), desc: "fixture-literal" });
        }
    }
    for (i, c) in cmts.iter().enumerate() {
        if !thorough && i % 6 != (rng.0 % 6) as usize {
            continue;
        }
        // the text of a line comment / each line of a block comment as `rewrite_comment_inner` hands it over
        for line in c.lines() {
            let t = line.trim_start().trim_start_matches('/').trim_start_matches('*').trim_start_matches('!').trim();
            if t.len() < 10 {
                continue;
            }
            for &w in lit_widths {
                items.push(Item { f: F::cmt("// ", w, 4, 0, 100), text: t.to_string(), desc: "fixture-comment-line" });
            }
        }
    }
    if !parts.corr {
        // only the formats whose oracles are asked for
        items.retain(|it| if it.f.trim { parts.cmt } else { parts.lit || parts.idem });
    }
    o.count_n("rewrite:items", items.len() as u64);
    // the real code, in parallel (every call compiles the regex); results in order
    let reals: Vec<(String, Option<String>)> = par_map(&items, |it| {
        let c = mk_cfg(it.f.mw, it.f.ht, it.f.ts);
        rewrite_real(&it.f, &it.text, &c)
    });
    let mut outside: Vec<(String, String)> = vec![];
    let mut rebreak: Vec<(Item, String)> = vec![];
    for (it, (answer, real)) in items.iter().zip(reals.into_iter()) {
        let req = it.f.request(&it.text);
        match answer.as_str() {
            "none" => o.count("rewrite:none"),
            "panic" => o.count("rewrite:panic"),
            _ => o.count(if real.as_ref().map(|s| s.contains('\n')).unwrap_or(false) { "rewrite:some:broken" } else { "rewrite:some:one-line" }),
        }
        if !parts.corr {
        } else if dom.contains(&it.text) {
            o.push("corr", "str.rewrite", req, answer, it.desc.into(), true);
        } else {
            outside.push((req, answer));
        }
        if let Some(s) = real {
            if dom.contains(&it.text) {
                if s.len() == it.f.opener.len() + it.text.len() + it.f.closer.len() && s[it.f.opener.len()..].starts_with(it.text.as_str()) {
                    // returned as it came: nothing to judge
                    o.count("oracle-skipped:unchanged");
                } else {
                    judge_rewrite(o, &it.f, &it.text, &s, it.desc, parts);
                }
                if parts.idem && !it.f.trim && it.f.opener == "\"" && it.f.closer == "\"" && it.f.le == "\\" && s.contains('\n') {
                    rebreak.push((it.clone(), s));
                }
            }
        }
    }
    // ---- C02 in-process: re-breaking the body of a re-broken literal in the same format is the identity
    let again: Vec<(String, Option<String>)> = par_map(&rebreak, |(it, s)| {
        let c = mk_cfg(it.f.mw, it.f.ht, it.f.ts);
        rewrite_real(&it.f, &s[1..s.len() - 1], &c)
    });
    for ((it, s), (_, second)) in rebreak.iter().zip(again.into_iter()) {
        o.direct_evals += 1;
        o.direct_distinct += 1;
        if !idem_hypothesis(&it.text) {
            let same = second.as_deref() == Some(s.as_str());
            o.count(if same { "rebreak:outside-hypothesis:same" } else { "rebreak:outside-hypothesis:differs" });
            if !same && o.notes.len() < 8 {
                o.notes.push(format!("rebreak outside the hypothesis differs: orig={:?} {:?} first={:?} second={:?}", it.text, it.f.shape, s, second));
            }
        } else if second.as_deref() != Some(s.as_str()) {
            o.direct_failures.push(json!({"sig": "strings:rebreak-not-identity", "orig": it.text, "format": format!("{:?}", it.f), "first": s, "second": second}));
        } else {
            o.count("rebreak:same");
        }
    }
    // outside the domain of the model: measured, not an obligation
    let reqs: Vec<String> = outside.iter().map(|x| x.0.clone()).collect();
    let answers = run_model(&reqs, jobs());
    for ((_, real), model) in outside.iter().zip(answers.iter()) {
        o.count(if real == model { "outside-domain:rewrite:agree" } else { "outside-domain:rewrite:differ" });
    }

    // ---- the specification `strValue` against rustc's own unescaping
    let bodies: Vec<&String> = toks.iter().chain(lits.iter()).filter(|s| parts.lit && rustc_value(s).is_some()).collect();
    let reqs: Vec<String> = bodies.iter().map(|s| format!("str.value {}", enc_str(s))).collect();
    let answers = run_model(&reqs, jobs());
    for (body, a) in bodies.iter().zip(answers.iter()) {
        o.direct_evals += 1;
        let v1 = rustc_value(body);
        let v2 = dec_str(a).and_then(|t| rustc_value(&t));
        if v1 != v2 {
            o.direct_failures.push(json!({"sig": "strings:strValue-disagrees-with-rustc", "body": body, "strValue": a, "rustc": v1, "rustc-of-strValue": v2}));
        }
        if body.contains("\\\n") {
            o.direct_distinct += 1;
        }
    }

    // ---- the comment wrapping that calls rewrite_string (model RF/Model/CommentFmt.lean)
    if parts.cmt {
        comment_model_cases(o, rng, thorough, &dom, &cmts);
    }

    // ---- end to end through the real formatter
    e2e(o, rng, thorough, parts, &lits);
}

/// The hypothesis of `rewriteString_idem_partial`: the text holds no backslash followed by a line break
/// (nothing for the continuation regex to strip on the first pass that it would strip differently on the second).
fn idem_hypothesis(orig: &str) -> bool {
    !orig.contains("\\\n") && !orig.contains("\\\r")
}

// ------------------------------------------------------------------------------------------------
// the comment wrapping of comment.rs (`rewrite_comment_inner`, plain-line path) against RF/Model/CommentFmt.lean

#[derive(Clone)]
struct CmtItem {
    orig: String,
    block_style: bool,
    shape: (usize, usize, usize, usize),
    wrap: bool,
    normalize: bool,
    mw: usize,
    is_doc: bool,
    desc: &'static str,
}

/// Does `rewrite_comment_inner` meet a code block or (under wrap_comments) an itemized block on this comment?
/// The lines are prepared with the real helpers, as comment.rs:917-940 does.
fn comment_outside(it: &CmtItem) -> bool {
    let orig = it.orig.as_str();
    let line_breaks = orig.trim_end().matches('\n').count();
    for (i, line) in orig.lines().enumerate() {
        let mut l = hs::trim_end_unless_two_whitespaces(line.trim_start(), it.is_doc);
        if i == line_breaks && l.ends_with("*/") && !l.starts_with("//") {
            l = l[..l.len() - 2].trim_end().to_string();
        }
        let l = match guard(|| hs::left_trim_comment_line(&l, orig)) {
            Some((l, _)) => l,
            // the real loop panics when it reaches this line
            None => return false,
        };
        let l = if orig.starts_with("/*") && line_breaks == 0 { l.trim_start().to_string() } else { l };
        if l.starts_with("```") || (it.wrap && hs::marker_length(l.trim_start()).is_some()) {
            return true;
        }
    }
    false
}

fn random_comment(rng: &mut Rng) -> (String, bool) {
    let line = |rng: &mut Rng| -> String {
        match rng.below(14) {
            0 => String::new(),
            1 => "see http://example.com/a/b for this and that and more words here".to_string(),
            2 => "| a | b | table row with enough text to be long |".to_string(),
            3 => "# Header of a doc comment that is long enough to wrap around".to_string(),
            4 => "[link]: some::path::to::an::item and a few more words afterwards".to_string(),
            5 => format!("{}  ", random_comment_text(rng, false).0),
            6 => format!("   {}", random_comment_text(rng, false).0),
            _ => random_comment_text(rng, false).0,
        }
    };
    let n = rng.range(1, 4);
    match rng.below(9) {
        0 | 1 | 2 => {
            let sp = *rng.pick(&[" ", " ", "", "  "]);
            ((0..n).map(|_| format!("//{}{}", sp, line(rng))).collect::<Vec<_>>().join("\n"), false)
        }
        3 => ((0..n).map(|_| format!("/// {}", line(rng))).collect::<Vec<_>>().join("\n"), true),
        4 => ((0..n).map(|_| format!("//! {}", line(rng))).collect::<Vec<_>>().join("\n"), true),
        5 => (format!("/* {} */", line(rng).replace("*/", "").trim()), false),
        6 => {
            let mut s = String::from("/*\n");
            for _ in 0..n {
                s.push_str(&format!("{}{}\n", *rng.pick(&[" * ", " * ", "   ", " *", ""]), line(rng)));
            }
            s.push_str(" */");
            (s, false)
        }
        7 => {
            let mut s = String::from(*rng.pick(&["/** ", "/*! ", "/**\n * ", "/*!\n * "]));
            s.push_str(&line(rng));
            for _ in 1..n {
                s.push_str(&format!("\n * {}", line(rng)));
            }
            s.push_str(*rng.pick(&[" */", "\n */"]));
            (s, true)
        }
        _ => ((0..n).map(|_| format!("//@ {}", line(rng))).collect::<Vec<_>>().join("\n"), false),
    }
}

fn comment_model_cases(o: &mut Outcome, rng: &mut Rng, thorough: bool, dom: &Domain, fixture_cmts: &[String]) {
    let mut items: Vec<CmtItem> = vec![];
    let shape_of = |rng: &mut Rng| -> ((usize, usize, usize, usize), usize) {
        let w = rng.range(8, 80);
        let (blk, al) = *rng.pick(&[(0usize, 0usize), (4, 0), (8, 0), (4, 3)]);
        let mw = if rng.chance(1, 2) { 100 } else { blk + al + w };
        ((w, blk, al, al), mw)
    };
    for _ in 0..(if thorough { 40000 } else { 5000 }) {
        let (orig, doc) = random_comment(rng);
        let (shape, mw) = shape_of(rng);
        items.push(CmtItem { orig, block_style: rng.chance(1, 8), shape, wrap: rng.chance(3, 4), normalize: rng.chance(1, 3), mw, is_doc: doc && rng.chance(3, 4), desc: "comment-random" });
    }
    for (i, c) in fixture_cmts.iter().enumerate() {
        if !thorough && i % 3 != (rng.0 % 3) as usize {
            continue;
        }
        let (shape, mw) = shape_of(rng);
        let doc = c.starts_with("///") || c.starts_with("//!") || c.starts_with("/**") || c.starts_with("/*!");
        items.push(CmtItem { orig: c.clone(), block_style: false, shape, wrap: true, normalize: rng.chance(1, 2), mw, is_doc: doc, desc: "comment-fixture" });
    }
    let reals: Vec<String> = par_map(&items, |it| {
        let mut c = mk_cfg(it.mw, false, 4);
        c.set().wrap_comments(it.wrap);
        c.set().normalize_comments(it.normalize);
        match guard(|| hs::rewrite_comment_inner(&it.orig, it.block_style, it.shape, &c, it.is_doc)) {
            None => "panic".to_string(),
            Some(None) => "none".to_string(),
            Some(Some(s)) => format!("S:{}", enc_str(&s)),
        }
    });
    for (it, real) in items.iter().zip(reals.into_iter()) {
        if !dom.contains(&it.orig) {
            o.count("outside-domain:comment");
            continue;
        }
        let outside = comment_outside(it);
        o.count(if outside { "comment:itemized-or-code-block (not modelled)" } else if real.starts_with("S:") && real.contains("0a") { "comment:modelled:multi-line" } else { "comment:modelled:one-line" });
        let req = format!(
            "cmt.inner {} {} {} {} {} {} {} {} {} 0 4 {}",
            enc_str(&it.orig), b(it.block_style), it.shape.0, it.shape.1, it.shape.2, it.shape.3, b(it.wrap), b(it.normalize), it.mw, b(it.is_doc)
        );
        o.push("corr", "cmt.inner", req, if outside { "outside".into() } else { real }, it.desc.into(), !outside);
        // the helpers, on the comment and on each of its lines
        let (k, op) = hs::comment_style(&it.orig, it.normalize);
        o.push("corr", "cmt.style", format!("cmt.style {} {}", enc_str(&it.orig), b(it.normalize)), if k == 'c' { format!("c:{}", enc_str(&op)) } else { k.to_string() }, it.desc.into(), true);
        for line in it.orig.lines().take(4) {
            let t = line.trim_start();
            let (l, w) = match guard(|| hs::left_trim_comment_line(t, &it.orig)) {
                Some(x) => x,
                None => {
                    o.push("corr", "cmt.lefttrim", format!("cmt.lefttrim {} {}", enc_str(t), enc_str(&it.orig)), "panic".into(), it.desc.into(), true);
                    continue;
                }
            };
            o.push("corr", "cmt.lefttrim", format!("cmt.lefttrim {} {}", enc_str(t), enc_str(&it.orig)), format!("{}:{}", enc_str(&l), b(w)), it.desc.into(), true);
            o.push("corr", "cmt.hasurl", format!("cmt.hasurl {}", enc_str(&l)), b(hs::has_url(&l)).into(), it.desc.into(), true);
            o.push("corr", "cmt.table", format!("cmt.table {}", enc_str(&l)), b(hs::is_table_item(&l)).into(), it.desc.into(), true);
            o.push("corr", "cmt.trim2", format!("cmt.trim2 {} {}", enc_str(line), b(it.is_doc)), enc_str(&hs::trim_end_unless_two_whitespaces(line, it.is_doc)), it.desc.into(), true);
            o.push("corr", "cmt.marker", format!("cmt.marker {}", enc_str(l.trim_start())), hs::marker_length(l.trim_start()).map(|n| n.to_string()).unwrap_or_else(|| "none".into()), it.desc.into(), true);
        }
    }
}

// ------------------------------------------------------------------------------------------------
// end to end

/// A body of a string literal that rustc accepts: words, blanks, escapes, line continuations, URLs,
/// punctuation, raw line feeds.
fn random_body(rng: &mut Rng) -> String {
    loop {
        let n = rng.range(2, 16);
        let mut s = String::new();
        for _ in 0..n {
            match rng.below(16) {
                0 | 1 | 2 | 3 => {
                    for _ in 0..rng.range(1, 12) {
                        s.push(*rng.pick(&['a', 'b', 'c', 'x', 'Z', '0', '_', '-', '(', ')', 'é', 'λ', '{', '}']));
                    }
                }
                4 | 5 | 6 => s.push(' '),
                7 => {
                    for _ in 0..rng.range(2, 12) {
                        s.push(' ');
                    }
                }
                8 => s.push_str(*rng.pick(&["\\\\", "\\\"", "\\n", "\\t", "\\x41", "\\u{e9}", "\\'", "\\0", "\\r"])),
                9 => {
                    s.push_str("\\\n");
                    for _ in 0..rng.below(12) {
                        s.push(' ');
                    }
                }
                10 => {
                    s.push_str(*rng.pick(&["http://", "https://", "ftp://", "file://"]));
                    for _ in 0..rng.range(0, 24) {
                        s.push(*rng.pick(&['a', 'b', '.', '/', '?', '=', '-', '_']));
                    }
                }
                11 | 12 => s.push_str(*rng.pick(&[",", ".", ", ", ". ", ":", "::", ";", "!", "?", "a::b::c", "/", "'", "#", "%", "&", "*", "@"])),
                13 => s.push('\n'),
                14 => s.push_str(*rng.pick(&["\t", "\n    ", "\n\n", " \n"])),
                _ => s.push_str(*rng.pick(&["aaaaaaaaaaaaaaaaaaaaaa", "bbbbbbbbbbb ", "cccccccccccc,", "dddddddddd\\\\", "{}", "{:?}"])),
            }
        }
        let src = format!("\"{}\"", s);
        let toks: Vec<_> = rustc_lexer::tokenize(&src).collect();
        let one_literal = toks.len() == 1 && matches!(toks[0].kind, rustc_lexer::TokenKind::Literal { kind: rustc_lexer::LiteralKind::Str { terminated: true }, .. });
        if one_literal && rustc_value(&s).is_some() {
            return s;
        }
    }
}

fn lit_program(body: &str, ctx: usize) -> String {
    match ctx % 5 {
        0 => format!("fn main() {{\n    let s = \"{}\";\n}}\n", body),
        1 => format!("fn main() {{\n    foo(a, \"{}\", 1);\n}}\n", body),
        2 => format!("const S: &str = \"{}\";\n", body),
        3 => format!("mod m {{\n    fn f() {{\n        if a {{\n            x.push_str(\"{}\");\n        }}\n    }}\n}}\n", body),
        _ => format!("fn main() {{\n    let v = [\"{}\", b];\n}}\n", body),
    }
}

/// One line of comment text: words, punctuation, URLs, runs of blanks; never white space at either end, no
/// Markdown marker at the start, no comment delimiter inside.
fn random_comment_text(rng: &mut Rng, markers: bool) -> (String, &'static str) {
    let mut s = String::new();
    let marker: &'static str = if markers { *rng.pick(&["* ", "- ", "+ ", "> ", "1. ", "12) ", "> > "]) } else { "" };
    let n = rng.range(2, 18);
    for i in 0..n {
        match rng.below(12) {
            0 | 1 | 2 | 3 | 4 => {
                for _ in 0..rng.range(1, 14) {
                    s.push(*rng.pick(&['a', 'b', 'c', 'x', 'Z', '0', '_', '(', ')', 'é', 'λ', 'e', 't']));
                }
            }
            5 => s.push_str(*rng.pick(&[",", ".", ";", ":", "::", "!", "?", "a::b::c", "'", "\"", "#", "%", "&", "@", "\\", "\\n"])),
            6 => {
                s.push_str(*rng.pick(&["http://", "https://", "ftp://", "file://"]));
                for _ in 0..rng.range(0, 24) {
                    s.push(*rng.pick(&['a', 'b', '.', '/', '?', '=', '_']));
                }
            }
            7 => s.push_str(*rng.pick(&["aaaaaaaaaaaaaaaaaaaaaaaaaaaaaaaaaaaaaaaaaaaaaaa", "bbbbbbbbbbbbbbbbbbbbbbbbb,ccccccccccccccccccccccccc", "dddddddddd.eeeeeeeeeeeeeeeeeeeeeeeeeeeeeeeee"])),
            8 => s.push_str("  "),
            _ => {}
        }
        if i + 1 < n {
            s.push(' ');
        }
    }
    let t = s.trim().replace("*/", "* /").replace("/*", "/ *");
    let t = t.trim_start_matches(|c: char| "/!*-+>#|`[".contains(c) || c.is_ascii_digit() || c.is_whitespace()).to_string();
    let t = if t.trim().is_empty() { "word".to_string() } else { t.trim_end().to_string() };
    (format!("{}{}", marker, t), marker)
}

/// (program, line_start of the wrapped comment)
fn cmt_program(text: &str, kind: usize, ctx: usize) -> (String, &'static str) {
    match kind % 4 {
        // line comment
        0 => (
            match ctx % 5 {
                0 => format!("fn main() {{\n    // {}\n    let x = 1;\n}}\n", text),
                1 => format!("// {}\nfn main() {{}}\n", text),
                2 => format!("mod m {{\n    fn f() {{\n        if a {{\n            // {}\n            g();\n        }}\n    }}\n}}\n", text),
                3 => format!("struct S {{\n    // {}\n    a: u32,\n}}\n", text),
                _ => format!("fn main() {{\n    g();\n    // {}\n}}\n", text),
            },
            "// ",
        ),
        // outer doc comment
        1 => (
            match ctx % 3 {
                0 => format!("/// {}\nfn f() {{}}\n", text),
                1 => format!("mod m {{\n    /// {}\n    fn f() {{}}\n}}\n", text),
                _ => format!("struct S {{\n    /// {}\n    a: u32,\n}}\n", text),
            },
            "/// ",
        ),
        // inner doc comment
        2 => (format!("//! {}\n\nfn f() {{}}\n", text), "//! "),
        // block comment
        _ => (
            match ctx % 2 {
                0 => format!("fn main() {{\n    /* {} */\n    let x = 1;\n}}\n", text),
                _ => format!("/* {} */\nfn f() {{}}\n", text),
            },
            " * ",
        ),
    }
}

fn comment_block(src: &str) -> String {
    literals_and_comments(src).1.join("\n")
}

struct LitCase {
    body: String,
    width: usize,
    src: String,
    desc: &'static str,
}

struct CmtCase {
    text: String,
    /// line start of the continuation lines: the style's, plus the block-quote markers of an item
    ls: String,
    itemized: bool,
    src: String,
    cfg: Vec<(String, String)>,
    desc: &'static str,
}

fn kv(k: &str, v: impl ToString) -> (String, String) {
    (k.to_string(), v.to_string())
}

fn e2e(o: &mut Outcome, rng: &mut Rng, thorough: bool, parts: Parts, fixture_lits: &[String]) {
    let timeout = std::time::Duration::from_secs(20);
    // ---- string literals under format_strings
    if parts.lit || parts.idem {
        let mut cases: Vec<LitCase> = vec![];
        for i in 0..(if thorough { 9000 } else { 900 }) {
            let body = random_body(rng);
            let width = rng.range(20, 100);
            cases.push(LitCase { src: lit_program(&body, i), body, width, desc: "e2e-literal-random" });
        }
        // fixture literals that rustc accepts, at a rotating width
        for (i, l) in fixture_lits.iter().enumerate() {
            if l.len() < 20 || rustc_value(l).is_none() || (!thorough && i % 4 != (rng.0 % 4) as usize) {
                continue;
            }
            let width = 20 + (i * 7 + (rng.0 % 81) as usize) % 81;
            cases.push(LitCase { src: lit_program(l, i), body: l.clone(), width, desc: "e2e-literal-fixture" });
        }
        // every width 20..=100 on a fixed set of bodies (seed-independent)
        for (i, body) in E2E_BODIES.iter().enumerate() {
            for width in (20..=100).filter(|w| thorough || (w + i) % 4 == 0) {
                cases.push(LitCase { src: lit_program(body, i), body: body.to_string(), width, desc: "e2e-literal-all-widths" });
            }
        }
        let jobs_v: Vec<Job> = cases.iter().map(|c| Job { src: c.src.clone(), cfg: vec![kv("format_strings", "true"), kv("max_width", c.width)], file_lines: None }).collect();
        let res = pool::run_jobs(&jobs_v, jobs(), timeout);
        let mut second: Vec<(usize, Job)> = vec![];
        for (i, (c, r)) in cases.iter().zip(res.iter()).enumerate() {
            match &r.status {
                Status::Ok if r.clean() => {}
                Status::Panic(m) => {
                    o.direct_failures.push(json!({"sig": "strings:e2e-panic", "src": c.src, "max_width": c.width, "panic": m}));
                    continue;
                }
                Status::Timeout => {
                    o.count("e2e:lit:timeout");
                    continue;
                }
                _ => {
                    o.count("e2e:lit:not-clean");
                    continue;
                }
            }
            let out_lits = literals_and_comments(&r.out).0;
            if out_lits.len() != 1 {
                o.direct_failures.push(json!({"sig": "strings:e2e-literal-count", "src": c.src, "max_width": c.width, "out": r.out}));
                continue;
            }
            let changed = out_lits[0] != c.body;
            o.count(if changed { "e2e:lit:re-broken" } else { "e2e:lit:unchanged" });
            if parts.lit {
                o.push("oracle", "str.valeq", format!("str.valeq {} {}", enc_str(&c.body), enc_str(&out_lits[0])), "ok".into(), c.desc.into(), changed);
                // and rustc's own reading of the two literals
                o.direct_evals += 1;
                if rustc_value(&c.body) != rustc_value(&out_lits[0]) {
                    o.direct_failures.push(json!({"sig": "strings:e2e-literal-value-changed", "src": c.src, "max_width": c.width, "out": r.out}));
                }
            }
            if parts.idem && changed {
                second.push((i, Job { src: r.out.clone(), cfg: jobs_v[i].cfg.clone(), file_lines: None }));
            }
        }
        if parts.idem {
            let js: Vec<Job> = second.iter().map(|x| x.1.clone()).collect();
            let res2 = pool::run_jobs(&js, jobs(), timeout);
            for ((i, j), r2) in second.iter().zip(res2.iter()) {
                if r2.status != Status::Ok || !r2.clean() {
                    o.count("e2e:lit:second-pass-not-clean");
                    continue;
                }
                o.direct_evals += 1;
                o.direct_distinct += 1;
                if !idem_hypothesis(&cases[*i].body) {
                    o.count(if r2.out == j.src { "e2e:lit:idem:outside-hypothesis:same" } else { "e2e:lit:idem:outside-hypothesis:differs" });
                    if r2.out != j.src && o.notes.len() < 16 {
                        o.notes.push(format!("e2e literal outside the hypothesis, second pass differs: src={:?} width={} first={:?} second={:?}", cases[*i].src, cases[*i].width, j.src, r2.out));
                    }
                } else if r2.out != j.src {
                    o.direct_failures.push(json!({"sig": "strings:e2e-literal-not-idempotent", "src": cases[*i].src, "max_width": cases[*i].width, "first": j.src, "second": r2.out}));
                } else {
                    o.count("e2e:lit:idem:same");
                }
            }
        }
    }
    // ---- comments under wrap_comments / normalize_comments
    if parts.cmt || parts.idem {
        let mut cases: Vec<CmtCase> = vec![];
        for i in 0..(if thorough { 9000 } else { 900 }) {
            let markers = i % 10 == 9;
            let (text, marker) = random_comment_text(rng, markers);
            let kind = rng.below(4);
            let (src, ls) = cmt_program(&text, kind, rng.below(5));
            let ls = if marker.starts_with('>') { format!("{}{}", ls, marker) } else { ls.to_string() };
            let mut cfg = vec![kv("wrap_comments", "true"), kv("max_width", rng.range(20, 100))];
            // normalize_comments turns block comments into line comments: only for the line styles here
            if kind != 3 && rng.chance(1, 2) {
                cfg.push(kv("normalize_comments", "true"));
            }
            if rng.chance(1, 4) {
                cfg.push(kv("comment_width", rng.range(20, 100)));
            }
            cases.push(CmtCase { text, ls, itemized: markers, src, cfg, desc: if markers { "e2e-comment-itemized" } else { "e2e-comment-random" } });
        }
        for (i, text) in E2E_COMMENTS.iter().enumerate() {
            for width in (20..=100).filter(|w| thorough || (w + i) % 4 == 0) {
                for kind in 0..4 {
                    let (src, ls) = cmt_program(text, kind, i + width);
                    cases.push(CmtCase { text: text.to_string(), ls: ls.to_string(), itemized: false, src, cfg: vec![kv("wrap_comments", "true"), kv("max_width", width)], desc: "e2e-comment-all-widths" });
                }
            }
        }
        let jobs_v: Vec<Job> = cases.iter().map(|c| Job { src: c.src.clone(), cfg: c.cfg.clone(), file_lines: None }).collect();
        let res = pool::run_jobs(&jobs_v, jobs(), timeout);
        let mut second: Vec<(usize, Job)> = vec![];
        for (i, (c, r)) in cases.iter().zip(res.iter()).enumerate() {
            match &r.status {
                Status::Ok if r.clean() => {}
                Status::Panic(m) => {
                    o.direct_failures.push(json!({"sig": "strings:e2e-panic", "src": c.src, "cfg": format!("{:?}", c.cfg), "panic": m}));
                    continue;
                }
                Status::Timeout => {
                    o.count("e2e:cmt:timeout");
                    continue;
                }
                _ => {
                    o.count("e2e:cmt:not-clean");
                    continue;
                }
            }
            let before = comment_block(&c.src);
            let after = comment_block(&r.out);
            let changed = after.contains('\n');
            o.count(if changed { "e2e:cmt:wrapped" } else { "e2e:cmt:one-line" });
            if parts.cmt {
                o.push("oracle", "cmt.payloadeq", format!("cmt.payloadeq {} {} {}", enc_str(&c.ls), enc_str(&before), enc_str(&after)), "ok".into(), c.desc.into(), changed);
                o.push("oracle", "cmt.refines", format!("cmt.refines {} {} {}", enc_str(&c.ls), enc_str(&before), enc_str(&after)), "ok".into(), c.desc.into(), changed);
            }
            if parts.idem && changed {
                second.push((i, Job { src: r.out.clone(), cfg: c.cfg.clone(), file_lines: None }));
            }
            let _ = &c.text;
        }
        if parts.idem {
            let js: Vec<Job> = second.iter().map(|x| x.1.clone()).collect();
            let res2 = pool::run_jobs(&js, jobs(), timeout);
            for ((i, j), r2) in second.iter().zip(res2.iter()) {
                if r2.status != Status::Ok || !r2.clean() {
                    o.count("e2e:cmt:second-pass-not-clean");
                    continue;
                }
                o.direct_evals += 1;
                o.direct_distinct += 1;
                if cases[*i].itemized {
                    // itemized blocks and block quotes re-flow on a second pass (known finding STR-IDEM-ITEM, probed)
                    o.count(if r2.out == j.src { "e2e:cmt:idem:itemized:same" } else { "e2e:cmt:idem:itemized:differs" });
                } else if r2.out != j.src {
                    o.direct_failures.push(json!({"sig": "strings:e2e-comment-not-idempotent", "src": cases[*i].src, "cfg": format!("{:?}", cases[*i].cfg), "first": j.src, "second": r2.out}));
                } else {
                    o.count("e2e:cmt:idem:same");
                }
            }
        }
    }
    if parts.cmt {
        probes(o);
    }
    if parts.lit {
        probes_lit(o);
    }
    if parts.idem {
        probes_idem(o);
    }
}

/// bodies of string literals that are run at every width 20..=100 (seed-independent)
const E2E_BODIES: &[&str] = &[
    "Placerat felis. Mauris porta ante sagittis purus. Neque in sem.      Pellentesque tellus augue.",
    "aaaaaaaaaaaaaaaaaaaaaaaaaaaaa\\nbbbbbbbbbbbbbbbbbbbbbbbbbbbbbbbbbbbbbbbbbbbbbbb",
    "aaaaaaaaaaaaaaaaaaaaaaaaaaaaa\\\\bbbbbbbbbbbbbbbbbbbbbbbbbbbbbbbbbbbbbbbbbbbbbbb\\\"ccccccccccccccccc",
    "C:\\\\Users\\\\someone\\\\AppData\\\\Local\\\\Programs\\\\thing\\\\bin\\\\thing.exe --flag=value",
    "aaaaaaaaaaaa bbbbbbbbbbbbbbbbbbb cccccccccccccccc                              ",
    "line one\\nline two\\nline three\\nline four\\nline five\\nline six\\nline seven\\nline eight",
    "see http://example.com/aaaaaaaaaaaaaaaaaaaaaaaaaaaaaaaaaaaaaaaaaaaaaaaaa for more, or ftp://x.y/z",
    "first line of text that is long enough to be broken\nsecond raw line, also rather long, with words\nthird",
    "already broken \\\n         literal with a continuation \\\n         and another one, long enough to re-break",
    "Venenatis_tellus_vel_tellus. Aliquam aliquam dolor at justo. [TheName](Dont::break::my::type::That)",
    "tab\there and\tthere, a {} placeholder {:?} and a 'quote' and \\'escaped\\' and \\u{e9}\\x41 é λόγος",
];

/// comment texts that are run at every width 20..=100 in every comment style (seed-independent)
const E2E_COMMENTS: &[&str] = &[
    "Placerat felis. Mauris porta ante sagittis purus. Neque in sem. Pellentesque tellus augue.",
    "word another_word yet::another::path and a_very_long_identifier_that_does_not_fit_anywhere at all",
    "Venenatis tellus vel tellus aliquam aliquam dolor at justo venenatis tellus vel tellus aliquam aliquam dolor",
    "a b c d e f g h i j k l m n o p q r s t u v w x y z a b c d e f g h i j k l m n o p q r s t u v w x y z",
    "text with a back\\slash and a \"quote\" and 'single' and trailing punctuation, like this; and this: done.",
];

fn ask(req: String) -> String {
    run_model(&[req], 1).pop().unwrap_or_default()
}

/// C03 probes (enumerated, seed-independent): the inputs known dirty on this tree (`fails` expected).
fn probes(o: &mut Outcome) {
    let fmt = |src: &str, cfg: Vec<(String, String)>| pool::format_here(&Job { src: src.to_string(), cfg, file_lines: None });
    // STR-CMT-CR: the continuation regex of rewrite_string also runs over comment text
    {
        let src = "fn main() {\n    // aaaaaaaaaaaaaaa bbbbbbbbbbbbbbb ccccccccc\\\rdddddddd eeeeeeeeeeeee ffffffffffff\n    let x = 1;\n}\n";
        let r = fmt(src, vec![kv("wrap_comments", "true"), kv("max_width", 40)]);
        let (before, after) = (comment_block(src), comment_block(&r.out));
        let a = ask(format!("cmt.payloadeq {} {} {}", enc_str("// "), enc_str(&before), enc_str(&after)));
        o.probes.push(json!({"id": "STR-CMT-CR", "fails": r.status == Status::Ok && a != "ok", "what": "wrap_comments: a backslash followed by a bare carriage return inside a comment is deleted (the line-continuation regex of rewrite_string is applied to comment text): two words are merged", "detail": {"src": src, "out": r.out, "oracle": a}}));
    }
    // STR-CMT-WORDS: a word is cut after a punctuation character
    {
        let src = "fn main() {\n    // aaaaaaaaaaaaaaaaaaaaaaaaaaaaaaaaaaaa,bbbbbbbbbbbbbbbbbbbbbbbbbbbbbbbbbbbbbbb cc\n    let x = 1;\n}\n";
        let r = fmt(src, vec![kv("wrap_comments", "true"), kv("max_width", 50)]);
        let (before, after) = (comment_block(src), comment_block(&r.out));
        let a = ask(format!("cmt.wordseq {} {} {}", enc_str("// "), enc_str(&before), enc_str(&after)));
        let refines = ask(format!("cmt.refines {} {} {}", enc_str("// "), enc_str(&before), enc_str(&after)));
        o.probes.push(json!({"id": "STR-CMT-WORDS", "fails": r.status == Status::Ok && a != "ok", "what": "wrap_comments: break_string breaks a comment line after a punctuation character inside a word (`aaa,bbb` comes back as `aaa,` and `bbb` on two lines): the word list changes although no character is lost", "detail": {"src": src, "out": r.out, "oracle": a, "refines": refines}}));
    }
}

/// C01 probes: the reproductions of the four value-changing defects of string.rs that were repaired
/// (`fails` must stay false).
fn probes_lit(o: &mut Outcome) {
    let fmt = |src: &str, cfg: Vec<(String, String)>| pool::format_here(&Job { src: src.to_string(), cfg, file_lines: None });
    let fixed: [(&str, &str, usize); 4] = [
        ("STR-FIX-ESCAPE", "aaaaaaaaaaaaaaaaaaaaaaaaaaaaa\\nbbbbbbbbbbbbbbbbbbbbbbbbbbbbbbbbbbbbbbbbbbbbbbb", 60),
        ("STR-FIX-BLANK-TAIL", "aaaaaaaaaaaa bbbbbbbbbbbbbbbbbbb cccccccccccccccc                              ", 60),
        ("STR-FIX-URL-LINEFEED", "see http://e.com/aaaaaaaaaaaaaaaaaaaaaaaaaaaaaaaa\nmore http://x.y", 60),
        ("STR-FIX-VT", "aaaaaaaaaaaaaaa bbbbbbbbbbbbbbb ccccccccc\\\n    \u{b}dddddddd eeeeeeeeeeeee ffffffffffff", 50),
    ];
    for (id, body, width) in fixed {
        let src = lit_program(body, 0);
        let r = fmt(&src, vec![kv("format_strings", "true"), kv("max_width", width)]);
        let out_lits = literals_and_comments(&r.out).0;
        let bad = r.status != Status::Ok || out_lits.len() != 1 || rustc_value(body) != rustc_value(&out_lits[0]);
        o.probes.push(json!({"id": id, "fails": bad, "what": "format_strings changed the value of a string literal (a defect of string.rs repaired by a fix: commit came back)", "detail": {"src": src, "out": r.out}}));
    }
}

/// C02 probes: shapes on which a second pass changes the first one's output.
fn probes_idem(o: &mut Outcome) {
    let fmt = |src: &str, cfg: Vec<(String, String)>| pool::format_here(&Job { src: src.to_string(), cfg, file_lines: None });
    // STR-IDEM-ITEM: a block-quote item with a URL further down: `detect_url` looks at the whole rest of the item
    {
        let src = "mod m {\n    /// > . ftp://b==a_/=. (0at)_Zc(bet       axac e .    file://bb @ ,     )beZ\n    fn f() {}\n}\n";
        let cfg = vec![kv("wrap_comments", "true"), kv("max_width", 38)];
        let r1 = fmt(src, cfg.clone());
        let r2 = fmt(&r1.out, cfg);
        o.probes.push(json!({"id": "STR-IDEM-ITEM", "fails": r1.status == Status::Ok && r2.status == Status::Ok && r1.out != r2.out, "what": "wrap_comments is not idempotent on an itemized block (here a block quote) with a URL further down: `detect_url` answers for the whole rest of the item, so the first pass keeps `. ftp://b==a_/=. (0at)_Zc(bet` on one over-long line and the second pass, which sees shorter items, breaks it", "detail": {"src": src, "first": r1.out, "second": r2.out}}));
    }
    // the two repaired idempotence defects: reproductions, which must stay clean
    for (id, src, cfg) in [
        ("STR-FIX-CONT-CONT", "const S: &str = \"{e00Zb)e(\\\n\\u{e9} }_\\\n       \\\n          e{a{-((\";\n".to_string(), vec![kv("format_strings", "true"), kv("max_width", 43)]),
        ("STR-FIX-EMPTY-LINE", "mod m {\n    /// text with a back\\slash and a \"quote\" and trailing punctuation, like this; and this: done.\n    fn f() {}\n}\n".to_string(), vec![kv("wrap_comments", "true"), kv("max_width", 21)]),
    ] {
        let r1 = fmt(&src, cfg.clone());
        let r2 = fmt(&r1.out, cfg);
        o.probes.push(json!({"id": id, "fails": r1.status != Status::Ok || r2.status != Status::Ok || r1.out != r2.out, "what": "format; format differs from format on the reproduction of a defect of string.rs that a fix: commit repaired", "detail": {"src": src, "first": r1.out, "second": r2.out}}));
    }
    // STR-IDEM-CONT-ESC: a continuation directly followed by an escaped backslash and another continuation
    {
        let body = "aaaaaaaaaaaaaaaaaaaaaaaaa bbbbbbbbbbbbbb\\\n    \\\\\\\n    cccccccccccccccccccccc dddddddddddddd eeeeeeeeeeeee";
        let src = lit_program(body, 2);
        let cfg = vec![kv("format_strings", "true"), kv("max_width", 60)];
        let r1 = fmt(&src, cfg.clone());
        let r2 = fmt(&r1.out, cfg);
        o.probes.push(json!({"id": "STR-IDEM-CONT-ESC", "fails": r1.status == Status::Ok && r2.status == Status::Ok && r1.out != r2.out, "what": "format_strings is not idempotent on a literal in which a line continuation is directly followed by an escaped backslash and another line continuation: the pattern that strips continuations consumes the character in front of a match, so the second continuation is only found on the next pass", "detail": {"src": src, "first": r1.out, "second": r2.out}}));
    }
}

/// Everything (the standalone `rfverif strings`).
pub fn cases(o: &mut Outcome, rng: &mut Rng, thorough: bool) {
    cases_parts(o, rng, thorough, Parts { corr: true, lit: true, cmt: true, idem: true });
}

/// C01: model-vs-code correspondence of string.rs, the value of re-broken string literals in-process and end to end.
pub fn cases_c01(o: &mut Outcome, rng: &mut Rng, thorough: bool) {
    cases_parts(o, rng, thorough, Parts { corr: true, lit: true, cmt: false, idem: false });
}

/// C02: re-breaking at the same width is the identity, in-process and end to end (literals and comments).
pub fn cases_c02(o: &mut Outcome, rng: &mut Rng, thorough: bool) {
    cases_parts(o, rng, thorough, Parts { corr: false, lit: false, cmt: false, idem: true });
}

/// C03: nothing of a wrapped comment is lost (payload, word refinement) in-process and end to end, with the
/// probes STR-CMT-CR and STR-CMT-WORDS.
pub fn cases_c03(o: &mut Outcome, rng: &mut Rng, thorough: bool) {
    cases_parts(o, rng, thorough, Parts { corr: false, lit: false, cmt: true, idem: false });
}

/// `rfverif strings`: the standalone run of this module.
pub fn run(tier: &str, seed: u64, out: &Path) -> i32 {
    let thorough = tier == "thorough";
    let mut o = Outcome::new("STRINGS", tier, seed);
    let mut rng = Rng::new(seed);
    // panics of the real code are answers (`panic`); keep them off the terminal unless asked for
    if std::env::var_os("STRINGS_SHOW_PANICS").is_none() {
        std::panic::set_hook(Box::new(|_| {}));
    }
    // STRINGS_PARTS=c01|c02|c03 runs what the integrator wires into that check
    match std::env::var("STRINGS_PARTS").as_deref() {
        Ok("c01") => cases_c01(&mut o, &mut rng, thorough),
        Ok("c02") => cases_c02(&mut o, &mut rng, thorough),
        Ok("c03") => cases_c03(&mut o, &mut rng, thorough),
        _ => cases(&mut o, &mut rng, thorough),
    }
    // debugging aid: STRINGS_DUMP=<file> writes every failing comparison (the result file keeps three per op)
    if let Ok(path) = std::env::var("STRINGS_DUMP") {
        let reqs: Vec<String> = o.cases.iter().map(|c| c.request.clone()).collect();
        let answers = run_model(&reqs, jobs());
        let mut text = String::new();
        for (c, a) in o.cases.iter().zip(answers.iter()) {
            if a != &c.expect {
                text.push_str(&format!("{}\t{}\t{}\t{}\t{}\n", c.kind, c.desc, c.request, c.expect, a));
            }
        }
        let _ = std::fs::write(path, text);
    }
    o.finish(out, jobs())
}
