//! C11: reordering is a deterministic, order-insensitive permutation.
//!
//! 1. Correspondence of `version_sort`, the pre-2024 identifier order, `UseSegment::cmp`,
//!    `UseTree::cmp`, `remove_alias`, `Vec<UseTree>::sort`, `compare_items` and the grouping loop
//!    of `visit_items_with_reordering` with the Lean model (`RF/Model/Sort.lean`), exhaustively
//!    over a hostile identifier universe; the preorder laws are also checked directly on the
//!    implementation (all pairs, all triples).
//! 2. The Lean oracles (`canonTree`, `allRunsFit`) evaluated on what the code returned: rank
//!    equality is exactly "equal after erasing aliases" (2024: and `r#`, numbers below 2^64).
//! 3. Search on the real formatter: every permutation of every group of reorderable declarations
//!    formats to the same text (modulo the relative order of alias-only twins), the multiset of
//!    elements with attributes and comments is preserved, nothing crosses a group boundary, and
//!    the order is the one the Lean model predicts.
//! 4. Enumerated probes of the inputs known to be dirty on the pinned tree.
use std::cmp::Ordering;
use std::collections::{BTreeSet, HashMap};
use std::path::Path;
use std::time::Duration;

use rustfmt_nightly::verif_hooks::imports as hi;
use rustfmt_nightly::{Edition, StyleEdition};
use serde_json::json;

use crate::pool::{self, Job, Status};
use crate::util::*;

fn ord(o: Ordering) -> &'static str {
    match o {
        Ordering::Less => "lt",
        Ordering::Equal => "eq",
        Ordering::Greater => "gt",
    }
}

fn se_of(v: bool) -> StyleEdition {
    if v { StyleEdition::Edition2024 } else { StyleEdition::Edition2021 }
}

fn vbit(v: bool) -> &'static str {
    if v { "1" } else { "0" }
}

// ------------------------------------------------------------------ identifier universe

const TWO64: &str = "18446744073709551616";
const TWO64M1: &str = "18446744073709551615";

/// Letters of both cases, digits with leading zeros, `_`, `r#`, leading `::` and the empty name,
/// non-ASCII (upper-case, non-ASCII digit, title-case), characters below `0`, 20- and 24-digit runs
/// below and above 2^64.
fn ident_universe() -> Vec<String> {
    let mut u: Vec<String> = [
        "", "a", "b", "A", "B", "ab", "aB", "Ab", "AB", "a_b", "A_B", "_a", "_", "__", "a_", "zed", "Zed", "ZED",
        "a1", "a01", "a001", "a2", "a10", "a1b", "a01b", "a1_2", "a01_2", "a1_02", "x86_64", "x86_064", "x086_64",
        "u8", "u16", "u064", "A1", "A01", "A_1", "_1", "_01", "0", "00", "1", "9a",
        "r#zed", "r#Zed", "r#a1", "r#r#a", "r#", "r", "::a", "::A", "::a1", "::", "::r#a",
        "Ünï", "ünï", "Ü", "É1", "a٣", "a٣b", "A٣", "٣", "A²", "Ü_٣", "ǅ", "ß", "a!b", "a/b", "a b", "größe_1", "é_x", "maß2",
    ]
    .iter()
    .map(|s| s.to_string())
    .collect();
    u.push(format!("a{}", TWO64M1));
    u.push(format!("a{}", TWO64));
    u.push(format!("a{}b", TWO64));
    u.push(format!("a{}a", TWO64));
    u.push(format!("a0000{}", TWO64M1)); // 24 digits, fits
    u.push(format!("a{}", "1".repeat(24)));
    u.push(format!("a{}b", "1".repeat(24)));
    u.push(TWO64.to_string());
    u.push(format!("b7_{}_c", TWO64));
    u
}

const RAND_PIECES: &[&str] = &["a", "b", "A", "B", "z", "_", "0", "1", "2", "9", "00", "10", "r#", "::", "Ü", "٣", "x", "X", TWO64, TWO64M1];

fn random_ident(rng: &mut Rng) -> String {
    let n = rng.range(0, 6);
    (0..n).map(|_| *rng.pick(RAND_PIECES)).collect()
}

/// `allRunsFit` transcribed: every maximal run of ASCII digits has a value below 2^64.
fn all_runs_fit(s: &str) -> bool {
    let mut run = String::new();
    let mut ok = true;
    let mut flush = |run: &mut String| {
        if !run.is_empty() {
            let t = run.trim_start_matches('0');
            if t.len() > 20 || (t.len() == 20 && t > TWO64M1) {
                ok = false;
            }
            run.clear();
        }
    };
    for c in s.chars() {
        if c.is_ascii_digit() {
            run.push(c);
        } else {
            flush(&mut run);
        }
    }
    flush(&mut run);
    ok
}

fn is_upper_snake_case(s: &str) -> bool {
    s.chars().all(|c| c.is_uppercase() || c == '_' || c.is_numeric())
}

// ------------------------------------------------------------------ trees (harness side)

#[derive(Clone, Debug, PartialEq, Eq, PartialOrd, Ord)]
pub(crate) enum Seg {
    Ident(String, Option<String>),
    Slf(Option<String>),
    Super(Option<String>),
    Crate(Option<String>),
    Glob,
    List(Vec<Tree>),
}

#[derive(Clone, Debug, PartialEq, Eq, PartialOrd, Ord)]
pub(crate) struct Tree(pub(crate) Vec<Seg>);

fn enc_alias(a: &Option<String>) -> String {
    match a {
        None => "~".into(),
        Some(s) => enc_str(s),
    }
}

impl Seg {
    pub(crate) fn enc(&self) -> String {
        match self {
            Seg::Ident(n, a) => format!("(i:{}:{})", enc_str(n), enc_alias(a)),
            Seg::Slf(a) => format!("(s:{})", enc_alias(a)),
            Seg::Super(a) => format!("(u:{})", enc_alias(a)),
            Seg::Crate(a) => format!("(c:{})", enc_alias(a)),
            Seg::Glob => "(g)".into(),
            Seg::List(l) => format!("(l{})", l.iter().map(|t| t.enc()).collect::<String>()),
        }
    }
    pub(crate) fn text(&self) -> String {
        let al = |a: &Option<String>| a.as_ref().map(|s| format!(" as {}", s)).unwrap_or_default();
        match self {
            Seg::Ident(n, a) => format!("{}{}", n, al(a)),
            Seg::Slf(a) => format!("self{}", al(a)),
            Seg::Super(a) => format!("super{}", al(a)),
            Seg::Crate(a) => format!("crate{}", al(a)),
            Seg::Glob => "*".into(),
            Seg::List(l) => format!("{{{}}}", l.iter().map(|t| t.text()).collect::<Vec<_>>().join(", ")),
        }
    }
    /// aliases erased, for 2024 `r#` erased, lists kept in order: the rank of the segment
    fn rank(&self, v: bool) -> Seg {
        let nm = |n: &str| if v { n.trim_start_matches("r#").to_string() } else { n.to_string() };
        match self {
            Seg::Ident(n, _) => Seg::Ident(nm(n), None),
            Seg::Slf(_) => Seg::Slf(None),
            Seg::Super(_) => Seg::Super(None),
            Seg::Crate(_) => Seg::Crate(None),
            Seg::Glob => Seg::Glob,
            Seg::List(l) => Seg::List(l.iter().map(|t| t.rank(v)).collect()),
        }
    }
    /// lists sorted recursively (structure of the element whatever the order inside lists)
    fn unordered(&self) -> Seg {
        match self {
            Seg::List(l) => {
                let mut l: Vec<Tree> = l.iter().map(|t| t.unordered()).collect();
                l.sort();
                Seg::List(l)
            }
            s => s.clone(),
        }
    }
    fn names(&self, out: &mut Vec<String>) {
        match self {
            Seg::Ident(n, _) => out.push(n.clone()),
            Seg::List(l) => l.iter().for_each(|t| t.names(out)),
            _ => {}
        }
    }
}

impl Tree {
    pub(crate) fn enc(&self) -> String {
        format!("[{}]", self.0.iter().map(|s| s.enc()).collect::<String>())
    }
    pub(crate) fn text(&self) -> String {
        self.0.iter().map(|s| s.text()).collect::<Vec<_>>().join("::")
    }
    fn rank(&self, v: bool) -> Tree {
        Tree(self.0.iter().map(|s| s.rank(v)).collect())
    }
    fn unordered(&self) -> Tree {
        Tree(self.0.iter().map(|s| s.unordered()).collect())
    }
    fn names(&self, out: &mut Vec<String>) {
        self.0.iter().for_each(|s| s.names(out))
    }
    fn fits(&self) -> bool {
        let mut n = vec![];
        self.names(&mut n);
        n.iter().all(|s| all_runs_fit(s))
    }
    /// the nested lists of the tree, outermost first
    fn lists(&self, out: &mut Vec<Vec<Tree>>) {
        for s in &self.0 {
            if let Seg::List(l) = s {
                out.push(l.clone());
                l.iter().for_each(|t| t.lists(out));
            }
        }
    }
}

pub(crate) fn enc_trees(ts: &[Tree]) -> String {
    if ts.is_empty() { "_".into() } else { ts.iter().map(|t| t.enc()).collect() }
}

struct P<'a> {
    s: &'a [u8],
    i: usize,
}

impl<'a> P<'a> {
    fn eat(&mut self, lit: &str) -> bool {
        if self.s[self.i..].starts_with(lit.as_bytes()) {
            self.i += lit.len();
            true
        } else {
            false
        }
    }
    fn tok(&mut self) -> &'a str {
        let st = self.i;
        while self.i < self.s.len() && matches!(self.s[self.i], b'0'..=b'9' | b'a'..=b'f' | b'-' | b'~') {
            self.i += 1;
        }
        std::str::from_utf8(&self.s[st..self.i]).unwrap()
    }
    fn alias(&mut self) -> Option<Option<String>> {
        let t = self.tok();
        if t == "~" { Some(None) } else { dec_str(t).map(Some) }
    }
    fn seg(&mut self) -> Option<Seg> {
        if self.eat("(g)") {
            return Some(Seg::Glob);
        }
        if self.eat("(i:") {
            let n = dec_str(self.tok())?;
            if !self.eat(":") {
                return None;
            }
            let a = self.alias()?;
            return self.eat(")").then_some(Seg::Ident(n, a));
        }
        if self.eat("(l") {
            let mut l = vec![];
            while self.s.get(self.i) == Some(&b'[') {
                l.push(self.tree()?);
            }
            return self.eat(")").then_some(Seg::List(l));
        }
        let k = if self.eat("(s:") { 0 } else if self.eat("(u:") { 1 } else if self.eat("(c:") { 2 } else { return None };
        let a = self.alias()?;
        if !self.eat(")") {
            return None;
        }
        Some(match k {
            0 => Seg::Slf(a),
            1 => Seg::Super(a),
            _ => Seg::Crate(a),
        })
    }
    fn tree(&mut self) -> Option<Tree> {
        if !self.eat("[") {
            return None;
        }
        let mut p = vec![];
        while self.s.get(self.i) == Some(&b'(') {
            p.push(self.seg()?);
        }
        self.eat("]").then_some(Tree(p))
    }
}

pub(crate) fn dec_tree(s: &str) -> Option<Tree> {
    let mut p = P { s: s.as_bytes(), i: 0 };
    let t = p.tree()?;
    (p.i == s.len()).then_some(t)
}

pub(crate) fn dec_trees(s: &str) -> Option<Vec<Tree>> {
    if s == "_" {
        return Some(vec![]);
    }
    let mut p = P { s: s.as_bytes(), i: 0 };
    let mut v = vec![];
    while p.i < s.len() {
        v.push(p.tree()?);
    }
    Some(v)
}

fn id(n: &str) -> Seg {
    Seg::Ident(n.into(), None)
}
fn ida(n: &str, a: &str) -> Seg {
    Seg::Ident(n.into(), Some(a.into()))
}
fn t(segs: Vec<Seg>) -> Tree {
    Tree(segs)
}

/// Segment universe: every kind, aliases of every flavour (`r#`, digits, case, `_`, empty, ≥ 2^64).
fn seg_universe(thorough: bool) -> Vec<Seg> {
    let names: Vec<&str> = if thorough {
        vec!["", "a", "A", "AB", "a_b", "_a", "a1", "a01", "a10", "r#a", "r#a1", "::a", "Ünï", "ZED", "zed", "r#zed", "x86_64", "x86_064"]
    } else {
        vec!["", "a", "A", "AB", "_a", "a1", "a01", "r#a", "::a", "Ünï", "zed", "r#zed"]
    };
    let big_a = format!("a{}a", TWO64);
    let big_b = format!("a{}b", TWO64);
    let aliases: Vec<Option<String>> = {
        let mut v: Vec<Option<String>> = vec![None];
        for a in ["a", "B", "r#a", "a1", "a01", "_", ""] {
            v.push(Some(a.to_string()));
        }
        if thorough {
            v.push(Some(big_a.clone()));
            v.push(Some(big_b.clone()));
        }
        v
    };
    let mut u = vec![];
    for n in &names {
        for a in &aliases {
            u.push(Seg::Ident(n.to_string(), a.clone()));
        }
    }
    u.push(id(&big_a));
    u.push(id(&big_b));
    for a in &aliases {
        u.push(Seg::Slf(a.clone()));
        u.push(Seg::Super(a.clone()));
        u.push(Seg::Crate(a.clone()));
    }
    u.push(Seg::Glob);
    u.push(Seg::List(vec![]));
    u.push(Seg::List(vec![t(vec![id("a")])]));
    u.push(Seg::List(vec![t(vec![ida("a", "x")])]));
    u.push(Seg::List(vec![t(vec![id("a")]), t(vec![id("b")])]));
    u.push(Seg::List(vec![t(vec![ida("a", "y")]), t(vec![id("b")])]));
    u.push(Seg::List(vec![t(vec![id("a")]), t(vec![id("b"), id("c")])]));
    u.push(Seg::List(vec![t(vec![Seg::Slf(None)]), t(vec![id("b")])]));
    u.push(Seg::List(vec![t(vec![Seg::Slf(Some("s".into()))]), t(vec![id("b")])]));
    u.push(Seg::List(vec![t(vec![id("r#a")]), t(vec![id("b")])]));
    u.push(Seg::List(vec![t(vec![id("a"), Seg::List(vec![t(vec![id("c")]), t(vec![id("d")])])])]));
    u.push(Seg::List(vec![t(vec![Seg::Glob])]));
    u
}

/// Tree universe: paths of one to three segments, alias-only twins at every position and depth,
/// the empty path, `a::b` against `a as c`, lists against identifiers.
fn tree_universe(thorough: bool) -> Vec<Tree> {
    let heads: Vec<Seg> = vec![
        id("a"), ida("a", "c"), ida("a", "B"), id("b"), id("A"), id("a1"), id("a01"), id("r#a"), id("::a"), id(""), id("Ünï"),
        Seg::Slf(None), Seg::Slf(Some("x".into())), Seg::Super(None), Seg::Crate(None), Seg::Crate(Some("k".into())), Seg::Glob,
        id(&format!("a{}a", TWO64)), id(&format!("a{}b", TWO64)),
    ];
    let tails: Vec<Seg> = vec![
        id("b"), ida("b", "x"), ida("b", "y"), id("B"), id("b2"), id("b02"), id("r#b"), Seg::Glob, Seg::Slf(None), Seg::Slf(Some("q".into())),
        Seg::List(vec![t(vec![id("c")]), t(vec![id("d")])]),
        Seg::List(vec![t(vec![ida("c", "x")]), t(vec![id("d")])]),
        Seg::List(vec![t(vec![id("c")]), t(vec![ida("d", "y")])]),
        Seg::List(vec![t(vec![id("c")]), t(vec![id("d"), id("e")])]),
        Seg::List(vec![t(vec![Seg::Slf(None)]), t(vec![id("c")])]),
        Seg::List(vec![t(vec![id("c")])]),
        Seg::List(vec![]),
    ];
    let mut u = vec![t(vec![])];
    for h in &heads {
        u.push(t(vec![h.clone()]));
    }
    let nh = if thorough { heads.len() } else { 9 };
    for h in heads.iter().take(nh) {
        for tl in &tails {
            u.push(t(vec![h.clone(), tl.clone()]));
        }
    }
    let third: Vec<Seg> = vec![id("c"), ida("c", "z"), Seg::Glob, Seg::List(vec![t(vec![id("e")]), t(vec![ida("f", "g")])])];
    for h in heads.iter().take(if thorough { 6 } else { 3 }) {
        for m in tails.iter().take(if thorough { 7 } else { 3 }) {
            for l in &third {
                u.push(t(vec![h.clone(), m.clone(), l.clone()]));
            }
        }
    }
    u.sort();
    u.dedup();
    u
}

// ------------------------------------------------------------------ laws on the implementation

/// refl, `cmp(b,a) = cmp(a,b).reverse()`, transitivity of `<=` over all triples.
fn check_laws(o: &mut Outcome, what: &str, n: usize, m: &[Vec<Ordering>], name: &dyn Fn(usize) -> String) {
    let mut bad = 0u64;
    let mut evals = 0u64;
    for a in 0..n {
        evals += 1;
        if m[a][a] != Ordering::Equal {
            bad += 1;
            o.direct_failures.push(json!({"sig": format!("c11:law-refl:{}", what), "what": "cmp(a, a) != Equal", "a": name(a)}));
        }
        for b in 0..n {
            evals += 1;
            if m[b][a] != m[a][b].reverse() {
                bad += 1;
                if bad < 20 {
                    o.direct_failures.push(json!({"sig": format!("c11:law-swap:{}", what), "what": "cmp(b, a) != cmp(a, b).reverse()", "a": name(a), "b": name(b)}));
                }
            }
        }
    }
    for a in 0..n {
        for b in 0..n {
            if m[a][b] == Ordering::Greater {
                continue;
            }
            for c in 0..n {
                evals += 1;
                if m[b][c] != Ordering::Greater && m[a][c] == Ordering::Greater {
                    bad += 1;
                    if bad < 20 {
                        o.direct_failures.push(json!({"sig": format!("c11:law-trans:{}", what), "what": "a <= b, b <= c but a > c", "a": name(a), "b": name(b), "c": name(c)}));
                    }
                }
                // Equal must be a congruence as well (what sort_by needs of a total preorder)
                if m[a][b] == Ordering::Equal && m[a][c] != m[b][c] {
                    bad += 1;
                    if bad < 20 {
                        o.direct_failures.push(json!({"sig": format!("c11:law-eq-congr:{}", what), "what": "a == b but cmp(a, c) != cmp(b, c)", "a": name(a), "b": name(b), "c": name(c)}));
                    }
                }
            }
        }
    }
    o.direct_evals += evals;
    o.direct_distinct += evals;
    o.count_n(&format!("laws:{}:evaluations", what), evals);
    o.count_n(&format!("laws:{}:violations", what), bad);
}

pub fn run(tier: &str, seed: u64, out: &Path) -> i32 {
    pool::install_panic_hook();
    let mut o = Outcome::new("C11", tier, seed);
    let thorough = tier == "thorough";
    let mut rng = Rng::new(seed ^ 0xc11);
    if !screen_idents(&mut o) {
        // the comparison itself panics on some identifier: that identifier is the failing input; the parts below call
        // the same functions in-process and would only die on it
        o.count("skipped-after-a-panicking-comparison");
        return o.finish(out, crate::util::jobs());
    }
    part_idents(&mut o, &mut rng, thorough);
    part_trees(&mut o, &mut rng, thorough);
    part_items(&mut o, &mut rng, thorough);
    part_groups(&mut o, &mut rng, thorough);
    part_e2e(&mut o, &mut rng, thorough);
    part_biglists(&mut o, &mut rng, thorough);
    part_probes(&mut o);
    o.finish(out, crate::util::jobs())
}

// ------------------------------------------------------------------ 1. identifiers

/// "sorting can neither fail": every comparison of the identifier universe is first run under catch_unwind, so
/// that a comparison which panics is reported with the identifier it panics on
fn screen_idents(o: &mut Outcome) -> bool {
    let u = ident_universe();
    let mut ok = true;
    for s in &u {
        let probe = "a1".to_string();
        let r = std::panic::catch_unwind(std::panic::AssertUnwindSafe(|| {
            let _ = hi::version_chunks(s);
            for (a, b) in [(s, s), (s, &probe), (&probe, s)] {
                let _ = hi::version_sort(a, b);
                let _ = hi::ident_cmp(a, b, StyleEdition::Edition2021);
                let _ = hi::ident_cmp(a, b, StyleEdition::Edition2024);
            }
        }));
        o.direct_evals += 1;
        if r.is_err() {
            ok = false;
            o.direct_failures.push(json!({"sig": "c11:comparison-panics", "what": "comparing this identifier (version_sort / the identifier order of a style edition) panics: sorting a list that holds it fails", "ident": s, "src": format!("use m::{{{}, a1}};\nmod {};\nmod a1;\n", s, s), "config": "style_edition=2024"}));
        }
    }
    o.count_n("idents:screened-for-panics", u.len() as u64);
    ok
}

fn part_idents(o: &mut Outcome, rng: &mut Rng, thorough: bool) {
    let mut u = ident_universe();
    let fixed = u.len();
    for _ in 0..(if thorough { 60 } else { 12 }) {
        let s = random_ident(rng);
        if !u.contains(&s) {
            u.push(s);
        }
    }
    o.count_n("idents:universe", u.len() as u64);
    o.count_n("idents:universe-fixed", fixed as u64);
    let n = u.len();
    for s in &u {
        let e = enc_str(s);
        o.push("corr", "sort.chunks", format!("sort.chunks {}", e), hi::version_chunks(s), "universe".into(), !s.is_empty());
        o.push("corr", "sort.fits", format!("sort.fits {}", e), (all_runs_fit(s) as u8).to_string(), "universe (harness transcription of the oracle)".into(), s.chars().any(|c| c.is_ascii_digit()));
        o.push("corr", "sort.trimraw", format!("sort.trimraw {}", e), enc_str(s.trim_start_matches("r#")), "universe".into(), s.starts_with("r#"));
        o.push("corr", "sort.classes", format!("sort.classes {}", e), format!("{}{}", s.starts_with(char::is_uppercase) as u8, is_upper_snake_case(s) as u8), "universe".into(), !s.is_empty());
        let digits: String = s.chars().filter(|c| c.is_ascii_digit()).collect();
        for d in [digits.clone(), format!("+{}", digits), s.clone()] {
            let r = d.parse::<usize>().ok().map(|v| v.to_string()).unwrap_or_else(|| "none".into());
            o.push("corr", "sort.parseusize", format!("sort.parseusize {}", enc_str(&d)), r, "universe".into(), !d.is_empty());
        }
        o.count(if all_runs_fit(s) { "idents:runs-fit" } else { "idents:run>=2^64" });
    }
    let mut mv = vec![vec![Ordering::Equal; n]; n];
    let mut ml = vec![vec![Ordering::Equal; n]; n];
    let mut m24 = vec![vec![Ordering::Equal; n]; n];
    for a in 0..n {
        for b in 0..n {
            let (ea, eb) = (enc_str(&u[a]), enc_str(&u[b]));
            let nt = a != b;
            mv[a][b] = hi::version_sort(&u[a], &u[b]);
            ml[a][b] = hi::ident_cmp(&u[a], &u[b], StyleEdition::Edition2021);
            m24[a][b] = hi::ident_cmp(&u[a], &u[b], StyleEdition::Edition2024);
            let l15 = hi::ident_cmp(&u[a], &u[b], StyleEdition::Edition2015);
            if l15 != ml[a][b] || hi::ident_cmp(&u[a], &u[b], StyleEdition::Edition2018) != ml[a][b] {
                o.direct_failures.push(json!({"sig": "c11:editions-2015-2018-2021-differ", "what": "identifier order differs among style editions 2015/2018/2021", "a": u[a], "b": u[b]}));
            }
            o.push("corr", "sort.version", format!("sort.version {} {}", ea, eb), ord(mv[a][b]).into(), "all pairs".into(), nt);
            o.push("corr", "sort.legacy", format!("sort.legacy {} {}", ea, eb), ord(ml[a][b]).into(), "all pairs".into(), nt);
            o.push("corr", "sort.ident", format!("sort.ident 0 {} {}", ea, eb), ord(ml[a][b]).into(), "all pairs".into(), nt);
            o.push("corr", "sort.ident", format!("sort.ident 1 {} {}", ea, eb), ord(m24[a][b]).into(), "all pairs".into(), nt);
            if thorough || a < fixed / 2 {
                o.push("corr", "sort.strcmp", format!("sort.strcmp {} {}", ea, eb), ord(u[a].as_str().cmp(u[b].as_str())).into(), "all pairs".into(), nt);
            }
            o.count(&format!("version_sort:{}", ord(mv[a][b])));
        }
    }
    let nm = |i: usize| u[i].clone();
    check_laws(o, "version_sort", n, &mv, &nm);
    check_laws(o, "ident<=2021", n, &ml, &nm);
    check_laws(o, "ident-2024", n, &m24, &nm);
    // antisymmetry exactly as the theorems state it (oracle on the code's answers)
    for a in 0..n {
        for b in 0..n {
            if a == b {
                continue;
            }
            o.direct_evals += 3;
            if mv[a][b] == Ordering::Equal {
                if all_runs_fit(&u[a]) && all_runs_fit(&u[b]) {
                    o.direct_failures.push(json!({"sig": "c11:version_sort-equal-distinct-fitting", "what": "version_sort ranks two different identifiers without a number >= 2^64 equal (versionSort_antisymm_partial)", "a": u[a], "b": u[b]}));
                } else {
                    o.count("version_sort:equal-distinct(>=2^64, F13)");
                }
            }
            if ml[a][b] == Ordering::Equal {
                o.direct_failures.push(json!({"sig": "c11:legacy-equal-distinct", "what": "the pre-2024 identifier order ranks two different identifiers equal (legacyIdent_linear_order)", "a": u[a], "b": u[b]}));
            }
            if m24[a][b] == Ordering::Equal {
                let (ta, tb) = (u[a].trim_start_matches("r#"), u[b].trim_start_matches("r#"));
                if ta == tb {
                    o.count("ident-2024:equal-distinct(r#, F13b)");
                } else if all_runs_fit(ta) && all_runs_fit(tb) {
                    o.direct_failures.push(json!({"sig": "c11:ident2024-equal-distinct-fitting", "what": "2024 identifier order ranks equal two identifiers that differ after trimming r# and have no number >= 2^64", "a": u[a], "b": u[b]}));
                } else {
                    o.count("ident-2024:equal-distinct(>=2^64, F13)");
                }
            }
        }
    }
    // random identifiers, random pairs
    for _ in 0..(if thorough { 100000 } else { 6000 }) {
        let a = if rng.chance(1, 4) { rng.pick(&u).clone() } else { random_ident(rng) };
        let b = if rng.chance(1, 3) {
            // a near copy: one piece changed / appended
            let mut s = a.clone();
            if rng.chance(1, 2) { s.push_str(*rng.pick(RAND_PIECES)) } else { s.insert_str(0, *rng.pick(RAND_PIECES)) }
            s
        } else {
            random_ident(rng)
        };
        let (ea, eb) = (enc_str(&a), enc_str(&b));
        o.push("corr", "sort.version", format!("sort.version {} {}", ea, eb), ord(hi::version_sort(&a, &b)).into(), "random".into(), a != b);
        o.push("corr", "sort.ident", format!("sort.ident 0 {} {}", ea, eb), ord(hi::ident_cmp(&a, &b, StyleEdition::Edition2021)).into(), "random".into(), a != b);
        o.push("corr", "sort.ident", format!("sort.ident 1 {} {}", ea, eb), ord(hi::ident_cmp(&a, &b, StyleEdition::Edition2024)).into(), "random".into(), a != b);
        o.push("corr", "sort.chunks", format!("sort.chunks {}", ea), hi::version_chunks(&a), "random".into(), !a.is_empty());
    }
    // the two Unicode tables of the model against the toolchain's: boundaries of every range of
    // `char::is_uppercase` / `char::is_numeric`, everything below U+0800, and (thorough) every char
    let mut probe: BTreeSet<u32> = BTreeSet::new();
    let mut prev = (false, false);
    for cp in 0..=0x10FFFFu32 {
        if let Some(c) = char::from_u32(cp) {
            let cur = (c.is_uppercase(), c.is_numeric());
            if cur != prev || cp < 0x800 || thorough {
                probe.insert(cp);
                if cp > 0 {
                    probe.insert(cp - 1);
                }
            }
            prev = cur;
        }
    }
    for _ in 0..2000 {
        probe.insert(rng.below(0x110000) as u32);
    }
    let mut k = 0u64;
    for cp in probe {
        if let Some(c) = char::from_u32(cp) {
            let s = c.to_string();
            o.push("corr", "sort.classes", format!("sort.classes {}", enc_str(&s)), format!("{}{}", c.is_uppercase() as u8, is_upper_snake_case(&s) as u8), format!("U+{:04X}", cp), c.is_uppercase() || c.is_numeric());
            k += 1;
        }
    }
    o.count_n("classes:chars-probed", k);
}

// ------------------------------------------------------------------ 2. segments and trees

/// Fixed sources through the real parser and `UseTree::from_ast[_with_normalization]` against the
/// tree the harness means by them: ties the textual tree encoding (aliases of `self` included,
/// the empty first name of `::{..}` / `::*`, `::a` as one identifier) to the code.
fn parse_tie(o: &mut Outcome) {
    let li = |v: Vec<Tree>| Seg::List(v);
    let cases: Vec<(&str, bool, Tree, Tree)> = vec![
        // source, edition 2018?, raw tree, normalised tree
        ("use ::{b, a};", true, t(vec![id(""), li(vec![t(vec![id("b")]), t(vec![id("a")])])]), t(vec![id(""), li(vec![t(vec![id("a")]), t(vec![id("b")])])])),
        ("use ::*;", true, t(vec![id(""), Seg::Glob]), t(vec![id(""), Seg::Glob])),
        ("use ::a;", true, t(vec![id("::a")]), t(vec![id("::a")])),
        ("use ::a::b as c;", true, t(vec![id("::a"), ida("b", "c")]), t(vec![id("::a"), ida("b", "c")])),
        ("use ::a::b;", false, t(vec![id("a"), id("b")]), t(vec![id("a"), id("b")])),
        ("use a::{self as s, b};", false, t(vec![id("a"), li(vec![t(vec![Seg::Slf(Some("s".into()))]), t(vec![id("b")])])]), t(vec![id("a"), li(vec![t(vec![Seg::Slf(Some("s".into()))]), t(vec![id("b")])])])),
        ("use a::{c, b as x, b as y};", false, t(vec![id("a"), li(vec![t(vec![id("c")]), t(vec![ida("b", "x")]), t(vec![ida("b", "y")])])]), t(vec![id("a"), li(vec![t(vec![ida("b", "x")]), t(vec![ida("b", "y")]), t(vec![id("c")])])])),
        ("use a::{b};", false, t(vec![id("a"), li(vec![t(vec![id("b")])])]), t(vec![id("a"), id("b")])),
        ("use a as _;", false, t(vec![ida("a", "_")]), t(vec![ida("a", "_")])),
        ("use r#try::r#as as r#b;", false, t(vec![id("r#try"), ida("r#as", "r#b")]), t(vec![id("r#try"), ida("r#as", "r#b")])),
        ("use crate::a;", false, t(vec![Seg::Crate(None), id("a")]), t(vec![Seg::Crate(None), id("a")])),
        ("use super::super::b;", false, t(vec![Seg::Super(None), Seg::Super(None), id("b")]), t(vec![Seg::Super(None), Seg::Super(None), id("b")])),
        ("use self::c::*;", false, t(vec![Seg::Slf(None), id("c"), Seg::Glob]), t(vec![Seg::Slf(None), id("c"), Seg::Glob])),
        ("use Ünï::a٣;", false, t(vec![id("Ünï"), id("a٣")]), t(vec![id("Ünï"), id("a٣")])),
    ];
    for (src, e2018, raw, norm) in cases {
        let ed = if e2018 { Edition::Edition2018 } else { Edition::Edition2015 };
        for se in [StyleEdition::Edition2015, StyleEdition::Edition2021, StyleEdition::Edition2024] {
            let r = hi::parse_use_trees_raw(src, se, ed);
            let n = hi::parse_use_trees(src, se, ed);
            o.direct_evals += 2;
            o.direct_distinct += 2;
            if r.as_ref().ok().map(|v| v.as_slice()) != Some(&[raw.enc()][..]) || n.as_ref().ok().map(|v| v.as_slice()) != Some(&[norm.enc()][..]) {
                o.direct_failures.push(json!({"sig": "c11:hook-parse-tie", "what": "the use tree the code builds from a fixed source is not the tree the harness means by it", "src": src, "raw": format!("{:?}", r), "normalised": format!("{:?}", n), "expected_raw": raw.enc(), "expected_normalised": norm.enc()}));
            }
        }
    }
    o.count_n("parse-tie:sources", 14);
}

fn part_trees(o: &mut Outcome, rng: &mut Rng, thorough: bool) {
    parse_tie(o);
    let su = seg_universe(thorough);
    o.count_n("segments:universe", su.len() as u64);
    for v in [false, true] {
        let se = se_of(v);
        let encs: Vec<String> = su.iter().map(|s| s.enc()).collect();
        let n = su.len();
        let mut m = vec![vec![Ordering::Equal; n]; n];
        for a in 0..n {
            o.push("corr", "sort.rmalias", format!("sort.rmalias {}", encs[a]), hi::remove_alias(&encs[a], se).unwrap_or_else(|| "undecodable".into()), "universe".into(), true);
            for b in 0..n {
                let r = hi::use_segment_cmp(&encs[a], &encs[b], se).expect("segment encoding");
                m[a][b] = r;
                o.push("corr", "sort.seg", format!("sort.seg {} {} {}", vbit(v), encs[a], encs[b]), ord(r).into(), "all pairs".into(), a != b);
                if thorough || (a + b) % 3 == 0 {
                    let r2 = hi::use_segment_cmp_noalias(&encs[a], &encs[b], se).expect("segment encoding");
                    o.push("corr", "sort.segna", format!("sort.segna {} {} {}", vbit(v), encs[a], encs[b]), ord(r2).into(), "all pairs".into(), a != b);
                }
            }
        }
        let nm = |i: usize| su[i].text();
        check_laws(o, if v { "UseSegment::cmp-2024" } else { "UseSegment::cmp<=2021" }, n, &m, &nm);
    }
    let tu = tree_universe(thorough);
    o.count_n("trees:universe", tu.len() as u64);
    let n = tu.len();
    let encs: Vec<String> = tu.iter().map(|t| t.enc()).collect();
    // the harness-side tree type round-trips through the hook's decoder/encoder
    for (t, e) in tu.iter().zip(encs.iter()) {
        o.direct_evals += 1;
        if dec_tree(e).as_ref() != Some(t) || hi::sort_use_trees(e, StyleEdition::Edition2021).as_deref() != Some(e.as_str()) {
            o.direct_failures.push(json!({"sig": "c11:harness-encoding-roundtrip", "what": "tree encoding does not round-trip through the hook", "tree": e}));
        }
    }
    for v in [false, true] {
        let se = se_of(v);
        // canonical forms and the usize hypothesis from the model (oracle inputs)
        let mut reqs: Vec<String> = encs.iter().map(|e| format!("sort.canon {} {}", vbit(v), e)).collect();
        reqs.extend(encs.iter().map(|e| format!("sort.treefits {}", e)));
        let ans = run_model(&reqs, crate::util::jobs());
        let canon: Vec<&String> = ans[..n].iter().collect();
        let fits: Vec<bool> = ans[n..].iter().map(|s| s == "1").collect();
        for i in 0..n {
            o.direct_evals += 2;
            // the model's oracles against the harness transcription
            let hc = tu[i].rank(v).enc();
            if canon[i] != &hc || fits[i] != tu[i].fits() {
                o.direct_failures.push(json!({"sig": "c11:oracle-transcription", "what": "canonTree / treefits of the model differ from the harness transcription", "tree": encs[i], "model": canon[i], "harness": hc}));
            }
        }
        let mut m = vec![vec![Ordering::Equal; n]; n];
        for a in 0..n {
            for b in 0..n {
                let r = hi::use_tree_cmp(&encs[a], &encs[b], se).expect("tree encoding");
                m[a][b] = r;
                o.push("corr", "sort.tree", format!("sort.tree {} {} {}", vbit(v), encs[a], encs[b]), ord(r).into(), "all pairs".into(), a != b);
                // oracle on the code's answer: rank-equal <=> equal canonical forms (treeCmp_equal_iff_alias_only[_2024_partial])
                o.direct_evals += 1;
                let same = canon[a] == canon[b];
                if same && r != Ordering::Equal {
                    o.direct_failures.push(json!({"sig": "c11:alias-only-twins-not-equal", "what": "trees with equal canonical forms do not rank equal (treeCmp_equal_of_alias_only)", "v2024": v, "a": tu[a].text(), "b": tu[b].text()}));
                }
                if !same && r == Ordering::Equal {
                    if !v || (fits[a] && fits[b]) {
                        o.direct_failures.push(json!({"sig": "c11:rank-equal-but-not-alias-only", "what": "trees rank equal although they differ after erasing aliases (and r# for 2024) and no number is >= 2^64", "v2024": v, "a": tu[a].text(), "b": tu[b].text()}));
                    } else {
                        o.count("tree:equal-distinct(>=2^64, F13)");
                    }
                }
                if r == Ordering::Equal && a != b && same {
                    o.count(if v { "tree-2024:alias-only-twins" } else { "tree<=2021:alias-only-twins" });
                }
            }
        }
        let nm = |i: usize| tu[i].text();
        check_laws(o, if v { "UseTree::cmp-2024" } else { "UseTree::cmp<=2021" }, n, &m, &nm);
        // Vec<UseTree>::sort against the model's stable sort; all permutations of small lists sort to
        // the same list modulo the order of rank-equal trees (stableSort_unique on the implementation)
        for k in 0..(if thorough { 20000 } else { 1000 }) {
            let len = rng.range(0, 7);
            let mut l: Vec<usize> = (0..len).map(|_| rng.below(n)).collect();
            if rng.chance(1, 2) && len >= 2 {
                // force a twin
                let a = l[0];
                if let Some(b) = (0..n).find(|b| *b != a && m[a][*b] == Ordering::Equal) {
                    l[1] = b;
                }
            }
            let le: String = if l.is_empty() { "_".into() } else { l.iter().map(|i| encs[*i].as_str()).collect() };
            let sorted = hi::sort_use_trees(&le, se).expect("tree list encoding");
            let has_twins = l.iter().enumerate().any(|(i, a)| l.iter().skip(i + 1).any(|b| a != b && m[*a][*b] == Ordering::Equal));
            o.push("corr", "sort.stable", format!("sort.stable {} {}", vbit(v), le), sorted.clone(), format!("random list {}", k), len >= 2);
            o.count(if has_twins { "stable:list-with-twins" } else { "stable:list-without-twins" });
            if len >= 2 && len <= 5 && k % 4 == 0 {
                let st = dec_trees(&sorted).unwrap();
                for p in permutations(len) {
                    let pl: Vec<usize> = p.iter().map(|i| l[*i]).collect();
                    let pe: String = pl.iter().map(|i| encs[*i].as_str()).collect();
                    let ps = dec_trees(&hi::sort_use_trees(&pe, se).unwrap()).unwrap();
                    o.direct_evals += 1;
                    // same ranks position by position, same multiset, and twins in the input order of this permutation
                    let same_rank = ps.len() == st.len() && ps.iter().zip(st.iter()).all(|(x, y)| hi::use_tree_cmp(&x.enc(), &y.enc(), se) == Some(Ordering::Equal));
                    let mut a1 = ps.clone();
                    let mut a2 = st.clone();
                    a1.sort();
                    a2.sort();
                    let stable = is_stable(&pl.iter().map(|i| tu[*i].clone()).collect::<Vec<_>>(), &ps, &|x, y| hi::use_tree_cmp(&x.enc(), &y.enc(), se) == Some(Ordering::Equal));
                    if !same_rank || a1 != a2 || !stable || (!has_twins && ps != st) {
                        o.direct_failures.push(json!({"sig": "c11:sort-depends-on-input-order", "what": "Vec<UseTree>::sort of a permutation differs from the sort of the list beyond the order of rank-equal trees", "v2024": v, "list": pl.iter().map(|i| tu[*i].text()).collect::<Vec<_>>()}));
                    }
                }
            }
        }
    }
}

/// for every rank, the elements of that rank appear in `sorted` in their `input` order
fn is_stable<T: PartialEq + Clone>(input: &[T], sorted: &[T], eq: &dyn Fn(&T, &T) -> bool) -> bool {
    for c in input {
        let a: Vec<&T> = input.iter().filter(|y| eq(c, y)).collect();
        let b: Vec<&T> = sorted.iter().filter(|y| eq(c, y)).collect();
        if a != b {
            return false;
        }
    }
    true
}

fn permutations(n: usize) -> Vec<Vec<usize>> {
    fn rec(cur: &mut Vec<usize>, used: &mut Vec<bool>, n: usize, out: &mut Vec<Vec<usize>>) {
        if cur.len() == n {
            out.push(cur.clone());
            return;
        }
        for i in 0..n {
            if !used[i] {
                used[i] = true;
                cur.push(i);
                rec(cur, used, n, out);
                cur.pop();
                used[i] = false;
            }
        }
    }
    let mut out = vec![];
    rec(&mut vec![], &mut vec![false; n], n, &mut out);
    out
}

fn shuffle<T>(rng: &mut Rng, v: &mut Vec<T>) {
    for i in (1..v.len()).rev() {
        let j = rng.below(i + 1);
        v.swap(i, j);
    }
}

// ------------------------------------------------------------------ 3. compare_items

/// identifiers the parser accepts as item names (no keyword, one token)
fn parseable_idents(thorough: bool) -> Vec<String> {
    let mut v: Vec<String> = [
        "a", "b", "A", "B", "ab", "aB", "Ab", "AB", "a_b", "A_B", "_a", "__", "a_", "zed", "Zed", "ZED", "a1", "a01", "a001", "a2", "a10", "a1b", "a01b",
        "a1_2", "a01_2", "a1_02", "x86_64", "x86_064", "x086_64", "u8", "u16", "u064", "A1", "A01", "A_1", "_1", "_01", "r#zed", "r#Zed", "r#a1", "r",
        "Ünï", "ünï", "Ü", "É1", "a٣", "a٣b", "ǅ", "ß",
    ]
    .iter()
    .map(|s| s.to_string())
    .collect();
    v.push(format!("a{}", TWO64M1));
    v.push(format!("a{}", TWO64));
    v.push(format!("a{}b", TWO64));
    v.push(format!("a{}a", TWO64));
    v.push(format!("a0000{}", TWO64M1));
    v.push(format!("a{}b", "1".repeat(24)));
    if !thorough {
        // every third of the plain ones, all of the special ones
        v = v.into_iter().enumerate().filter(|(i, s)| i % 2 == 0 || s.len() > 6 || !s.is_ascii() || s.starts_with("r#")).map(|(_, s)| s).collect();
    }
    v
}

fn unraw(s: &str) -> &str {
    s.strip_prefix("r#").unwrap_or(s)
}

fn part_items(o: &mut Outcome, rng: &mut Rng, thorough: bool) {
    let names = parseable_idents(thorough);
    o.count_n("items:identifiers", names.len() as u64);
    // (source line, expected encoding as compare_items reads the item)
    let mut mods: Vec<(String, String)> = names.iter().map(|n| (format!("mod {};", n), format!("m:{}", enc_str(unraw(n))))).collect();
    mods.push(("pub mod zz9;".into(), format!("m:{}", enc_str("zz9"))));
    let renames: &[&str] = if thorough { &["a", "B", "a1", "a01", "r#zed", "_", "Ünï"] } else { &["a", "a01", "r#zed", "_"] };
    let mut crates: Vec<(String, String)> = vec![];
    for n in &names {
        crates.push((format!("extern crate {};", n), format!("e:{}:~", enc_str(unraw(n)))));
        for (k, r) in renames.iter().enumerate() {
            if thorough || (n.len() + k) % 2 == 0 {
                crates.push((format!("extern crate {} as {};", n, r), format!("e:{}:{}", enc_str(unraw(n)), enc_str(unraw(r)))));
            }
        }
    }
    crates.push(("extern crate self as me;".into(), format!("e:{}:{}", enc_str("self"), enc_str("me"))));
    let mixed: Vec<(String, String)> = vec![mods[0].clone(), crates[0].clone(), mods[3].clone(), crates[5].clone()];
    for (label, set) in [("mod", &mods), ("extern crate", &crates), ("mixed kinds", &mixed)] {
        let src: String = set.iter().map(|(l, _)| format!("{}\n", l)).collect();
        for v in [false, true] {
            match hi::compare_items(&src, se_of(v)) {
                Ok((encs, m)) => {
                    let expected: Vec<&String> = set.iter().map(|(_, e)| e).collect();
                    o.direct_evals += 1;
                    if encs.iter().collect::<Vec<_>>() != expected {
                        o.direct_failures.push(json!({"sig": "c11:item-names-as-parsed", "what": "the names compare_items reads (Ident::as_str) are not the written names without r#", "kind": label, "parsed": encs, "expected": expected}));
                        continue;
                    }
                    let n = encs.len();
                    let mut mo = vec![vec![Ordering::Equal; n]; n];
                    let mut total = true;
                    for a in 0..n {
                        for b in 0..n {
                            let r = match m[a][b] {
                                Some(x) => {
                                    mo[a][b] = x;
                                    ord(x)
                                }
                                None => {
                                    total = false;
                                    "panic"
                                }
                            };
                            o.push("corr", "sort.items", format!("sort.items {} {} {}", vbit(v), encs[a], encs[b]), r.into(), format!("all pairs of {}", label), a != b);
                            o.count(&format!("compare_items:{}:{}", label, r));
                        }
                    }
                    if total {
                        let nm = |i: usize| set[i].0.clone();
                        check_laws(o, &format!("compare_items({})-{}", label, if v { "2024" } else { "<=2021" }), n, &mo, &nm);
                    }
                }
                Err(e) => o.direct_failures.push(json!({"sig": "c11:hook-parse", "what": format!("compare_items hook: {}", e), "src": src})),
            }
        }
    }
    // sort_by(compare_items) against the model's stable sort; the `mod` comparison on bare strings
    for k in 0..(if thorough { 3000 } else { 300 }) {
        let set = if k % 2 == 0 { &mods } else { &crates };
        let len = rng.range(0, 8);
        let l: Vec<&(String, String)> = (0..len).map(|_| rng.pick(set)).collect();
        let src: String = l.iter().map(|(s, _)| format!("{}\n", s)).collect();
        let v = rng.chance(1, 2);
        let items: Vec<String> = l.iter().map(|(_, e)| e.clone()).collect();
        match hi::sort_items(&src, se_of(v)) {
            Ok(sorted) => {
                let enc = |xs: &[String]| if xs.is_empty() { "_".to_string() } else { xs.join(";") };
                o.push("corr", "sort.itemsort", format!("sort.itemsort {} {}", vbit(v), enc(&items)), enc(&sorted), format!("random list {}", k), len >= 2);
                if k % 2 == 0 {
                    let names: Vec<String> = items.iter().map(|e| dec_str(&e[2..]).unwrap()).collect();
                    let sn: Vec<String> = sorted.iter().map(|e| dec_str(&e[2..]).unwrap()).collect();
                    o.push("corr", "sort.stablestr", format!("sort.stablestr {} {}", vbit(v), enc_list(&names)), enc_list(&sn), format!("random list {}", k), len >= 2);
                }
            }
            Err(e) => o.direct_failures.push(json!({"sig": "c11:hook-parse", "what": format!("sort_items hook: {}", e), "src": src})),
        }
    }
}

// ------------------------------------------------------------------ programs of reorderable declarations

#[derive(Clone, Debug)]
struct Elem {
    /// `u` use, `m` mod declaration, `e` extern crate, `o` anything else
    kind: char,
    macro_use: bool,
    skip: bool,
    /// attribute and doc-comment lines, formatted
    attrs: Vec<String>,
    vis: &'static str,
    tree: Option<Tree>,
    name: String,
    rename: Option<String>,
    other: String,
    trailing: Option<String>,
    /// alias-only twin class (elements of one class rank equal)
    twin: Option<usize>,
}

impl Elem {
    fn item_text(&self) -> String {
        match self.kind {
            'u' => format!("{}use {};", self.vis, self.tree.as_ref().unwrap().text()),
            'm' => format!("{}mod {};", self.vis, self.name),
            'e' => match &self.rename {
                Some(r) => format!("{}extern crate {} as {};", self.vis, self.name, r),
                None => format!("{}extern crate {};", self.vis, self.name),
            },
            _ => self.other.clone(),
        }
    }
    fn rkind(&self) -> char {
        if self.macro_use || self.skip { 'o' } else { self.kind }
    }
    /// the element whatever the order inside its nested lists: attributes, visibility, structure
    /// (aliases included), trailing comment
    fn signature(&self) -> String {
        let st = match self.kind {
            'u' => self.tree.as_ref().unwrap().unordered().enc(),
            'm' => format!("m:{}", enc_str(unraw(&self.name))),
            'e' => format!("e:{}:{}", enc_str(unraw(&self.name)), self.rename.as_ref().map(|r| enc_str(unraw(r))).unwrap_or_else(|| "~".into())),
            _ => self.other.clone(),
        };
        format!("{}|{}|{}|{}", self.attrs.join("\\n"), self.vis, st, self.trailing.clone().unwrap_or_default())
    }
}

#[derive(Clone, Debug)]
struct Program {
    elems: Vec<Elem>,
    /// blank lines before each slot (a property of the position, not of the element)
    blank: Vec<usize>,
}

impl Program {
    fn text(&self) -> String {
        let mut s = String::new();
        for (e, b) in self.elems.iter().zip(self.blank.iter()) {
            for _ in 0..*b {
                s.push('\n');
            }
            for a in &e.attrs {
                s.push_str(a);
                s.push('\n');
            }
            s.push_str(&e.item_text());
            if let Some(t) = &e.trailing {
                s.push(' ');
                s.push_str(t);
            }
            s.push('\n');
        }
        s
    }
    /// (lo, hi) line of every element (attributes included), 1-based
    fn lines(&self) -> Vec<(usize, usize)> {
        let mut l = 1;
        let mut v = vec![];
        for (e, b) in self.elems.iter().zip(self.blank.iter()) {
            l += b;
            v.push((l, l + e.attrs.len()));
            l += e.attrs.len() + 1;
        }
        v
    }
}

#[derive(Clone, Copy, Debug, PartialEq, Eq)]
struct RCfg {
    reorder_imports: bool,
    reorder_modules: bool,
    /// 0 Preserve, 1 StdExternalCrate, 2 One
    group: u8,
    /// 2015, 2021, 2024
    style: u16,
    edition2018: bool,
}

impl RCfg {
    fn v(&self) -> bool {
        self.style >= 2024
    }
    fn pairs(&self) -> Vec<(String, String)> {
        vec![
            ("style_edition".into(), self.style.to_string()),
            ("edition".into(), if self.edition2018 { "2018".into() } else { "2015".into() }),
            ("reorder_imports".into(), self.reorder_imports.to_string()),
            ("reorder_modules".into(), self.reorder_modules.to_string()),
            ("group_imports".into(), ["Preserve", "StdExternalCrate", "One"][self.group as usize].to_string()),
        ]
    }
    fn bits(&self) -> String {
        format!("{}{}{}", self.reorder_imports as u8, self.reorder_modules as u8, (self.group == 0) as u8)
    }
    fn random(rng: &mut Rng) -> RCfg {
        RCfg {
            reorder_imports: rng.chance(5, 6),
            reorder_modules: rng.chance(5, 6),
            group: *rng.pick(&[0u8, 0, 0, 1, 2]),
            style: *rng.pick(&[2015u16, 2021, 2024, 2024]),
            edition2018: rng.chance(1, 2),
        }
    }
}

/// what the generator intends: (kind, start, len) of every run handed to the sorter, `s` for singles
fn intended_groups(p: &Program, c: &RCfg) -> Vec<(char, usize, usize)> {
    let n = p.elems.len();
    let mut i = 0;
    let mut res = vec![];
    while i < n {
        let k = p.elems[i].rkind();
        let reorderable = match k {
            'e' | 'u' => c.reorder_imports,
            'm' => c.reorder_modules,
            _ => false,
        };
        let regroupable = k == 'u' && c.group != 0;
        if reorderable || regroupable {
            let in_group = k == 'e' || k == 'm' || (k == 'u' && c.group == 0);
            let mut j = i + 1;
            while j < n && p.elems[j].rkind() == k && (!in_group || p.blank[j] == 0) {
                j += 1;
            }
            res.push((k, i, j - i));
            i = j;
        } else {
            res.push(('s', i, 1));
            i += 1;
        }
    }
    res
}

const BASES: &[&str] = &["a", "b", "c", "z", "A", "B", "Z", "ab", "aB", "Ab", "AB", "a_b", "A_B", "_a", "a_", "x86", "u", "U", "zed", "Zed", "ZED", "Ünï", "é"];
const SUFFIX1: &[&str] = &["", "", "", "1", "01", "001", "2", "02", "10", "_1", "_01", "64", "064", "_64", "9", "09"];
const SUFFIX2: &[&str] = &["", "", "", "b", "_b", "B", "_"];

fn gen_name(rng: &mut Rng) -> String {
    let mut s = format!("{}{}{}", rng.pick(BASES), rng.pick(SUFFIX1), rng.pick(SUFFIX2));
    if matches!(s.as_str(), "as" | "u8") {
        s.push('x');
    }
    if rng.chance(1, 12) {
        s = format!("r#{}", s);
    }
    s
}

/// `k` names that differ after trimming `r#` (so that no two rank equal under any edition)
fn gen_names(rng: &mut Rng, k: usize) -> Vec<String> {
    gen_names_avoiding(rng, k, &mut vec![])
}

/// the same, also different from (and added to) `used`
fn gen_names_avoiding(rng: &mut Rng, k: usize, used: &mut Vec<String>) -> Vec<String> {
    let mut v: Vec<String> = vec![];
    while v.len() < k {
        let s = gen_name(rng);
        if !v.iter().chain(used.iter()).any(|x| unraw(x) == unraw(&s)) {
            v.push(s);
        }
    }
    used.extend(v.iter().cloned());
    v
}

/// ranks already used in a program: no two elements of a program rank equal unless generated as twins
#[derive(Default)]
struct Used {
    trees: Vec<Tree>,
    names: Vec<String>,
    /// leading `::` allowed (edition >= 2018; under 2015 rustfmt drops it)
    modsep: bool,
}

/// an alias different from the name (`a as a` is dropped by `UseTree::from_ast`)
fn alias_for(rng: &mut Rng, name: &str) -> String {
    loop {
        let a = if rng.chance(1, 8) { "_".to_string() } else { gen_name(rng) };
        if unraw(&a) != unraw(name) {
            return a;
        }
    }
}

/// a `use` tree in the normal form of `UseTree::normalize` (lists of >= 2 entries, no `x::self`)
fn gen_use_tree(rng: &mut Rng, depth: usize, modsep: bool) -> Tree {
    let mut segs = vec![];
    if depth == 0 {
        match rng.below(10) {
            0 => segs.push(Seg::Slf(None)),
            1 => segs.push(Seg::Super(None)),
            2 => segs.push(Seg::Crate(None)),
            3 => segs.push(id(*rng.pick(&["std", "core", "alloc"]))),
            _ => {}
        }
    }
    let plen = rng.range(if segs.is_empty() || matches!(segs[0], Seg::Ident(..)) { 1 } else { 1 }, 2);
    let global = modsep && depth == 0 && segs.is_empty() && rng.chance(1, 8);
    for n in gen_names(rng, plen) {
        // `use ::a::b;` (edition >= 2018): the first segment is the identifier `::a`
        segs.push(if global && segs.is_empty() { id(&format!("::{}", n)) } else { id(&n) });
    }
    match rng.below(if depth >= 2 { 6 } else { 9 }) {
        0 => segs.push(Seg::Glob),
        1 | 2 => {
            if let Some(Seg::Ident(n, _)) = segs.pop() {
                let a = if rng.chance(1, 2) { Some(alias_for(rng, &n)) } else { None };
                segs.push(Seg::Ident(n, a));
            }
        }
        6 | 7 | 8 => {
            let k = rng.range(2, 4);
            let names = gen_names(rng, k);
            let mut l = vec![];
            let mut has_self = false;
            let mut has_glob = false;
            for n in names {
                match rng.below(12) {
                    0 if !has_self => {
                        has_self = true;
                        l.push(t(vec![Seg::Slf(if rng.chance(1, 4) { Some(gen_name(rng)) } else { None })]));
                    }
                    1 if !has_glob => {
                        has_glob = true;
                        l.push(t(vec![Seg::Glob]));
                    }
                    2 | 3 if depth < 2 => {
                        let mut sub = gen_use_tree(rng, depth + 1, false);
                        // keep the head name unique in this list
                        sub.0.insert(0, id(&n));
                        l.push(sub);
                    }
                    4 | 5 => {
                        let a = alias_for(rng, &n);
                        l.push(t(vec![Seg::Ident(n, Some(a))]))
                    }
                    _ => l.push(t(vec![id(&n)])),
                }
            }
            segs.push(Seg::List(l));
        }
        _ => {}
    }
    t(segs)
}

fn gen_attrs(rng: &mut Rng, tag: usize) -> Vec<String> {
    let mut v = vec![];
    if rng.chance(1, 5) {
        v.push(format!("/// doc {}", tag));
    }
    if rng.chance(1, 4) {
        v.push(format!("#[cfg(k{})]", tag));
    }
    if rng.chance(1, 10) {
        v.push(format!("#[allow(unused_imports, w{})]", tag));
    }
    v
}

fn blank_elem(kind: char) -> Elem {
    Elem { kind, macro_use: false, skip: false, attrs: vec![], vis: "", tree: None, name: String::new(), rename: None, other: String::new(), trailing: None, twin: None }
}

/// `k` elements of one kind whose ranks are pairwise different (under every style edition),
/// except for `twins` alias-only twins of one of them when the kind is `use`
fn gen_run(rng: &mut Rng, kind: char, k: usize, twins: usize, tag0: usize, used: &mut Used) -> Vec<Elem> {
    let mut v: Vec<Elem> = vec![];
    let vis = |rng: &mut Rng| *rng.pick(&["", "", "", "", "pub ", "pub(crate) "]);
    match kind {
        'u' => {
            let keys = &mut used.trees;
            while v.len() < k {
                let tr = gen_use_tree(rng, 0, used.modsep);
                // rank with aliases and r# erased, lists as sets: unique in the run
                let key = tr.rank(true).unordered();
                if keys.contains(&key) {
                    continue;
                }
                keys.push(key);
                let mut e = blank_elem('u');
                e.tree = Some(tr);
                e.vis = vis(rng);
                e.attrs = gen_attrs(rng, tag0 + v.len());
                v.push(e);
            }
            // alias-only twins of an element that ends in an identifier
            if twins > 0 {
                if let Some(i) = (0..v.len()).find(|i| matches!(v[*i].tree.as_ref().unwrap().0.last(), Some(Seg::Ident(..)))) {
                    v[i].twin = Some(tag0);
                    for j in 0..twins {
                        let mut e = v[i].clone();
                        let tr = e.tree.as_mut().unwrap();
                        if let Some(Seg::Ident(_, a)) = tr.0.last_mut() {
                            *a = Some(format!("tw{}", j));
                        }
                        v.push(e);
                    }
                }
            }
        }
        'm' => {
            for (i, n) in gen_names_avoiding(rng, k, &mut used.names).into_iter().enumerate() {
                let mut e = blank_elem('m');
                e.name = n;
                e.vis = vis(rng);
                e.attrs = gen_attrs(rng, tag0 + i);
                if rng.chance(1, 10) {
                    e.attrs.push(format!("#[path = \"p{}.rs\"]", tag0 + i));
                }
                v.push(e);
            }
        }
        _ => {
            let names = gen_names_avoiding(rng, k, &mut used.names);
            for (i, n) in names.iter().enumerate() {
                let mut e = blank_elem('e');
                // the same crate under several renames is fine: the rename is compared too
                e.name = if i > 0 && rng.chance(1, 4) { names[0].clone() } else { n.clone() };
                e.rename = if e.name != *n || rng.chance(1, 3) { Some(format!("{}_r{}", unraw(n), i)) } else { None };
                if v.iter().any(|x: &Elem| unraw(&x.name) == unraw(&e.name) && x.rename.is_none() && e.rename.is_none()) {
                    e.rename = Some(format!("{}_q{}", unraw(n), i));
                }
                e.vis = *rng.pick(&["", "", "", "pub "]);
                e.attrs = gen_attrs(rng, tag0 + i);
                v.push(e);
            }
        }
    }
    v
}

fn gen_other(rng: &mut Rng, tag: usize) -> Elem {
    let mut e = blank_elem('o');
    e.other = match rng.below(5) {
        0 => format!("fn f{}() {{}}", tag),
        1 => format!("struct S{};", tag),
        2 => format!("const C{}: u8 = 0;", tag),
        3 => format!("type T{} = u8;", tag),
        _ => format!("mod inline{} {{}}", tag),
    };
    e
}

/// A program: runs of reorderable declarations separated by blank lines, `#[macro_use]` items,
/// `#[rustfmt::skip]` items, items of another kind, or nothing at all (a change of kind).
fn gen_program(rng: &mut Rng, max_run: usize, with_twins: bool, with_trailing: bool, modsep: bool) -> Program {
    let mut elems = vec![];
    let mut blank = vec![];
    let nruns = rng.range(1, 4);
    let mut tag = 0;
    let mut used = Used { modsep, ..Default::default() };
    for r in 0..nruns {
        let kind = *rng.pick(&['u', 'u', 'u', 'm', 'e']);
        let k = rng.range(1, max_run);
        let twins = if with_twins && kind == 'u' && rng.chance(1, 2) { rng.range(1, 2) } else { 0 };
        let mut run = gen_run(rng, kind, k.saturating_sub(twins).max(1), twins, tag, &mut used);
        tag += run.len() + 1;
        shuffle(rng, &mut run);
        if with_trailing && run.len() >= 2 {
            // every element but the one in the last slot may carry a trailing comment
            let n = run.len();
            for (i, e) in run.iter_mut().enumerate() {
                if i + 1 < n && rng.chance(1, 2) {
                    e.trailing = Some(if rng.chance(1, 4) { format!("/* t{} */", tag + i) } else { format!("// t{}", tag + i) });
                }
            }
        }
        // separator before this run
        if r > 0 {
            match rng.below(8) {
                0 | 1 => {}                       // blank line only (set below) or a change of kind
                2 => {
                    elems.push(gen_other(rng, tag));
                    blank.push(rng.below(2));
                }
                3 => {
                    let mut e = gen_run(rng, kind, 1, 0, tag, &mut used).remove(0);
                    e.macro_use = true;
                    e.attrs.push("#[macro_use]".into());
                    elems.push(e);
                    blank.push(0);
                }
                4 => {
                    let mut e = gen_run(rng, kind, 1, 0, tag, &mut used).remove(0);
                    e.skip = true;
                    e.attrs.push("#[rustfmt::skip]".into());
                    elems.push(e);
                    blank.push(0);
                }
                _ => {}
            }
            tag += 1;
        }
        for (i, e) in run.into_iter().enumerate() {
            let b = if i == 0 {
                if r == 0 { 0 } else { *rng.pick(&[0usize, 1, 1, 2]) }
            } else if rng.chance(1, 12) {
                1 // a blank line inside what was generated as one run: two groups (or one, when regrouping)
            } else {
                0
            };
            elems.push(e);
            blank.push(b);
        }
    }
    Program { elems, blank }
}

/// One run of 21..34 `use` or `mod` declarations that contains a class of rank-equal twins (imports that differ only
/// in their alias; same-named modules under different `#[cfg]`s).  `slice::sort_unstable*` is an insertion sort - and
/// so keeps equal elements in order - up to 20 elements: only a longer run can show whether the sort the code calls is
/// stable, which is what "elements that rank equal keep their relative order" rests on.
fn gen_huge_program(rng: &mut Rng, modsep: bool) -> Program {
    let mut used = Used { modsep, ..Default::default() };
    let k = rng.range(21, 34);
    let mut run = if rng.chance(2, 3) {
        let twins = rng.range(2, 4);
        gen_run(rng, 'u', k, twins, 0, &mut used)
    } else {
        let mut v = gen_run(rng, 'm', k, 0, 0, &mut used);
        let i = rng.below(v.len());
        v[i].twin = Some(0);
        v[i].attrs = vec!["#[cfg(feature = \"tw\")]".to_string()];
        for j in 0..rng.range(2, 4) {
            let mut e = v[i].clone();
            e.attrs = vec![format!("#[cfg(feature = \"tw{}\")]", j)];
            v.push(e);
        }
        v
    };
    shuffle(rng, &mut run);
    let n = run.len();
    Program { elems: run, blank: vec![0; n] }
}

fn cfg_of(c: &RCfg) -> rustfmt_nightly::Config {
    pool::build_config(&c.pairs(), &None).expect("configuration")
}

fn enc_groups(gs: &[(char, usize)]) -> String {
    if gs.is_empty() {
        return "_".into();
    }
    gs.iter()
        .map(|(k, n)| match k {
            's' => "s".to_string(),
            'h' => "hang".to_string(),
            k => format!("r{}:{}", k, n),
        })
        .collect::<Vec<_>>()
        .join(";")
}

fn enc_gitems(infos: &[hi::ItemInfo]) -> String {
    if infos.is_empty() {
        return "_".into();
    }
    infos.iter().map(|i| format!("{}:{}:{}:{}:{}", i.kind, i.macro_use as u8, i.skip as u8, i.lo, i.hi)).collect::<Vec<_>>().join(";")
}

/// hook call that survives a panic of the code under test
fn split_groups(src: &str, c: &RCfg) -> Result<(Vec<hi::ItemInfo>, Vec<(char, usize)>), String> {
    let cfg = cfg_of(c);
    match std::panic::catch_unwind(std::panic::AssertUnwindSafe(|| hi::split_groups(src, &cfg))) {
        Ok(r) => r,
        Err(_) => Err("panic".into()),
    }
}

// ------------------------------------------------------------------ 4. grouping loop

fn part_groups(o: &mut Outcome, rng: &mut Rng, thorough: bool) {
    for k in 0..(if thorough { 20000 } else { 1500 }) {
        let c = RCfg::random(rng);
        let p = gen_program(rng, 5, k % 3 == 0, false, c.edition2018);
        let src = p.text();
        match split_groups(&src, &c) {
            Ok((infos, groups)) => {
                let req = format!("sort.groups {} {}", c.bits(), enc_gitems(&infos));
                o.push("corr", "sort.groups", req, enc_groups(&groups), format!("[{}] {}", crate::gen::cfg_text(&c.pairs()), enc_str(&src)), groups.len() >= 2);
                // what the parser reports of each item against what the generator wrote
                let lines = p.lines();
                o.direct_evals += 1;
                let facts_ok = infos.len() == p.elems.len() && infos.iter().zip(p.elems.iter()).zip(lines.iter()).all(|((i, e), l)| i.kind == e.kind && i.macro_use == e.macro_use && i.skip == e.skip && (i.lo, i.hi) == *l && i.reorderable_kind == e.rkind());
                if !facts_ok {
                    o.direct_failures.push(json!({"sig": "c11:item-facts", "what": "kind / #[macro_use] / skip / line range of the items as the code sees them differ from what was generated", "src": src, "seen": format!("{:?}", infos)}));
                }
                // the code's runs against the runs the generator intended
                let want: Vec<(char, usize)> = intended_groups(&p, &c).iter().map(|(k, _, n)| (*k, *n)).collect();
                o.direct_evals += 1;
                if want != groups {
                    o.direct_failures.push(json!({"sig": "c11:groups-not-as-intended", "what": "visit_items_with_reordering cut the items into other runs than blank lines / kinds / #[macro_use] / skip dictate", "src": src, "cfg": crate::gen::cfg_text(&c.pairs()), "code": enc_groups(&groups), "intended": enc_groups(&want)}));
                }
                o.count(&format!("groups:runs={}", groups.iter().filter(|g| g.0 != 's').count().min(5)));
                o.count(&format!("groups:cfg={}", c.bits()));
            }
            Err(e) => {
                o.count(&format!("groups:hook-{}", if e == "panic" { "panic" } else { "error" }));
                o.direct_failures.push(json!({"sig": format!("c11:split-groups-{}", if e == "panic" { "panic" } else { "error" }), "what": e, "src": src}));
            }
        }
    }
}

// ------------------------------------------------------------------ 5. the real formatter

/// Hand-written groups around the corners of the comparators (the empty first name of `::{..}` in
/// the UPPER class of the legacy order, leading zeros, `x86_64`, renamed crates, `self` aliases),
/// under every style edition.
fn fixed_programs() -> Vec<(Program, RCfg)> {
    let li = |v: Vec<Tree>| Seg::List(v);
    let uses = |ts: Vec<Tree>| -> Vec<Elem> {
        ts.into_iter()
            .map(|tr| {
                let mut e = blank_elem('u');
                e.tree = Some(tr);
                e
            })
            .collect()
    };
    let mods = |ns: &[&str]| -> Vec<Elem> {
        ns.iter()
            .map(|n| {
                let mut e = blank_elem('m');
                e.name = n.to_string();
                e
            })
            .collect()
    };
    let crates = |ns: &[(&str, Option<&str>)]| -> Vec<Elem> {
        ns.iter()
            .map(|(n, r)| {
                let mut e = blank_elem('e');
                e.name = n.to_string();
                e.rename = r.map(|s| s.to_string());
                e
            })
            .collect()
    };
    let groups: Vec<Vec<Elem>> = vec![
        uses(vec![t(vec![id(""), li(vec![t(vec![id("b")]), t(vec![id("a")])])]), t(vec![id("A")]), t(vec![id("a")]), t(vec![id("ZED")]), t(vec![id("::zed")])]),
        uses(vec![t(vec![id(""), Seg::Glob]), t(vec![id("Z9")]), t(vec![id("_z")]), t(vec![id("::Z9")]), t(vec![id("Zz")])]),
        uses(vec![t(vec![id("x86_64")]), t(vec![id("x86_064")]), t(vec![id("x086_64")]), t(vec![id("x86_32")]), t(vec![id("x86_128")])]),
        uses(vec![
            t(vec![id("a"), li(vec![t(vec![Seg::Slf(Some("z".into()))]), t(vec![id("b")])])]),
            t(vec![id("a"), li(vec![t(vec![Seg::Slf(None)]), t(vec![id("c")])])]),
            t(vec![id("a"), Seg::Glob]),
            t(vec![id("a")]),
            t(vec![id("a"), id("b"), id("c")]),
        ]),
        uses(vec![t(vec![id("std"), id("a1")]), t(vec![id("std"), id("a01")]), t(vec![Seg::Crate(None), id("a001")]), t(vec![id("core"), id("a_1")]), t(vec![id("A1")])]),
        mods(&["a1", "a01", "a001", "a_1", "A1"]),
        mods(&["u8", "u16", "u32", "u064", "u_8"]),
        mods(&["Ünï", "ünï", "Z", "a٣", "_a"]),
        crates(&[("a", None), ("a", Some("b")), ("b", Some("a")), ("A", None), ("a", Some("B"))]),
        crates(&[("x1", Some("y01")), ("x1", Some("y1")), ("x01", None), ("x1", None), ("x_1", Some("_"))]),
    ];
    let mut v = vec![];
    for g in groups {
        for style in [2015u16, 2021, 2024] {
            for group in [0u8, 1] {
                if group == 1 && g[0].kind != 'u' {
                    continue;
                }
                let n = g.len();
                v.push((Program { elems: g.clone(), blank: vec![0; n] }, RCfg { reorder_imports: true, reorder_modules: true, group, style, edition2018: true }));
            }
        }
    }
    v
}

struct OutItem {
    info: hi::ItemInfo,
    signature: String,
    /// the lines of the item in the output (attributes, item, trailing comment)
    chunk: String,
}

/// The items of a formatted text as the code's own parser sees them, with the same signature as
/// `Elem::signature`.
fn out_items(text: &str, c: &RCfg) -> Result<Vec<OutItem>, String> {
    let (infos, _) = split_groups(text, c)?;
    let se = match c.style { 2015 => StyleEdition::Edition2015, 2021 => StyleEdition::Edition2021, _ => StyleEdition::Edition2024 };
    let ed = if c.edition2018 { Edition::Edition2018 } else { Edition::Edition2015 };
    let raw = hi::parse_use_trees_raw(text, se, ed)?;
    let lines: Vec<&str> = text.lines().collect();
    let mut ui = 0;
    let mut v = vec![];
    for info in infos {
        if info.lo == 0 || info.hi > lines.len() || info.lo > info.hi {
            return Err("line range".into());
        }
        let ls = &lines[info.lo - 1..info.hi];
        let mut attrs = vec![];
        let mut k = 0;
        while k < ls.len() && (ls[k].trim_start().starts_with("#[") || ls[k].trim_start().starts_with("///")) {
            attrs.push(ls[k].trim().to_string());
            k += 1;
        }
        let head = ls.get(k).copied().unwrap_or("");
        let vis = if head.starts_with("pub(crate) ") { "pub(crate) " } else if head.starts_with("pub ") { "pub " } else { "" };
        let last = ls[ls.len() - 1];
        let trailing = if info.kind == 'o' { String::new() } else { last.rfind(';').map(|p| last[p + 1..].trim().to_string()).unwrap_or_default() };
        let st = match info.kind {
            'u' => {
                let r = raw.get(ui).ok_or("use tree missing")?;
                ui += 1;
                dec_tree(r).ok_or("tree encoding")?.unordered().enc()
            }
            'm' | 'e' => info.enc.clone(),
            _ => ls[k..].join("\n"),
        };
        v.push(OutItem { signature: format!("{}|{}|{}|{}", attrs.join("\\n"), vis, st, trailing), chunk: ls.join("\n"), info });
    }
    Ok(v)
}

fn bucket(t: &Tree) -> usize {
    match t.0.first() {
        Some(Seg::Ident(n, _)) if matches!(n.as_str(), "std" | "alloc" | "core") => 0,
        Some(Seg::Slf(_)) | Some(Seg::Super(_)) | Some(Seg::Crate(_)) => 2,
        _ => 1,
    }
}

struct Variant {
    case: usize,
    /// element index in each slot
    order: Vec<usize>,
    /// exact equality with the base output expected (no twin changed its relative order)
    what: &'static str,
    src: String,
}

fn shuffle_lists(rng: &mut Rng, t: &mut Tree) {
    for s in t.0.iter_mut() {
        if let Seg::List(l) = s {
            shuffle(rng, l);
            l.iter_mut().for_each(|x| shuffle_lists(rng, x));
        }
    }
}

fn part_e2e(o: &mut Outcome, rng: &mut Rng, thorough: bool) {
    let ncases = if thorough { 10000 } else { 500 };
    let mut cases: Vec<(Program, RCfg, Vec<(char, usize, usize)>)> = vec![];
    let mut variants: Vec<Variant> = vec![];
    let mut inputs: Vec<(Program, RCfg)> = fixed_programs();
    o.count_n("e2e:fixed programs", inputs.len() as u64);
    for k in 0..ncases {
        let big = k % 10 == 9;
        let mut c = RCfg::random(rng);
        let p = gen_program(rng, if big { 9 } else { 5 }, k % 3 == 1, k % 3 == 2, c.edition2018);
        if k % 4 != 3 {
            c.reorder_imports = true;
            c.reorder_modules = true;
        }
        inputs.push((p, c));
    }
    // large runs with rank-equal twins (see gen_huge_program): the only inputs on which a sort that is not stable shows
    let nhuge = if thorough { 240 } else { 24 };
    for _ in 0..nhuge {
        let mut c = RCfg::random(rng);
        c.reorder_imports = true;
        c.reorder_modules = true;
        let p = gen_huge_program(rng, c.edition2018);
        inputs.push((p, c));
    }
    o.count_n("e2e:large-run programs (>20 declarations, rank-equal twins)", nhuge as u64);
    for (k, (p, c)) in inputs.into_iter().enumerate() {
        let mut p = p;
        // a trailing comment on the last declaration of a run is a known-dirty input (probe C11b)
        for (kind, start, len) in intended_groups(&p, &c) {
            if kind != 's' && len >= 2 {
                p.elems[start + len - 1].trailing = None;
            }
        }
        let groups = intended_groups(&p, &c);
        let n = p.elems.len();
        {
            let src = p.text();
            for (key, hit) in [
                ("leading ::", src.contains("use ::")),
                ("raw identifier", src.contains("r#")),
                ("nested list", src.contains("::{")),
                ("list in list", src.matches('{').count() > src.matches("use ").count()),
                ("alias", src.contains(" as ")),
                ("alias-only twins", p.elems.iter().any(|e| e.twin.is_some())),
                ("attribute or doc comment", p.elems.iter().any(|e| !e.attrs.is_empty())),
                ("trailing comment", p.elems.iter().any(|e| e.trailing.is_some())),
                ("#[macro_use] item", p.elems.iter().any(|e| e.macro_use)),
                ("#[rustfmt::skip] item", p.elems.iter().any(|e| e.skip)),
                ("item of another kind", p.elems.iter().any(|e| e.kind == 'o')),
                ("blank line", p.blank.iter().any(|b| *b > 0)),
                ("non-ASCII name", !src.is_ascii()),
                ("digits with leading zeros", src.contains("01") || src.contains("02") || src.contains("09") || src.contains("064")),
            ] {
                if hit {
                    o.count(&format!("e2e:programs with {}", key));
                }
            }
        }
        variants.push(Variant { case: k, order: (0..n).collect(), what: "base", src: p.text() });
        for (kind, start, len) in &groups {
            let sorted = match kind {
                'u' | 'e' => c.reorder_imports,
                'm' => c.reorder_modules,
                _ => false,
            };
            if !sorted || *len < 2 {
                continue;
            }
            // a run with trailing comments keeps its last slot fixed (the element there has none)
            let anchored = p.elems[*start..start + len].iter().any(|e| e.trailing.is_some());
            let m = if anchored { len - 1 } else { *len };
            let perms: Vec<Vec<usize>> = if m <= 5 {
                permutations(m).into_iter().skip(1).collect()
            } else {
                (0..30)
                    .map(|_| {
                        let mut v: Vec<usize> = (0..m).collect();
                        shuffle(rng, &mut v);
                        v
                    })
                    .collect()
            };
            o.count(&format!("e2e:run-size={}{}", len, if anchored { "(last slot fixed)" } else { "" }));
            for perm in perms {
                let mut order: Vec<usize> = (0..n).collect();
                for (i, pi) in perm.iter().enumerate() {
                    order[start + i] = start + pi;
                }
                let q = Program { elems: order.iter().map(|i| p.elems[*i].clone()).collect(), blank: p.blank.clone() };
                variants.push(Variant { case: k, order, what: "permutation", src: q.text() });
            }
        }
        // the names inside import lists, shuffled at every depth
        // (only of imports that are part of a run: an import visited on its own - #[macro_use],
        // skipped, or with reordering and regrouping off - is printed with its lists as written)
        let in_run: Vec<usize> = groups.iter().filter(|g| g.0 == 'u').flat_map(|g| g.1..g.1 + g.2).collect();
        let with_lists: Vec<usize> = in_run.into_iter().filter(|i| p.elems[*i].tree.as_ref().unwrap().0.iter().any(|s| matches!(s, Seg::List(_)))).collect();
        if !with_lists.is_empty() {
            for _ in 0..(if thorough { 4 } else { 3 }) {
                let mut q = p.clone();
                for i in &with_lists {
                    shuffle_lists(rng, q.elems[*i].tree.as_mut().unwrap());
                }
                variants.push(Variant { case: k, order: (0..n).collect(), what: "lists shuffled", src: q.text() });
            }
        }
        cases.push((p, c, groups));
    }
    let jobs: Vec<Job> = variants.iter().map(|v| Job { src: v.src.clone(), cfg: cases[v.case].1.pairs(), file_lines: None }).collect();
    o.count_n("e2e:programs", cases.len() as u64);
    o.count_n("e2e:formatter-runs", jobs.len() as u64);
    let res = pool::run_jobs(&jobs, crate::util::jobs(), Duration::from_secs(10));
    // base outputs, analysed with the code's own parser
    let mut base: HashMap<usize, (String, Vec<OutItem>)> = HashMap::new();
    for (v, r) in variants.iter().zip(res.iter()) {
        if v.what != "base" {
            continue;
        }
        let (p, c, groups) = &cases[v.case];
        let desc = format!("[{}] {}", crate::gen::cfg_text(&c.pairs()), enc_str(&v.src));
        if r.status == Status::Timeout {
            o.count("e2e:timeout");
            continue;
        }
        if !r.clean() {
            o.count("e2e:not-clean");
            o.direct_failures.push(json!({"sig": "c11:generated-program-not-formatted", "what": format!("status {:?} flags {:?}", r.status, r.flags), "src": v.src, "cfg": crate::gen::cfg_text(&c.pairs())}));
            continue;
        }
        let items = match out_items(&r.out, c) {
            Ok(i) => i,
            Err(e) => {
                o.direct_failures.push(json!({"sig": "c11:output-not-parsed", "what": e, "src": v.src, "out": r.out}));
                continue;
            }
        };
        let n = p.elems.len();
        o.direct_evals += 1;
        if items.len() != n {
            o.direct_failures.push(json!({"sig": "c11:element-count", "what": format!("{} declarations in, {} out", n, items.len()), "src": v.src, "out": r.out, "cfg": crate::gen::cfg_text(&c.pairs())}));
            continue;
        }
        let se = match c.style { 2015 => StyleEdition::Edition2015, 2021 => StyleEdition::Edition2021, _ => StyleEdition::Edition2024 };
        let ed = if c.edition2018 { Edition::Edition2018 } else { Edition::Edition2015 };
        let (norm_in, raw_out) = match (hi::parse_use_trees(&v.src, se, ed), hi::parse_use_trees_raw(&r.out, se, ed)) {
            (Ok(a), Ok(b)) => (a, b),
            _ => {
                o.direct_failures.push(json!({"sig": "c11:hook-parse", "what": "parse_use_trees", "src": v.src}));
                continue;
            }
        };
        // use-item index of every element
        let mut uidx = vec![usize::MAX; n];
        let mut ku = 0;
        for i in 0..n {
            if p.elems[i].kind == 'u' {
                uidx[i] = ku;
                ku += 1;
            }
        }
        if norm_in.len() != ku || raw_out.len() != ku {
            o.direct_failures.push(json!({"sig": "c11:use-count", "what": "number of use items", "src": v.src, "out": r.out}));
            continue;
        }
        let mut ok = true;
        for (kind, start, len) in groups {
            let (start, len) = (*start, *len);
            let sig_in: Vec<String> = (start..start + len).map(|i| p.elems[i].signature()).collect();
            let sig_out: Vec<String> = (start..start + len).map(|i| items[i].signature.clone()).collect();
            o.direct_evals += 1;
            // blank lines in front of the run as in the input (at most one survives)
            if start > 0 {
                // (one blank line survives; after a skipped item rustfmt keeps them all)
                let gap = items[start].info.lo as i64 - items[start - 1].info.hi as i64 - 1;
                if (gap > 0) != (p.blank[start] > 0) || gap > p.blank[start] as i64 {
                    ok = false;
                    o.direct_failures.push(json!({"sig": "c11:separation-changed", "what": format!("{} blank lines before declaration {} in the input, {} lines between it and its predecessor in the output", p.blank[start], start, gap), "src": v.src, "out": r.out, "cfg": crate::gen::cfg_text(&c.pairs())}));
                }
            }
            if *kind == 's' {
                if sig_in != sig_out {
                    ok = false;
                    o.direct_failures.push(json!({"sig": "c11:single-item-changed", "what": "a declaration that is not part of a reorderable run changed or moved", "in": sig_in, "out": sig_out, "src": v.src, "out_text": r.out, "cfg": crate::gen::cfg_text(&c.pairs())}));
                }
                if p.elems[start].skip && !r.out.contains(&p.elems[start].item_text()) {
                    ok = false;
                    o.direct_failures.push(json!({"sig": "c11:skipped-item-changed", "what": "a #[rustfmt::skip] declaration is not verbatim in the output", "src": v.src, "out": r.out}));
                }
                o.count("e2e:single");
                continue;
            }
            let (mut a, mut b) = (sig_in.clone(), sig_out.clone());
            a.sort();
            b.sort();
            if a != b {
                ok = false;
                o.direct_failures.push(json!({"sig": "c11:run-multiset", "what": "the declarations of a run (with attributes, visibility, aliases, trailing comments) are not the same multiset in the output: something was lost, duplicated, detached or crossed a group boundary", "in": sig_in, "out": sig_out, "src": v.src, "out_text": r.out, "cfg": crate::gen::cfg_text(&c.pairs())}));
                continue;
            }
            let v24 = c.v();
            match kind {
                'u' => {
                    let tin: Vec<Tree> = (start..start + len).map(|i| dec_tree(&norm_in[uidx[i]]).unwrap()).collect();
                    let tout: Vec<Tree> = (start..start + len).map(|i| dec_tree(&raw_out[uidx[i]]).unwrap()).collect();
                    // the lists inside every import of the output are in the model's order (oracle:
                    // a list that the model's stable sort leaves alone is ascending)
                    for t in &tout {
                        let mut ls = vec![];
                        t.lists(&mut ls);
                        for l in ls {
                            let e = enc_trees(&l);
                            o.push("oracle", "sort.stable(list in output)", format!("sort.stable {} {}", vbit(v24), e), e.clone(), desc.clone(), l.len() >= 2);
                        }
                    }
                    let mut buckets: Vec<Vec<Tree>> = vec![vec![], vec![], vec![]];
                    if c.group == 1 {
                        for t in &tin {
                            buckets[bucket(t)].push(t.clone());
                        }
                    } else {
                        buckets[0] = tin.clone();
                    }
                    let mut pos = 0;
                    let mut first_of_bucket = vec![];
                    for bk in buckets.iter().filter(|b| !b.is_empty()) {
                        first_of_bucket.push(pos);
                        let got = &tout[pos..pos + bk.len()];
                        if c.reorder_imports {
                            o.push("corr", "sort.stable(run in output)", format!("sort.stable {} {}", vbit(v24), enc_trees(bk)), enc_trees(got), desc.clone(), bk.len() >= 2);
                        } else {
                            o.direct_evals += 1;
                            if got != &bk[..] {
                                ok = false;
                                o.direct_failures.push(json!({"sig": "c11:order-changed-without-reordering", "what": "reorder_imports is off but the imports of a group changed their order", "src": v.src, "out": r.out, "cfg": crate::gen::cfg_text(&c.pairs())}));
                            }
                        }
                        pos += bk.len();
                    }
                    // blank lines inside the run: exactly one between the std / external / crate groups
                    for j in 1..len {
                        let gap = items[start + j].info.lo as i64 - items[start + j - 1].info.hi as i64 - 1;
                        let want = first_of_bucket.contains(&j) as i64;
                        o.direct_evals += 1;
                        if gap != want {
                            ok = false;
                            o.direct_failures.push(json!({"sig": "c11:blank-lines-inside-run", "what": format!("{} blank lines before import {} of a run, expected {}", gap, j, want), "src": v.src, "out": r.out, "cfg": crate::gen::cfg_text(&c.pairs())}));
                        }
                    }
                    o.count(&format!("e2e:use-run:group_imports={}", ["Preserve", "StdExternalCrate", "One"][c.group as usize]));
                }
                _ => {
                    let iin: Vec<String> = (start..start + len).map(|i| p.elems[i].signature().split('|').nth(2).unwrap().to_string()).collect();
                    let iout: Vec<String> = (start..start + len).map(|i| items[i].info.enc.clone()).collect();
                    o.push("corr", "sort.itemsort(run in output)", format!("sort.itemsort {} {}", vbit(v24), iin.join(";")), iout.join(";"), desc.clone(), len >= 2);
                    o.count(if *kind == 'm' { "e2e:mod-run" } else { "e2e:extern-crate-run" });
                }
            }
        }
        o.count(&format!("e2e:style_edition={}", c.style));
        if ok {
            base.insert(v.case, (r.out.clone(), items));
        }
    }
    // every permutation against the base output
    for (v, r) in variants.iter().zip(res.iter()) {
        if v.what == "base" {
            continue;
        }
        let (p, c, _) = &cases[v.case];
        let (bout, bitems) = match base.get(&v.case) {
            Some(b) => b,
            None => {
                o.count("e2e:variant-without-base");
                continue;
            }
        };
        if r.status == Status::Timeout {
            o.count("e2e:timeout");
            continue;
        }
        o.direct_evals += 1;
        o.direct_distinct += 1;
        // expected text: the base output, with alias-only twins in the relative order of this input
        let mut expected = bout.clone();
        let mut twins_moved = false;
        if v.what == "permutation" {
            // output position -> element whose lines belong there
            let mut replace: HashMap<usize, usize> = HashMap::new();
            let classes: BTreeSet<usize> = p.elems.iter().filter_map(|e| e.twin).collect();
            for cl in classes {
                // elements of the class in the order of the base input / of this input
                let base_order: Vec<usize> = (0..p.elems.len()).filter(|i| p.elems[*i].twin == Some(cl)).collect();
                let this_order: Vec<usize> = v.order.iter().copied().filter(|i| p.elems[*i].twin == Some(cl)).collect();
                if base_order == this_order {
                    continue;
                }
                twins_moved = true;
                // positions of the class in the base output; they hold the class in base input order
                // (stability, checked by the model comparison of the base case)
                let sigs: Vec<String> = base_order.iter().map(|i| p.elems[*i].signature()).collect();
                let pos: Vec<usize> = (0..bitems.len()).filter(|j| sigs.contains(&bitems[*j].signature)).collect();
                for (k, j) in pos.iter().enumerate() {
                    if let Some(e) = this_order.get(k) {
                        replace.insert(*j, *e);
                    }
                }
            }
            if twins_moved {
                let chunk_of = |e: usize| bitems.iter().find(|it| it.signature == p.elems[e].signature()).map(|it| it.chunk.clone()).unwrap_or_default();
                let lines: Vec<&str> = bout.lines().collect();
                let mut out_lines: Vec<String> = vec![];
                let mut l = 1;
                while l <= lines.len() {
                    match (0..bitems.len()).find(|j| bitems[*j].info.lo == l && replace.contains_key(j)) {
                        Some(j) => {
                            out_lines.push(chunk_of(replace[&j]));
                            l = bitems[j].info.hi + 1;
                        }
                        None => {
                            out_lines.push(lines[l - 1].to_string());
                            l += 1;
                        }
                    }
                }
                expected = out_lines.join("\n") + "\n";
            }
        }
        o.count(&format!("e2e:{}{}", v.what, if twins_moved { " (twins in another relative order)" } else { "" }));
        if !r.clean() || r.out != expected {
            let sig = match (v.what, twins_moved) {
                ("permutation", false) => "c11:permutation-changes-output",
                ("permutation", true) => "c11:permutation-with-twins-changes-output",
                _ => "c11:list-order-changes-output",
            };
            o.direct_failures.push(json!({"sig": sig, "what": "two orders of the same declarations format to different texts (beyond the relative order of alias-only twins)", "cfg": crate::gen::cfg_text(&c.pairs()), "src": v.src, "out": r.out, "expected": expected, "status": format!("{:?}", r.status)}));
        }
    }
}

// ------------------------------------------------------------------ 5b. long import lists with alias-only twins

/// `use root::{n1, n2 as x, n2 as y, …};` with 21..36 names: the list the real formatter prints must be the model's
/// STABLE sort of the list as written (twins in their input order).  Lists this long are the only ones on which the
/// `list.sort()` of `UseTree::normalize` can be told from an unstable sort.
fn part_biglists(o: &mut Outcome, rng: &mut Rng, thorough: bool) {
    let n = if thorough { 400 } else { 40 };
    let mut cases: Vec<(Vec<Tree>, u16, String)> = vec![];
    for _ in 0..n {
        let k = rng.range(21, 36);
        let names = gen_names(rng, k);
        let mut l: Vec<Tree> = vec![];
        for nm in &names {
            let alias = if rng.chance(1, 6) { Some(alias_for(rng, nm)) } else { None };
            l.push(Tree(vec![Seg::Ident(nm.clone(), alias)]));
        }
        let tw = rng.pick(&names).clone();
        for j in 0..rng.range(2, 4) {
            l.push(Tree(vec![Seg::Ident(tw.clone(), Some(format!("tw{}", j)))]));
        }
        shuffle(rng, &mut l);
        let style = *rng.pick(&[2015u16, 2021, 2024, 2024]);
        let src = format!("use root::{{{}}};\n", l.iter().map(|t| t.text()).collect::<Vec<_>>().join(", "));
        cases.push((l, style, src));
    }
    let jobs: Vec<Job> = cases.iter().map(|(_, style, src)| Job { src: src.clone(), cfg: vec![("style_edition".into(), style.to_string()), ("edition".into(), "2018".into())], file_lines: None }).collect();
    let res = pool::run_jobs(&jobs, crate::util::jobs(), Duration::from_secs(10));
    for ((l, style, src), r) in cases.iter().zip(res.iter()) {
        if !r.clean() {
            o.count("biglist:not-clean-or-timeout");
            continue;
        }
        let se = match style { 2015 => StyleEdition::Edition2015, 2021 => StyleEdition::Edition2021, _ => StyleEdition::Edition2024 };
        let lout = match hi::parse_use_trees_raw(&r.out, se, Edition::Edition2018).ok().and_then(|v| if v.len() == 1 { dec_tree(&v[0]) } else { None }) {
            Some(Tree(segs)) => match segs.last() {
                Some(Seg::List(lo)) if segs.len() == 2 => lo.clone(),
                _ => {
                    o.direct_failures.push(json!({"sig": "c11:biglist-shape", "what": "the output is not `use root::{…};`", "src": src, "out": r.out}));
                    continue;
                }
            },
            None => {
                o.direct_failures.push(json!({"sig": "c11:biglist-parse", "what": "the output does not parse to one import", "src": src, "out": r.out}));
                continue;
            }
        };
        o.count("biglist:lists");
        o.push("corr", "sort.stable(long list in output)", format!("sort.stable {} {}", vbit(*style >= 2024), enc_trees(l)), enc_trees(&lout), format!("[style_edition={}] {}", style, enc_str(src)), true);
    }
}

// ------------------------------------------------------------------ 6. probes of known-dirty inputs

fn fmt_one(src: &str, cfg: &[(&str, &str)]) -> Option<String> {
    let job = Job { src: src.to_string(), cfg: cfg.iter().map(|(k, v)| (k.to_string(), v.to_string())).collect(), file_lines: None };
    let r = pool::run_jobs(&[job], 1, Duration::from_secs(10)).remove(0);
    if r.status == Status::Ok { Some(r.out) } else { None }
}

/// `fails` = the two orders of the same declarations format to different texts
fn order_probe(o: &mut Outcome, id: &str, a: &str, b: &str, cfg: &[(&str, &str)], what: &str) {
    let s1 = format!("{}\n{}\n", a, b);
    let s2 = format!("{}\n{}\n", b, a);
    if let (Some(o1), Some(o2)) = (fmt_one(&s1, cfg), fmt_one(&s2, cfg)) {
        o.probes.push(json!({"id": id, "fails": o1 != o2, "what": what, "detail": {"input_1": s1, "output_1": o1, "input_2": s2, "output_2": o2, "cfg": format!("{:?}", cfg)}}));
    }
}

fn part_probes(o: &mut Outcome) {
    let e24: &[(&str, &str)] = &[("style_edition", "2024")];
    let e21: &[(&str, &str)] = &[("style_edition", "2021")];
    let big = format!("a{}", TWO64);
    order_probe(o, "F13", &format!("use {}b;", big), &format!("use {}a;", big), e24, "style edition 2024: two imports whose names share a number >= 2^64 keep their input order");
    order_probe(o, "F13-mod", &format!("mod {}b;", big), &format!("mod {}a;", big), e24, "style edition 2024: two mod declarations whose names share a number >= 2^64 keep their input order");
    order_probe(o, "F13b", "use r#zed::a;", "use zed::a;", e24, "style edition 2024: r#zed and zed rank equal, so the two imports keep their input order");
    order_probe(o, "F13b-mod", "mod r#zed;", "mod zed;", e21, "every style edition: compare_items reads Ident::as_str, which has no r#, so mod r#zed and mod zed rank equal and keep their input order");
    order_probe(o, "F13c", "#[cfg(unix)]\nmod imp;", "#[cfg(windows)]\nmod imp;", e21, "declarations with equal sort keys that differ in attributes or visibility keep their input order");
    order_probe(o, "F13c-use", "pub use a::b;", "use a::b;", e21, "imports with equal paths that differ in visibility keep their input order");
    // comments at the two ends of a run stay where they are while the declarations move
    if let Some(out) = fmt_one("// about b\nuse b;\nuse a;\n", e21) {
        let detached = !out.contains("// about b\nuse b;");
        o.probes.push(json!({"id": "C11a", "fails": detached, "what": "a comment line above the first declaration of a run stays at the top when that declaration is sorted away", "detail": {"input": "// about b\nuse b;\nuse a;\n", "output": out}}));
    }
    if let Some(out) = fmt_one("use b;\nuse a; // about a\n", e21) {
        let detached = !out.contains("use a; // about a");
        o.probes.push(json!({"id": "C11b", "fails": detached, "what": "a trailing comment on the last declaration of a run stays at the end of the run and ends up on another declaration", "detail": {"input": "use b;\nuse a; // about a\n", "output": out}}));
    }
    // a comment line between two declarations cuts the run (line numbers are compared, comments are not blank)
    if let Some(out) = fmt_one("use z;\n// about b\nuse b;\nuse a;\n", e21) {
        let detached = !out.contains("// about b\nuse b;");
        o.probes.push(json!({"id": "C11a-inner", "fails": detached, "what": "a comment line between two declarations ends the run; the declaration below it is sorted away from its comment", "detail": {"input": "use z;\n// about b\nuse b;\nuse a;\n", "output": out}}));
    }
}
