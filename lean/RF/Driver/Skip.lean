import RF.Model.Proto
import RF.Model.Skip
import RF.Model.MacroBody
import RF.Gen.SkipSites
/-!
Line-protocol operations for the skip / opt-out core (C04).

Encodings (blank-free; identifiers are written raw, they never contain `. : ( ) | , ; # *`):
  path      segments joined by `.`; the empty path is the empty string; a leading `::` is an
            empty first segment (`.a`)
  meta      `w:<path>`                       MetaItemKind::Word
            `n:<path>`                       MetaItemKind::NameValue (the literal is irrelevant)
            `l:<path>(<nested>|<nested>|…)`  MetaItemKind::List; `l:<path>()` is the empty list
  nested    <meta> | `#`                     `#` = MetaItemInner::Lit
  attr      <meta>                           AttrKind::Normal whose arguments parse
            `x:<path>`                       AttrKind::Normal with `meta() == None`
            `d`                              AttrKind::DocComment
  attrs     `_` or attrs joined by `,`
  names     `_` or identifiers joined by `,`
  bits      a string of `0`/`1`

  skip.is_skip <meta>                  -> 0|1        utils.rs `is_skip`
  skip.contains <attrs>                -> 0|1        utils.rs `contains_skip`
  skip.names <kind> <attrs>            -> names      `get_skip_names(kind, attrs)` sorted, deduplicated
                                                     (kind `m` = macros, `a` = attributes, or any identifier)
  skip.namesvec <kind> <attrs>         -> names      the same in the order of the returned `Vec`
  skip.ctx <updates> <name>            -> 0|1        `SkipNameContext::skip(name)` after the updates, from `default()`
  skip.ctxshow <updates>               -> `*` | names (sorted, deduplicated)
       updates: `_` or `;`-joined: `a` skip_all | `e:<names>` extend | `u:*` update(All) | `u:<names>` update(Values)
  skip.filectx <selectors> <attrs> <name> -> 0|1    `skip_context.macros.skip(name)` at the start of `format_file`
       selectors (`skip_macro_invocations`): `_` or `,`-joined identifiers, `*` = MacroSelector::All;
       attrs = the crate's inner attributes
  skip.is_skip_attr <path>             -> 0|1        skip.rs `is_skip_attr`
  skip.unknown_attr <path>             -> 0|1|panic  visitor.rs `is_unknown_rustfmt_attr`
  skip.skip_attribute <updates> <attr> -> 0|1        attr.rs:335 `should_skip` with `attributes` = default + updates
  skip.file <7 bits>                   -> format|skip|echo   bits = innerSkip disableAll ignored generated
                                                     formatGenerated stdin childSkip
  skip.file_full <10 bits>             -> format|skip|echo   the 7 bits (the 7th is ignored) + skipChildren isMain mainIgnored
  skip.opted_out <7 bits>              -> 0|1        the property's condition (oracle)
  skip.generated <limit> <text hex>    -> 0|1        `is_generated_file`
  skip.trim <text hex>                 -> text hex   `str::trim`
  skip.run <src hex> <lastPos> <ops>   -> <buffer hex>:<lastPos>:<lineNumber>:<ranges> | panic
       the buffer machine from `State.init lastPos`; ops: `_` or `;`-joined
         `s:<hex>`                                   push_str
         `m:<w hex>:<end>`                           format_missing_with_indent(end) writing w
         `r:<w hex>:<lo>:<hi>:<hex or ~>`            push_rewrite(span, Some(text) | None)
         `k:<w hex>:<lo>:<hi>:<mainLo>:<attr his>`   push_skipped_with_span; attr his `_` or numbers joined by `.`
         `p`                                         the pop of imports.rs:58
         `c`                                         buffer.clear() of items.rs:740
       ranges: `_` or `lo-hi` joined by `,`
       positions index the *characters* of src (= bytes for ASCII sources, which is what the
       harness should send; `BytePos` in the code)
  skip.inv <state as printed by skip.run> -> 0|1     oracle: line_number == count_newlines(buffer)
  skip.mbody <pre hex> <armIndent hex> <bodyIndent hex> <hasBlockBody> <formatStrings> <ed2024> <substs> <ranges> <snippet hex>
                                       -> text hex   the end of `MacroBranch::rewrite` (macros.rs) from the formatted body on:
       re-indentation of every line outside `ranges` (`RF.MacroBody.reindent`), the macro variables put back
       (substs: `_` or `<old hex>:<new hex>` joined by `,`, applied in this order), `pre {` … `}` around it
  skip.reindent <bodyIndent hex> <formatStrings> <ed2024> <ranges> <snippet hex> -> text hex   the re-indentation alone
  skip.enclose <hardTabs> <tabSpaces> <formatStrings> <ed2024> <code hex> -> text hex   lib.rs `enclose_in_main_block` (whether empty
       lines are indented is read from the generated `RF.Gen.SkipSites.encloseSkipsEmptyLines`)
  skip.unwrap <hardTabs> <tabSpaces> <maxWidth> <formatStrings> <ed2024> <ranges> <formatted hex> -> <snippet hex>:<ranges> | none
       the second half of lib.rs `format_code_block`: header and closing brace cut off, ranges shifted, lines un-indented

Malformed arguments give `err`.
-/
namespace RF.Driver.Skip
open RF.Proto RF.Skip

def isDelim (c : Char) : Bool := c == '(' || c == ')' || c == '|' || c == ','

def splitOnChar (d : Char) : List Char → List (List Char)
  | [] => [[]]
  | c :: r =>
    if c == d then [] :: splitOnChar d r
    else match splitOnChar d r with
      | [] => [[c]]
      | l :: ls => (c :: l) :: ls

def decPathChars (cs : List Char) : Path := if cs.isEmpty then [] else splitOnChar '.' cs

/-- Reads a path up to the next delimiter. -/
def takePath (cs : List Char) : Path × List Char :=
  (decPathChars (cs.takeWhile (fun c => !isDelim c)), cs.dropWhile (fun c => !isDelim c))

mutual
def parseMeta : Nat → List Char → Option (MetaItem × List Char)
  | 0, _ => none
  | _ + 1, 'w' :: ':' :: r => let (p, r') := takePath r; some (.word p, r')
  | _ + 1, 'n' :: ':' :: r => let (p, r') := takePath r; some (.nameValue p, r')
  | fuel + 1, 'l' :: ':' :: r =>
    let (p, r') := takePath r
    match r' with
    | '(' :: ')' :: r'' => some (.list p [], r'')
    | '(' :: r'' =>
      match parseArgs fuel r'' with
      | some (args, rest) => some (.list p args, rest)
      | none => none
    | _ => none
  | _ + 1, _ => none
def parseNested : Nat → List Char → Option (Nested × List Char)
  | 0, _ => none
  | _ + 1, '#' :: r => some (.lit, r)
  | fuel + 1, cs =>
    match parseMeta fuel cs with
    | some (m, r) => some (.metaItem m, r)
    | none => none
/-- After `(`: one or more nested items separated by `|`, then `)`. -/
def parseArgs : Nat → List Char → Option (List Nested × List Char)
  | 0, _ => none
  | fuel + 1, cs =>
    match parseNested fuel cs with
    | none => none
    | some (n, ')' :: r) => some ([n], r)
    | some (n, '|' :: r) =>
      match parseArgs fuel r with
      | some (ns, rest) => some (n :: ns, rest)
      | none => none
    | some _ => none
end

def decMeta (s : String) : Option MetaItem :=
  let cs := s.toList
  match parseMeta (3 * cs.length + 3) cs with
  | some (m, []) => some m
  | _ => none

def metaToAttr : MetaItem → Attr
  | .word p => .normal p .empty
  | .list p l => .normal p (.list l)
  | .nameValue p => .normal p .nameValue

/-- Parses attributes separated by `,`. -/
def parseAttrs : Nat → List Char → Option (List Attr)
  | 0, _ => none
  | fuel + 1, cs =>
    let one : Option (Attr × List Char) :=
      match cs with
      | 'd' :: r => some (.doc, r)
      | 'x' :: ':' :: r => let (p, r') := takePath r; some (.normal p .bad, r')
      | _ => match parseMeta (3 * cs.length + 3) cs with
        | some (m, r) => some (metaToAttr m, r)
        | none => none
    match one with
    | none => none
    | some (a, []) => some [a]
    | some (a, ',' :: r) =>
      match parseAttrs fuel r with
      | some as => some (a :: as)
      | none => none
    | some _ => none

def decAttrs (s : String) : Option (List Attr) :=
  if s == "_" then some [] else parseAttrs (s.length + 1) s.toList

def decNames (s : String) : Option (List Name) :=
  if s == "_" then some [] else some (splitOnChar ',' s.toList)

def decKind (s : String) : Name :=
  if s == "m" then macrosName else if s == "a" then attributesName else s.toList

def ltName : List Char → List Char → Bool
  | [], [] => false
  | [], _ :: _ => true
  | _ :: _, [] => false
  | a :: as, b :: bs => a.toNat < b.toNat || (a == b && ltName as bs)

def insertName (n : Name) : List Name → List Name
  | [] => [n]
  | m :: r => if n == m then m :: r else if ltName n m then n :: m :: r else m :: insertName n r

def sortNames (ns : List Name) : List Name := ns.foldr insertName []

def encNames (ns : List Name) : String :=
  if ns.isEmpty then "_" else String.intercalate "," (ns.map String.ofList)

def bit (b : Bool) : String := if b then "1" else "0"

def decBits (n : Nat) (s : String) : Option (List Bool) :=
  let cs := s.toList
  if cs.length == n && cs.all (fun c => c == '0' || c == '1') then some (cs.map (· == '1')) else none

def applyUpdate (c : SkipNameContext) (u : String) : Option SkipNameContext :=
  match u.toList with
  | ['a'] => some c.skipAll
  | 'e' :: ':' :: r => (decNames (String.ofList r)).map c.extend
  | ['u', ':', '*'] => some (c.update .all)
  | 'u' :: ':' :: r => (decNames (String.ofList r)).map fun ns => c.update (.values ns)
  | _ => none

def decUpdates (s : String) : Option SkipNameContext :=
  if s == "_" then some .default else
  (s.splitOn ";").foldl (fun acc u => match acc with
    | some c => applyUpdate c u
    | none => none) (some .default)

def decSelectors (s : String) : Option (List MacroSelector) :=
  if s == "_" then some [] else
  some ((splitOnChar ',' s.toList).map fun n => if n == ['*'] then .all else .name n)

def encOutcome : Outcome → String
  | .format => "format"
  | .skip => "skip"
  | .echo => "echo"

def decFileCase : List Bool → Option FileCase
  | [a, b, c, d, e, f, g] => some ⟨a, b, c, d, e, f, g⟩
  | _ => none

def encRanges (rs : List (Nat × Nat)) : String :=
  if rs.isEmpty then "_" else String.intercalate "," (rs.map fun r => s!"{r.1}-{r.2}")

def encState (st : State) : String :=
  s!"{encChars st.buffer}:{st.lastPos}:{st.lineNumber}:{encRanges st.skipped}"

def decNats (s : String) : Option (List Nat) :=
  if s == "_" then some [] else (s.splitOn ".").mapM String.toNat?

def applyOp (src : List Char) (st : State) (op : String) : Option (Option State) :=
  -- outer `none` = malformed, inner `none` = panic
  match op.splitOn ":" with
  | ["s", h] => (decChars h).map fun s => some (pushStr st s)
  | ["m", w, e] => do
    let w ← decChars w
    let e ← e.toNat?
    pure (formatMissingWithIndent src st e w)
  | ["r", w, lo, hi, t] => do
    let w ← decChars w
    let lo ← lo.toNat?
    let hi ← hi.toNat?
    let rw ← if t == "~" then some none else (decChars t).map some
    pure (pushRewrite src st lo hi w rw)
  | ["k", w, lo, hi, ml, ah] => do
    let w ← decChars w
    let lo ← lo.toNat?
    let hi ← hi.toNat?
    let ml ← ml.toNat?
    let ah ← decNats ah
    pure (pushSkipped src st ah lo hi ml w)
  | ["p"] => some (popNewline st)
  | ["c"] => some (some (clearBuffer st))
  | _ => none

def runOps (src : List Char) (st : State) : List String → Option (Option State)
  | [] => some (some st)
  | op :: r =>
    match applyOp src st op with
    | none => none
    | some none => some none
    | some (some st') => runOps src st' r

def decRanges (s : String) : Option (List (Nat × Nat)) :=
  if s == "_" then some [] else
  (s.splitOn ",").mapM fun r =>
    match r.splitOn "-" with
    | [a, b] => do pure ((← a.toNat?), (← b.toNat?))
    | _ => none

def decState (s : String) : Option State :=
  match s.splitOn ":" with
  | [b, lp, ln, rs] => do
    pure ⟨(← decChars b), (← lp.toNat?), (← ln.toNat?), (← decRanges rs)⟩
  | _ => none

def orErr (o : Option String) : Option String := some (o.getD "err")

def decBit (s : String) : Option Bool :=
  if s == "1" then some true else if s == "0" then some false else none

def decSubsts (s : String) : Option (List (List Char × List Char)) :=
  if s == "_" then some [] else
  (s.splitOn ",").mapM fun r =>
    match r.splitOn ":" with
    | [a, b] => do pure ((← decChars a), (← decChars b))
    | _ => none

def handle (op : String) (args : List String) : Option String :=
  match op, args with
  | "skip.is_skip", [m] => orErr ((decMeta m).map fun m => bit (isSkip m))
  | "skip.contains", [as] => orErr ((decAttrs as).map fun as => bit (containsSkip as))
  | "skip.names", [k, as] =>
    orErr ((decAttrs as).map fun as => encNames (sortNames (getSkipNames (decKind k) as)))
  | "skip.namesvec", [k, as] =>
    orErr ((decAttrs as).map fun as => encNames (getSkipNames (decKind k) as))
  | "skip.ctx", [us, n] => orErr ((decUpdates us).map fun c => bit (c.skip n.toList))
  | "skip.ctxshow", [us] =>
    orErr ((decUpdates us).map fun c => match c with
      | .all => "*"
      | .values vs => encNames (sortNames vs))
  | "skip.filectx", [sel, as, n] => orErr do
    let sel ← decSelectors sel
    let as ← decAttrs as
    pure (bit (skipMacro (formatFileCtx sel as) n.toList))
  | "skip.is_skip_attr", [p] => some (bit (isSkipAttr (decPathChars p.toList)))
  | "skip.is_skip_attr", [] => some (bit (isSkipAttr []))
  | "skip.unknown_attr", [p] =>
    some (match isUnknownRustfmtAttr (decPathChars p.toList) with
      | some b => bit b
      | none => "panic")
  | "skip.unknown_attr", [] => some "panic"
  | "skip.skip_attribute", [us, a] => orErr do
    let c ← decUpdates us
    let as ← decAttrs a
    match as with
    | [a] => pure (bit (skipAttribute ⟨.default, c⟩ a))
    | _ => none
  | "skip.file", [b] =>
    orErr (((decBits 7 b).bind decFileCase).map fun c => encOutcome (fileDecision c))
  | "skip.file_full", [b] => orErr do
    let bs ← decBits 10 b
    let c ← decFileCase (bs.take 7)
    match bs.drop 7 with
    | [sc, im, mi] => pure (encOutcome (fileDecisionFull c sc im mi))
    | _ => none
  | "skip.opted_out", [b] =>
    orErr (((decBits 7 b).bind decFileCase).map fun c => bit (optedOut c))
  | "skip.generated", [l, t] => orErr do
    let l ← l.toNat?
    let t ← decChars t
    pure (bit (isGeneratedFile t l))
  | "skip.trim", [t] => orErr ((decChars t).map fun t => encChars (trim t))
  | "skip.run", [src, lp, ops] => orErr do
    let src ← decChars src
    let lp ← lp.toNat?
    let ops := if ops == "_" then [] else ops.splitOn ";"
    match runOps src (State.init lp) ops with
    | none => none
    | some none => pure "panic"
    | some (some st) => pure (encState st)
  | "skip.inv", [s] => orErr ((decState s).map fun st => bit (decide st.Inv))
  | "skip.mbody", [pre, ai, bi, hb, fs, ed, sub, rs, sn] => orErr do
    let pre ← decChars pre
    let ai ← decChars ai
    let bi ← decChars bi
    let hb ← decBit hb
    let fs ← decBit fs
    let ed ← decBit ed
    let sub ← decSubsts sub
    let rs ← decRanges rs
    let sn ← decChars sn
    pure (encChars (RF.MacroBody.rewriteTail pre ai bi hb ⟨fs, ed⟩ sub rs sn))
  | "skip.enclose", [ht, ts, fs, ed, code] => orErr do
    let ht ← decBit ht
    let ts ← ts.toNat?
    let fs ← decBit fs
    let ed ← decBit ed
    let code ← decChars code
    pure (encChars (RF.MacroBody.encloseInMainBlock (RF.MacroBody.levelIndent ht ts) ⟨fs, ed⟩
      RF.Gen.SkipSites.encloseSkipsEmptyLines code))
  | "skip.unwrap", [ht, ts, mw, fs, ed, rs, f] => orErr do
    let ht ← decBit ht
    let ts ← ts.toNat?
    let mw ← mw.toNat?
    let fs ← decBit fs
    let ed ← decBit ed
    let rs ← decRanges rs
    let f ← decChars f
    match RF.MacroBody.unwrapFormatted ht ts mw ⟨fs, ed⟩ f rs with
    | none => pure "none"
    | some (sn, rs') =>
      let r := if rs'.isEmpty then "_" else
        String.intercalate "," (rs'.map fun p => toString p.1 ++ "-" ++ toString p.2)
      pure (encChars sn ++ ":" ++ r)
  | "skip.reindent", [bi, fs, ed, rs, sn] => orErr do
    let bi ← decChars bi
    let fs ← decBit fs
    let ed ← decBit ed
    let rs ← decRanges rs
    let sn ← decChars sn
    pure (encChars (RF.MacroBody.reindent bi rs ⟨fs, ed⟩ sn))
  | _, _ => none

end RF.Driver.Skip
