"""Shared helpers for the source -> Lean translators.  A translator reads /repo's current source text,
emits a Lean definition under lean/RF/Gen, and REFUSES (exit 1, naming the obligation) when the source
no longer has the shape it understands; it never guesses."""
import argparse, os, re, sys


def args():
    ap = argparse.ArgumentParser()
    ap.add_argument("--repo", default="/repo")
    ap.add_argument("--out", default="/verif/lean/RF/Gen")
    return ap.parse_args()


def refuse(name, why):
    print(f"REFUSED translator:{name}: {why}")
    sys.exit(1)


def read(repo, rel, name):
    p = os.path.join(repo, rel)
    if not os.path.exists(p):
        refuse(name, f"{rel} does not exist")
    return open(p).read()


def strip_rust_comments(s):
    """remove // and /* */ comments and the contents of string literals are left alone (good enough
    for the straight-line code these translators accept; anything odd makes a later pattern fail)"""
    out = []
    i, n = 0, len(s)
    while i < n:
        if s.startswith("//", i):
            while i < n and s[i] != "\n":
                i += 1
        elif s.startswith("/*", i):
            d = 1
            i += 2
            while i < n and d > 0:
                if s.startswith("/*", i):
                    d += 1; i += 2
                elif s.startswith("*/", i):
                    d -= 1; i += 2
                else:
                    i += 1
        elif s[i] == '"':
            j = i + 1
            while j < n and s[j] != '"':
                j += 2 if s[j] == "\\" else 1
            out.append(s[i:j + 1])
            i = j + 1
        else:
            out.append(s[i])
            i += 1
    return "".join(out)


def cut_tests(s):
    """drop `#[cfg(test)] mod …` to the end of file (test modules are last in these files)"""
    m = re.search(r"#\[cfg\(test\)\]\s*mod\s+\w+\s*\{", s)
    return s[:m.start()] if m else s


def block_after(s, start):
    """text of the brace block that opens at or after index start; returns (body, end_index)"""
    i = s.index("{", start)
    d = 0
    j = i
    while j < len(s):
        if s[j] == "{":
            d += 1
        elif s[j] == "}":
            d -= 1
            if d == 0:
                return s[i + 1:j], j + 1
        j += 1
    raise ValueError("unbalanced braces")


def write_if_changed(path, text):
    os.makedirs(os.path.dirname(path), exist_ok=True)
    old = open(path).read() if os.path.exists(path) else None
    if old != text:
        open(path, "w").write(text)
        return True
    return False


def mask_literals(s):
    """replace the contents of string and char literals (and raw strings) by blanks of the same length, so
    that brace matching is not confused by `'{'` or `"}"`; lifetimes are left alone"""
    out = list(s)
    i, n = 0, len(s)
    while i < n:
        c = s[i]
        if c == 'r' and re.match(r'r#*"', s[i:i + 12]) and (i == 0 or not (s[i - 1].isalnum() or s[i - 1] == '_')):
            m = re.match(r'r(#*)"', s[i:])
            close = '"' + m.group(1)
            j = s.find(close, i + len(m.group(0)))
            j = n if j < 0 else j
            for k in range(i + len(m.group(0)), j):
                if out[k] != "\n":
                    out[k] = " "
            i = j + len(close)
        elif c == '"':
            j = i + 1
            while j < n and s[j] != '"':
                j += 2 if s[j] == "\\" else 1
            for k in range(i + 1, min(j, n)):
                if out[k] != "\n":
                    out[k] = " "
            i = j + 1
        elif c == "'":
            m = re.match(r"'(\\.[^']*|[^'\\])'", s[i:i + 12])
            if m:
                for k in range(i + 1, i + len(m.group(0)) - 1):
                    out[k] = " "
                i += len(m.group(0))
            else:
                i += 1
        else:
            i += 1
    return "".join(out)
