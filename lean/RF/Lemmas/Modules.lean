import RF.Model.Modules
/-!
Lemmas about the module resolver model (`RF/Model/Modules.lean`), property C13.

Structure of the main proof (`resolver_computes_closure`):
1. `findExternalModule_plain`: without `cfg_attr(path)` the literal `find_external_module` is
   "locate, then the already-parsed check, then load".
2. `visit_flatten`: the walk over a tree of declarations with directory save/restore equals a
   left fold (`foldOut`) over the flat list of located declarations (`scanItems`).
3. `foldOut_spec` / `exploreFile_contract`: that fold, with recursion into loaded files, is a
   depth-first search with a visited set; the usual white/grey/black invariant (`Inv`) shows that it
   computes the closure `Reach` and reports only errors the specification has.
-/
namespace RF.Lemmas.Modules
open RF.Modules

/-! ## Induction over declaration trees -/

theorem decl_ind {P : Decl → Prop} {Q : List Decl → Prop}
    (h1 : ∀ n a, P (.ext n a)) (h2 : ∀ n a is, Q is → P (.inline n a is))
    (h3 : Q []) (h4 : ∀ d ds, P d → Q ds → Q (d :: ds)) : (∀ d, P d) ∧ (∀ ds, Q ds) :=
  ⟨fun d => Decl.rec (motive_1 := P) (motive_2 := Q) h1 h2 h3 h4 d,
   fun ds => Decl.rec_1 (motive_1 := P) (motive_2 := Q) h1 h2 h3 h4 ds⟩

/-! ## Paths and nodes -/

theorem nodeAt_nil (fs : FS) : nodeAt fs [] = none := by simp [nodeAt]

theorem nodeAt_root (fs : FS) : nodeAt fs [rootComp] = some .dir := by
  simp [nodeAt, normAux, nodeNorm, rootComp, dot, dotdot]

/-- A path at which a file sits has a parent: `mod_path.parent().unwrap()` cannot panic. -/
theorem parent_of_file {fs : FS} {p : Path} {s g items}
    (h : nodeAt fs p = some (.file s g items)) : ∃ d, parent p = some d := by
  unfold parent
  split
  · rename_i hp
    rcases hp with hp | hp
    · subst hp; simp [nodeAt_nil] at h
    · subst hp; simp [nodeAt_root] at h
  · exact ⟨_, rfl⟩

theorem dirOf_of_parent {p : Path} {d : Path} (own : Ownership) (h : parent p = some d) :
    dirOf p own = ⟨d, own⟩ := by simp [dirOf, h]

/-! ## The file map has one entry per key -/

theorem keys_insertIfAbsent (m : List (FileName × Mod)) (k : FileName) (v : Mod) :
    keys (insertIfAbsent m k v) = if k ∈ keys m then keys m else keys m ++ [k] := by
  unfold insertIfAbsent
  split <;> simp [keys]

theorem mem_insertIfAbsent {m : List (FileName × Mod)} {k : FileName} {v : Mod}
    {e : FileName × Mod} (h : e ∈ insertIfAbsent m k v) : e ∈ m ∨ e = (k, v) := by
  unfold insertIfAbsent at h
  split at h
  · exact Or.inl h
  · simpa using h

theorem mem_insertReplace {m : List (FileName × Mod)} {k : FileName} {v : Mod}
    {e : FileName × Mod} (h : e ∈ insertReplace m k v) : e ∈ m ∨ e = (k, v) := by
  induction m with
  | nil => simp [insertReplace] at h; exact Or.inr h
  | cons x rest ih =>
    obtain ⟨k', v'⟩ := x
    unfold insertReplace at h
    split at h
    · rcases List.mem_cons.1 h with h | h
      · exact Or.inr h
      · exact Or.inl (List.mem_cons_of_mem _ h)
    · rcases List.mem_cons.1 h with h | h
      · exact Or.inl (h ▸ List.mem_cons_self)
      · rcases ih h with h | h
        · exact Or.inl (List.mem_cons_of_mem _ h)
        · exact Or.inr h

theorem nodup_insertIfAbsent {m : List (FileName × Mod)} (k : FileName) (v : Mod)
    (h : (keys m).Nodup) : (keys (insertIfAbsent m k v)).Nodup := by
  rw [keys_insertIfAbsent]
  split
  · exact h
  · rename_i hk
    rw [List.nodup_append]
    refine ⟨h, by simp, ?_⟩
    intro a ha b hb
    simp at hb
    subst hb
    intro hab
    subst hab
    exact hk ha

theorem mem_keys_insertReplace (m : List (FileName × Mod)) (k : FileName) (v : Mod) (x : FileName) :
    x ∈ keys (insertReplace m k v) ↔ x = k ∨ x ∈ keys m := by
  induction m with
  | nil => simp [insertReplace, keys]
  | cons e rest ih =>
    obtain ⟨k', v'⟩ := e
    unfold insertReplace
    split
    · rename_i hk
      subst hk
      simp [keys]
    · simp only [keys, List.map_cons, List.mem_cons] at ih ⊢
      rw [ih]
      constructor
      · rintro (h | h | h)
        · exact Or.inr (Or.inl h)
        · exact Or.inl h
        · exact Or.inr (Or.inr h)
      · rintro (h | h | h)
        · exact Or.inr (Or.inl h)
        · exact Or.inl h
        · exact Or.inr (Or.inr h)

theorem nodup_insertReplace {m : List (FileName × Mod)} (k : FileName) (v : Mod)
    (h : (keys m).Nodup) : (keys (insertReplace m k v)).Nodup := by
  induction m with
  | nil => simp [insertReplace, keys]
  | cons e rest ih =>
    obtain ⟨k', v'⟩ := e
    have h' : k' ∉ keys rest ∧ (keys rest).Nodup := by simpa [keys] using h
    unfold insertReplace
    split
    · rename_i hk
      subst hk
      simpa [keys] using h
    · rename_i hk
      have := ih h'.2
      simp only [keys, List.map_cons, List.nodup_cons]
      refine ⟨?_, this⟩
      intro hmem
      have := (mem_keys_insertReplace rest k v k').1 hmem
      rcases this with h1 | h1
      · exact hk h1
      · exact h'.1 h1

theorem nodup_insertSubMod {m : List (FileName × Mod)} (kind : SubModKind)
    (h : (keys m).Nodup) : (keys (insertSubMod m kind)).Nodup := by
  cases kind with
  | external p own sub => exact nodup_insertIfAbsent _ _ h
  | internal => exact h
  | multiExternal mods =>
    unfold insertSubMod
    induction mods generalizing m with
    | nil => exact h
    | cons e rest ih => exact ih (nodup_insertIfAbsent _ _ h)

/-- A generic preservation lemma for the walk: a property of the file map that every insertion
preserves and the recursion preserves is preserved by the whole walk. -/
theorem visit_preserves (fs : FS) (rec : RecFn) (I : List (FileName × Mod) → Prop)
    (hins : ∀ m kind, I m → I (insertSubMod m kind))
    (hrec : ∀ st p items st', I st.fileMap → rec st p items = .ok st' → I st'.fileMap) (cur : FileName) :
    (∀ d : Decl, ∀ st st', I st.fileMap → visitSubModW fs rec cur st d = .ok st' → I st'.fileMap) ∧
    (∀ ds : List Decl, ∀ st st', I st.fileMap → visitItemsW fs rec cur st ds = .ok st' →
      I st'.fileMap) := by
  have hmulti : ∀ mods st st', I st.fileMap → visitMulti rec st mods = .ok st' → I st'.fileMap := by
    intro mods
    induction mods with
    | nil => intro st st' h e; simp [visitMulti] at e; subst e; exact h
    | cons e rest ih =>
      intro st st' h hv
      obtain ⟨p, own, m⟩ := e
      simp only [visitMulti] at hv
      split at hv
      · cases hv
      · split at hv
        · cases hv
        · rename_i st1 hr
          refine ih _ _ (hrec _ _ _ _ ?_ hr) hv
          exact h
  apply decl_ind
  · intro name attrs st st' h hv
    rw [visitSubModW] at hv
    split at hv
    · cases hv; exact h
    · split at hv
      · cases hv
      · cases hv; exact h
      · rename_i kind parsed _
        split at hv
        · split at hv
          · cases hv
          · split at hv
            · cases hv
            · rename_i st2 hr
              cases hv
              have h2 := hrec _ _ _ _ ?_ hr
              · exact h2
              · dsimp only
                exact hins _ _ h
        · split at hv
          · cases hv
          · rename_i st2 hr
            cases hv
            have h2 := hmulti _ _ _ ?_ hr
            · exact h2
            · dsimp only
              exact hins _ _ h
        · cases hv
          exact hins _ SubModKind.internal h
  · intro name attrs items ih st st' h hv
    rw [visitSubModW] at hv
    split at hv
    · cases hv; exact h
    · split at hv
      · cases hv
      · rename_i st2 hr
        cases hv
        have h2 := ih _ _ ?_ hr
        · exact h2
        · exact h
  · intro st st' h hv
    rw [visitItemsW] at hv
    cases hv; exact h
  · intro d ds ihd ihds st st' h hv
    rw [visitItemsW] at hv
    split at hv
    · cases hv
    · rename_i st1 hr
      exact ihds _ _ (ihd _ _ h hr) hv

theorem visitFile_preserves (fs : FS) (I : List (FileName × Mod) → Prop)
    (hins : ∀ m kind, I m → I (insertSubMod m kind)) :
    ∀ n st p items st', I st.fileMap → visitFile fs n st p items = .ok st' → I st'.fileMap := by
  intro n
  induction n with
  | zero =>
    intro st p items st' h hv
    cases items with
    | nil => simp [visitFile] at hv; subst hv; exact h
    | cons a b => simp [visitFile] at hv
  | succ n ih =>
    intro st p items st' h hv
    exact (visit_preserves fs (visitFile fs n) I hins ih (.real p)).2 items st st' h hv

/-- **each_file_once**: the map returned by `visit_crate` has no duplicate key, whatever the
declarations (including `cfg_attr(path)`), the tree and the number of routes to a file. -/
theorem visitCrate_nodup (fs : FS) (fuel : Nat) (rootName : FileName) (rootSkip : Bool)
    (rootItems : List Decl) (own : Ownership) (recursive : Bool) (m : List (FileName × Mod))
    (h : visitCrate fs fuel rootName rootSkip rootItems own recursive = .ok m) :
    (keys m).Nodup := by
  unfold visitCrate at h
  simp only at h
  split at h
  · cases h
  · rename_i st hw
    cases h
    apply nodup_insertReplace
    split at hw
    · exact (visit_preserves fs (visitFile fs fuel) (fun m => (keys m).Nodup)
        (fun m kind h => nodup_insertSubMod kind h)
        (visitFile_preserves fs (fun m => (keys m).Nodup)
          (fun m kind h => nodup_insertSubMod kind h) fuel) rootName).2
        rootItems _ st (by simp [keys]) hw
    · cases hw
      simp [keys]

/-! ## The directory is restored -/

theorem visitSubModW_dir (fs : FS) (rec : RecFn) (cur : FileName) (st st' : St) (d : Decl)
    (h : visitSubModW fs rec cur st d = .ok st') : st'.dir = st.dir := by
  cases d with
  | ext name attrs =>
    rw [visitSubModW] at h
    split at h
    · cases h; rfl
    · split at h
      · cases h
      · cases h; rfl
      · split at h
        · split at h
          · cases h
          · split at h
            · cases h
            · cases h; rfl
        · split at h
          · cases h
          · cases h; rfl
        · cases h; rfl
  | inline name attrs items =>
    rw [visitSubModW] at h
    split at h
    · cases h; rfl
    · split at h
      · cases h
      · cases h; rfl

theorem visitItemsW_dir (fs : FS) (rec : RecFn) (cur : FileName) (ds : List Decl) :
    ∀ (st st' : St), visitItemsW fs rec cur st ds = .ok st' → st'.dir = st.dir := by
  induction ds with
  | nil => intro st st' h; rw [visitItemsW] at h; cases h; rfl
  | cons d ds ih =>
    intro st st' h
    rw [visitItemsW] at h
    split at h
    · cases h
    · rename_i st1 h1
      rw [ih _ _ h, visitSubModW_dir _ _ _ _ _ _ h1]

/-! ## Declarations without `cfg_attr(path)` -/

/-- Every file of the tree on disk is free of `cfg_attr(path)`. -/
def fsPlain (fs : FS) : Prop :=
  ∀ p s g items, nodeAt fs p = some (.file s g items) → itemsPlain items = true

theorem pathVisitorPaths_plain {attrs : List Attr} (h : attrsPlain attrs = true)
    (hp : findPathValue attrs = none) : pathVisitorPaths attrs = [] := by
  induction attrs with
  | nil => rfl
  | cons a rest ih =>
    cases a with
    | path s => simp [findPathValue] at hp
    | skip =>
      simp only [pathVisitorPaths]
      exact ih (by simpa [attrsPlain] using h) (by simpa [findPathValue] using hp)
    | cfgAttrPath s => simp [attrsPlain] at h

/-- `find_external_module` without `cfg_attr(path)`: locate, already-parsed check, load. -/
def extStep (fs : FS) (dir : Directory) (parsed : List Path) (name : Comp) (attrs : List Attr) :
    Except ErrKind (Option SubModKind) × List Path :=
  match locate fs dir name attrs with
  | .failed k => (.error k, parsed)
  | .located p own via =>
    if p ∈ parsed then (.ok none, parsed)
    else match nodeAt fs p with
      | some (.file true _ _) => (.ok none, p :: parsed)
      | some (.file false _ items) =>
        (.ok (some (.external p own (loadedMod p items))), p :: parsed)
      | some .dir => (.error .parse, parsed)
      | none => (.error (if via then .pathattr else .notfound), parsed)

theorem findExternalModule_plain (fs : FS) (dir : Directory) (parsed : List Path) (cur : FileName)
    (name : Comp) (attrs : List Attr) (h : attrsPlain attrs = true) :
    findExternalModule fs dir parsed cur name attrs = extStep fs dir parsed name attrs := by
  unfold findExternalModule extStep locate
  cases hp : submodPathFromAttr attrs dir.path with
  | some path =>
    simp only
    split
    · rfl
    · unfold parseFileAsModule
      cases hn : nodeAt fs path with
      | none => simp
      | some n =>
        cases n with
        | dir => simp
        | file s g items => cases s <;> simp
  | none =>
    have hfp : findPathValue attrs = none := by
      unfold submodPathFromAttr at hp
      split at hp
      · cases hp
      · assumption
    simp only [pathVisitorPaths_plain h hfp, findModsOutsideOfAst]
    cases hd : defaultSubmodPath fs name
        (match dir.ownership with
          | .owned r => r
          | .unownedViaBlock => none) dir.path with
    | error e => cases e <;> simp
    | ok r =>
      obtain ⟨filePath, own⟩ := r
      simp only [List.isEmpty_nil, List.any_nil, Bool.not_false, if_true, List.nil_append]
      split
      · rfl
      · unfold parseFileAsModule
        cases hn : nodeAt fs filePath with
        | none => simp
        | some n =>
          cases n with
          | dir => simp
          | file s g items => cases s <;> simp

/-! ## The walk as a fold over located declarations -/

/-- `parsed` and `file_map`: the state without the directory. -/
structure Core where
  parsed : List Path
  fileMap : List (FileName × Mod)

def core (st : St) : Core := ⟨st.parsed, st.fileMap⟩

def mapCore : Except ErrKind St → Except ErrKind Core
  | .ok st => .ok (core st)
  | .error e => .error e

/-- Recursion into a loaded file on `Core`: state, file, ownership, items. -/
abbrev RecC := Core → Path → Ownership → List Decl → Except ErrKind Core

/-- Process located declarations in order: skip what is already parsed, load the rest. -/
def foldOut (fs : FS) (recC : RecC) : Core → List Loc → Except ErrKind Core
  | c, [] => .ok c
  | _, .failed k :: _ => .error k
  | c, .located p own via :: ls =>
    if p ∈ c.parsed then foldOut fs recC c ls
    else match nodeAt fs p with
      | none => .error (if via then .pathattr else .notfound)
      | some .dir => .error .parse
      | some (.file true _ _) => foldOut fs recC ⟨p :: c.parsed, c.fileMap⟩ ls
      | some (.file false _ items) =>
        match recC ⟨p :: c.parsed, insertIfAbsent c.fileMap (.real p) (loadedMod p items)⟩
            p own items with
        | .error e => .error e
        | .ok c' => foldOut fs recC c' ls

theorem foldOut_append (fs : FS) (recC : RecC) (l₁ l₂ : List Loc) :
    ∀ c, foldOut fs recC c (l₁ ++ l₂) =
      match foldOut fs recC c l₁ with
      | .error e => .error e
      | .ok c' => foldOut fs recC c' l₂ := by
  induction l₁ with
  | nil => intro c; simp [foldOut]
  | cons l ls ih =>
    intro c
    cases l with
    | failed k => simp [foldOut]
    | located p own via =>
      simp only [List.cons_append, foldOut]
      split
      · exact ih _
      · split
        · rfl
        · rfl
        · exact ih _
        · split
          · rfl
          · exact ih _

/-- `rec` (on `St`, directory set by the caller) and `recC` (on `Core`) are the same function. -/
def Link (rec : RecFn) (recC : RecC) : Prop :=
  ∀ (c : Core) (p : Path) (own : Ownership) (items : List Decl) (d : Path),
    itemsPlain items = true → parent p = some d →
    mapCore (rec ⟨⟨d, own⟩, c.parsed, c.fileMap⟩ p items) = recC c p own items

theorem visit_flatten (fs : FS) (hfs : fsPlain fs) (rec : RecFn) (recC : RecC)
    (hlink : Link rec recC) (cur : FileName) :
    (∀ d : Decl, declPlain d = true → ∀ st,
      mapCore (visitSubModW fs rec cur st d) = foldOut fs recC (core st) (scanDecl true fs st.dir d)) ∧
    (∀ ds : List Decl, itemsPlain ds = true → ∀ st,
      mapCore (visitItemsW fs rec cur st ds) =
        foldOut fs recC (core st) (scanItems true fs st.dir ds)) := by
  apply decl_ind
  · intro name attrs hpl st
    rw [visitSubModW, scanDecl]
    split
    · simp [mapCore, foldOut, core]
    · rw [findExternalModule_plain _ _ _ _ _ _ (by simpa [declPlain] using hpl)]
      unfold extStep
      cases hl : locate fs st.dir name attrs with
      | failed k => simp [mapCore, foldOut]
      | located p own via =>
        simp only [foldOut, core]
        by_cases hmem : p ∈ st.parsed
        · simp [hmem, mapCore, core]
        · simp only [hmem, if_false]
          cases hn : nodeAt fs p with
          | none => simp [mapCore]
          | some n =>
            cases n with
            | dir => simp [mapCore]
            | file s g items =>
              cases s with
              | true => simp [mapCore, core]
              | false =>
                obtain ⟨d, hd⟩ := parent_of_file hn
                have hl := hlink ⟨p :: st.parsed,
                  insertIfAbsent st.fileMap (.real p) (loadedMod p items)⟩ p own items d
                  (hfs _ _ _ _ hn) hd
                simp only [hd, insertSubMod, loadedMod] at hl ⊢
                rw [← hl]
                cases rec _ p items with
                | error e => simp [mapCore]
                | ok st2 => simp [mapCore, core]
  · intro name attrs items ih hpl st
    rw [visitSubModW, scanDecl]
    split
    · simp [mapCore, foldOut, core]
    · have := ih (by simpa [declPlain] using hpl)
        { st with dir := pushInlineModDirectory true fs st.dir name attrs }
      simp only [core] at this ⊢
      rw [← this]
      cases visitItemsW fs rec cur _ items with
      | error e => simp [mapCore]
      | ok st2 => simp [mapCore, core]
  · intro _ st
    simp [visitItemsW, scanItems, foldOut, mapCore]
  · intro d ds ihd ihds hpl st
    have hpl' : declPlain d = true ∧ itemsPlain ds = true := by simpa [itemsPlain] using hpl
    rw [visitItemsW, scanItems, foldOut_append, ← ihd hpl'.1 st]
    cases hv : visitSubModW fs rec cur st d with
    | error e => simp [mapCore]
    | ok st1 =>
      have h2 := ihds hpl'.2 st1
      rw [visitSubModW_dir _ _ _ _ _ _ hv] at h2
      simpa [mapCore] using h2

/-- The resolver on `Core`: depth-first search over located declarations. -/
def exploreFile (fs : FS) : Nat → RecC
  | 0 => fun c _ _ items =>
    match items with
    | [] => .ok c
    | _ :: _ => .error .fuel
  | n + 1 => fun c p own items =>
    foldOut fs (exploreFile fs n) c (scanItems true fs (dirOf p own) items)

theorem visitFile_link (fs : FS) (hfs : fsPlain fs) :
    ∀ n, Link (visitFile fs n) (exploreFile fs n) := by
  intro n
  induction n with
  | zero =>
    intro c p own items d _ _
    cases items <;> simp [visitFile, exploreFile, mapCore, core]
  | succ n ih =>
    intro c p own items d hpl hd
    simp only [visitFile, exploreFile]
    rw [(visit_flatten fs hfs _ _ ih (.real p)).2 items hpl, dirOf_of_parent own hd]
    rfl

/-! ## Depth-first search computes the closure -/

section dfs
variable (fs : FS) (R : Ctx)

/-- A located declaration has been taken care of: its target is in the source map. -/
def Handled (c : Core) (l : Loc) : Prop :=
  ∃ p own via, l = .located p own via ∧ p ∈ c.parsed

theorem Handled.mono {c c' : Core} {l : Loc} (h : Handled c l) (hsub : c.parsed ⊆ c'.parsed) :
    Handled c' l := by
  obtain ⟨p, own, via, rfl, hp⟩ := h
  exact ⟨p, own, via, rfl, hsub hp⟩

/-- The invariant of the search. `G` is the set of files whose declarations are still being
processed (grey); everything else in the source map is finished (black). -/
structure Inv (c : Core) (G : List Path) : Prop where
  rootIn : R.path ∈ c.parsed
  files : ∀ p ∈ c.parsed, ∃ s g items, nodeAt fs p = some (.file s g items)
  sound : ∀ p ∈ c.parsed, (∃ own, Reach true fs R ⟨p, own⟩) ∨
    (∃ g items, nodeAt fs p = some (.file true g items))
  keys : ∀ k, k ∈ keys c.fileMap ↔ ∃ p, k = .real p ∧ p ∈ c.parsed ∧ LiveFile fs p ∧ p ≠ R.path
  closed : ∀ p ∈ c.parsed, p ∉ G → ∀ own, Reach true fs R ⟨p, own⟩ →
    ∀ l ∈ ctxLocs true fs ⟨p, own⟩, Handled c l
  modsOk : ∀ e ∈ c.fileMap, e.2.spanFile = e.1 ∧ e.2.innerSkip = false

theorem reach_live {probe : Bool} {c : Ctx} (h : Reach probe fs R c) : c = R ∨ LiveFile fs c.path := by
  cases h with
  | root => exact Or.inl rfl
  | step _ _ hl => exact Or.inr hl

/-- What the recursion into a file must deliver. -/
def Contract (recC : RecC) : Prop :=
  ∀ (c : Core) (G : List Path) (p : Path) (own : Ownership) (s g : Bool) (items : List Decl),
    Inv fs R c G → p ∈ c.parsed → p ∈ G → nodeAt fs p = some (.file s g items) →
    Reach true fs R ⟨p, own⟩ →
    match recC c p own items with
    | .ok c' => Inv fs R c' G ∧ c.parsed ⊆ c'.parsed ∧ ∀ l ∈ ctxLocs true fs ⟨p, own⟩, Handled c' l
    | .error k => k = .fuel ∨ SpecErr true fs R k

theorem ctxLocs_of_node {probe : Bool} {p : Path} {own : Ownership} {s g items}
    (h : nodeAt fs p = some (.file s g items)) :
    ctxLocs probe fs ⟨p, own⟩ = scanItems probe fs (dirOf p own) items := by
  simp [ctxLocs, itemsAt, h]

theorem foldOut_spec (huniq : UniqueOwnership true fs R) (recC : RecC) (hrec : Contract fs R recC)
    (src : Ctx) (hsrc : Reach true fs R src) :
    ∀ (ls : List Loc) (c : Core) (G : List Path), Inv fs R c G →
      (∀ l ∈ ls, l ∈ ctxLocs true fs src) →
      match foldOut fs recC c ls with
      | .ok c' => Inv fs R c' G ∧ c.parsed ⊆ c'.parsed ∧ ∀ l ∈ ls, Handled c' l
      | .error k => k = .fuel ∨ SpecErr true fs R k := by
  intro ls
  induction ls with
  | nil =>
    intro c G hinv _
    simp only [foldOut]
    exact ⟨hinv, fun _ h => h, by simp⟩
  | cons l ls ih =>
    intro c G hinv hls
    have hl : l ∈ ctxLocs true fs src := hls l (by simp)
    have hls' : ∀ l ∈ ls, l ∈ ctxLocs true fs src := fun x hx => hls x (by simp [hx])
    cases l with
    | failed k =>
      simp only [foldOut]
      exact Or.inr ⟨src, _, hsrc, hl, rfl⟩
    | located p own via =>
      simp only [foldOut]
      by_cases hmem : p ∈ c.parsed
      · simp only [hmem, if_true]
        have := ih c G hinv hls'
        split at this
        · rename_i c' heq
          refine ⟨this.1, this.2.1, ?_⟩
          intro x hx
          rcases List.mem_cons.1 hx with rfl | hx
          · exact ⟨p, own, via, rfl, this.2.1 hmem⟩
          · exact this.2.2 x hx
        · rename_i k heq
          exact this
      · simp only [hmem, if_false]
        have hpR : p ≠ R.path := fun h => hmem (h ▸ hinv.rootIn)
        cases hn : nodeAt fs p with
        | none =>
          exact Or.inr ⟨src, _, hsrc, hl, by simp [locErr, hn]⟩
        | some n =>
          cases n with
          | dir => exact Or.inr ⟨src, _, hsrc, hl, by simp [locErr, hn]⟩
          | file s g items =>
            cases s with
            | true =>
              simp only
              -- a skipped file: parsed, nothing else
              have hinv1 : Inv fs R ⟨p :: c.parsed, c.fileMap⟩ G := by
                refine ⟨?_, ?_, ?_, ?_, ?_, ?_⟩
                · exact List.mem_cons_of_mem _ hinv.rootIn
                · intro q hq
                  rcases List.mem_cons.1 hq with rfl | hq
                  · exact ⟨_, _, _, hn⟩
                  · exact hinv.files q hq
                · intro q hq
                  rcases List.mem_cons.1 hq with rfl | hq
                  · exact Or.inr ⟨_, _, hn⟩
                  · exact hinv.sound q hq
                · intro k
                  rw [hinv.keys k]
                  constructor
                  · rintro ⟨q, rfl, hq, hlive, hne⟩
                    exact ⟨q, rfl, List.mem_cons_of_mem _ hq, hlive, hne⟩
                  · rintro ⟨q, rfl, hq, hlive, hne⟩
                    rcases List.mem_cons.1 hq with rfl | hq
                    · obtain ⟨g', items', hlive⟩ := hlive
                      rw [hn] at hlive
                      cases hlive
                    · exact ⟨q, rfl, hq, hlive, hne⟩
                · intro q hq hqG own' hreach l' hl'
                  rcases List.mem_cons.1 hq with rfl | hq
                  · rcases reach_live fs R hreach with h | h
                    · exact absurd (congrArg Ctx.path h) hpR
                    · obtain ⟨g', items', hlive⟩ := h
                      rw [hn] at hlive
                      cases hlive
                  · exact (hinv.closed q hq hqG own' hreach l' hl').mono
                      (List.subset_cons_self _ _)
                · exact hinv.modsOk
              have := ih _ G hinv1 hls'
              split at this
              · rename_i c' heq
                have hsub : c.parsed ⊆ c'.parsed :=
                  fun x hx => this.2.1 (List.mem_cons_of_mem _ hx)
                refine ⟨this.1, hsub, ?_⟩
                intro x hx
                rcases List.mem_cons.1 hx with rfl | hx
                · exact ⟨p, own, via, rfl, this.2.1 (by simp)⟩
                · exact this.2.2 x hx
              · rename_i k heq
                exact this
            | false =>
              simp only
              have hreach : Reach true fs R ⟨p, own⟩ := Reach.step hsrc hl ⟨g, items, hn⟩
              have hnotkey : FileName.real p ∉ keys c.fileMap := by
                intro hk
                obtain ⟨q, hq, hqm, _⟩ := (hinv.keys _).1 hk
                cases hq
                exact hmem hqm
              have hinv1 : Inv fs R
                  ⟨p :: c.parsed, insertIfAbsent c.fileMap (.real p) (loadedMod p items)⟩
                  (p :: G) := by
                refine ⟨?_, ?_, ?_, ?_, ?_, ?_⟩
                · exact List.mem_cons_of_mem _ hinv.rootIn
                · intro q hq
                  rcases List.mem_cons.1 hq with rfl | hq
                  · exact ⟨_, _, _, hn⟩
                  · exact hinv.files q hq
                · intro q hq
                  rcases List.mem_cons.1 hq with rfl | hq
                  · exact Or.inl ⟨own, hreach⟩
                  · exact hinv.sound q hq
                · intro k
                  rw [keys_insertIfAbsent, if_neg hnotkey]
                  simp only [List.mem_append, List.mem_singleton, hinv.keys k]
                  constructor
                  · rintro (⟨q, rfl, hq, hlive, hne⟩ | rfl)
                    · exact ⟨q, rfl, List.mem_cons_of_mem _ hq, hlive, hne⟩
                    · exact ⟨p, rfl, by simp, ⟨g, items, hn⟩, hpR⟩
                  · rintro ⟨q, rfl, hq, hlive, hne⟩
                    rcases List.mem_cons.1 hq with rfl | hq
                    · exact Or.inr rfl
                    · exact Or.inl ⟨q, rfl, hq, hlive, hne⟩
                · intro q hq hqG own' hreach' l' hl'
                  have hqp : q ≠ p := fun h => hqG (h ▸ List.mem_cons_self)
                  rcases List.mem_cons.1 hq with rfl | hq
                  · exact absurd rfl hqp
                  · exact (hinv.closed q hq (fun h => hqG (List.mem_cons_of_mem _ h)) own' hreach'
                      l' hl').mono (List.subset_cons_self _ _)
                · intro e he
                  rcases mem_insertIfAbsent he with he | he
                  · exact hinv.modsOk e he
                  · subst he
                    exact ⟨rfl, rfl⟩
              have hc := hrec _ (p :: G) p own false g items hinv1 (by simp) (by simp) hn hreach
              split at hc
              · rename_i c2 heq
                rw [heq]
                dsimp only
                obtain ⟨hinv2, hsub2, hhandled⟩ := hc
                -- p is finished: close it
                have hinv2' : Inv fs R c2 G := by
                  refine ⟨hinv2.rootIn, hinv2.files, hinv2.sound, hinv2.keys, ?_, hinv2.modsOk⟩
                  intro q hq hqG own' hreach' l' hl'
                  by_cases hqp : q = p
                  · subst hqp
                    have : own' = own := huniq ⟨q, own'⟩ ⟨q, own⟩ hreach' hreach rfl
                    subst this
                    exact hhandled l' hl'
                  · exact hinv2.closed q hq (by simp [hqp, hqG]) own' hreach' l' hl'
                have := ih c2 G hinv2' hls'
                split at this
                · rename_i c' heq'
                  have hsub : c.parsed ⊆ c'.parsed :=
                    fun x hx => this.2.1 (hsub2 (List.mem_cons_of_mem _ hx))
                  refine ⟨this.1, hsub, ?_⟩
                  intro x hx
                  rcases List.mem_cons.1 hx with rfl | hx
                  · exact ⟨p, own, via, rfl, this.2.1 (hsub2 (by simp))⟩
                  · exact this.2.2 x hx
                · rename_i k heq'
                  exact this
              · rename_i k heq
                rw [heq]
                exact hc

theorem exploreFile_contract (huniq : UniqueOwnership true fs R) :
    ∀ n, Contract fs R (exploreFile fs n) := by
  intro n
  induction n with
  | zero =>
    intro c G p own s g items hinv _ _ hn _
    cases items with
    | nil =>
      simp only [exploreFile]
      refine ⟨hinv, fun _ h => h, ?_⟩
      rw [ctxLocs_of_node fs hn]
      simp [scanItems]
    | cons a b => simp [exploreFile]
  | succ n ih =>
    intro c G p own s g items hinv _ _ hn hreach
    simp only [exploreFile]
    have := foldOut_spec fs R huniq _ ih ⟨p, own⟩ hreach
      (scanItems true fs (dirOf p own) items) c G hinv
      (by rw [ctxLocs_of_node fs hn]; exact fun _ h => h)
    rw [ctxLocs_of_node fs hn]
    exact this

/-- Every file of the crate is in a source map that is closed and contains the root. -/
theorem reach_in_parsed {c : Core} (hinv : Inv fs R c []) :
    ∀ x, Reach true fs R x → x.path ∈ c.parsed := by
  intro x hx
  induction hx with
  | root => exact hinv.rootIn
  | @step c0 p own via hc hl _ ih =>
    obtain ⟨p', own', via', heq, hp⟩ := hinv.closed c0.path ih (by simp) c0.own hc _ hl
    cases heq
    exact hp

theorem no_specErr_of_closed {c : Core} (hinv : Inv fs R c []) (k : ErrKind) :
    ¬ SpecErr true fs R k := by
  rintro ⟨x, l, hx, hl, herr⟩
  obtain ⟨p', own', via', heq, hp⟩ :=
    hinv.closed x.path (reach_in_parsed fs R hinv x hx) (by simp) x.own hx l hl
  subst heq
  obtain ⟨s, g, items, hn⟩ := hinv.files p' hp
  simp [locErr, hn] at herr

end dfs

/-- **The resolver computes the closure of its own rules** (no `cfg_attr(path)`, every file reached
under a single ownership): the keys of the file map are exactly the files of the crate and the
specification has no error; or the error reported is one the specification has (or fuel ran out). -/
theorem visitCrate_closure (fs : FS) (hfs : fsPlain fs) (fuel : Nat) (root : Path)
    (rootSkip g : Bool) (rootItems : List Decl) (own : Ownership)
    (hroot : nodeAt fs root = some (.file rootSkip g rootItems))
    (huniq : UniqueOwnership true fs ⟨root, own⟩) :
    match visitCrate fs fuel (.real root) rootSkip rootItems own true with
    | .ok m =>
      (∀ k, k ∈ keys m ↔ ∃ p own', k = .real p ∧ Reach true fs ⟨root, own⟩ ⟨p, own'⟩) ∧
      (∀ k, ¬ SpecErr true fs ⟨root, own⟩ k) ∧
      ∀ e ∈ m, e.2.spanFile = e.1 ∧ (e.2.innerSkip = true ↔ e.1 = .real root ∧ rootSkip = true)
    | .error k => k = .fuel ∨ SpecErr true fs ⟨root, own⟩ k := by
  let R : Ctx := ⟨root, own⟩
  let c0 : Core := ⟨[root], []⟩
  have hinv0 : Inv fs R c0 [root] := by
    refine ⟨by simp [c0, R], ?_, ?_, ?_, ?_, by simp [c0]⟩
    · intro p hp
      simp only [c0, List.mem_singleton] at hp
      subst hp
      exact ⟨_, _, _, hroot⟩
    · intro p hp
      simp only [c0, List.mem_singleton] at hp
      subst hp
      exact Or.inl ⟨own, Reach.root⟩
    · intro k
      simp only [c0, keys, List.map_nil, List.not_mem_nil, List.mem_singleton, false_iff]
      rintro ⟨p, _, hp, _, hne⟩
      exact hne hp
    · intro p hp hpG
      simp only [c0, List.mem_singleton] at hp
      exact absurd (by simp [hp]) hpG
  have hcontract := exploreFile_contract fs R huniq (fuel + 1) c0 [root] root own rootSkip g
    rootItems hinv0 (by simp [c0]) (by simp) hroot Reach.root
  have hflat := (visit_flatten fs hfs _ _ (visitFile_link fs hfs fuel) (.real root)).2 rootItems
    (hfs _ _ _ _ hroot) ⟨⟨(parent root).getD [], own⟩, [root], []⟩
  simp only [exploreFile] at hcontract
  unfold visitCrate
  simp only [if_true]
  cases hw : visitItemsW fs (visitFile fs fuel) (.real root)
      ⟨⟨(parent root).getD [], own⟩, [root], []⟩ rootItems with
  | error e =>
    rw [hw] at hflat
    simp only [mapCore, core] at hflat
    have h2 : foldOut fs (exploreFile fs fuel) c0 (scanItems true fs (dirOf root own) rootItems)
        = .error e := hflat.symm
    rw [h2] at hcontract
    exact hcontract
  | ok st =>
    rw [hw] at hflat
    simp only [mapCore, core] at hflat
    have h2 : foldOut fs (exploreFile fs fuel) c0 (scanItems true fs (dirOf root own) rootItems)
        = .ok (core st) := hflat.symm
    rw [h2] at hcontract
    obtain ⟨hinv, hsub, hhandled⟩ := hcontract
    -- close the root
    have hinv' : Inv fs R (core st) [] := by
      refine ⟨hinv.rootIn, hinv.files, hinv.sound, hinv.keys, ?_, hinv.modsOk⟩
      intro q hq _ own' hreach l hl
      by_cases hqr : q = root
      · subst hqr
        have : own' = own := huniq ⟨q, own'⟩ ⟨q, own⟩ hreach Reach.root rfl
        subst this
        exact hhandled l hl
      · exact hinv.closed q hq (by simp [hqr]) own' hreach l hl
    refine ⟨?_, no_specErr_of_closed fs R hinv', ?_⟩
    rotate_left
    · intro e he
      rcases mem_insertReplace he with he | he
      · have hk : e.1 ∈ keys st.fileMap := List.mem_map.2 ⟨e, he, rfl⟩
        obtain ⟨p, hp, _, _, hne⟩ := (hinv'.keys e.1).1 hk
        have := hinv'.modsOk e he
        refine ⟨this.1, ?_⟩
        rw [this.2, hp]
        constructor
        · intro h; cases h
        · rintro ⟨h, _⟩
          cases h
          exact absurd rfl hne
      · subst he
        simp
    intro k
    rw [mem_keys_insertReplace]
    constructor
    · rintro (rfl | hk)
      · exact ⟨root, own, rfl, Reach.root⟩
      · obtain ⟨p, rfl, hp, hlive, hne⟩ := (hinv'.keys k).1 hk
        rcases hinv'.sound p hp with ⟨own', hr⟩ | ⟨g', items', hsk⟩
        · exact ⟨p, own', rfl, hr⟩
        · obtain ⟨g'', items'', hlive⟩ := hlive
          rw [hsk] at hlive
          cases hlive
    · rintro ⟨p, own', rfl, hr⟩
      by_cases hpr : p = root
      · exact Or.inl (by rw [hpr])
      · right
        refine (hinv'.keys _).2 ⟨p, rfl, reach_in_parsed fs R hinv' _ hr, ?_, hpr⟩
        rcases reach_live fs R hr with h | h
        · exact absurd (congrArg Ctx.path h) hpr
        · exact h

/-! ## Fuel -/

theorem locate_failed {fs : FS} {dir : Directory} {name : Comp} {attrs : List Attr} {k : ErrKind}
    (h : locate fs dir name attrs = .failed k) : k = .notfound ∨ k = .ambiguous := by
  unfold locate at h
  cases hs : submodPathFromAttr attrs dir.path with
  | some p => simp [hs] at h
  | none =>
    simp only [hs] at h
    split at h
    · cases h
    · cases h; exact Or.inl rfl
    · cases h; exact Or.inr rfl

theorem scan_failed (probe : Bool) (fs : FS) (k : ErrKind) :
    (∀ d : Decl, ∀ dir, Loc.failed k ∈ scanDecl probe fs dir d → k = .notfound ∨ k = .ambiguous) ∧
    (∀ ds : List Decl, ∀ dir, Loc.failed k ∈ scanItems probe fs dir ds →
      k = .notfound ∨ k = .ambiguous) := by
  apply decl_ind
  · intro name attrs dir h
    rw [scanDecl] at h
    split at h
    · simp at h
    · simp only [List.mem_singleton] at h
      exact locate_failed h.symm
  · intro name attrs items ih dir h
    rw [scanDecl] at h
    split at h
    · simp at h
    · exact ih _ h
  · intro dir h
    simp [scanItems] at h
  · intro d ds ihd ihds dir h
    rw [scanItems] at h
    rcases List.mem_append.1 h with h | h
    · exact ihd _ h
    · exact ihds _ h

/-- How many of the candidate paths `L` are not in `ps`. -/
def countOut (ps : List Path) : List Path → Nat
  | [] => 0
  | q :: rest => (if q ∈ ps then 0 else 1) + countOut ps rest

theorem countOut_le_length (ps L : List Path) : countOut ps L ≤ L.length := by
  induction L with
  | nil => simp [countOut]
  | cons q rest ih => simp only [countOut, List.length_cons]; split <;> omega

theorem countOut_mono {ps ps' : List Path} (h : ps ⊆ ps') (L : List Path) :
    countOut ps' L ≤ countOut ps L := by
  induction L with
  | nil => simp [countOut]
  | cons q rest ih =>
    simp only [countOut]
    by_cases hq : q ∈ ps
    · have : q ∈ ps' := h hq
      simp only [hq, this, if_true]; omega
    · simp only [hq, if_false]; split <;> omega

theorem countOut_cons_lt {p : Path} {ps L : List Path} (hp : p ∈ L) (hnp : p ∉ ps) :
    countOut (p :: ps) L < countOut ps L := by
  induction L with
  | nil => cases hp
  | cons q rest ih =>
    simp only [countOut]
    by_cases hqp : q = p
    · subst hqp
      have := countOut_mono (List.subset_cons_self q ps) rest
      simp only [List.mem_cons, true_or, if_true, hnp, if_false]
      omega
    · have hp' : p ∈ rest := by
        rcases List.mem_cons.1 hp with h | h
        · exact absurd h.symm hqp
        · exact h
      have := ih hp'
      by_cases hq : q ∈ ps
      · simp only [List.mem_cons, hq, or_true, if_true]; omega
      · simp only [List.mem_cons, hqp, hq, or_self, if_false]; omega

/-- The number of candidate paths not yet in the source map. -/
def unparsed (keysL : List Path) (c : Core) : Nat := countOut c.parsed keysL

theorem unparsed_mono (keysL : List Path) {c c' : Core} (h : c.parsed ⊆ c'.parsed) :
    unparsed keysL c' ≤ unparsed keysL c := countOut_mono h keysL

theorem unparsed_cons_lt (keysL : List Path) (p : Path) (ps : List Path) (fm fm')
    (hp : p ∈ keysL) (hnp : p ∉ ps) :
    unparsed keysL ⟨p :: ps, fm⟩ < unparsed keysL ⟨ps, fm'⟩ := countOut_cons_lt hp hnp

section fuel
variable (fs : FS) (R : Ctx) (keysL : List Path)

/-- Every file the resolver loads is one of the candidate paths `keysL`. -/
def KeyedLocs : Prop :=
  ∀ c, Reach true fs R c → ∀ p own via, Loc.located p own via ∈ ctxLocs true fs c →
    (∃ s g items, nodeAt fs p = some (.file s g items)) → p ∈ keysL

def FuelContract (n : Nat) (recC : RecC) : Prop :=
  ∀ (c : Core) (p : Path) (own : Ownership) (s g : Bool) (items : List Decl),
    nodeAt fs p = some (.file s g items) → Reach true fs R ⟨p, own⟩ →
    match recC c p own items with
    | .ok c' => c.parsed ⊆ c'.parsed
    | .error k => k = .fuel → n ≤ unparsed keysL c

theorem foldOut_fuel (hk : KeyedLocs fs R keysL) (n : Nat) (recC : RecC)
    (hrec : FuelContract fs R keysL n recC) (src : Ctx) (hsrc : Reach true fs R src) :
    ∀ (ls : List Loc) (c : Core), (∀ l ∈ ls, l ∈ ctxLocs true fs src) →
      match foldOut fs recC c ls with
      | .ok c' => c.parsed ⊆ c'.parsed
      | .error k => k = .fuel → n + 1 ≤ unparsed keysL c := by
  intro ls
  induction ls with
  | nil => intro c _; simp only [foldOut]; exact fun _ h => h
  | cons l ls ih =>
    intro c hls
    have hl : l ∈ ctxLocs true fs src := hls l (by simp)
    have hls' : ∀ l ∈ ls, l ∈ ctxLocs true fs src := fun x hx => hls x (by simp [hx])
    cases l with
    | failed k =>
      simp only [foldOut]
      intro hk'
      subst hk'
      rcases (scan_failed true fs .fuel).2 _ _ hl with h | h <;> cases h
    | located p own via =>
      simp only [foldOut]
      by_cases hmem : p ∈ c.parsed
      · simp only [hmem, if_true]
        exact ih c hls'
      · simp only [hmem, if_false]
        cases hn : nodeAt fs p with
        | none => dsimp only; cases via <;> simp
        | some nd =>
          cases nd with
          | dir => simp
          | file s g items =>
            cases s with
            | true =>
              dsimp only
              have := ih ⟨p :: c.parsed, c.fileMap⟩ hls'
              split at this
              · exact fun x hx => this (List.mem_cons_of_mem _ hx)
              · intro hk'
                have h1 := this hk'
                have h2 := unparsed_mono keysL (c := c) (c' := ⟨p :: c.parsed, c.fileMap⟩)
                  (List.subset_cons_self _ _)
                omega
            | false =>
              dsimp only
              have hreach : Reach true fs R ⟨p, own⟩ := Reach.step hsrc hl ⟨g, items, hn⟩
              have hpk : p ∈ keysL := hk src hsrc p own via hl ⟨_, _, _, hn⟩
              have hlt : unparsed keysL ⟨p :: c.parsed,
                  insertIfAbsent c.fileMap (.real p) (loadedMod p items)⟩ < unparsed keysL c :=
                countOut_cons_lt hpk hmem
              have hc := hrec ⟨p :: c.parsed,
                insertIfAbsent c.fileMap (.real p) (loadedMod p items)⟩ p own false g items hn hreach
              split at hc
              · rename_i c2 heq
                rw [heq]
                dsimp only
                have := ih c2 hls'
                split at this
                · exact fun x hx => this (hc (List.mem_cons_of_mem _ hx))
                · intro hk'
                  have h1 := this hk'
                  have h2 := unparsed_mono keysL (c := c) (c' := c2)
                    (fun x hx => hc (List.mem_cons_of_mem _ hx))
                  omega
              · rename_i k heq
                rw [heq]
                dsimp only
                intro hk'
                have := hc hk'
                omega

theorem exploreFile_fuel (hk : KeyedLocs fs R keysL) :
    ∀ n, FuelContract fs R keysL n (exploreFile fs n) := by
  intro n
  induction n with
  | zero =>
    intro c p own s g items _ _
    cases items with
    | nil => simp only [exploreFile]; exact fun _ h => h
    | cons a b => simp [exploreFile]
  | succ n ih =>
    intro c p own s g items hn hreach
    simp only [exploreFile]
    have := foldOut_fuel fs R keysL hk n _ ih ⟨p, own⟩ hreach
      (scanItems true fs (dirOf p own) items) c
      (by rw [ctxLocs_of_node fs hn]; exact fun _ h => h)
    exact this

end fuel

/-- **Fuel suffices**: if every file the resolver loads is one of `keysL` (for a tree without
`.`/`..` detours: the keys of `fs`), then `keysL.length` fuel is enough. -/
theorem visitCrate_fuel (fs : FS) (hfs : fsPlain fs) (fuel : Nat) (root : Path)
    (rootSkip g : Bool) (rootItems : List Decl) (own : Ownership)
    (hroot : nodeAt fs root = some (.file rootSkip g rootItems))
    (keysL : List Path) (hk : KeyedLocs fs ⟨root, own⟩ keysL) (hfuel : keysL.length ≤ fuel) :
    visitCrate fs fuel (.real root) rootSkip rootItems own true ≠ .error .fuel := by
  have hc := exploreFile_fuel fs ⟨root, own⟩ keysL hk (fuel + 1) ⟨[root], []⟩ root own rootSkip g
    rootItems hroot Reach.root
  have hflat := (visit_flatten fs hfs _ _ (visitFile_link fs hfs fuel) (.real root)).2 rootItems
    (hfs _ _ _ _ hroot) ⟨⟨(parent root).getD [], own⟩, [root], []⟩
  simp only [exploreFile] at hc
  unfold visitCrate
  simp only [if_true]
  cases hw : visitItemsW fs (visitFile fs fuel) (.real root)
      ⟨⟨(parent root).getD [], own⟩, [root], []⟩ rootItems with
  | ok st => simp
  | error e =>
    rw [hw] at hflat
    simp only [mapCore, core] at hflat
    have h2 : foldOut fs (exploreFile fs fuel) ⟨[root], []⟩
        (scanItems true fs (dirOf root own) rootItems) = .error e := hflat.symm
    rw [h2] at hc
    dsimp only at hc ⊢
    intro he
    cases he
    have h3 := hc rfl
    have h4 : unparsed keysL ⟨[root], []⟩ ≤ keysL.length := countOut_le_length _ _
    omega

/-! ## rustfmt's directory rule vs rustc's -/

theorem reach_probe_iff {fs : FS} {R : Ctx} (h : ProbeAgrees fs R) (c : Ctx) :
    Reach true fs R c ↔ Reach false fs R c := by
  constructor
  · intro hc
    induction hc with
    | root => exact Reach.root
    | @step c0 p own via _ hl hlive ih =>
      rw [h c0 ih] at hl
      exact Reach.step ih hl hlive
  · intro hc
    induction hc with
    | root => exact Reach.root
    | @step c0 p own via hc0 hl hlive ih =>
      rw [← h c0 hc0] at hl
      exact Reach.step ih hl hlive

theorem specErr_probe_iff {fs : FS} {R : Ctx} (h : ProbeAgrees fs R) (k : ErrKind) :
    SpecErr true fs R k ↔ SpecErr false fs R k := by
  constructor
  · rintro ⟨c, l, hc, hl, he⟩
    have hc' := (reach_probe_iff h c).1 hc
    exact ⟨c, l, hc', by rw [← h c hc']; exact hl, he⟩
  · rintro ⟨c, l, hc, hl, he⟩
    exact ⟨c, l, (reach_probe_iff h c).2 hc, by rw [h c hc]; exact hl, he⟩

theorem unique_probe {fs : FS} {R : Ctx} (h : ProbeAgrees fs R) (hu : UniqueOwnership false fs R) :
    UniqueOwnership true fs R :=
  fun c₁ c₂ h₁ h₂ => hu c₁ c₂ ((reach_probe_iff h c₁).1 h₁) ((reach_probe_iff h c₂).1 h₂)

/-- The refinement against rustc's rules, where the probe makes no difference. -/
theorem visitCrate_refines (fs : FS) (hfs : fsPlain fs) (fuel : Nat) (root : Path)
    (rootSkip g : Bool) (rootItems : List Decl) (own : Ownership)
    (hroot : nodeAt fs root = some (.file rootSkip g rootItems))
    (huniq : UniqueOwnership false fs ⟨root, own⟩) (hprobe : ProbeAgrees fs ⟨root, own⟩) :
    match visitCrate fs fuel (.real root) rootSkip rootItems own true with
    | .ok m =>
      (∀ k, k ∈ keys m ↔ ∃ p own', k = .real p ∧ Reach false fs ⟨root, own⟩ ⟨p, own'⟩) ∧
      (∀ k, ¬ SpecErr false fs ⟨root, own⟩ k) ∧
      ∀ e ∈ m, e.2.spanFile = e.1 ∧ (e.2.innerSkip = true ↔ e.1 = .real root ∧ rootSkip = true)
    | .error k => k = .fuel ∨ SpecErr false fs ⟨root, own⟩ k := by
  have := visitCrate_closure fs hfs fuel root rootSkip g rootItems own hroot
    (unique_probe hprobe huniq)
  split at this
  · refine ⟨?_, ?_, this.2.2⟩
    · intro k
      rw [this.1 k]
      constructor
      · rintro ⟨p, own', rfl, hr⟩
        exact ⟨p, own', rfl, (reach_probe_iff hprobe _).1 hr⟩
      · rintro ⟨p, own', rfl, hr⟩
        exact ⟨p, own', rfl, (reach_probe_iff hprobe _).2 hr⟩
    · intro k hk
      exact this.2.1 k ((specErr_probe_iff hprobe k).2 hk)
  · rcases this with h | h
    · exact Or.inl h
    · exact Or.inr ((specErr_probe_iff hprobe _).1 h)

/-! ## The executable specification computes the declarative one -/

section treeSpec
variable (probe : Bool) (fs : FS) (R : Ctx)

/-- The declarations of `c` resolve, and their live targets are in `cs`. -/
def LocsIn (ls : List Loc) (cs : List Ctx) : Prop :=
  ∀ l ∈ ls, locErr fs l = none ∧
    ∀ p own via, l = .located p own via → LiveFile fs p → (⟨p, own⟩ : Ctx) ∈ cs

def Good (s : Ctx) (cs : List Ctx) : Prop :=
  (∀ c ∈ cs, Reach probe fs R c) ∧ LocsIn fs (ctxLocs probe fs s) cs ∧
  ∀ c ∈ cs, LocsIn fs (ctxLocs probe fs c) cs

def ContractF (recF : List Path → Path → Ownership → List Decl → Except ErrKind (List Ctx)) : Prop :=
  ∀ stack p own s g items, nodeAt fs p = some (.file s g items) → Reach probe fs R ⟨p, own⟩ →
    match recF stack p own items with
    | .ok cs => Good probe fs R ⟨p, own⟩ cs
    | .error k => k = .fuel ∨ k = .circular ∨ SpecErr probe fs R k

theorem LocsIn.mono {ls : List Loc} {cs cs' : List Ctx} (h : LocsIn fs ls cs) (hsub : cs ⊆ cs') :
    LocsIn fs ls cs' :=
  fun l hl => ⟨(h l hl).1, fun p own via e hlive => hsub ((h l hl).2 p own via e hlive)⟩

theorem reachLocsW_spec (recF) (hrec : ContractF probe fs R recF) (src : Ctx)
    (hsrc : Reach probe fs R src) (stack : List Path) :
    ∀ ls : List Loc, (∀ l ∈ ls, l ∈ ctxLocs probe fs src) →
      match reachLocsW fs recF stack ls with
      | .ok cs => (∀ c ∈ cs, Reach probe fs R c) ∧ LocsIn fs ls cs ∧
          ∀ c ∈ cs, LocsIn fs (ctxLocs probe fs c) cs
      | .error k => k = .fuel ∨ k = .circular ∨ SpecErr probe fs R k := by
  intro ls
  induction ls with
  | nil =>
    intro _
    simp only [reachLocsW]
    exact ⟨by simp, by simp [LocsIn], by simp⟩
  | cons l ls ih =>
    intro hls
    have hl : l ∈ ctxLocs probe fs src := hls l (by simp)
    have ih := ih (fun x hx => hls x (by simp [hx]))
    cases l with
    | failed k =>
      simp only [reachLocsW]
      exact Or.inr (Or.inr ⟨src, _, hsrc, hl, rfl⟩)
    | located p own via =>
      simp only [reachLocsW]
      cases hn : nodeAt fs p with
      | none => exact Or.inr (Or.inr ⟨src, _, hsrc, hl, by simp [locErr, hn]⟩)
      | some n =>
        cases n with
        | dir => exact Or.inr (Or.inr ⟨src, _, hsrc, hl, by simp [locErr, hn]⟩)
        | file s g items =>
          cases s with
          | true =>
            simp only
            split at ih
            · rename_i cs heq
              refine ⟨ih.1, ?_, ih.2.2⟩
              intro x hx
              rcases List.mem_cons.1 hx with rfl | hx
              · refine ⟨by simp [locErr, hn], ?_⟩
                intro p' own' via' e hlive
                cases e
                obtain ⟨g', items', hlive⟩ := hlive
                rw [hn] at hlive
                cases hlive
              · exact ih.2.1 x hx
            · exact ih
          | false =>
            simp only
            by_cases hst : p ∈ stack
            · simp [hst]
            · simp only [hst, if_false]
              have hreach : Reach probe fs R ⟨p, own⟩ := Reach.step hsrc hl ⟨g, items, hn⟩
              have hc := hrec stack p own false g items hn hreach
              split at hc
              · rename_i ps heq
                rw [heq]
                dsimp only
                split at ih
                · rename_i qs heq'
                  rw [heq']
                  dsimp only
                  obtain ⟨hs1, hs2, hs3⟩ := hc
                  refine ⟨?_, ?_, ?_⟩
                  · intro c hc
                    rcases List.mem_cons.1 hc with rfl | hc
                    · exact hreach
                    · rcases List.mem_append.1 hc with hc | hc
                      · exact hs1 c hc
                      · exact ih.1 c hc
                  · intro x hx
                    rcases List.mem_cons.1 hx with rfl | hx
                    · refine ⟨by simp [locErr, hn], ?_⟩
                      intro p' own' via' e _
                      cases e
                      exact List.mem_cons_self
                    · exact (ih.2.1.mono fs (cs' := ⟨p, own⟩ :: ps ++ qs)
                        (fun y hy => by simp [hy])) x hx
                  · intro c hc
                    rcases List.mem_cons.1 hc with rfl | hc
                    · exact hs2.mono fs (fun y hy => by simp [hy])
                    · rcases List.mem_append.1 hc with hc | hc
                      · exact (hs3 c hc).mono fs (fun y hy => by simp [hy])
                      · exact (ih.2.2 c hc).mono fs (fun y hy => by simp [hy])
                · rename_i k heq'
                  rw [heq']
                  exact ih
              · rename_i k heq
                rw [heq]
                exact hc

theorem reachFile_contract : ∀ n, ContractF probe fs R (reachFile probe fs n) := by
  intro n
  induction n with
  | zero =>
    intro stack p own s g items hn _
    cases items with
    | nil =>
      simp only [reachFile]
      refine ⟨by simp, ?_, by simp⟩
      rw [ctxLocs_of_node fs hn]
      simp [scanItems, LocsIn]
    | cons a b => simp [reachFile]
  | succ n ih =>
    intro stack p own s g items hn hreach
    simp only [reachFile]
    have := reachLocsW_spec probe fs R _ ih ⟨p, own⟩ hreach (p :: stack)
      (scanItems probe fs (dirOf p own) items) (by rw [ctxLocs_of_node fs hn]; exact fun _ h => h)
    split at this
    · refine ⟨this.1, ?_, this.2.2⟩
      rw [ctxLocs_of_node fs hn]
      exact this.2.1
    · exact this

/-- In a good result every file of the crate other than the root occurs, and nothing fails. -/
theorem good_complete {cs : List Ctx} (h : Good probe fs R R cs) :
    ∀ c, Reach probe fs R c → (c = R ∨ c ∈ cs) ∧ LocsIn fs (ctxLocs probe fs c) cs := by
  intro c hc
  induction hc with
  | root => exact ⟨Or.inl rfl, h.2.1⟩
  | @step c0 p own via _ hl hlive ih =>
    have hin : (⟨p, own⟩ : Ctx) ∈ cs := (ih.2 _ hl).2 p own via rfl hlive
    exact ⟨Or.inr hin, h.2.2 _ hin⟩

end treeSpec

/-- **`reachable` is sound and complete for the declarative specification** (rustc's rules):
on success it lists exactly the files of the crate other than the root and the specification has no
error; a failure other than `fuel`/`circular` is an error of the specification. -/
theorem reachable_spec (fs : FS) (fuel : Nat) (root : Path) (rootSkip g : Bool)
    (rootItems : List Decl) (own : Ownership)
    (hroot : nodeAt fs root = some (.file rootSkip g rootItems)) :
    match reachable fs fuel root rootItems own with
    | .ok ps =>
      (∀ p, (p = root ∨ p ∈ ps) ↔ ∃ own', Reach false fs ⟨root, own⟩ ⟨p, own'⟩) ∧
      ∀ k, ¬ SpecErr false fs ⟨root, own⟩ k
    | .error k => k = .fuel ∨ k = .circular ∨ SpecErr false fs ⟨root, own⟩ k := by
  have hc := reachFile_contract false fs ⟨root, own⟩ (fuel + 1) [] root own rootSkip g rootItems
    hroot Reach.root
  unfold reachable
  split at hc
  · rename_i cs heq
    rw [heq]
    dsimp only
    have hcomp := good_complete false fs ⟨root, own⟩ hc
    refine ⟨?_, ?_⟩
    · intro p
      constructor
      · rintro (rfl | hp)
        · exact ⟨own, Reach.root⟩
        · obtain ⟨c, hcm, rfl⟩ := List.mem_map.1 hp
          exact ⟨c.own, hc.1 c hcm⟩
      · rintro ⟨own', hr⟩
        rcases (hcomp _ hr).1 with h | h
        · exact Or.inl (congrArg Ctx.path h)
        · exact Or.inr (List.mem_map.2 ⟨_, h, rfl⟩)
    · rintro k ⟨c, l, hr, hl, he⟩
      have := ((hcomp c hr).2 l hl).1
      rw [this] at he
      cases he
  · rename_i k heq
    rw [heq]
    exact hc

/-! ## Soundness of the decidable side conditions -/

theorem lookupNode_mem {fs : FS} {p : Path} {n : Node} (h : lookupNode fs p = some n) :
    (p, n) ∈ fs := by
  induction fs with
  | nil => simp [lookupNode] at h
  | cons e rest ih =>
    obtain ⟨k, v⟩ := e
    simp only [lookupNode] at h
    split at h
    · rename_i hk
      cases h
      subst hk
      exact List.mem_cons_self
    · exact List.mem_cons_of_mem _ (ih h)

theorem nodeAt_file_mem {fs : FS} {p : Path} {s g items}
    (h : nodeAt fs p = some (.file s g items)) : ∃ k, (k, Node.file s g items) ∈ fs := by
  unfold nodeAt at h
  split at h
  · cases h
  · split at h
    · rename_i np _
      unfold nodeNorm at h
      split at h
      · cases h
      · split at h
        · rename_i n hl
          cases h
          exact ⟨np, lookupNode_mem hl⟩
        · split at h <;> cases h
    · cases h

theorem fsPlain_of_fsPlainB {fs : FS} (h : fsPlainB fs = true) : fsPlain fs := by
  intro p s g items hn
  obtain ⟨k, hk⟩ := nodeAt_file_mem hn
  have := List.all_eq_true.1 h _ hk
  simpa using this

theorem liveB_of_live {fs : FS} {p : Path} (h : LiveFile fs p) : liveB fs p = true := by
  obtain ⟨g, items, h⟩ := h
  simp [liveB, h]

/-- A closed set containing the root contains every file of the crate. -/
theorem reach_subset {probe : Bool} {fs : FS} {R : Ctx} {S : List Ctx} (hR : R ∈ S)
    (hclosed : closedB probe fs S = true) : ∀ c, Reach probe fs R c → c ∈ S := by
  intro c hc
  induction hc with
  | root => exact hR
  | @step c0 p own via _ hl hlive ih =>
    have h1 := List.all_eq_true.1 (List.all_eq_true.1 hclosed c0 ih) _ hl
    simp only [liveB_of_live hlive, Bool.not_true, Bool.false_or, decide_eq_true_eq] at h1
    exact h1

theorem unique_of_uniqueB {probe : Bool} {fs : FS} {R : Ctx} {S : List Ctx} (hR : R ∈ S)
    (hclosed : closedB probe fs S = true) (hu : uniqueB S = true) :
    UniqueOwnership probe fs R := by
  intro c₁ c₂ h₁ h₂ hp
  have := List.all_eq_true.1 (List.all_eq_true.1 hu c₁ (reach_subset hR hclosed _ h₁)) c₂
    (reach_subset hR hclosed _ h₂)
  simpa [hp] using this

theorem probeAgrees_of_B {fs : FS} {R : Ctx} {S : List Ctx} (hR : R ∈ S)
    (hclosed : closedB false fs S = true) (hp : probeAgreesB fs S = true) : ProbeAgrees fs R := by
  intro c hc
  have := List.all_eq_true.1 hp c (reach_subset hR hclosed _ hc)
  simpa using this

theorem hypsB_sound {fs : FS} {rounds : Nat} {root : Path} {own : Ownership}
    (h : hypsB fs rounds root own = true) :
    fsPlain fs ∧ UniqueOwnership false fs ⟨root, own⟩ ∧ ProbeAgrees fs ⟨root, own⟩ := by
  simp only [hypsB, Bool.and_eq_true, decide_eq_true_eq] at h
  obtain ⟨⟨⟨⟨h1, h2⟩, h3⟩, h4⟩, h5⟩ := h
  exact ⟨fsPlain_of_fsPlainB h1, unique_of_uniqueB h2 h3 h4, probeAgrees_of_B h2 h3 h5⟩

def isFileB (fs : FS) (p : Path) : Bool :=
  match nodeAt fs p with
  | some (.file _ _ _) => true
  | _ => false

/-- Every file located from a member of `S` is one of `keysL`. -/
def keyedB (fs : FS) (S : List Ctx) (keysL : List Path) : Bool :=
  S.all fun c => (ctxLocs true fs c).all fun l => match l with
    | .located p _ _ => !isFileB fs p || decide (p ∈ keysL)
    | .failed _ => true

theorem keyedLocs_of_B {fs : FS} {R : Ctx} {S : List Ctx} {keysL : List Path} (hR : R ∈ S)
    (hclosed : closedB true fs S = true) (hk : keyedB fs S keysL = true) :
    KeyedLocs fs R keysL := by
  intro c hc p own via hl hfile
  have h1 := List.all_eq_true.1 (List.all_eq_true.1 hk c (reach_subset hR hclosed _ hc)) _ hl
  obtain ⟨s, g, items, hn⟩ := hfile
  simpa [isFileB, hn] using h1

/-! ## A syntactic condition for `KeyedLocs`: no `.`/`..` anywhere -/

def compPlain (c : Comp) : Bool := decide (c ≠ dot) && decide (c ≠ dotdot)
def pathPlain (p : Path) : Bool := p.all compPlain
def ownPlain : Ownership → Bool
  | .owned (some r) => compPlain r
  | _ => true
def attrsDotFree (attrs : List Attr) : Bool :=
  attrs.all fun a => match a with
    | .path s => pathPlain (splitSlash s)
    | _ => true

mutual
/-- Module names are not `.`/`..` and no `#[path]` string has a `.` or `..` component. -/
def itemsDotFree : List Decl → Bool
  | [] => true
  | d :: ds => declDotFree d && itemsDotFree ds
def declDotFree : Decl → Bool
  | .ext name attrs => compPlain name && attrsDotFree attrs
  | .inline name attrs items => compPlain name && attrsDotFree attrs && itemsDotFree items
end

def fsDotFree (fs : FS) : Bool :=
  fs.all fun e => match e.2 with
    | .file _ _ items => itemsDotFree items
    | .dir => true

theorem normAux_plain (fs : FS) : ∀ (p st : Path), pathPlain p = true →
    normAux fs st p = some (st ++ p) := by
  intro p
  induction p with
  | nil => intro st _; simp [normAux]
  | cons c cs ih =>
    intro st h
    simp only [pathPlain, List.all_cons, Bool.and_eq_true, compPlain, decide_eq_true_eq] at h
    simp only [normAux, h.1.1, h.1.2, if_false]
    rw [ih _ (by simpa [pathPlain, compPlain] using h.2)]
    simp

theorem nodeAt_plain_mem {fs : FS} {p : Path} {s g items} (hp : pathPlain p = true)
    (h : nodeAt fs p = some (.file s g items)) : p ∈ fs.map (·.1) := by
  unfold nodeAt at h
  split at h
  · cases h
  · rw [normAux_plain fs p [] hp] at h
    simp only [List.nil_append] at h
    unfold nodeNorm at h
    split at h
    · cases h
    · split at h
      · rename_i n hl
        exact List.mem_map.2 ⟨_, lookupNode_mem hl, rfl⟩
      · split at h <;> cases h

theorem pathPlain_append {p q : Path} (hp : pathPlain p = true) (hq : pathPlain q = true) :
    pathPlain (p ++ q) = true := by
  simp only [pathPlain, List.all_append, Bool.and_eq_true] at *
  exact ⟨hp, hq⟩

theorem pathPlain_dropInnerDots {p : Path} (hp : pathPlain p = true) :
    pathPlain (dropInnerDots p) = true := by
  cases p with
  | nil => rfl
  | cons c cs =>
    simp only [pathPlain, dropInnerDots, List.all_cons, Bool.and_eq_true, List.all_eq_true,
      List.mem_filter] at *
    exact ⟨hp.1, fun x hx => hp.2 x hx.1⟩

theorem pathPlain_join {dir : Path} {s : List Char} (hd : pathPlain dir = true)
    (hs : pathPlain (splitSlash s) = true) : pathPlain (join dir s) = true := by
  unfold join
  apply pathPlain_dropInnerDots
  split
  · simp only [pathPlain, List.all_cons, Bool.and_eq_true]
    exact ⟨by decide, hs⟩
  · exact pathPlain_append hd hs

theorem pathPlain_dropLast {p : Path} (hp : pathPlain p = true) : pathPlain p.dropLast = true := by
  simp only [pathPlain, List.all_eq_true] at *
  exact fun x hx => hp x (List.dropLast_subset p hx)

theorem compPlain_rs (name : Comp) : compPlain (name ++ rsExt) = true := by
  simp only [compPlain, Bool.and_eq_true, decide_eq_true_eq]
  constructor <;> intro h <;> have := congrArg List.length h <;>
    simp [rsExt, dot, dotdot] at this <;> omega

theorem findPathValue_dotFree {attrs : List Attr} {s : List Char} (h : attrsDotFree attrs = true)
    (hf : findPathValue attrs = some s) : pathPlain (splitSlash s) = true := by
  induction attrs with
  | nil => simp [findPathValue] at hf
  | cons a rest ih =>
    simp only [attrsDotFree, List.all_cons, Bool.and_eq_true] at h
    cases a with
    | path s' =>
      simp only [findPathValue, Option.some.injEq] at hf
      subst hf
      exact h.1
    | skip => exact ih (by simpa [attrsDotFree] using h.2) (by simpa [findPathValue] using hf)
    | cfgAttrPath s' =>
      exact ih (by simpa [attrsDotFree] using h.2) (by simpa [findPathValue] using hf)

theorem rustcDefault_plain {fs : FS} {name : Comp} {rel : Option Comp} {dirPath p : Path}
    {own : Ownership} (hd : pathPlain dirPath = true) (hn : compPlain name = true)
    (hr : ownPlain (.owned rel) = true)
    (h : rustcDefaultSubmodPath fs name rel dirPath = .ok (p, own)) :
    pathPlain p = true ∧ ownPlain own = true := by
  have hrs : pathPlain [name ++ rsExt] = true := by simp [pathPlain, compPlain_rs]
  have hmod : pathPlain [name, modRs] = true := by
    simp only [pathPlain, List.all_cons, hn, List.all_nil, Bool.and_true, Bool.true_and]
    decide
  cases rel with
  | none =>
    simp only [rustcDefaultSubmodPath, List.append_nil] at h
    split at h
    · cases h; exact ⟨pathPlain_append hd hrs, by simpa [ownPlain] using hn⟩
    · cases h; exact ⟨pathPlain_append hd hmod, rfl⟩
    · cases h
    · cases h
  | some r =>
    have hpre : pathPlain [r] = true := by simpa [pathPlain, ownPlain] using hr
    simp only [rustcDefaultSubmodPath] at h
    split at h
    · cases h
      exact ⟨pathPlain_append (pathPlain_append hd hpre) hrs, by simpa [ownPlain] using hn⟩
    · cases h; exact ⟨pathPlain_append (pathPlain_append hd hpre) hmod, rfl⟩
    · cases h
    · cases h

theorem defaultSubmodPath_plain {fs : FS} {name : Comp} {rel : Option Comp} {dirPath p : Path}
    {own : Ownership} (hd : pathPlain dirPath = true) (hn : compPlain name = true)
    (hr : ownPlain (.owned rel) = true)
    (h : defaultSubmodPath fs name rel dirPath = .ok (p, own)) :
    pathPlain p = true ∧ ownPlain own = true := by
  unfold defaultSubmodPath at h
  cases h1 : rustcDefaultSubmodPath fs name rel dirPath with
  | ok r =>
    simp only [h1] at h
    cases h
    exact rustcDefault_plain hd hn hr h1
  | error e =>
    simp only [h1] at h
    split at h
    · cases h2 : rustcDefaultSubmodPath fs name none dirPath with
      | ok r =>
        simp only [h2] at h
        cases h
        exact rustcDefault_plain hd hn rfl h2
      | error e' => simp [h2] at h
    · cases h

theorem locate_plain {fs : FS} {dir : Directory} {name : Comp} {attrs : List Attr} {p : Path}
    {own : Ownership} {via : Bool} (hd : pathPlain dir.path = true)
    (ho : ownPlain dir.ownership = true) (hn : compPlain name = true)
    (ha : attrsDotFree attrs = true) (h : locate fs dir name attrs = .located p own via) :
    pathPlain p = true ∧ ownPlain own = true := by
  unfold locate at h
  cases hs : submodPathFromAttr attrs dir.path with
  | some q =>
    simp only [hs] at h
    cases h
    unfold submodPathFromAttr at hs
    split at hs
    · rename_i s hf
      cases hs
      exact ⟨pathPlain_join hd (findPathValue_dotFree ha hf), rfl⟩
    · cases hs
  | none =>
    simp only [hs] at h
    cases hdo : dir.ownership with
    | unownedViaBlock =>
      simp only [hdo] at h
      cases hdp : defaultSubmodPath fs name none dir.path with
      | ok r =>
        obtain ⟨p', own'⟩ := r
        simp only [hdp] at h
        cases h
        exact defaultSubmodPath_plain hd hn rfl hdp
      | error e => cases e <;> simp [hdp] at h
    | owned rel =>
      simp only [hdo] at h
      rw [hdo] at ho
      cases hdp : defaultSubmodPath fs name rel dir.path with
      | ok r =>
        obtain ⟨p', own'⟩ := r
        simp only [hdp] at h
        cases h
        exact defaultSubmodPath_plain hd hn ho hdp
      | error e => cases e <;> simp [hdp] at h

theorem pushInline_plain {probe : Bool} {fs : FS} {dir : Directory} {name : Comp}
    {attrs : List Attr} (hd : pathPlain dir.path = true) (ho : ownPlain dir.ownership = true)
    (hn : compPlain name = true) (ha : attrsDotFree attrs = true) :
    pathPlain (pushInlineModDirectory probe fs dir name attrs).path = true ∧
    ownPlain (pushInlineModDirectory probe fs dir name attrs).ownership = true := by
  have hname : pathPlain [name] = true := by simp [pathPlain, hn]
  unfold pushInlineModDirectory
  cases hf : findPathValue attrs with
  | some s => exact ⟨pathPlain_join hd (findPathValue_dotFree ha hf), rfl⟩
  | none =>
    cases hown : dir.ownership with
    | unownedViaBlock => exact ⟨pathPlain_append hd hname, rfl⟩
    | owned rel =>
      cases rel with
      | none => exact ⟨pathPlain_append hd hname, rfl⟩
      | some ident =>
        have hid : pathPlain [ident] = true := by
          rw [hown] at ho
          simpa [pathPlain, ownPlain] using ho
        dsimp only
        by_cases hc : (probe && pathExists fs (dir.path ++ [ident]) &&
            !pathExists fs (dir.path ++ [ident] ++ [name])) = true
        · simp only [hc, if_true]
          exact ⟨pathPlain_append hd hid, rfl⟩
        · simp only [hc]
          exact ⟨pathPlain_append (pathPlain_append hd hid) hname, rfl⟩

theorem scan_plain (probe : Bool) (fs : FS) :
    (∀ d : Decl, declDotFree d = true → ∀ dir, pathPlain dir.path = true →
      ownPlain dir.ownership = true → ∀ p own via, Loc.located p own via ∈ scanDecl probe fs dir d →
      pathPlain p = true ∧ ownPlain own = true) ∧
    (∀ ds : List Decl, itemsDotFree ds = true → ∀ dir, pathPlain dir.path = true →
      ownPlain dir.ownership = true → ∀ p own via, Loc.located p own via ∈ scanItems probe fs dir ds →
      pathPlain p = true ∧ ownPlain own = true) := by
  apply decl_ind
  · intro name attrs hdf dir hd ho p own via h
    simp only [declDotFree, Bool.and_eq_true] at hdf
    rw [scanDecl] at h
    split at h
    · simp at h
    · simp only [List.mem_singleton] at h
      exact locate_plain hd ho hdf.1 hdf.2 h.symm
  · intro name attrs items ih hdf dir hd ho p own via h
    simp only [declDotFree, Bool.and_eq_true] at hdf
    rw [scanDecl] at h
    split at h
    · simp at h
    · have := pushInline_plain (probe := probe) (fs := fs) hd ho hdf.1.1 hdf.1.2
      exact ih hdf.2 _ this.1 this.2 p own via h
  · intro _ dir _ _ p own via h
    simp [scanItems] at h
  · intro d ds ihd ihds hdf dir hd ho p own via h
    simp only [itemsDotFree, Bool.and_eq_true] at hdf
    rw [scanItems] at h
    rcases List.mem_append.1 h with h | h
    · exact ihd hdf.1 dir hd ho p own via h
    · exact ihds hdf.2 dir hd ho p own via h

theorem itemsAt_dotFree {fs : FS} (hfs : fsDotFree fs = true) (p : Path) :
    itemsDotFree (itemsAt fs p) = true := by
  unfold itemsAt
  split
  · rename_i s g items hn
    obtain ⟨k, hk⟩ := nodeAt_file_mem hn
    have := List.all_eq_true.1 hfs _ hk
    simpa using this
  · rfl

theorem dirOf_plain {p : Path} {own : Ownership} (hp : pathPlain p = true) :
    pathPlain (dirOf p own).path = true := by
  unfold dirOf parent
  split
  · rfl
  · exact pathPlain_dropLast hp

theorem reach_plain {probe : Bool} {fs : FS} {R : Ctx} (hfs : fsDotFree fs = true)
    (hR : pathPlain R.path = true) (hRo : ownPlain R.own = true) :
    ∀ c, Reach probe fs R c → pathPlain c.path = true ∧ ownPlain c.own = true := by
  intro c hc
  induction hc with
  | root => exact ⟨hR, hRo⟩
  | @step c0 p own via _ hl _ ih =>
    exact (scan_plain probe fs).2 _ (itemsAt_dotFree hfs c0.path) _ (dirOf_plain ih.1) ih.2 p own via hl

/-- **Without `.`/`..` every loaded file is a key of the tree.** -/
theorem keyedLocs_of_dotFree {fs : FS} {R : Ctx} (hfs : fsDotFree fs = true)
    (hR : pathPlain R.path = true) (hRo : ownPlain R.own = true) :
    KeyedLocs fs R (fs.map (·.1)) := by
  intro c hc p own via hl hfile
  have hcp := reach_plain hfs hR hRo c hc
  have := (scan_plain true fs).2 _ (itemsAt_dotFree hfs c.path) _ (dirOf_plain hcp.1) hcp.2 p own via hl
  obtain ⟨s, g, items, hn⟩ := hfile
  exact nodeAt_plain_mem this.1 hn

/-! ## `format_project` -/

theorem formatProject_file (fs : FS) (fuel : Nat) (p : Path) (cfg : Config) (skip g : Bool)
    (items : List Decl) (hroot : nodeAt fs p = some (.file skip g items))
    (hnot : (cfg.skipChildren && cfg.ignored p) = false) :
    formatProject fs fuel (.file p) cfg =
      match visitCrate fs fuel (.real p) skip items
          ((toDirectoryOwnership fs p).getD .unownedViaBlock) (!cfg.skipChildren) with
      | .error e => .error e
      | .ok files =>
        .ok (keys (files.filter fun e => !shouldSkipModule fs cfg false (.real p) e.1 e.2)) := by
  simp only [formatProject, ignoreFile, hnot, parseFileAsModule, hroot]
  cases visitCrate fs fuel (.real p) skip items
    ((toDirectoryOwnership fs p).getD .unownedViaBlock) (!cfg.skipChildren) <;> simp

theorem mem_keys_filter (m : List (FileName × Mod)) (f : FileName × Mod → Bool) (k : FileName) :
    k ∈ keys (m.filter f) ↔ ∃ v, (k, v) ∈ m ∧ f (k, v) = true := by
  simp only [keys, List.mem_map, List.mem_filter]
  constructor
  · rintro ⟨⟨k', v⟩, ⟨hm, hf⟩, rfl⟩
    exact ⟨v, hm, hf⟩
  · rintro ⟨v, hm, hf⟩
    exact ⟨(k, v), ⟨hm, hf⟩, rfl⟩

theorem skipDecision_table (a b c d e f g : Bool) :
    skipDecision a b c d e f g = (a || (b && !c) || (!d && e) || (!d && !f && g)) := by
  cases a <;> cases b <;> cases c <;> cases d <;> cases e <;> cases f <;> cases g <;> rfl

theorem mem_dedup (ps : List Path) (p : Path) : p ∈ dedup ps ↔ p ∈ ps := by
  induction ps with
  | nil => simp [dedup]
  | cons q rest ih =>
    simp only [dedup]
    split
    · rename_i hq
      rw [ih]
      constructor
      · exact fun h => List.mem_cons_of_mem _ h
      · intro h
        rcases List.mem_cons.1 h with rfl | h
        · exact hq
        · exact h
    · simp [ih]

end RF.Lemmas.Modules
