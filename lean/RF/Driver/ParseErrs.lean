import RF.Model.Proto
import RF.Model.ParseErrors
import RF.Driver.Session
/-!
Line-protocol operation for the parse-error bookkeeping (C05).

  perr.run <mode> <script>   -> one observation per script item, joined by `,`
        a fresh session (`Sess.init`), then the items in order, all through the generated tables (`genParse`)
  mode     `n`: `shown` is reported as a number; `b`: as `0`/`1` (anything handed to the wrapped emitter so far?);
           `x`: not reported (`-`)
  script   `_` or items joined by `,`
           e<L><P>            one diagnostic through `DiagCtxt`: level L = `f` Fatal | `e` Error | `w` any level that
                              is not an error; primary span P = `n` none | `s` a file that is not a local path |
                              `i` a local file on the ignore list | `l` a local file not on it
           r                  `reset_errors()`
           c<class><ign>      `Parser::parse_crate` on a file of that class (classes as in the crate records of
                              RF/Driver/Session.lean: ok r s w u x f z), `ign` = `1` if the file is on the ignore list
           m<class><ign><ex>  `Parser::parse_file_as_module`; `ex` = `1` if the path exists
  observation  <result>.<can_reset><has_errors>.<shown>   result = `-` for `e`/`r`, else
           Ok | ParseError | ParsePanicError | ParserCreationError | stuck
-/
namespace RF.Driver.ParseErrs
open RF.ParseErrors RF.Gen.ParseErrs RF.Driver.Session

def encRet : Option Ret → String
  | some .ok => "Ok"
  | some .parseError => "ParseError"
  | some .parsePanicError => "ParsePanicError"
  | some .parserCreationError => "ParserCreationError"
  | none => "stuck"

def obs (mode : Char) (r : String) (s : Sess) : String :=
  let shown := if mode == 'n' then toString s.shown else if mode == 'b' then (if s.shown == 0 then "0" else "1") else "-"
  s!"{r}.{bit s.canReset}{bit s.hasErrors}.{shown}"

def decLevel : Char → Option Level
  | 'f' => some .fatal | 'e' => some .error | 'w' => some .warning | _ => none

def decLoc : Char → Option Loc
  | 'n' => some .noSpan | 's' => some .notLocal | 'i' => some (.localFile true) | 'l' => some (.localFile false)
  | _ => none

/-- one item: new state and the result word -/
def item (s : Sess) (it : String) : Option (Sess × String) :=
  match it.toList with
  | ['e', l, p] => do
    let l ← decLevel l
    let p ← decLoc p
    pure (dcxEmit genEmit s { level := l, loc := p }, "-")
  | ['r'] => some (s.reset, "-")
  | 'c' :: rest => do
    match rest.reverse with
    | ign :: cls => do
      let ign ← decBit ign
      let fp ← decParse (String.ofList cls.reverse) ign true
      let r := parseCrate genParse s fp
      pure (r.1, encRet r.2)
    | _ => none
  | 'm' :: rest => do
    match rest.reverse with
    | ex :: ign :: cls => do
      let ex ← decBit ex
      let ign ← decBit ign
      let fp ← decParse (String.ofList cls.reverse) ign false
      let r := parseFile genParse s { fp with pathExists := ex }
      pure (r.1, encRet r.2)
    | _ => none
  | _ => none

def runScript (mode : Char) : List String → Sess → Option (List String)
  | [], _ => some []
  | it :: r, s => do
    let (s', w) ← item s it
    let rest ← runScript mode r s'
    pure (obs mode w s' :: rest)

def handle (op : String) (args : List String) : Option String :=
  match op, args with
  | "perr.run", [mode, script] => do
    let mode ← match mode.toList with
      | [c] => if c == 'n' || c == 'b' || c == 'x' then some c else none
      | _ => none
    let items := if script == "_" then [] else script.splitOn ","
    let out ← runScript mode items Sess.init
    pure (if out.isEmpty then "_" else String.intercalate "," out)
  | _, _ => none

end RF.Driver.ParseErrs
