import RF.Gen.ParseErrs
import RF.Gen.ModArms
import RF.Model.Project
/-!
The parse-error bookkeeping that decides whether a file "parsed" (C05).

`format_project` creates one `ParseSess` per crate root (src/parse/session.rs).  It holds rustc's `DiagCtxt`
(whose error count and stash of not-yet-emitted diagnostics are what `has_errors()` looks at), the emitter `SilentOnIgnoredFilesEmitter` with its private
flag `has_non_ignorable_parser_errors`, and the `AtomicBool` `can_reset` shared between the two.  Every
diagnostic the rustc parser produces goes through `DiagCtxtInner::emit_diagnostic`: the emitter is called, then
the error count grows if the level is an error level.  `Parser::parse_crate` (the root) and
`Parser::parse_file_as_module` (every `mod m;`) look at `has_errors()` and `can_reset_errors()` afterwards and
either accept the file (`Ok`), accept it after `reset_errors()`, or fail (src/parse/parser.rs).

Nothing of that control flow is written down here: the statements of the emitter's two blocks, the
`Err(e)` arm of the closure, the arms of the two result matches and the initial values are the tables of
`RF.Gen.ParseErrs`, regenerated from the source by `translate/c05_errors.py` on every run, and this file is an
interpreter of such tables.  What is abstract: the rustc parser itself — a file is given by the sequence of
diagnostics parsing it produces (`level`, where the primary span lies) and by how the call ends (`Raw`).

The last section lifts the state machine into the project model: `annotateRoot` walks a crate in the order
`format_project` parses it (root, then `visit_crate` depth first), threads the session state through the
files, and writes the status the tables compute into `File.parse`, which is all `RF.Project.runProject` looks
at.
-/
namespace RF.ParseErrors
open RF.Gen.ParseErrs

/-- `warning` stands for every level that is not counted as an error (`DiagInner::is_error`). -/
inductive Level where | fatal | error | warning
  deriving DecidableEq, Repr

/-- Where the primary span of a diagnostic lies, as far as the emitter can tell: no primary span; a file that
is not `FileName::Real(LocalPath(_))` (standard input); a local file, matched by the `ignore` set or not. -/
inductive Loc where | noSpan | notLocal | localFile (ignored : Bool)
  deriving DecidableEq, Repr

structure Diag where
  level : Level
  loc : Loc
  /-- the parser stashes it (`Diag::stash`: a `static` item without a type, an expression in pattern position, …)
  instead of emitting it: it counts as an error at once but reaches the emitter only when the stash is emitted -/
  stashed : Bool := false
  deriving DecidableEq, Repr

/-- counted by `DiagCtxt` (`err_guars.push`) -/
def Diag.isError (d : Diag) : Bool := d.level != .warning

/-- the emitter drops it: not `Fatal`, primary span in a local file on the ignore list -/
def Diag.ignorable (d : Diag) : Bool := d.level != .fatal && d.loc == .localFile true

/-- `ParseSess` + `DiagCtxt` + emitter, reduced to what the decisions read.  `shown` counts the diagnostics
handed on to the wrapped emitter (stderr, unless `show_parse_errors = false`). -/
structure Sess where
  hasNonIgn : Bool
  canReset : Bool
  errCount : Nat
  shown : Nat
  /-- `DiagCtxtInner::stashed_diagnostics` -/
  stash : List Diag := []
  deriving DecidableEq, Repr

/-- `ParseSess::new` -/
def Sess.init : Sess := ⟨initHasNonIgn, initCanReset, 0, 0, []⟩

/-- `DiagCtxt::has_errors().is_some()`: emitted errors, or a stashed diagnostic that is an error -/
def Sess.hasErrors (s : Sess) : Bool := s.errCount != 0 || s.stash.any Diag.isError
/-- `reset_err_count`: the counts and the stash are dropped -/
def Sess.reset (s : Sess) : Sess := { s with errCount := 0, stash := [] }

/-- the two blocks of the emitter -/
structure EmitProg where
  handle : List Stmt
  ignored : List Stmt
  deriving DecidableEq, Repr

def runStmt : Stmt → Sess → Sess
  | .setHasNonIgn v, s => { s with hasNonIgn := v }
  | .storeCanReset v, s => { s with canReset := v }
  | .storeCanResetUnlessHasNonIgn v, s => if s.hasNonIgn then s else { s with canReset := v }
  | .forward, s => { s with shown := s.shown + 1 }

def runStmts : List Stmt → Sess → Sess
  | [], s => s
  | st :: r, s => runStmts r (runStmt st s)

/-- `SilentOnIgnoredFilesEmitter::emit_diagnostic` -/
def emitterStep (p : EmitProg) (s : Sess) (d : Diag) : Sess :=
  if d.level == .fatal then runStmts p.handle s
  else if d.loc == .localFile true then runStmts p.ignored s
  else runStmts p.handle s

/-- `DiagCtxtInner::emit_diagnostic`: the emitter first, then the error count -/
def dcxEmitNow (p : EmitProg) (s : Sess) (d : Diag) : Sess :=
  let s' := emitterStep p s d
  if d.isError then { s' with errCount := s'.errCount + 1 } else s'

def emitNowAll (p : EmitProg) : Sess → List Diag → Sess
  | s, [] => s
  | s, d :: r => emitNowAll p (dcxEmitNow p s d) r

/-- a diagnostic leaving the parser: `Diag::stash` puts it aside, `Diag::emit` sends it through -/
def dcxEmit (p : EmitProg) (s : Sess) (d : Diag) : Sess :=
  if d.stashed then { s with stash := s.stash ++ [d] } else dcxEmitNow p s d

def emitAll (p : EmitProg) : Sess → List Diag → Sess
  | s, [] => s
  | s, d :: r => emitAll p (dcxEmit p s d) r

/-- `DiagCtxtInner::emit_stashed_diagnostics`: the stash is taken and emitted in order; a stashed diagnostic
that is not an error is dropped when errors have already been emitted -/
def flushStash (p : EmitProg) (s : Sess) : Sess :=
  emitNowAll p { s with stash := [] } (s.stash.filter fun d => d.isError || s.errCount == 0)

/-! ### the decisions of parser.rs -/

/-- How the rustc parser's call ends: `Ok`; `Err(e)` (the diagnostic `e` is still pending); the call unwound
(`FatalError.raise()` after a lexer error, or a panic). -/
inductive Raw where | ok | err (e : Diag) | unwound
  deriving DecidableEq, Repr

/-- One file as the parser sees it: diagnostics emitted while it runs, in order, and how it ends. -/
structure FileParse where
  diags : List Diag := []
  raw : Raw := .ok
  pathExists : Bool := true     -- `path.exists()` in the arm guard
  stage : Stage := .crateMod    -- root only: which of the two `catch_unwind` matches sees the failure
  deriving DecidableEq, Repr

structure ParseProg where
  emit : EmitProg
  /-- `ParseSess::has_errors` emits the stash before it looks -/
  flush : Bool
  modErr : List PStmt
  fileArms : List Arm
  crateArms : List Arm
  inner : List InnerArm

/-- `ParseSess::has_errors()`, with its effect on the session -/
def hasErrorsCall (pp : ParseProg) (s : Sess) : Bool × Sess :=
  let s' := if pp.flush then flushStash pp.emit s else s
  (s'.hasErrors, s')

/-- a guard and what evaluating it does to the session -/
def evalGuard (pp : ParseProg) (g : Guard) (s : Sess) (pathExists : Bool) : Bool × Sess :=
  match g with
  | .always => (true, s)
  | .noErrors => let r := hasErrorsCall pp s; (!r.1, r.2)
  | .canReset => (s.canReset, s)
  | .pathExists => (pathExists, s)

def runPStmt (p : EmitProg) (e : Option Diag) : PStmt → Sess → Sess
  | .emitErr, s => match e with | some d => dcxEmit p s d | none => s
  | .resetIfCanReset, s => if s.canReset then s.reset else s
  | .resetErrors, s => s.reset

def runPStmts (p : EmitProg) (e : Option Diag) : List PStmt → Sess → Sess
  | [], s => s
  | st :: r, s => runPStmts p e r (runPStmt p e st s)

/-- the value the `match` looks at -/
inductive Val where | okSome | okNone | okErr | unwound
  deriving DecidableEq, Repr

def patMatches : Pat → Val → Bool
  | .okSome, .okSome => true
  | .okAny, .okSome => true
  | .okAny, .okNone => true
  | .okAny, .okErr => true
  | .okErr, .okErr => true
  | .unwound, .unwound => true
  | _, _ => false

/-- first arm whose pattern and guard hold (a guard is only evaluated when the pattern matches); `none`: no
arm (the `match` would not compile) -/
def selectArm (pp : ParseProg) : List Arm → Val → Sess → Bool → Sess × Option Ret
  | [], _, s, _ => (s, none)
  | a :: r, v, s, pe =>
    if patMatches a.pat v then
      let g := evalGuard pp a.guard s pe
      if g.1 then (runPStmts pp.emit none a.body g.2, some a.ret) else selectArm pp r v g.2 pe
    else selectArm pp r v s pe

/-- `Parser::parse_file_as_module` -/
def parseFile (pp : ParseProg) (s : Sess) (fp : FileParse) : Sess × Option Ret :=
  let s1 := emitAll pp.emit s fp.diags
  match fp.raw with
  | .ok => selectArm pp pp.fileArms .okSome s1 fp.pathExists
  | .err e => selectArm pp pp.fileArms .okNone (runPStmts pp.emit (some e) pp.modErr s1) fp.pathExists
  | .unwound => selectArm pp pp.fileArms .unwound s1 fp.pathExists

def innerFail (pp : ParseProg) (stage : Stage) (pat : Pat) (e : Option Diag) (s : Sess) : Sess × Option Ret :=
  match pp.inner.find? (fun a => a.stage == stage && a.pat == pat) with
  | some a =>
    ((if a.emits then (match e with | some d => dcxEmit pp.emit s d | none => s) else s), some a.ret)
  | none => (s, none)

/-- `Parser::parse_crate` -/
def parseCrate (pp : ParseProg) (s : Sess) (fp : FileParse) : Sess × Option Ret :=
  let s1 := emitAll pp.emit s fp.diags
  match fp.raw with
  | .ok => selectArm pp pp.crateArms .okSome s1 true
  | .err e => innerFail pp fp.stage .okErr (some e) s1
  | .unwound => innerFail pp fp.stage .unwound none s1

/-- the tables of the current source -/
def genEmit : EmitProg := ⟨handleNonIgnorable, ignoredFileBranch⟩
def genParse : ParseProg := ⟨genEmit, hasErrorsEmitsStashed, modErrArm, fileArms, crateArms, innerArms⟩

/-- every diagnostic of the call, the pending one included -/
def FileParse.allDiags (fp : FileParse) : List Diag :=
  match fp.raw with
  | .err e => fp.diags ++ [e]
  | _ => fp.diags

/-- a diagnostic that is counted as an error and is not dropped by the emitter (stashed or not) -/
def Diag.hardError (d : Diag) : Bool := d.isError && !d.ignorable

/-- **fault of a file**: the parser's call does not end in `Ok`, or it reports an error that is fatal or lies
outside the ignored files.  (An ignored file whose only diagnostics are non-fatal errors of its own is *not*
a fault: that is what `ignore` is for.) -/
def FileParse.fault (fp : FileParse) : Bool :=
  fp.raw != .ok || fp.allDiags.any Diag.hardError

/-! ### lift into the project model -/
open RF.Project

def retToParse : Option Ret → Parse
  | some .ok => .ok
  | some .parsePanicError => .panic
  | _ => .lexErr

/-! #### what `find_external_module` does with a parse result (tables of `RF.Gen.ModArms`) -/
open RF.Gen.ModArms

/-- the arms of the match on a nested-path candidate and of the match on the default file -/
structure ModProg where
  alt : List MArm
  dflt : List MArm

def genMods : ModProg := ⟨altArms, dfltArms⟩

/-- does the arm pattern match the result of `parse_file_as_module` (`skip`: the file has `#![rustfmt::skip]`) -/
def patHolds : MPat → Option Ret → Bool → Bool
  | .okSkip, some .ok, true => true
  | .ok, some .ok, _ => true
  | .errParse, some .parseError, _ => true
  | .errAny, some .ok, _ => false
  | .errAny, _, _ => true
  | _, _, _ => false

/-- first arm whose pattern and guard hold (`oe`: `outside_mods_empty`); no arm (the `match` would not
compile): read as an error -/
def selectM : List MArm → Option Ret → Bool → Bool → MAct
  | [], _, _, _ => .fail
  | a :: r, ret, sk, oe =>
    if patHolds a.pat ret sk && (a.guard == .always || oe) then a.act else selectM r ret sk oe

def toAltAct : MAct → AltAct
  | .fail => .fail
  | .use => .use
  | .useWithOthers => .use
  | .skip => .skip
  | .registerDeclaringItem => .skip

def toDfltAct : MAct → DfltAct
  | .fail => .fail
  | .skip => .none
  | .use => .file
  | .useWithOthers => .file
  | .registerDeclaringItem => .declaringItem

/-- the resolver has just seen `path.exists()` -/
def existing (fp : FileParse) : FileParse := { fp with pathExists := true }

/-- `find_mods_outside_of_ast`: every candidate's file is parsed, in order, until one makes the function
return an error: what is decided for each, and the status of its file.  (The resolver has just seen
`actual_path.exists()`.) -/
def altDecisions (pp : ParseProg) (mp : ModProg) (pi : Nat → FileParse) : Alts → Sess → List (AltAct × Parse) × Sess
  | .nil, s => ([], s)
  | .cons _ (.node f _) rest, s =>
    let r := parseFile pp s (existing (pi f.path))
    let act := toAltAct (selectM mp.alt r.2 f.skipAttr true)
    if act = .fail then ([(.fail, retToParse r.2)], r.1)
    else
      let a := altDecisions pp mp pi rest r.1
      ((act, retToParse r.2) :: a.1, a.2)

def decsFail (ds : List (AltAct × Parse)) : Bool := ds.any fun d => d.1 == .fail
def decsAnyUse (ds : List (AltAct × Parse)) : Bool := ds.any fun d => d.1 == .use

/-- the decisions written into the candidates (those after a failing one keep what they had) -/
def applyDecs : Alts → List (AltAct × Parse) → Alts
  | .nil, _ => .nil
  | .cons a0 t rest, [] => .cons a0 t rest
  | .cons _ (.node f m) rest, (act, p) :: dr => .cons act (.node { f with parse := p } m) (applyDecs rest dr)

mutual
/-- `visit_sub_mod` on a `mod m;` that resolved to this file: `parse_file_as_module` in the state left by
everything parsed before; the children are parsed only if the file is accepted and has no
`#![rustfmt::skip]`. -/
def annT (pp : ParseProg) (mp : ModProg) (pi : Nat → FileParse) : Tree → Sess → Tree × Sess
  | .node f mods, s =>
    let r := parseFile pp s (pi f.path)
    let f' := { f with parse := retToParse r.2 }
    if r.2 = some .ok ∧ f.skipAttr = false then
      let m := annM pp mp pi mods r.1
      (.node f' m.1, m.2)
    else (.node f' mods, r.1)
def annM (pp : ParseProg) (mp : ModProg) (pi : Nat → FileParse) : Mods → Sess → Mods × Sess
  | .nil, s => (.nil, s)
  | .found t rest, s =>
    let a := annT pp mp pi t s
    if faultT a.1 then (.found a.1 rest, a.2)        -- `?`: nothing after it is parsed
    else
      let m := annM pp mp pi rest a.2
      (.found a.1 m.1, m.2)
  | .skipped rest, s => let m := annM pp mp pi rest s; (.skipped m.1, m.2)
  | .notFound rest, s => (.notFound rest, s)
  | .multiple rest, s => (.multiple rest, s)
  | .cfgAttr alts dk _ (.node df dm) ghost rest, s =>
    -- the candidates' files, then the default file, then (if resolution goes on) the `mod` items of the
    -- candidates that were taken, those of the default file, and the rest of the declaring file
    let a := altDecisions pp mp pi alts s
    if decsFail a.1 then (.cfgAttr (applyDecs alts a.1) dk .fail (.node df dm) ghost rest, a.2)
    else
      let r := parseFile pp a.2 (existing (pi df.path))
      let oe := !decsAnyUse a.1
      let act : DfltAct :=
        match dk with
        | .found => toDfltAct (selectM mp.dflt r.2 df.skipAttr oe)
        | .notFound => if oe then .fail else .candidates
        | .multiple => if oe then .fail else .candidates
      let s1 := if dk = .found then r.1 else a.2
      let df' := if dk = .found then { df with parse := retToParse r.2 } else df
      match act with
      | .fail => (.cfgAttr (applyDecs alts a.1) dk .fail (.node df' dm) ghost rest, s1)
      | .none =>
        let m := annM pp mp pi rest s1
        (.cfgAttr (applyDecs alts a.1) dk .none (.node df' dm) ghost m.1, m.2)
      | .file =>
        let c := annA pp mp pi alts a.1 s1
        if faultA c.1 then (.cfgAttr c.1 dk .file (.node df' dm) ghost rest, c.2)
        else
          let d := annM pp mp pi dm c.2
          if faultM d.1 then (.cfgAttr c.1 dk .file (.node df' d.1) ghost rest, d.2)
          else
            let m := annM pp mp pi rest d.2
            (.cfgAttr c.1 dk .file (.node df' d.1) ghost m.1, m.2)
      | .declaringItem =>
        let c := annA pp mp pi alts a.1 s1
        if faultA c.1 then (.cfgAttr c.1 dk .declaringItem (.node df' dm) ghost rest, c.2)
        else
          let m := annM pp mp pi rest c.2
          (.cfgAttr c.1 dk .declaringItem (.node df' dm) ghost m.1, m.2)
      | .candidates =>
        let c := annA pp mp pi alts a.1 s1
        if faultA c.1 then (.cfgAttr c.1 dk .candidates (.node df' dm) ghost rest, c.2)
        else
          let m := annM pp mp pi rest c.2
          (.cfgAttr c.1 dk .candidates (.node df' dm) ghost m.1, m.2)
/-- `visit_sub_mod_inner` on `MultiExternal`: the decisions written into the candidates, and the `mod` items of
the candidates that were taken parsed in order -/
def annA (pp : ParseProg) (mp : ModProg) (pi : Nat → FileParse) : Alts → List (AltAct × Parse) → Sess → Alts × Sess
  | .nil, _, s => (.nil, s)
  | .cons a0 t rest, [], s => (.cons a0 t rest, s)
  | .cons _ (.node f m) rest, (.use, p) :: dr, s =>
    let c := annM pp mp pi m s
    if faultM c.1 then (.cons .use (.node { f with parse := p } c.1) (applyDecs rest dr), c.2)
    else
      let a := annA pp mp pi rest dr c.2
      (.cons .use (.node { f with parse := p } c.1) a.1, a.2)
  | .cons _ (.node f m) rest, (.fail, p) :: dr, s =>
    let a := annA pp mp pi rest dr s
    (.cons .fail (.node { f with parse := p } m) a.1, a.2)
  | .cons _ (.node f m) rest, (.skip, p) :: dr, s =>
    let a := annA pp mp pi rest dr s
    (.cons .skip (.node { f with parse := p } m) a.1, a.2)
end

/-- The crate with every file's `parse` and every decision of `find_external_module` computed by the
generated tables: `parse_crate` on the root in the fresh session, then (unless `skip_children`) the modules.
`pi` gives, per path, what the rustc parser does on that file. -/
def annotateRoot (pp : ParseProg) (mp : ModProg) (pi : Nat → FileParse) (cfg : Cfg) (root : Tree) : Tree :=
  let r := parseCrate pp Sess.init (pi root.file.path)
  let f' := { root.file with parse := retToParse r.2 }
  if r.2 = some .ok ∧ cfg.skipChildren = false then .node f' (annM pp mp pi root.mods r.1).1
  else .node f' root.mods

/-- some candidate's own file has a fault -/
def altsFileFault (pi : Nat → FileParse) : Alts → Bool
  | .nil => false
  | .cons _ (.node f _) rest => (pi f.path).fault || altsFileFault pi rest

/-- every candidate has `#![rustfmt::skip]` (in particular: there is none) -/
def altsAllSkip : Alts → Bool
  | .nil => true
  | .cons _ (.node f _) rest => f.skipAttr && altsAllSkip rest

mutual
/-- a file with a fault that module resolution reaches below this sub-module -/
def faultET (pi : Nat → FileParse) : Tree → Bool
  | .node f mods => (pi f.path).fault || (!f.skipAttr && faultEM pi mods)
def faultEM (pi : Nat → FileParse) : Mods → Bool
  | .nil => false
  | .found t rest => faultET pi t || faultEM pi rest
  | .skipped rest => faultEM pi rest
  | .notFound _ => true
  | .multiple _ => true
  | .cfgAttr alts dk _ (.node df dm) _ rest =>
    altsFileFault pi alts ||
    (match dk with
     | .found => (pi df.path).fault || (!df.skipAttr && (faultEA pi alts || faultEM pi dm || faultEM pi rest)) ||
                 (df.skipAttr && faultEM pi rest)
     | .notFound => altsAllSkip alts || faultEA pi alts || faultEM pi rest
     | .multiple => altsAllSkip alts || faultEA pi alts || faultEM pi rest)
/-- a fault below a candidate that is taken -/
def faultEA (pi : Nat → FileParse) : Alts → Bool
  | .nil => false
  | .cons _ (.node f m) rest => (!f.skipAttr && faultEM pi m) || faultEA pi rest
end

/-- **The root cannot be processed** (statement of C05, with the kinds of syntax error spelled out): the
root file has a fault, or — unless `skip_children` — some file module resolution reaches has one (the default
file of a `mod`, a `#[path]` target, a candidate of a nested `#[cfg_attr(.., path = "..")]`, anything below
them), or a `mod` has no file or two. -/
def faultyE (pi : Nat → FileParse) (cfg : Cfg) (root : Tree) : Bool :=
  (pi root.file.path).fault || (!cfg.skipChildren && faultEM pi root.mods)

/-- `format_project` on a crate whose files are given by their diagnostics -/
def runProjectE (pp : ParseProg) (mp : ModProg) (pi : Nat → FileParse) (phases : List RF.Gen.Phases.Phase)
    (steps : List RF.Gen.Phases.FileStep) (ops : FileOps) (kind : RF.Gen.Emitters.EmitterKind) (cfg : Cfg) (root : Tree) : Result :=
  runProject phases steps ops kind cfg (annotateRoot pp mp pi cfg root)

end RF.ParseErrors
