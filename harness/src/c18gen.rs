//! C18 generators: workspace descriptions, their materialisation on disk, and command lines.
use std::path::{Path, PathBuf};

use crate::c18::St;
use crate::util::Rng;

pub const EDS: [&str; 4] = ["2015", "2018", "2021", "2024"];

#[derive(Clone, Debug)]
pub struct Tgt {
    /// lib | bin | example | test | bench | build
    pub kind: &'static str,
    pub name: String,
    /// root file, relative to the package directory (may leave it with `..`)
    pub rel: String,
    /// per-target `edition = …` (explicit style only)
    pub edition: Option<&'static str>,
    pub crate_type: Option<&'static str>,
}

#[derive(Clone, Debug, PartialEq)]
pub enum DepTo {
    /// a generated package (index into `Uni::pkgs`)
    Pkg(usize),
    /// `path = …` to a directory without a manifest
    Missing(String),
    /// `name = "1"` (no path)
    Registry,
}

#[derive(Clone, Debug)]
pub struct DepSpec {
    /// the key in the dependency table (differs from the package name when renamed)
    pub key: String,
    pub to: DepTo,
    /// dependencies | dev-dependencies | build-dependencies
    pub section: &'static str,
    pub absolute: bool,
}

#[derive(Clone, Copy, Debug, PartialEq)]
pub enum Role {
    Member,
    /// outside the workspace directory, its own root
    Outside,
    /// inside the workspace directory, excluded from the workspace
    Vendored,
}

#[derive(Clone, Debug)]
pub struct Pkg {
    pub name: String,
    pub dir: PathBuf,
    pub edition: Option<&'static str>,
    /// explicit target tables with `auto* = false`, or cargo's discovery of the standard places
    pub explicit: bool,
    pub tgts: Vec<Tgt>,
    pub deps: Vec<DepSpec>,
    pub role: Role,
    /// the manifest is not valid TOML
    pub broken: bool,
}

#[derive(Clone, Debug)]
pub struct Uni {
    pub base: PathBuf,
    pub root: PathBuf,
    pub virt: bool,
    /// a single package without a `[workspace]` table
    pub plain: bool,
    pub pkgs: Vec<Pkg>,
    /// indices of the members; for a rooted workspace `members[0]` is the root package
    pub members: Vec<usize>,
    /// (link, target): `link` is created as a symbolic link
    pub links: Vec<(PathBuf, PathBuf)>,
    /// text appended to the workspace table (foreign workspaces of the probes)
    pub extra_files: Vec<(PathBuf, String)>,
    pub desc: String,
}

pub fn rel_path(from: &Path, to: &Path) -> String {
    let a: Vec<_> = from.components().collect();
    let b: Vec<_> = to.components().collect();
    let mut k = 0;
    while k < a.len() && k < b.len() && a[k] == b[k] {
        k += 1;
    }
    let mut parts: Vec<String> = vec![];
    for _ in k..a.len() {
        parts.push("..".into());
    }
    for c in &b[k..] {
        parts.push(c.as_os_str().to_string_lossy().into_owned());
    }
    if parts.is_empty() { ".".into() } else { parts.join("/") }
}

fn toml_str(s: &str) -> String {
    format!("\"{}\"", s.replace('\\', "\\\\").replace('"', "\\\""))
}

pub fn manifest_text(u: &Uni, i: usize) -> String {
    let p = &u.pkgs[i];
    if p.broken {
        return "[package\nname = broken\n".into();
    }
    let mut s = String::new();
    s.push_str(&format!("[package]\nname = {}\nversion = \"0.1.0\"\n", toml_str(&p.name)));
    if let Some(e) = p.edition {
        s.push_str(&format!("edition = \"{}\"\n", e));
    }
    if p.explicit {
        s.push_str("autobins = false\nautoexamples = false\nautotests = false\nautobenches = false\n");
        match p.tgts.iter().find(|t| t.kind == "build") {
            Some(t) => s.push_str(&format!("build = {}\n", toml_str(&t.rel))),
            None => s.push_str("build = false\n"),
        }
        for t in &p.tgts {
            match t.kind {
                "build" => continue,
                "lib" => s.push_str("\n[lib]\n"),
                k => s.push_str(&format!("\n[[{}]]\nname = {}\n", k, toml_str(&t.name))),
            }
            s.push_str(&format!("path = {}\n", toml_str(&t.rel)));
            if let Some(e) = t.edition {
                s.push_str(&format!("edition = \"{}\"\n", e));
            }
            if let Some(ct) = t.crate_type {
                if ct == "proc-macro" {
                    s.push_str("proc-macro = true\n");
                } else {
                    let l: Vec<String> = ct.split(',').map(toml_str).collect();
                    s.push_str(&format!("crate-type = [{}]\n", l.join(", ")));
                }
            }
        }
    }
    for section in ["dependencies", "dev-dependencies", "build-dependencies"] {
        let ds: Vec<&DepSpec> = p.deps.iter().filter(|d| d.section == section).collect();
        if ds.is_empty() {
            continue;
        }
        s.push_str(&format!("\n[{}]\n", section));
        for d in ds {
            match &d.to {
                DepTo::Registry => s.push_str(&format!("{} = \"1\"\n", d.key)),
                DepTo::Missing(rel) => s.push_str(&format!("{} = {{ path = {} }}\n", d.key, toml_str(rel))),
                DepTo::Pkg(j) => {
                    let q = &u.pkgs[*j];
                    let path = if d.absolute { q.dir.to_string_lossy().into_owned() } else { rel_path(&p.dir, &q.dir) };
                    if d.key == q.name {
                        s.push_str(&format!("{} = {{ path = {} }}\n", d.key, toml_str(&path)));
                    } else {
                        s.push_str(&format!("{} = {{ path = {}, package = {} }}\n", d.key, toml_str(&path), toml_str(&q.name)));
                    }
                }
            }
        }
    }
    s
}

pub fn workspace_table(u: &Uni) -> String {
    let mem: Vec<String> = u.members.iter().filter(|&&i| u.pkgs[i].dir != u.root).map(|&i| toml_str(&rel_path(&u.root, &u.pkgs[i].dir))).collect();
    let exc: Vec<String> = u.pkgs.iter().filter(|p| p.role == Role::Vendored).map(|p| toml_str(&rel_path(&u.root, &p.dir))).collect();
    let mut s = format!("\n[workspace]\nresolver = \"2\"\nmembers = [{}]\n", mem.join(", "));
    if !exc.is_empty() {
        s.push_str(&format!("exclude = [{}]\n", exc.join(", ")));
    }
    s
}

fn write_file(p: &Path, text: &str) {
    if let Some(d) = p.parent() {
        std::fs::create_dir_all(d).unwrap();
    }
    std::fs::write(p, text).unwrap();
}

pub fn materialise(u: &Uni) {
    let _ = std::fs::remove_dir_all(&u.base);
    std::fs::create_dir_all(&u.root).unwrap();
    for (link, target) in &u.links {
        if let Some(d) = link.parent() {
            std::fs::create_dir_all(d).unwrap();
        }
        if !target.exists() && target.extension().is_some() {
            write_file(target, "");
        }
        std::os::unix::fs::symlink(target, link).unwrap();
    }
    for (i, p) in u.pkgs.iter().enumerate() {
        let mut text = manifest_text(u, i);
        if p.dir == u.root && !u.plain {
            text.push_str(&workspace_table(u));
        }
        write_file(&p.dir.join("Cargo.toml"), &text);
        std::fs::create_dir_all(p.dir.join("src")).unwrap();
        for t in &p.tgts {
            let f = p.dir.join(&t.rel);
            if std::fs::symlink_metadata(&f).is_err() {
                write_file(&f, "");
            }
        }
    }
    if u.virt {
        write_file(&u.root.join("Cargo.toml"), workspace_table(u).trim_start());
    }
    for (f, text) in &u.extra_files {
        write_file(f, text);
    }
}

// ------------------------------------------------------------------------------------------------
// random workspaces

const NAMES: [&str; 10] = ["core", "app", "zed", "alpha", "kit", "m1", "beta-x", "net", "io-ring", "q"];

fn gen_targets(rng: &mut Rng, name: &str, explicit: bool, common: Option<&str>, link: Option<&str>) -> Vec<Tgt> {
    let mut ts: Vec<Tgt> = vec![];
    let ed = |rng: &mut Rng| -> Option<&'static str> { if rng.chance(1, 2) { Some(*rng.pick(&EDS)) } else { None } };
    if explicit {
        let has_lib = rng.chance(3, 5);
        if has_lib {
            let ct = match rng.below(6) { 0 => Some("cdylib,rlib"), 1 => Some("proc-macro"), 2 => Some("staticlib"), _ => None };
            ts.push(Tgt { kind: "lib", name: name.replace('-', "_"), rel: rng.pick(&["src/mylib.rs", "lib/entry.rs", "src/lib.rs", "code/l i b.rs"]).to_string(), edition: ed(rng), crate_type: ct });
        }
        let nb = if has_lib { rng.below(3) } else { 1 + rng.below(2) };
        for k in 0..nb {
            ts.push(Tgt { kind: "bin", name: format!("bin{}", k), rel: format!("{}/b{}.rs", rng.pick(&["tools", "src/bin", "src", "cmd-x"]), k), edition: ed(rng), crate_type: None });
        }
        for (kind, dir) in [("example", "demo"), ("test", "checks"), ("bench", "perf")] {
            for k in 0..rng.below(2) {
                ts.push(Tgt { kind, name: format!("{}{}", kind, k), rel: format!("{}/{}{}.rs", dir, kind, k), edition: ed(rng), crate_type: None });
            }
        }
        if rng.chance(1, 4) {
            ts.push(Tgt { kind: "build", name: "build-script-build".into(), rel: rng.pick(&["scripts/build.rs", "build.rs"]).to_string(), edition: None, crate_type: None });
        }
        // a file shared by two targets of this package
        if rng.chance(1, 4) {
            let k = rng.below(ts.len());
            if ts[k].kind != "build" {
                let rel = ts[k].rel.clone();
                let kind = *rng.pick(&["bin", "example", "test"]);
                ts.push(Tgt { kind, name: format!("twin{}", ts.len()), rel, edition: ed(rng), crate_type: None });
            }
        }
        // a file shared with other packages of the workspace
        if let Some(c) = common {
            if rng.chance(1, 3) {
                ts.push(Tgt { kind: *rng.pick(&["bin", "example"]), name: "shared".into(), rel: c.to_string(), edition: ed(rng), crate_type: None });
            }
        }
        // a root file that is a symbolic link to the common file
        if let Some(l) = link {
            ts.push(Tgt { kind: "bin", name: "linked".into(), rel: l.to_string(), edition: ed(rng), crate_type: None });
        }
    } else {
        let lib = rng.chance(3, 5);
        if lib {
            ts.push(Tgt { kind: "lib", name: name.replace('-', "_"), rel: "src/lib.rs".into(), edition: None, crate_type: None });
        }
        if !lib || rng.chance(2, 5) {
            ts.push(Tgt { kind: "bin", name: name.into(), rel: "src/main.rs".into(), edition: None, crate_type: None });
        }
        for k in 0..rng.below(3) {
            let rel = if rng.chance(1, 4) { format!("src/bin/tool{}/main.rs", k) } else { format!("src/bin/tool{}.rs", k) };
            ts.push(Tgt { kind: "bin", name: format!("tool{}", k), rel, edition: None, crate_type: None });
        }
        for (kind, dir) in [("example", "examples"), ("test", "tests"), ("bench", "benches")] {
            for k in 0..rng.below(2) {
                ts.push(Tgt { kind, name: format!("{}{}", kind, k), rel: format!("{}/{}{}.rs", dir, kind, k), edition: None, crate_type: None });
            }
        }
        if rng.chance(1, 4) {
            ts.push(Tgt { kind: "build", name: "build-script-build".into(), rel: "build.rs".into(), edition: None, crate_type: None });
        }
    }
    ts
}

/// 1..4 members, virtual or rooted, outside packages (a dependency of a dependency, a back edge, an
/// unreachable one), a vendored non-member, missing and registry dependencies, shared files, links.
/// Package names are unique (the known defect of `--all` needs two packages of one name).
pub fn gen_uni(rng: &mut Rng, base: &Path, idx: usize) -> Uni {
    let base = base.join(format!("u{}", idx));
    let root = base.join(*rng.pick(&["ws", "work space", "w.s"]));
    let n = 1 + rng.below(4);
    let virt = rng.chance(1, 2);
    let plain = !virt && n == 1 && rng.chance(1, 2);
    let mut names: Vec<String> = vec![];
    let mut pool: Vec<&str> = NAMES.to_vec();
    let mut take = |rng: &mut Rng, names: &mut Vec<String>| -> String {
        // `x` and `x-util`: sibling directories whose byte order and component order differ
        if let Some(last) = names.last() {
            let cand = format!("{}-util", last);
            if !last.ends_with("-util") && rng.chance(2, 5) && !names.contains(&cand) {
                names.push(cand.clone());
                return cand;
            }
        }
        let k = rng.below(pool.len());
        let s = pool.remove(k).to_string();
        names.push(s.clone());
        s
    };
    let mut u = Uni { base: base.clone(), root: root.clone(), virt, plain, pkgs: vec![], members: vec![], links: vec![], extra_files: vec![], desc: String::new() };
    let common_abs = root.join("common/shared.rs");
    let mut use_link = rng.chance(1, 6);
    let mut any_common = false;
    let sub = *rng.pick(&["", "", "crates/"]);
    for m in 0..n {
        let name = take(rng, &mut names);
        let dir = if !virt && m == 0 {
            root.clone()
        } else {
            let d = match rng.below(6) { 0 => format!("{}.d", name), 1 => format!("{} x", name), _ => name.clone() };
            root.join(format!("{}{}", sub, d))
        };
        let explicit = rng.chance(1, 2);
        let common = rel_path(&dir, &common_abs);
        let link = if explicit && use_link { use_link = false; Some("src/link.rs") } else { None };
        if let Some(l) = link {
            u.links.push((dir.join(l), common_abs.clone()));
            any_common = true;
        }
        let tgts = gen_targets(rng, &name, explicit, Some(&common), link);
        any_common |= tgts.iter().any(|t| t.rel == common);
        let edition = if rng.chance(1, 8) { None } else { Some(*rng.pick(&EDS)) };
        u.pkgs.push(Pkg { name, dir, edition, explicit, tgts, deps: vec![], role: Role::Member, broken: false });
        u.members.push(m);
    }
    let _ = any_common;
    // packages outside the workspace
    let n_out = if plain { rng.below(2) } else { rng.below(4) };
    let mut outs: Vec<usize> = vec![];
    for k in 0..n_out {
        let name = take(rng, &mut names);
        let dir = if k == 1 && rng.chance(1, 2) { u.pkgs[outs[0]].dir.join(format!("sub/{}", name)) } else { base.join(format!("{}/{}", rng.pick(&["ext", "ext2", "ext-x"]), name)) };
        let explicit = rng.chance(1, 2);
        let tgts = gen_targets(rng, &name, explicit, None, None);
        let edition = if rng.chance(1, 8) { None } else { Some(*rng.pick(&EDS)) };
        u.pkgs.push(Pkg { name, dir, edition, explicit, tgts, deps: vec![], role: Role::Outside, broken: false });
        outs.push(u.pkgs.len() - 1);
    }
    // a package inside the workspace directory that is not a member
    let mut vend: Option<usize> = None;
    if !plain && rng.chance(1, 5) {
        let name = take(rng, &mut names);
        let dir = root.join(format!("vendor/{}", name));
        let tgts = gen_targets(rng, &name, false, None, None);
        u.pkgs.push(Pkg { name, dir, edition: Some(*rng.pick(&EDS)), explicit: false, tgts, deps: vec![], role: Role::Vendored, broken: false });
        vend = Some(u.pkgs.len() - 1);
    }
    // edges
    let section = |rng: &mut Rng| *rng.pick(&["dependencies", "dependencies", "dev-dependencies", "build-dependencies"]);
    let add = |u: &mut Uni, rng: &mut Rng, from: usize, to: usize| {
        if from == to || u.pkgs[from].deps.iter().any(|d| d.to == DepTo::Pkg(to)) {
            return;
        }
        let key = if rng.chance(1, 6) { format!("r{}", u.pkgs[to].name.replace('-', "")) } else { u.pkgs[to].name.clone() };
        let d = DepSpec { key, to: DepTo::Pkg(to), section: section(rng), absolute: rng.chance(1, 5) };
        u.pkgs[from].deps.push(d);
    };
    for a in 0..n {
        for b in 0..a {
            if rng.chance(1, 3) {
                add(&mut u, rng, a, b);
            }
        }
        if a + 1 < n && rng.chance(1, 6) {
            // forward edge as a dev-dependency (cycles through dev-dependencies are legal)
            let key = u.pkgs[a + 1].name.clone();
            u.pkgs[a].deps.push(DepSpec { key, to: DepTo::Pkg(a + 1), section: "dev-dependencies", absolute: false });
        }
    }
    if let Some(&o0) = outs.first() {
        let m = rng.below(n);
        add(&mut u, rng, m, o0);
        if rng.chance(1, 3) {
            let m2 = rng.below(n);
            add(&mut u, rng, m2, o0);
        }
    }
    if outs.len() >= 2 {
        // the dependency of a dependency
        add(&mut u, rng, outs[0], outs[1]);
        if rng.chance(1, 3) {
            let m = rng.below(n);
            add(&mut u, rng, m, outs[1]);
        }
        if rng.chance(1, 3) {
            // back into the workspace
            let m = rng.below(n);
            add(&mut u, rng, outs[1], m);
        }
    }
    if outs.len() >= 3 && rng.chance(1, 2) {
        // outs[2] stays unreachable half of the time
        let f = if rng.chance(1, 2) { outs[1] } else { rng.below(n) };
        add(&mut u, rng, f, outs[2]);
    }
    if let Some(v) = vend {
        let m = rng.below(n);
        add(&mut u, rng, m, v);
        if let (Some(&o0), true) = (outs.first(), rng.chance(1, 3)) {
            add(&mut u, rng, v, o0);
        }
    }
    for i in 0..u.pkgs.len() {
        // (cargo reads the manifest of every direct path dependency of a member of an explicit
        // workspace, so a missing one is tolerated only outside of it)
        if rng.chance(1, 4) && (u.plain || u.pkgs[i].role == Role::Outside) {
            // (a missing path below the workspace root would be loaded as an implicit member and fail)
            let rel = rel_path(&u.pkgs[i].dir, &base.join("nowhere/gone"));
            u.pkgs[i].deps.push(DepSpec { key: "gone".into(), to: DepTo::Missing(rel), section: section(rng), absolute: false });
        }
        if rng.chance(1, 8) {
            u.pkgs[i].deps.push(DepSpec { key: "serde".into(), to: DepTo::Registry, section: section(rng), absolute: false });
        }
    }
    // rarely: a reachable outside package whose manifest is unusable
    if let Some(&o) = outs.last() {
        let dependents: Vec<Role> = u.pkgs.iter().filter(|p| p.deps.iter().any(|d| d.to == DepTo::Pkg(o))).map(|p| p.role).collect();
        if rng.chance(1, 8) && !dependents.is_empty() && dependents.iter().all(|r| *r == Role::Outside) {
            u.pkgs[o].broken = true;
            u.pkgs[o].deps.clear();
        }
    }
    u.desc = describe(&u);
    u
}

pub fn describe(u: &Uni) -> String {
    let mut s = format!("{} {}:", u.base.file_name().unwrap().to_string_lossy(), if u.virt { "virtual" } else if u.plain { "plain" } else { "rooted" });
    for p in &u.pkgs {
        let rel = rel_path(&u.base, &p.dir);
        let ts: Vec<String> = p.tgts.iter().map(|t| format!("{}:{}@{}", t.kind, t.rel, t.edition.or(p.edition).unwrap_or("2015"))).collect();
        let ds: Vec<String> = p.deps.iter().map(|d| match &d.to { DepTo::Pkg(j) => u.pkgs[*j].name.clone(), DepTo::Missing(_) => "<missing>".into(), DepTo::Registry => "<registry>".into() }).collect();
        s.push_str(&format!(" [{}{} at {} {{{}}} -> {{{}}}]", p.name, match p.role { Role::Member => "", Role::Outside => " (outside)", Role::Vendored => " (vendored)" }, rel, ts.join(" "), ds.join(",")));
    }
    s
}

// ------------------------------------------------------------------------------------------------
// command lines

#[derive(Clone, Debug, PartialEq)]
pub enum Sel {
    Root,
    Pkgs(Vec<String>),
    All,
}

#[derive(Clone, Copy, Debug, PartialEq)]
pub enum ManifestOf {
    WsRoot,
    Pkg(usize),
    Missing,
}

#[derive(Clone, Debug)]
pub struct ManifestArg {
    pub text: String,
    pub of: ManifestOf,
}

#[derive(Clone, Copy, Debug, PartialEq)]
pub enum CwdOf {
    WsRoot,
    PkgDir(usize),
    /// strictly below the package's directory
    Below(usize),
}

#[derive(Clone, Debug)]
pub struct RunSpec {
    pub cwd: PathBuf,
    pub cwd_of: CwdOf,
    pub sel: Sel,
    /// `-p` names given together with `--all`
    pub also_packages: Vec<String>,
    pub manifest: Option<ManifestArg>,
    pub check: bool,
    pub msgfmt: Option<String>,
    pub pass: Vec<String>,
    pub quiet: bool,
    pub verbose: bool,
    pub version: bool,
    pub statuses: Vec<St>,
    pub argv: Vec<String>,
    /// a shape known to violate the property on the pinned tree (enumerated probes only)
    pub dirty: bool,
}

impl RunSpec {
    pub fn new(cwd: &Path, cwd_of: CwdOf, sel: Sel) -> RunSpec {
        RunSpec { cwd: cwd.to_path_buf(), cwd_of, sel, also_packages: vec![], manifest: None, check: false, msgfmt: None, pass: vec![], quiet: false, verbose: false, version: false, statuses: vec![], argv: vec![], dirty: false }
    }
    /// The command line in one of its spellings.
    pub fn spell(&mut self, rng: &mut Rng) {
        let mut groups: Vec<Vec<String>> = vec![];
        let s = |x: &str| x.to_string();
        if self.quiet {
            groups.push(vec![s(*rng.pick(&["-q", "--quiet"]))]);
        }
        if self.verbose {
            groups.push(vec![s(*rng.pick(&["-v", "--verbose"]))]);
        }
        if self.version {
            groups.push(vec![s("--version")]);
        }
        if self.check {
            groups.push(vec![s("--check")]);
        }
        if self.sel == Sel::All {
            groups.push(vec![s("--all")]);
        }
        let names: Vec<String> = match &self.sel { Sel::Pkgs(n) => n.clone(), Sel::All => self.also_packages.clone(), Sel::Root => vec![] };
        if !names.is_empty() {
            match rng.below(3) {
                0 => {
                    let mut g = vec![s(*rng.pick(&["-p", "--package"]))];
                    g.extend(names.iter().cloned());
                    groups.push(g);
                }
                1 => {
                    let mut g = vec![];
                    for n in &names {
                        g.push(s("-p"));
                        g.push(n.clone());
                    }
                    groups.push(g);
                }
                _ => {
                    let mut g = vec![];
                    for n in &names {
                        g.push(format!("--package={}", n));
                    }
                    groups.push(g);
                }
            }
        }
        if let Some(m) = &self.manifest {
            if rng.chance(1, 2) { groups.push(vec![s("--manifest-path"), m.text.clone()]) } else { groups.push(vec![format!("--manifest-path={}", m.text)]) }
        }
        if let Some(f) = &self.msgfmt {
            if rng.chance(1, 2) { groups.push(vec![s("--message-format"), f.clone()]) } else { groups.push(vec![format!("--message-format={}", f)]) }
        }
        // shuffle the groups
        for i in (1..groups.len()).rev() {
            let j = rng.below(i + 1);
            groups.swap(i, j);
        }
        let mut argv = vec![s("fmt")];
        for g in groups {
            argv.extend(g);
        }
        if !self.pass.is_empty() || rng.chance(1, 10) {
            argv.push(s("--"));
            argv.extend(self.pass.iter().cloned());
        }
        self.argv = argv;
    }
}

const PASS_POOL: [&str; 14] = ["--config", "max_width=80", "--check", "-l", "--files-with-diff", "--emit", "files", "--emit=stdout", "--color", "never", "--unstable-features", "x y", "--config-path=/nowhere/rustfmt.toml", "--edition"];

/// Every (selection, working directory, manifest) combination of the universe that the property
/// covers and that is not one of the enumerated known-dirty shapes.
pub fn combos(u: &Uni, rng: &mut Rng) -> Vec<RunSpec> {
    let mut cwds: Vec<(PathBuf, CwdOf)> = vec![(u.root.clone(), if u.virt { CwdOf::WsRoot } else if u.members.len() == 1 { CwdOf::PkgDir(u.members[0]) } else { CwdOf::WsRoot })];
    for &m in &u.members {
        let p = &u.pkgs[m];
        if p.dir != u.root {
            cwds.push((p.dir.clone(), CwdOf::PkgDir(m)));
        }
        cwds.push((p.dir.join("src"), CwdOf::Below(m)));
    }
    let single = u.members.len() == 1;
    let member_names: Vec<String> = u.members.iter().map(|&m| u.pkgs[m].name.clone()).collect();
    let mut res = vec![];
    for (cwd, of) in &cwds {
        // the current package
        let below = matches!(of, CwdOf::Below(_));
        if single || !below {
            res.push(RunSpec::new(cwd, *of, Sel::Root));
        }
        // --all
        let mut all = RunSpec::new(cwd, *of, Sel::All);
        if rng.chance(1, 6) {
            all.also_packages = vec![rng.pick(&member_names).clone()];
        }
        res.push(all);
        // -p: a random non-empty subset, sometimes with a repetition
        let mut names: Vec<String> = member_names.iter().filter(|_| rng.chance(1, 2)).cloned().collect();
        if names.is_empty() {
            names.push(rng.pick(&member_names).clone());
        }
        if rng.chance(1, 5) {
            names.push(names[0].clone());
        }
        for i in (1..names.len()).rev() {
            let j = rng.below(i + 1);
            names.swap(i, j);
        }
        res.push(RunSpec::new(cwd, *of, Sel::Pkgs(names)));
        // --manifest-path of a member, absolute or relative to the working directory
        let m = *rng.pick(&u.members);
        let mp = u.pkgs[m].dir.join("Cargo.toml");
        let text = match rng.below(3) { 0 => mp.to_string_lossy().into_owned(), 1 => rel_path(cwd, &mp), _ => format!("./{}", rel_path(cwd, &mp)) };
        let is_virtual_root_manifest = false; // a member's manifest is never the virtual root's
        let _ = is_virtual_root_manifest;
        let sel = match rng.below(3) { 0 => Sel::Root, 1 => Sel::All, _ => Sel::Pkgs(vec![rng.pick(&member_names).clone()]) };
        let mut r = RunSpec::new(cwd, *of, sel);
        r.manifest = Some(ManifestArg { text, of: ManifestOf::Pkg(m) });
        res.push(r);
    }
    // the workspace's own manifest: with -p / --all always; as "current package" only when it is a package
    {
        let (cwd, of) = rng.pick(&cwds).clone();
        let mp = u.root.join("Cargo.toml");
        let text = if rng.chance(1, 2) { mp.to_string_lossy().into_owned() } else { rel_path(&cwd, &mp) };
        let sel = if u.virt && !single {
            if rng.chance(1, 2) { Sel::All } else { Sel::Pkgs(vec![rng.pick(&member_names).clone()]) }
        } else {
            match rng.below(3) { 0 => Sel::Root, 1 => Sel::All, _ => Sel::Pkgs(vec![rng.pick(&member_names).clone()]) }
        };
        let mut r = RunSpec::new(&cwd, of, sel);
        r.manifest = Some(ManifestArg { text, of: if u.virt { ManifestOf::WsRoot } else { ManifestOf::Pkg(u.members[0]) } });
        res.push(r);
    }
    // the manifest of a package outside the workspace (its own root): current package or -p
    if let Some(o) = u.pkgs.iter().position(|p| p.role != Role::Member && !p.broken) {
        let (cwd, of) = rng.pick(&cwds).clone();
        let mp = u.pkgs[o].dir.join("Cargo.toml");
        let text = if rng.chance(1, 2) { mp.to_string_lossy().into_owned() } else { rel_path(&cwd, &mp) };
        let sel = if rng.chance(1, 2) { Sel::Root } else { Sel::Pkgs(vec![u.pkgs[o].name.clone()]) };
        let mut r = RunSpec::new(&cwd, of, sel);
        r.manifest = Some(ManifestArg { text, of: ManifestOf::Pkg(o) });
        res.push(r);
    }
    // errors before anything is formatted
    {
        let (cwd, of) = rng.pick(&cwds).clone();
        // an unknown package (also: a path dependency that is not a member)
        let mut names = vec![rng.pick(&member_names).clone()];
        let unknown = match u.pkgs.iter().find(|p| p.role == Role::Outside) {
            Some(p) if rng.chance(1, 2) => p.name.clone(),
            _ => rng.pick(&["nope", "zzz", "Core", "a"]).to_string(),
        };
        if !member_names.contains(&unknown) {
            names.insert(rng.below(names.len() + 1), unknown);
            if rng.chance(1, 3) {
                names.push("another-unknown".into());
            }
            res.push(RunSpec::new(&cwd, of, Sel::Pkgs(names)));
        }
        // --manifest-path that is not a Cargo.toml / does not exist
        let (cwd, of) = rng.pick(&cwds).clone();
        let sel = match rng.below(3) { 0 => Sel::Root, 1 => Sel::All, _ => Sel::Pkgs(vec![rng.pick(&member_names).clone()]) };
        let mut r = RunSpec::new(&cwd, of, sel);
        let m = *rng.pick(&u.members);
        r.manifest = Some(match rng.below(4) {
            0 => ManifestArg { text: u.pkgs[m].dir.to_string_lossy().into_owned(), of: ManifestOf::Pkg(m) },
            1 => ManifestArg { text: format!("{}/Cargo.tom", u.pkgs[m].dir.display()), of: ManifestOf::Missing },
            2 => ManifestArg { text: format!("{}/Cargo.toml.bak", u.root.display()), of: ManifestOf::Missing },
            _ => ManifestArg { text: format!("{}/nowhere/Cargo.toml", u.root.display()), of: ManifestOf::Missing },
        });
        res.push(r);
    }
    res
}

/// Fills in the flags that do not select: --check, --message-format, pass-through, -q/-v, statuses.
pub fn decorate(r: &mut RunSpec, rng: &mut Rng) {
    r.check = rng.chance(1, 3);
    if rng.chance(1, 4) {
        r.msgfmt = Some(match rng.below(8) { 0 | 1 | 2 => "short", 3 | 4 => "json", 5 | 6 => "human", _ => *rng.pick(&["xml", "Short", "jsonl"]) }.to_string());
    }
    if rng.chance(2, 5) {
        let n = 1 + rng.below(4);
        let k = rng.below(PASS_POOL.len());
        r.pass = (0..n).map(|i| PASS_POOL[(k + i) % PASS_POOL.len()].to_string()).collect();
    }
    if rng.chance(1, 25) {
        r.pass.push(rng.pick(&["--help", "-h", "-V", "--version", "--print-config", "--help=config", "--print-config=default"]).to_string());
    }
    r.version = rng.chance(1, 40);
    match rng.below(10) {
        0..=4 => r.verbose = true,
        5 => r.quiet = true,
        6 if rng.chance(1, 4) => {
            r.quiet = true;
            r.verbose = true;
        }
        _ => {}
    }
    // scripted statuses: mostly success; no signals here (known finding F9b, enumerated)
    let n = rng.below(5);
    r.statuses = (0..n).map(|_| if rng.chance(3, 5) { St::Code(0) } else { St::Code(*rng.pick(&[1u8, 1, 2, 3, 101, 255])) }).collect();
    r.spell(rng);
}
