import RF.Model.Newline
/-!
Lemmas and proofs for `RF.Model.Newline` (property C08).  Core only.
-/
namespace RF.Lemmas.Newline
open RF.Newline

/-! ### Windows converter -/

theorem everyLfAfterCr_windows (t : List Char) (prev : Option Char) :
    everyLfAfterCr prev (convertToWindows t) = true := by
  induction t generalizing prev with
  | nil => simp [convertToWindows, everyLfAfterCr]
  | cons c rest ih =>
    unfold convertToWindows
    split
    · simp [everyLfAfterCr, ih]
    · split
      · exact ih prev
      · rename_i h1 _
        simp [everyLfAfterCr, h1, ih]

/-- The char standing immediately before position `pre.length` of a text `pre ++ …` that itself
follows `prev`. -/
def prevOf (prev : Option Char) (pre : List Char) : Option Char :=
  match pre.getLast? with
  | some x => some x
  | none => prev

theorem prevOf_nil (prev : Option Char) : prevOf prev [] = prev := rfl

theorem prevOf_cons (prev : Option Char) (c : Char) (pre : List Char) :
    prevOf prev (c :: pre) = prevOf (some c) pre := by
  cases pre with
  | nil => simp [prevOf]
  | cons p ps =>
    have h : (p :: ps).getLast? = some ((p :: ps).getLast (by simp)) := List.getLast?_eq_some_getLast _
    simp only [prevOf, List.getLast?_cons_cons, h]

theorem prevOf_none (pre : List Char) : prevOf none pre = pre.getLast? := by
  unfold prevOf; cases pre.getLast? <;> rfl

/-- Meaning of the oracle: every `\n` has a `\r` immediately before it (`prev` stands before the text). -/
theorem everyLfAfterCr_iff (t : List Char) (prev : Option Char) :
    everyLfAfterCr prev t = true ↔
      ∀ pre suf, t = pre ++ '\n' :: suf → prevOf prev pre = some '\r' := by
  induction t generalizing prev with
  | nil => simp [everyLfAfterCr]
  | cons c rest ih =>
    simp only [everyLfAfterCr, Bool.and_eq_true, ih]
    constructor
    · rintro ⟨h1, h2⟩ pre suf heq
      cases pre with
      | nil =>
        simp only [List.nil_append, List.cons.injEq] at heq
        obtain ⟨rfl, rfl⟩ := heq
        simpa [prevOf_nil] using h1
      | cons p pre' =>
        simp only [List.cons_append, List.cons.injEq] at heq
        obtain ⟨rfl, rfl⟩ := heq
        rw [prevOf_cons]
        exact h2 pre' suf rfl
    · intro h
      constructor
      · split
        · rename_i hc
          subst hc
          have := h [] rest rfl
          simpa [prevOf_nil] using this
        · rfl
      · intro pre suf heq
        have := h (c :: pre) suf (by simp [heq])
        rwa [prevOf_cons] at this

/-- On a text that already has a `\r` before every `\n` the Windows converter changes nothing
(except that a leading `\n` whose `\r` is `prev` gets a `\r` of its own). -/
theorem windows_fix (s : List Char) (prev : Option Char) (h : everyLfAfterCr prev s = true) :
    convertToWindows s = if s.head? = some '\n' then '\r' :: s else s := by
  induction s generalizing prev with
  | nil => simp [convertToWindows]
  | cons c rest ih =>
    simp only [everyLfAfterCr, Bool.and_eq_true] at h
    obtain ⟨h1, h2⟩ := h
    have ihr := ih (some c) h2
    unfold convertToWindows
    by_cases hc : c = '\n'
    · subst hc
      have hr : rest.head? ≠ some '\n' := by
        intro hh
        cases rest with
        | nil => simp at hh
        | cons d r =>
          simp at hh; subst hh
          simp [everyLfAfterCr] at h2
      simp [hr] at ihr
      simp [ihr]
    · by_cases hcr : c = '\r' ∧ rest.head? = some '\n'
      · simp [hcr, ihr]
      · have hr : rest.head? ≠ some '\n' := by
          intro hh
          cases rest with
          | nil => simp at hh
          | cons d r =>
            simp at hh; subst hh
            simp [everyLfAfterCr] at h2
            exact hcr ⟨h2.1, rfl⟩
        simp [hr] at ihr
        simp [hc, hcr, ihr]

theorem windows_idempotent (t : List Char) :
    convertToWindows (convertToWindows t) = convertToWindows t := by
  have h := everyLfAfterCr_windows t none
  rw [windows_fix _ none h]
  have : (convertToWindows t).head? ≠ some '\n' := by
    intro hh
    cases hw : convertToWindows t with
    | nil => simp [hw] at hh
    | cons d r =>
      rw [hw] at hh h
      simp at hh; subst hh
      simp [everyLfAfterCr] at h
  simp [this]

/-! ### Line contents -/

theorem linesGo_lf (cur rest : List Char) :
    linesGo cur ('\n' :: rest) =
      (dropCrHead cur).reverse :: linesGo [] rest := by
  simp [linesGo]

theorem linesGo_ne (cur rest : List Char) (c : Char) (h : c ≠ '\n') :
    linesGo cur (c :: rest) = linesGo (c :: cur) rest := by
  simp [linesGo, h]

theorem windows_crlf (r : List Char) :
    convertToWindows ('\r' :: '\n' :: r) = '\r' :: '\n' :: convertToWindows r := by
  simp [convertToWindows]

theorem lines_windows_aux (n : Nat) : ∀ (t cur : List Char), t.length ≤ n →
    (cur.head? = some '\r' → t.head? ≠ some '\n') →
    linesGo cur (convertToWindows t) = linesGo cur t := by
  induction n with
  | zero =>
    intro t cur hl _
    have : t = [] := List.length_eq_zero_iff.mp (Nat.le_zero.mp hl)
    subst this; simp [convertToWindows]
  | succ n ih =>
    intro t cur hl hcur
    cases t with
    | nil => simp [convertToWindows]
    | cons c rest =>
      have hlr : rest.length ≤ n := by simpa using hl
      by_cases hc : c = '\n'
      · subst hc
        have hcur' : cur.head? ≠ some '\r' := fun h => (hcur h) rfl
        have e1 : convertToWindows ('\n' :: rest) = '\r' :: '\n' :: convertToWindows rest := by
          simp [convertToWindows]
        rw [e1, linesGo_ne _ _ '\r' (by decide), linesGo_lf, linesGo_lf,
          ih rest [] hlr (by simp)]
        have : dropCrHead cur = cur := by
          unfold dropCrHead
          split
          · simp at hcur'
          · rfl
        rw [this]; rfl
      · by_cases hcr : c = '\r'
        · subst hcr
          cases rest with
          | nil => simp [convertToWindows]
          | cons d r =>
            by_cases hd : d = '\n'
            · subst hd
              have hlr2 : r.length ≤ n := by simp at hlr; omega
              rw [windows_crlf, linesGo_ne _ _ '\r' (by decide), linesGo_lf,
                linesGo_ne _ _ '\r' (by decide), linesGo_lf, ih r [] hlr2 (by simp)]
            · have e1 : convertToWindows ('\r' :: d :: r) = '\r' :: convertToWindows (d :: r) := by
                simp [convertToWindows, hd]
              rw [e1, linesGo_ne _ _ '\r' (by decide), linesGo_ne _ _ '\r' (by decide)]
              exact ih (d :: r) _ hlr (by simp [hd])
        · have e1 : convertToWindows (c :: rest) = c :: convertToWindows rest := by
            simp [convertToWindows, hc, hcr]
          rw [e1, linesGo_ne _ _ c hc, linesGo_ne _ _ c hc]
          exact ih rest _ hlr (by simp [hcr])

theorem lines_windows (t : List Char) : lines (convertToWindows t) = lines t :=
  lines_windows_aux t.length t [] (Nat.le_refl _) (by simp)

/-! ### Unix converter -/

theorem unix_crlf (rest : List Char) :
    convertToUnix ('\r' :: '\n' :: rest) = '\n' :: convertToUnix rest := by
  simp [convertToUnix]

theorem unix_other (c d : Char) (rest : List Char) (h : ¬ (c = '\r' ∧ d = '\n')) :
    convertToUnix (c :: d :: rest) = c :: convertToUnix (d :: rest) := by
  simp only [convertToUnix, h, if_false]

theorem hasCrLf_cons_ne (c : Char) (x : List Char) (h : c ≠ '\r') : hasCrLf (c :: x) = hasCrLf x := by
  cases x with
  | nil => simp [hasCrLf]
  | cons d r => simp [hasCrLf, h]

theorem hasCrCrLf_cons_ne (c : Char) (x : List Char) (h : c ≠ '\r') :
    hasCrCrLf (c :: x) = hasCrCrLf x := by
  match x with
  | [] => simp [hasCrCrLf]
  | [_] => simp [hasCrCrLf]
  | d :: e :: r => simp [hasCrCrLf, h]

/-- The first char of the converted text is `\n` exactly when the text starts with `\n` or `\r\n`. -/
theorem unix_head_lf (t : List Char) :
    (convertToUnix t).head? = some '\n' ↔
      t.head? = some '\n' ∨ (∃ r, t = '\r' :: '\n' :: r) := by
  match t with
  | [] => simp [convertToUnix]
  | [c] => simp [convertToUnix]
  | c :: d :: rest =>
    by_cases h : c = '\r' ∧ d = '\n'
    · obtain ⟨rfl, rfl⟩ := h
      simp [unix_crlf]
    · rw [unix_other _ _ _ h]
      simp only [List.head?_cons, Option.some.injEq, List.cons.injEq]
      constructor
      · intro h1; exact Or.inl h1
      · rintro (h1 | ⟨_, h1, h2, _⟩)
        · exact h1
        · exact absurd ⟨h1, h2⟩ h

theorem hasCrCrLf_crlf (rest : List Char) :
    hasCrCrLf ('\r' :: '\n' :: rest) = hasCrCrLf rest := by
  cases rest with
  | nil => simp [hasCrCrLf]
  | cons e r => simp [hasCrCrLf, hasCrCrLf_cons_ne]

theorem hasCrLf_unix (t : List Char) : hasCrLf (convertToUnix t) = hasCrCrLf t := by
  fun_induction convertToUnix t with
  | case1 => simp [hasCrLf, hasCrCrLf]
  | case2 c => simp [hasCrLf, hasCrCrLf]
  | case3 c d rest h ih =>
    obtain ⟨rfl, rfl⟩ := h
    rw [hasCrLf_cons_ne _ _ (by decide), ih, hasCrCrLf_crlf]
  | case4 c d rest h ih =>
    by_cases hc : c = '\r'
    · subst hc
      have hd : d ≠ '\n' := fun hd => h ⟨rfl, hd⟩
      have key : hasCrLf ('\r' :: convertToUnix (d :: rest)) =
          ((convertToUnix (d :: rest)).head? == some '\n' || hasCrLf (convertToUnix (d :: rest))) := by
        cases hu : convertToUnix (d :: rest) with
        | nil => simp [hasCrLf]
        | cons x xs => simp [hasCrLf]
      rw [key, ih]
      cases rest with
      | nil => simp [hasCrCrLf, convertToUnix, hd]
      | cons e r =>
        have hh := unix_head_lf (d :: e :: r)
        simp only [List.head?_cons, Option.some.injEq, hd, false_or, List.cons.injEq] at hh
        by_cases hx : d = '\r' ∧ e = '\n'
        · have h1 : (convertToUnix (d :: e :: r)).head? = some '\n' := hh.mpr ⟨r, hx.1, hx.2, rfl⟩
          have hx' : (d == '\r' && e == '\n') = true := by simpa using hx
          simp [hasCrCrLf, h1, hx']
        · have h1 : (convertToUnix (d :: e :: r)).head? ≠ some '\n' := fun h2 => by
            obtain ⟨_, h3, h4, _⟩ := hh.mp h2
            exact hx ⟨h3, h4⟩
          have hx' : (d == '\r' && e == '\n') = false := by
            simpa using hx
          simp [hasCrCrLf, h1, hx']
    · rw [hasCrLf_cons_ne _ _ hc, ih, hasCrCrLf_cons_ne _ _ hc]

/-- Meaning of `hasCrLf`. -/
theorem hasCrLf_iff (t : List Char) :
    hasCrLf t = true ↔ ∃ pre suf, t = pre ++ '\r' :: '\n' :: suf := by
  match t with
  | [] => simp [hasCrLf]
  | [c] =>
    simp only [hasCrLf, Bool.false_eq_true, false_iff, not_exists]
    intro pre suf h
    have := congrArg List.length h
    simp at this; omega
  | c :: d :: rest =>
    simp only [hasCrLf, Bool.or_eq_true, Bool.and_eq_true, beq_iff_eq, hasCrLf_iff (d :: rest)]
    constructor
    · rintro (⟨rfl, rfl⟩ | ⟨pre, suf, h⟩)
      · exact ⟨[], rest, rfl⟩
      · exact ⟨c :: pre, suf, by simp [h]⟩
    · rintro ⟨pre, suf, h⟩
      cases pre with
      | nil => simp at h; exact Or.inl ⟨h.1, h.2.1⟩
      | cons p ps => simp at h; exact Or.inr ⟨ps, suf, h.2⟩

/-- Meaning of `hasCrCrLf`. -/
theorem hasCrCrLf_iff (t : List Char) :
    hasCrCrLf t = true ↔ ∃ pre suf, t = pre ++ '\r' :: '\r' :: '\n' :: suf := by
  match t with
  | [] => simp [hasCrCrLf]
  | [c] =>
    simp only [hasCrCrLf, Bool.false_eq_true, false_iff, not_exists]
    intro pre suf h
    have := congrArg List.length h
    simp at this; omega
  | [c, d] =>
    simp only [hasCrCrLf, Bool.false_eq_true, false_iff, not_exists]
    intro pre suf h
    have := congrArg List.length h
    simp at this; omega
  | c :: d :: e :: rest =>
    simp only [hasCrCrLf, Bool.or_eq_true, Bool.and_eq_true, beq_iff_eq, hasCrCrLf_iff (d :: e :: rest)]
    constructor
    · rintro (⟨⟨rfl, rfl⟩, rfl⟩ | ⟨pre, suf, h⟩)
      · exact ⟨[], rest, rfl⟩
      · exact ⟨c :: pre, suf, by simp [h]⟩
    · rintro ⟨pre, suf, h⟩
      cases pre with
      | nil => simp at h; exact Or.inl ⟨⟨h.1, h.2.1⟩, h.2.2.1⟩
      | cons p ps => simp at h; exact Or.inr ⟨ps, suf, h.2⟩

/-- A text without `\r\n` is a fixed point of the Unix converter. -/
theorem unix_fix (s : List Char) (h : hasCrLf s = false) : convertToUnix s = s := by
  fun_induction convertToUnix s with
  | case1 => rfl
  | case2 c => rfl
  | case3 c d rest hcd ih =>
    obtain ⟨rfl, rfl⟩ := hcd
    simp [hasCrLf] at h
  | case4 c d rest hcd ih =>
    have : hasCrLf (d :: rest) = false := by
      simp only [hasCrLf, Bool.or_eq_false_iff] at h
      exact h.2
    rw [ih this]

theorem unix_idempotent (t : List Char) (h : hasCrCrLf t = false) :
    convertToUnix (convertToUnix t) = convertToUnix t :=
  unix_fix _ (by rw [hasCrLf_unix, h])

theorem lines_unix_aux (t : List Char) : ∀ (cur : List Char),
    (cur.head? = some '\r' → ¬ ∃ r, t = '\r' :: '\n' :: r) → hasCrCrLf t = false →
    linesGo cur (convertToUnix t) = linesGo cur t := by
  fun_induction convertToUnix t with
  | case1 => intros; rfl
  | case2 c => intros; rfl
  | case3 c d rest hcd ih =>
    obtain ⟨rfl, rfl⟩ := hcd
    intro cur hcur h3
    have hcur' : cur.head? ≠ some '\r' := fun h => hcur h ⟨rest, rfl⟩
    have hd : dropCrHead cur = cur := by
      unfold dropCrHead
      split
      · simp at hcur'
      · rfl
    rw [linesGo_lf, linesGo_ne _ _ '\r' (by decide), linesGo_lf, hd]
    rw [hasCrCrLf_crlf] at h3
    rw [ih [] (by simp) h3]
    rfl
  | case4 c d rest hcd ih =>
    intro cur hcur h3
    have h3' : hasCrCrLf (d :: rest) = false := by
      cases rest with
      | nil => simp [hasCrCrLf]
      | cons e r =>
        simp only [hasCrCrLf, Bool.or_eq_false_iff] at h3
        exact h3.2
    by_cases hc : c = '\n'
    · subst hc
      rw [linesGo_lf, linesGo_lf, ih [] (by simp) h3']
    · rw [linesGo_ne _ _ c hc, linesGo_ne _ _ c hc]
      apply ih _ _ h3'
      intro hh
      simp at hh
      subst hh
      rintro ⟨r, hr⟩
      simp at hr
      obtain ⟨rfl, rfl⟩ := hr
      simp [hasCrCrLf] at h3

theorem lines_unix (t : List Char) (h : hasCrCrLf t = false) : lines (convertToUnix t) = lines t :=
  lines_unix_aux t [] (by simp) h

/-! ### Auto detection -/

theorem position_append_lf (pre suf : List Char) (h : '\n' ∉ pre) :
    position (· == '\n') (pre ++ '\n' :: suf) = some pre.length := by
  induction pre with
  | nil => simp [position]
  | cons p ps ih =>
    have hp : p ≠ '\n' := fun e => h (by simp [e])
    have hps : '\n' ∉ ps := fun e => h (by simp [e])
    simp [position, hp, ih hps]

theorem position_none (t : List Char) (h : '\n' ∉ t) : position (· == '\n') t = none := by
  induction t with
  | nil => rfl
  | cons p ps ih =>
    have hp : p ≠ '\n' := fun e => h (by simp [e])
    have hps : '\n' ∉ ps := fun e => h (by simp [e])
    simp [position, hp, ih hps]

theorem autoDetect_first (pre suf : List Char) (h : '\n' ∉ pre) :
    autoDetect (pre ++ '\n' :: suf) =
      if pre.getLast? = some '\r' then Effective.windows else Effective.unix := by
  unfold autoDetect
  rw [position_append_lf pre suf h]
  cases hp : pre.getLast? with
  | none =>
    have : pre = [] := by simpa using hp
    subst this
    simp
  | some x =>
    have hne : pre ≠ [] := by intro e; simp [e] at hp
    have hlen : pre.length - 1 < pre.length := by
      have : 0 < pre.length := List.length_pos_iff.mpr hne
      omega
    have hget : (pre ++ '\n' :: suf)[pre.length - 1]? = some x := by
      rw [List.getElem?_append_left hlen, ← List.getLast?_eq_getElem?, hp]
    simp only [hget]
    by_cases hx : x = '\r'
    · subst hx; simp
    · simp [hx]

theorem autoDetect_no_lf (t : List Char) (h : '\n' ∉ t) : autoDetect t = nativeNewlineStyle := by
  unfold autoDetect
  rw [position_none t h]

/-! ### Trailing-newline truncation -/

/-- Every char is `\n` or `\r`. -/
def CrLfOnly (r : List Char) : Prop := ∀ c ∈ r, c = '\n' ∨ c = '\r'

/-- `p` is empty or ends in a char other than `\n`, `\r`. -/
def EndsInText (p : List Char) : Prop := ∀ x, p.getLast? = some x → x ≠ '\n' ∧ x ≠ '\r'

theorem newlineCount_append (n : Nat) (a b : List Char) :
    newlineCount n (a ++ b) = newlineCount (newlineCount n a) b := by
  induction a generalizing n with
  | nil => rfl
  | cons c cs ih =>
    simp only [List.cons_append, newlineCount]
    split
    · exact ih n
    · split
      · exact ih _
      · exact ih _

theorem newlineCount_crlf (n : Nat) (r : List Char) (h : CrLfOnly r) :
    newlineCount n r = n + r.count '\n' := by
  induction r generalizing n with
  | nil => simp [newlineCount]
  | cons c cs ih =>
    have hcs : CrLfOnly cs := fun x hx => h x (by simp [hx])
    rcases h c (by simp) with rfl | rfl
    · simp [newlineCount, ih _ hcs]; omega
    · simp [newlineCount, ih _ hcs]

theorem newlineCount_text (n : Nat) (p : List Char) (hne : p ≠ []) (h : EndsInText p) :
    newlineCount n p = 0 := by
  obtain ⟨q, x, rfl⟩ : ∃ q x, p = q ++ [x] := by
    refine ⟨p.dropLast, p.getLast hne, ?_⟩
    exact (List.dropLast_concat_getLast hne).symm
  have hx := h x (by simp)
  rw [newlineCount_append]
  simp [newlineCount, hx.1, hx.2]

theorem newlineCount_decomp (p r : List Char) (hp : EndsInText p) (hr : CrLfOnly r) :
    newlineCount 0 (p ++ r) = r.count '\n' := by
  rw [newlineCount_append]
  by_cases hne : p = []
  · subst hne; simp [newlineCount, newlineCount_crlf 0 r hr]
  · rw [newlineCount_text 0 p hne hp, newlineCount_crlf 0 r hr]; simp

/-- Every text splits into a part that is empty or ends in ordinary text, and a tail of `\n`/`\r`. -/
theorem exists_decomp (t : List Char) : ∃ p r, t = p ++ r ∧ EndsInText p ∧ CrLfOnly r := by
  induction t with
  | nil => exact ⟨[], [], rfl, by intro x h; simp at h, by intro c h; simp at h⟩
  | cons c t ih =>
    obtain ⟨p, r, rfl, hp, hr⟩ := ih
    by_cases hpe : p = []
    · subst hpe
      by_cases hc : c = '\n' ∨ c = '\r'
      · refine ⟨[], c :: r, rfl, hp, ?_⟩
        intro x hx
        rcases List.mem_cons.mp hx with rfl | hx
        · exact hc
        · exact hr x hx
      · refine ⟨[c], r, rfl, ?_, hr⟩
        intro x hx
        simp at hx; subst hx
        exact ⟨fun e => hc (Or.inl e), fun e => hc (Or.inr e)⟩
    · refine ⟨c :: p, r, rfl, ?_, hr⟩
      intro x hx
      apply hp x
      cases p with
      | nil => exact absurd rfl hpe
      | cons y ys => simpa [List.getLast?_cons_cons] using hx

theorem byteLen_append (a b : List Char) : byteLen (a ++ b) = byteLen a + byteLen b := by
  simp [byteLen]

theorem utf8Size_crlf (c : Char) (h : c = '\n' ∨ c = '\r') : c.utf8Size = 1 := by
  rcases h with rfl | rfl <;> decide

theorem byteLen_crlf (r : List Char) (h : CrLfOnly r) : byteLen r = r.length := by
  induction r with
  | nil => rfl
  | cons c cs ih =>
    have hcs : CrLfOnly cs := fun x hx => h x (by simp [hx])
    have h1 := utf8Size_crlf c (h c (by simp))
    have h2 := ih hcs
    simp only [byteLen, List.map_cons, List.sum_cons, List.length_cons] at *
    omega

theorem truncateBytes_crlf (r : List Char) (k : Nat) (h : CrLfOnly r) :
    truncateBytes r k = some (r.take k) := by
  induction r generalizing k with
  | nil => simp [truncateBytes]
  | cons c cs ih =>
    have hcs : CrLfOnly cs := fun x hx => h x (by simp [hx])
    have h1 := utf8Size_crlf c (h c (by simp))
    unfold truncateBytes
    by_cases hk : k = 0
    · simp [hk]
    · have : ¬ k < 1 := by omega
      simp only [hk, if_false, h1, this, ih _ hcs]
      obtain ⟨k', rfl⟩ : ∃ k', k = k' + 1 := ⟨k - 1, by omega⟩
      simp

theorem truncateBytes_append (p r : List Char) (k : Nat) (h : CrLfOnly r) :
    truncateBytes (p ++ r) (byteLen p + k) = some (p ++ r.take k) := by
  induction p with
  | nil => simpa [byteLen] using truncateBytes_crlf r k h
  | cons c cs ih =>
    have hpos : 0 < c.utf8Size := Char.utf8Size_pos c
    have e : byteLen (c :: cs) + k = c.utf8Size + (byteLen cs + k) := by
      simp [byteLen]; omega
    rw [e]
    simp only [List.cons_append, truncateBytes]
    have h1 : ¬ (c.utf8Size + (byteLen cs + k) = 0) := by omega
    have h2 : ¬ (c.utf8Size + (byteLen cs + k) < c.utf8Size) := by omega
    simp only [h1, h2, if_false, Nat.add_sub_cancel_left, ih]
    simp

/-- The effect of the truncation, on the decomposition of the text: all but one of the `\n` counted by
`newline_count` are removed *as bytes from the end*, whatever those bytes are (`\n` or `\r`).  It never
panics. -/
theorem formatLinesTruncate_decomp (p r : List Char) (hp : EndsInText p) (hr : CrLfOnly r) :
    formatLinesTruncate (p ++ r) = some (p ++ r.take (r.length - (r.count '\n' - 1))) := by
  unfold formatLinesTruncate
  simp only [newlineCount_decomp p r hp hr]
  have hcl : r.count '\n' ≤ r.length := List.count_le_length
  split
  · rename_i hgt
    have hb : byteLen (p ++ r) = byteLen p + r.length := by
      rw [byteLen_append, byteLen_crlf r hr]
    have : ¬ (byteLen (p ++ r) < r.count '\n') := by omega
    simp only [this, if_false]
    have e : byteLen (p ++ r) - r.count '\n' + 1 = byteLen p + (r.length - (r.count '\n' - 1)) := by
      omega
    rw [e, truncateBytes_append p r _ hr]
  · rename_i hle
    have : r.count '\n' - 1 = 0 := by omega
    simp [this]

theorem formatLinesTruncate_isSome (t : List Char) : (formatLinesTruncate t).isSome = true := by
  obtain ⟨p, r, rfl, hp, hr⟩ := exists_decomp t
  rw [formatLinesTruncate_decomp p r hp hr]; rfl

theorem finalize_isSome (b : List Char) : (finalize b).isSome = true :=
  formatLinesTruncate_isSome _

/-- Exactly one final newline when the trailing run is `\r* \n*`. -/
theorem finalize_cr_lf (p : List Char) (c k : Nat) (hp : EndsInText p) :
    finalize (p ++ List.replicate c '\r' ++ List.replicate k '\n') =
      some (p ++ List.replicate c '\r' ++ ['\n']) := by
  unfold finalize appendNewline
  have hr : CrLfOnly (List.replicate c '\r' ++ List.replicate (k + 1) '\n') := by
    intro x hx
    simp only [List.mem_append, List.mem_replicate] at hx
    rcases hx with ⟨_, rfl⟩ | ⟨_, rfl⟩
    · exact Or.inr rfl
    · exact Or.inl rfl
  have e : p ++ List.replicate c '\r' ++ List.replicate k '\n' ++ ['\n'] =
      p ++ (List.replicate c '\r' ++ List.replicate (k + 1) '\n') := by
    simp [List.replicate_succ']
  rw [e, formatLinesTruncate_decomp p _ hp hr]
  have hcount : (List.replicate c '\r' ++ List.replicate (k + 1) '\n').count '\n' = k + 1 := by
    simp [List.count_replicate]
  rw [hcount]
  simp only [List.length_append, List.length_replicate]
  have : c + (k + 1) - (k + 1 - 1) = c + 1 := by omega
  rw [this, List.take_append, List.take_replicate, List.take_replicate]
  have m1 : min (c + 1) c = c := by omega
  have m2 : min (c + 1 - (List.replicate c '\r').length) (k + 1) = 1 := by
    simp only [List.length_replicate]; omega
  rw [m1, m2]
  simp

/-- Every text is a part not ending in `\n`, followed by a run of `\n`. -/
theorem exists_strip (b : List Char) :
    ∃ p k, b = p ++ List.replicate k '\n' ∧ p.getLast? ≠ some '\n' := by
  induction b with
  | nil => exact ⟨[], 0, rfl, by simp⟩
  | cons c t ih =>
    obtain ⟨p, k, rfl, hp⟩ := ih
    by_cases hpe : p = []
    · subst hpe
      by_cases hc : c = '\n'
      · subst hc
        exact ⟨[], k + 1, by simp [List.replicate_succ], by simp⟩
      · exact ⟨[c], k, rfl, by simpa using hc⟩
    · refine ⟨c :: p, k, rfl, ?_⟩
      cases p with
      | nil => exact absurd rfl hpe
      | cons y ys => simpa [List.getLast?_cons_cons] using hp

theorem finalize_no_cr (b : List Char) (hcr : '\r' ∉ b) (hne : ∃ x ∈ b, x ≠ '\n') :
    ∃ p k, b = p ++ List.replicate k '\n' ∧ p ≠ [] ∧ p.getLast? ≠ some '\n' ∧
      finalize b = some (p ++ ['\n']) := by
  obtain ⟨p, k, rfl, hp⟩ := exists_strip b
  have hpne : p ≠ [] := by
    rintro rfl
    obtain ⟨x, hx, hxn⟩ := hne
    simp at hx
    exact hxn hx.2
  refine ⟨p, k, rfl, hpne, hp, ?_⟩
  have hpt : EndsInText p := by
    intro x hx
    refine ⟨fun e => hp (e ▸ hx), fun e => hcr ?_⟩
    subst e
    have : '\r' ∈ p := List.mem_of_getLast? hx
    simp [this]
  have := finalize_cr_lf p 0 k hpt
  simpa using this

/-! ### push_vertical_spaces -/

theorem clamp_eq (off n lower upper : Nat) (h : lower ≤ upper) :
    clampBlank off n lower upper = max off (max (lower + 1) (min (off + n) (upper + 1))) := by
  unfold clampBlank pushVerticalSpaces
  simp only [Nat.max_def, Nat.min_def]
  repeat' split
  all_goals omega

theorem clamp_bounds (off n lower upper : Nat) (h : lower ≤ upper) :
    lower + 1 ≤ clampBlank off n lower upper ∧
      clampBlank off n lower upper ≤ max off (upper + 1) := by
  rw [clamp_eq off n lower upper h]; omega

theorem clamp_idem (off n lower upper : Nat) (h : lower ≤ upper) :
    clampBlank (clampBlank off n lower upper) 0 lower upper = clampBlank off n lower upper := by
  rw [clamp_eq _ 0 lower upper h, clamp_eq off n lower upper h]; omega

theorem clamp_reformat (n lower upper : Nat) (h : lower ≤ upper) :
    clampBlank 0 (clampBlank 0 n lower upper) lower upper = clampBlank 0 n lower upper := by
  rw [clamp_eq _ _ lower upper h, clamp_eq 0 n lower upper h]; omega

theorem pushVerticalSpaces_no_underflow (off n lower upper : Nat) :
    (n + off > upper + 1 → ¬ off ≥ upper + 1 → off ≤ upper + 1) ∧
    (n + off < lower + 1 → ¬ off ≥ lower + 1 → off ≤ lower + 1) := by
  omega

/-! ### push_str -/

theorem takeWhile_replicate_append {α} (p : α → Bool) (a : α) (k : Nat) (l : List α) (h : p a = true) :
    (List.replicate k a ++ l).takeWhile p = List.replicate k a ++ l.takeWhile p := by
  induction k with
  | zero => simp
  | succ k ih => simp [List.replicate_succ, h, ih]

theorem trailingNewlines_push (buf : List Char) (k : Nat) :
    trailingNewlines (buf ++ List.replicate k '\n') = trailingNewlines buf + k := by
  unfold trailingNewlines
  rw [List.reverse_append, List.reverse_replicate, takeWhile_replicate_append _ _ _ _ (by simp)]
  simp; omega

theorem pushStr_lineNumber (v : Visitor) (s : List Char) (h : v.lineNumber = countNewlines v.buffer) :
    (v.pushStr s).lineNumber = countNewlines (v.pushStr s).buffer := by
  simp [Visitor.pushStr, countNewlines, h] at *

theorem visitor_pushVerticalSpaces (v : Visitor) (n lower upper : Nat) :
    trailingNewlines (v.pushVerticalSpaces n lower upper).buffer =
      clampBlank (trailingNewlines v.buffer) n lower upper := by
  simp [Visitor.pushVerticalSpaces, Visitor.pushStr, trailingNewlines_push, clampBlank]

/-! ### remove_trailing_white_spaces -/

/-- Invariant of `space_buffer`: blanks other than `\n`. -/
def WsOnly (sp : List (CC.Kind × Char)) : Prop := ∀ x ∈ sp, isWhitespace x.2 = true ∧ x.2 ≠ '\n'

theorem WsOnly_nil : WsOnly [] := by intro x h; simp at h

theorem WsOnly_snoc (sp : List (CC.Kind × Char)) (k : CC.Kind) (c : Char) (h : WsOnly sp)
    (hw : isWhitespace c = true) (hn : c ≠ '\n') : WsOnly (sp ++ [(k, c)]) := by
  intro x hx
  simp only [List.mem_append, List.mem_singleton] at hx
  rcases hx with hx | rfl
  · exact h x hx
  · exact ⟨hw, hn⟩

theorem WsOnly_append (a b : List (CC.Kind × Char)) (ha : WsOnly a) (hb : WsOnly b) :
    WsOnly (a ++ b) := by
  intro x hx
  rcases List.mem_append.mp hx with hx | hx
  · exact ha x hx
  · exact hb x hx

/-- Both arms of `if !space_buffer.is_empty()` push the same text. -/
theorem rtwTagged_cons_text (sp : List (CC.Kind × Char)) (k : CC.Kind) (c : Char)
    (rest : List (CC.Kind × Char)) (hn : c ≠ '\n') (hw : isWhitespace c = false) :
    rtwTagged sp ((k, c) :: rest) = sp ++ (k, c) :: rtwTagged [] rest := by
  simp only [rtwTagged, hn, hw, if_false]
  cases sp <;> simp

theorem rtwTagged_cons_ws (sp : List (CC.Kind × Char)) (k : CC.Kind) (c : Char)
    (rest : List (CC.Kind × Char)) (hn : c ≠ '\n') (hw : isWhitespace c = true) :
    rtwTagged sp ((k, c) :: rest) = rtwTagged (sp ++ [(k, c)]) rest := by
  simp [rtwTagged, hn, hw]

theorem rtwTagged_cons_lf (sp : List (CC.Kind × Char)) (k : CC.Kind)
    (rest : List (CC.Kind × Char)) :
    rtwTagged sp ((k, '\n') :: rest) =
      (if k = .inString then sp else []) ++ (k, '\n') :: rtwTagged [] rest := by
  simp [rtwTagged]

/-- Feeding a run of blanks only grows the space buffer. -/
theorem rtwTagged_ws_prefix (sp0 sp xs : List (CC.Kind × Char)) (h : WsOnly sp) :
    rtwTagged sp0 (sp ++ xs) = rtwTagged (sp0 ++ sp) xs := by
  induction sp generalizing sp0 with
  | nil => simp
  | cons y ys ih =>
    obtain ⟨k, c⟩ := y
    have hy := h (k, c) (by simp)
    have hys : WsOnly ys := fun x hx => h x (by simp [hx])
    rw [List.cons_append, rtwTagged_cons_ws _ _ _ _ hy.2 hy.1, ih _ hys]
    simp

theorem rtwTagged_compose (ks sp0 sp : List (CC.Kind × Char)) (h : WsOnly sp) :
    rtwTagged sp0 (rtwTagged sp ks) = rtwTagged (sp0 ++ sp) ks := by
  induction ks generalizing sp0 sp with
  | nil => simp [rtwTagged]
  | cons y rest ih =>
    obtain ⟨k, c⟩ := y
    by_cases hn : c = '\n'
    · subst hn
      rw [rtwTagged_cons_lf, rtwTagged_cons_lf]
      by_cases hk : k = .inString
      · simp only [hk, if_true]
        rw [rtwTagged_ws_prefix _ _ _ h, rtwTagged_cons_lf]
        simp only [if_true]
        rw [ih [] [] WsOnly_nil]
        simp
      · simp only [hk, if_false, List.nil_append]
        rw [rtwTagged_cons_lf]
        simp only [hk, if_false, List.nil_append]
        rw [ih [] [] WsOnly_nil]
        simp
    · by_cases hw : isWhitespace c = true
      · rw [rtwTagged_cons_ws _ _ _ _ hn hw, rtwTagged_cons_ws _ _ _ _ hn hw,
          ih _ _ (WsOnly_snoc _ _ _ h hw hn)]
        simp
      · have hw' : isWhitespace c = false := by simpa using hw
        rw [rtwTagged_cons_text _ _ _ _ hn hw', rtwTagged_cons_text _ _ _ _ hn hw',
          rtwTagged_ws_prefix _ _ _ h, rtwTagged_cons_text _ _ _ _ hn hw', ih [] [] WsOnly_nil]
        simp

theorem rtwTagged_idem (ks : List (CC.Kind × Char)) :
    rtwTagged [] (rtwTagged [] ks) = rtwTagged [] ks := by
  simpa using rtwTagged_compose ks [] [] WsOnly_nil

/-- `prev` is not a trailing blank. -/
def prevOk (prev : Option Char) : Bool :=
  match prev with
  | some p => p == '\n' || !isWhitespace p
  | none => true

theorem noTrailingBlankT_nil (prev : Option Char) : noTrailingBlankT prev [] = prevOk prev := by
  cases prev <;> rfl

theorem noTrailingBlankT_cons (prev : Option Char) (k : CC.Kind) (c : Char)
    (rest : List (CC.Kind × Char)) :
    noTrailingBlankT prev ((k, c) :: rest) =
      ((if c = '\n' ∧ k ≠ .inString then prevOk prev else true) && noTrailingBlankT (some c) rest) := by
  cases prev <;> rfl

/-- Walking over blanks that are not `\n` checks nothing. -/
theorem noTrailingBlankT_ws_prefix (sp xs : List (CC.Kind × Char)) (prev : Option Char)
    (h : WsOnly sp) (x : CC.Kind × Char) :
    noTrailingBlankT prev (sp ++ x :: xs) = noTrailingBlankT
      (match sp.getLast? with | some y => some y.2 | none => prev) (x :: xs) := by
  induction sp generalizing prev with
  | nil => simp
  | cons y ys ih =>
    obtain ⟨k, c⟩ := y
    have hy := h (k, c) (by simp)
    have hys : WsOnly ys := fun x hx => h x (by simp [hx])
    rw [List.cons_append, noTrailingBlankT_cons, ih _ hys]
    simp only [hy.2, false_and, if_false, Bool.true_and]
    cases ys with
    | nil => simp
    | cons z zs =>
      have : (z :: zs).getLast? = some ((z :: zs).getLast (by simp)) :=
        List.getLast?_eq_some_getLast _
      simp only [List.getLast?_cons_cons, this]

theorem rtwTagged_noTrailingBlankT (ks sp : List (CC.Kind × Char)) (prev : Option Char)
    (hp : prevOk prev = true) (h : WsOnly sp) :
    noTrailingBlankT prev (rtwTagged sp ks) = true := by
  induction ks generalizing sp prev with
  | nil => simp [rtwTagged, noTrailingBlankT_nil, hp]
  | cons y rest ih =>
    obtain ⟨k, c⟩ := y
    by_cases hn : c = '\n'
    · subst hn
      rw [rtwTagged_cons_lf]
      by_cases hk : k = .inString
      · simp only [hk, if_true]
        rw [noTrailingBlankT_ws_prefix _ _ _ h, noTrailingBlankT_cons]
        simp [ih [] (some '\n') (by simp [prevOk]) WsOnly_nil]
      · simp only [hk, if_false, List.nil_append]
        rw [noTrailingBlankT_cons]
        simp [hk, hp, ih [] (some '\n') (by simp [prevOk]) WsOnly_nil]
    · by_cases hw : isWhitespace c = true
      · rw [rtwTagged_cons_ws _ _ _ _ hn hw]
        exact ih _ _ hp (WsOnly_snoc _ _ _ h hw hn)
      · have hw' : isWhitespace c = false := by simpa using hw
        rw [rtwTagged_cons_text _ _ _ _ hn hw', noTrailingBlankT_ws_prefix _ _ _ h,
          noTrailingBlankT_cons]
        simp [hn, ih [] (some c) (by simp [prevOk, hw']) WsOnly_nil]

theorem rtwTagged_mem (ks sp : List (CC.Kind × Char)) :
    ∀ x ∈ rtwTagged sp ks, x ∈ sp ∨ x ∈ ks := by
  induction ks generalizing sp with
  | nil => simp [rtwTagged]
  | cons y rest ih =>
    obtain ⟨k, c⟩ := y
    intro x hx
    by_cases hn : c = '\n'
    · subst hn
      rw [rtwTagged_cons_lf] at hx
      simp only [List.mem_append, List.mem_cons] at hx
      rcases hx with hx | rfl | hx
      · split at hx
        · exact Or.inl hx
        · simp at hx
      · simp
      · rcases ih [] x hx with h | h
        · simp at h
        · simp [h]
    · by_cases hw : isWhitespace c = true
      · rw [rtwTagged_cons_ws _ _ _ _ hn hw] at hx
        rcases ih _ x hx with h | h
        · simp only [List.mem_append, List.mem_singleton] at h
          rcases h with h | rfl
          · exact Or.inl h
          · simp
        · simp [h]
      · have hw' : isWhitespace c = false := by simpa using hw
        rw [rtwTagged_cons_text _ _ _ _ hn hw'] at hx
        simp only [List.mem_append, List.mem_cons] at hx
        rcases hx with hx | rfl | hx
        · exact Or.inl hx
        · simp
        · rcases ih [] x hx with h | h
          · simp at h
          · simp [h]

/-- When no `\n` is tagged `InString`, the tagged and the plain oracle agree. -/
theorem noTrailingBlankT_plain (ks : List (CC.Kind × Char)) (prev : Option Char)
    (h : ∀ x ∈ ks, x.2 = '\n' → x.1 ≠ .inString) :
    noTrailingBlank prev (ks.map Prod.snd) = noTrailingBlankT prev ks := by
  induction ks generalizing prev with
  | nil => cases prev <;> rfl
  | cons y rest ih =>
    obtain ⟨k, c⟩ := y
    have hr : ∀ x ∈ rest, x.2 = '\n' → x.1 ≠ .inString := fun x hx => h x (by simp [hx])
    have hk : c = '\n' → k ≠ .inString := h (k, c) (by simp)
    rw [noTrailingBlankT_cons, ← ih _ hr]
    by_cases hc : c = '\n'
    · have hk' := hk hc
      subst hc
      cases prev <;> simp [noTrailingBlank, prevOk, hk']
    · cases prev <;> simp [noTrailingBlank, hc]

/-! ### CharClasses never panics -/

/-- What is known about a status given the text still to be read. -/
def Inv : CC.Status → List Char → Prop
  | .rawStringSuffix n, _ => n ≠ 0
  | .blockComment d, _ => d ≠ 0
  | .stringInBlockComment d, _ => d ≠ 0
  | .blockCommentOpening d, rest => d ≠ 0 ∧ rest.head? = some '*'
  | .blockCommentClosing _, rest => rest.head? = some '/'
  | _, _ => True

theorem step_inv (st : CC.Status) (c : Char) (rest : List Char) (h : Inv st (c :: rest)) :
    ∃ st' k, CC.step st c rest = some (st', k) ∧ Inv st' rest := by
  cases st <;> simp only [Inv, List.head?_cons, Option.some.injEq] at h <;>
    simp only [CC.step] <;> (repeat' split) <;> simp_all [Inv] <;> omega

theorem run_isSome (t : List Char) (st : CC.Status) (h : Inv st t) : (CC.run st t).isSome = true := by
  induction t generalizing st with
  | nil => rfl
  | cons c rest ih =>
    obtain ⟨st', k, hs, hi⟩ := step_inv st c rest h
    have := ih st' hi
    simp only [CC.run, hs]
    cases hr : CC.run st' rest with
    | none => simp [hr] at this
    | some ks => rfl

theorem classify_isSome (t : List Char) : (CC.classify t).isSome = true :=
  run_isSome t .normal trivial

theorem removeTrailingWhiteSpaces_isSome (t : List Char) :
    (removeTrailingWhiteSpaces t).isSome = true := by
  simp [removeTrailingWhiteSpaces, classify_isSome]

/-! ### The style oracle -/

theorem firstBadLine_windows (t : List Char) (n : Nat) (prev : Option Char) :
    (firstBadLine .windows n prev t).isNone = everyLfAfterCr prev t := by
  induction t generalizing n prev with
  | nil => rfl
  | cons c rest ih =>
    unfold firstBadLine everyLfAfterCr
    by_cases hc : c = '\n'
    · subst hc
      by_cases hp : prev = some '\r'
      · simp [hp, ih]
      · have : (prev == some '\r') = false := by simpa using hp
        simp [this]
    · simp [hc, ih]

theorem hasCrLf_cons_cons (c d : Char) (rest : List Char) :
    hasCrLf (c :: d :: rest) = ((c == '\r' && d == '\n') || hasCrLf (d :: rest)) := rfl

theorem firstBadLine_unix (t : List Char) (n : Nat) (prev : Option Char) :
    (firstBadLine .unix n prev t).isNone = !hasCrLf (prev.toList ++ t) := by
  induction t generalizing n prev with
  | nil => cases prev <;> simp [firstBadLine, hasCrLf]
  | cons c rest ih =>
    unfold firstBadLine
    by_cases hc : c = '\n'
    · subst hc
      by_cases hp : prev = some '\r'
      · subst hp
        simp [hasCrLf_cons_cons]
      · have h1 : (prev == some '\r') = false := by simpa using hp
        simp only [if_true, h1, Bool.not_false]
        rw [ih]
        cases prev with
        | none => simp [hasCrLf_cons_ne]
        | some p =>
          have : p ≠ '\r' := by simpa using hp
          simp [hasCrLf_cons_ne _ _ this]
    · simp only [hc, if_false]
      rw [ih]
      cases prev with
      | none => simp
      | some p =>
        simp only [Option.toList_some, List.singleton_append, hasCrLf_cons_cons]
        simp [hc]

theorem styleOk_windows (t : List Char) : styleOk .windows t = everyLfAfterCr none t :=
  firstBadLine_windows t 1 none

theorem styleOk_unix (t : List Char) : styleOk .unix t = !hasCrLf t := by
  have := firstBadLine_unix t 1 none
  simpa [styleOk] using this

/-- Soundness of the final-terminator oracle. -/
theorem finalOk_sound (t : List Char) (h : finalOk t = true) :
    ∃ body, (t = body ++ ['\n'] ∨ t = body ++ ['\r', '\n']) ∧ body ≠ [] ∧
      body.getLast? ≠ some '\n' ∧ startsWithBlankLine t = false := by
  unfold finalOk at h
  cases hs : stripFinalTerminator t with
  | none => simp [hs] at h
  | some body =>
    simp only [hs, Bool.and_eq_true, Bool.not_eq_true', bne_iff_ne, ne_eq] at h
    obtain ⟨⟨h1, h2⟩, h3⟩ := h
    refine ⟨body, ?_, by simpa using h1, h2, h3⟩
    unfold stripFinalTerminator at hs
    split at hs
    · rename_i r heq
      have : t = (('\n' :: '\r' :: r)).reverse := by rw [← heq]; simp
      simp at hs; subst hs
      right; simpa using this
    · rename_i r _ heq
      have : t = (('\n' :: r)).reverse := by rw [← heq]; simp
      simp at hs; subst hs
      left; simpa using this
    · simp at hs

theorem noTrailingBlank_nil (prev : Option Char) : noTrailingBlank prev [] = prevOk prev := by
  cases prev <;> rfl

theorem noTrailingBlank_cons (prev : Option Char) (c : Char) (rest : List Char) :
    noTrailingBlank prev (c :: rest) =
      ((if c = '\n' then prevOk prev else true) && noTrailingBlank (some c) rest) := by
  cases prev <;> rfl

/-- Meaning of the plain oracle: the char before every `\n`, and the last char of the text, is not a
blank other than `\n`. -/
theorem noTrailingBlank_iff (t : List Char) (prev : Option Char) :
    noTrailingBlank prev t = true ↔
      (∀ pre suf, t = pre ++ '\n' :: suf → prevOk (prevOf prev pre) = true) ∧
        prevOk (prevOf prev t) = true := by
  induction t generalizing prev with
  | nil =>
    simp only [noTrailingBlank_nil, prevOf_nil, iff_and_self]
    intro _ pre suf h
    simp at h
  | cons c rest ih =>
    rw [noTrailingBlank_cons, Bool.and_eq_true, ih, prevOf_cons]
    constructor
    · rintro ⟨h1, h2, h3⟩
      refine ⟨?_, h3⟩
      intro pre suf heq
      cases pre with
      | nil =>
        simp only [List.nil_append, List.cons.injEq] at heq
        obtain ⟨rfl, rfl⟩ := heq
        simpa [prevOf_nil] using h1
      | cons p pre' =>
        simp only [List.cons_append, List.cons.injEq] at heq
        obtain ⟨rfl, rfl⟩ := heq
        rw [prevOf_cons]
        exact h2 pre' suf rfl
    · rintro ⟨h1, h3⟩
      refine ⟨?_, ?_, h3⟩
      · split
        · rename_i hc
          subst hc
          simpa [prevOf_nil] using h1 [] rest rfl
        · rfl
      · intro pre suf heq
        have := h1 (c :: pre) suf (by simp [heq])
        rwa [prevOf_cons] at this

/-! ### process_missing_code -/

/-- `last_wspace` after the loop has read `cs` (no `\n` in it), starting at offset `i`. -/
def lwAfterL : List Char → Option Nat → Nat → Option Nat
  | [], lw, _ => lw
  | c :: cs, lw, i => lwAfterL cs (if isWhitespace c ∧ lw.isNone then some i else none) (i + 1)

/-- (argument order of the statement; the recursion is on the list) -/
def lwAfter (lw : Option Nat) (i : Nat) (cs : List Char) : Option Nat := lwAfterL cs lw i

theorem lwAfter_nil (lw : Option Nat) (i : Nat) : lwAfter lw i [] = lw := rfl

theorem lwAfter_cons (lw : Option Nat) (i : Nat) (c : Char) (cs : List Char) :
    lwAfter lw i (c :: cs) =
      lwAfter (if isWhitespace c ∧ lw.isNone then some i else none) (i + 1) cs := rfl

theorem lwAfter_append (lw : Option Nat) (i : Nat) (a b : List Char) :
    lwAfter lw i (a ++ b) = lwAfter (lwAfter lw i a) (i + a.length) b := by
  induction a generalizing lw i with
  | nil => simp [lwAfter_nil]
  | cons c cs ih =>
    simp only [List.cons_append, lwAfter_cons, ih, List.length_cons]
    congr 1; omega

theorem pmcLoop_noLf (sn : List Char) (cl : Nat → Bool) (cs rest : List Char) (i : Nat)
    (st : SnippetStatus) (out : List Char) (h : '\n' ∉ cs) :
    pmcLoop sn cl i (cs ++ rest) st out =
      pmcLoop sn cl (i + cs.length) rest { st with last_wspace := lwAfter st.last_wspace i cs } out := by
  induction cs generalizing i st with
  | nil => simp [lwAfter_nil]
  | cons c cs ih =>
    have hc : c ≠ '\n' := fun e => h (by simp [e])
    have hcs : '\n' ∉ cs := fun e => h (by simp [e])
    simp only [List.cons_append, pmcLoop, hc, if_false, lwAfter_cons, List.length_cons]
    split
    · rw [ih _ _ hcs]
      congr 1; omega
    · rw [ih _ _ hcs]
      congr 1; omega

/-- Text that is empty or ends in a non-blank leaves `last_wspace` empty. -/
theorem lwAfter_text (lw : Option Nat) (i : Nat) (body : List Char) (hne : body ≠ [])
    (h : ∀ x, body.getLast? = some x → isWhitespace x = false) : lwAfter lw i body = none := by
  obtain ⟨q, x, rfl⟩ : ∃ q x, body = q ++ [x] :=
    ⟨body.dropLast, body.getLast hne, (List.dropLast_concat_getLast hne).symm⟩
  have hx := h x (by simp)
  rw [lwAfter_append]
  simp [lwAfter_cons, lwAfter_nil, hx]

/-- A run of `n` blanks: `last_wspace` alternates, so it is set (to the last blank) iff `n` is odd. -/
theorem lwAfter_blanks (ws : List Char) (hws : ∀ c ∈ ws, isWhitespace c = true) :
    ∀ i, (lwAfter none i ws = if ws.length % 2 = 1 then some (i + ws.length - 1) else none) ∧
      (∀ j, lwAfter (some j) i ws =
        if ws.length = 0 then some j
        else if ws.length % 2 = 0 then some (i + ws.length - 1) else none) := by
  induction ws with
  | nil => intro i; simp [lwAfter_nil]
  | cons c cs ih =>
    have hc := hws c (by simp)
    have hcs : ∀ c ∈ cs, isWhitespace c = true := fun x hx => hws x (by simp [hx])
    intro i
    have ih1 := (ih hcs (i + 1)).1
    have ih2 := (ih hcs (i + 1)).2
    constructor
    · simp only [lwAfter_cons, hc, Option.isNone_none, and_self, if_true, List.length_cons]
      rw [ih2 i]
      by_cases h0 : cs.length = 0
      · simp [h0]
      · simp only [h0, if_false]
        by_cases hp : cs.length % 2 = 0
        · have : (cs.length + 1) % 2 = 1 := by omega
          simp only [hp, this, if_true]
          congr 1; omega
        · have : ¬ (cs.length + 1) % 2 = 1 := by omega
          simp [hp, this]
    · intro j
      simp only [lwAfter_cons, hc, Option.isNone_some, Bool.false_eq_true, and_false, if_false,
        List.length_cons]
      rw [ih1]
      have : ¬ (cs.length + 1 = 0) := by omega
      simp only [this, if_false]
      by_cases hp : cs.length % 2 = 1
      · have : (cs.length + 1) % 2 = 0 := by omega
        simp only [hp, this, if_true]
        congr 1; omega
      · have : ¬ (cs.length + 1) % 2 = 0 := by omega
        simp [hp, this]

theorem sliceExcl_mid (pre mid post : List Char) :
    sliceExcl (pre ++ mid ++ post) pre.length (pre.length + mid.length) = some mid := by
  unfold sliceExcl
  have h2 : pre.length + mid.length ≤ (pre ++ mid ++ post).length := by simp
  rw [if_pos ⟨by omega, h2⟩]
  simp

/-- One line through the loop of `process_missing_code`.  The line is `body ++ ws ++ "\n"` at offset
`pre.length` of the snippet, `body` empty or ending in a non-blank, `ws` its trailing blanks, the line is
in `file_lines`.  What is pushed is the line with **at most one** blank removed: the last one, and only
when the number of trailing blanks is odd. -/
theorem pmcLoop_line (pre body ws post rest : List Char) (cl : Nat → Bool) (l : Nat) (out : List Char)
    (hb : '\n' ∉ body) (hbl : ∀ x, body.getLast? = some x → isWhitespace x = false)
    (hws : ∀ c ∈ ws, isWhitespace c = true ∧ c ≠ '\n') (hcl : cl l = true) :
    pmcLoop (pre ++ body ++ ws ++ '\n' :: post) cl pre.length (body ++ ws ++ '\n' :: rest)
        ⟨pre.length, none, l⟩ out =
      pmcLoop (pre ++ body ++ ws ++ '\n' :: post) cl (pre.length + body.length + ws.length + 1) rest
        ⟨pre.length + body.length + ws.length + 1, none, l + 1⟩
        (out ++ body ++ ws.take (ws.length - ws.length % 2) ++ ['\n']) := by
  have hwsn : '\n' ∉ ws := fun e => (hws _ e).2 rfl
  have hws' : ∀ c ∈ ws, isWhitespace c = true := fun c hc => (hws c hc).1
  rw [List.append_assoc body, pmcLoop_noLf _ _ body _ _ _ _ hb, pmcLoop_noLf _ _ ws _ _ _ _ hwsn]
  have hbody : lwAfter none pre.length body = none := by
    by_cases hne : body = []
    · subst hne; rfl
    · exact lwAfter_text _ _ _ hne hbl
  simp only [hbody]
  rw [(lwAfter_blanks ws hws' (pre.length + body.length)).1]
  simp only [pmcLoop, if_true, hcl, Bool.not_true, Bool.false_eq_true, if_false]
  by_cases hodd : ws.length % 2 = 1
  · simp only [hodd, if_true]
    -- the slice up to the last blank
    have hn : 0 < ws.length := by omega
    have e1 : pre ++ body ++ ws ++ '\n' :: post =
        pre ++ (body ++ ws.take (ws.length - 1)) ++ (ws.drop (ws.length - 1) ++ '\n' :: post) := by
      have := List.take_append_drop (ws.length - 1) ws
      simp only [List.append_assoc]
      rw [← List.append_assoc (ws.take _), this]
    have e2 : pre.length + body.length + ws.length - 1 =
        pre.length + (body ++ ws.take (ws.length - 1)).length := by
      simp only [List.length_append, List.length_take]; omega
    have hs : sliceExcl (pre ++ body ++ ws ++ '\n' :: post) pre.length
        (pre.length + body.length + ws.length - 1) = some (body ++ ws.take (ws.length - 1)) := by
      rw [e2]
      conv => lhs; arg 1; rw [e1]
      exact sliceExcl_mid _ _ _
    rw [hs]
    simp only [List.append_assoc]
  · simp only [hodd, if_false]
    have hev : ws.length % 2 = 0 := by omega
    have e1 : pre ++ body ++ ws ++ '\n' :: post = pre ++ (body ++ ws ++ ['\n']) ++ post := by
      simp
    have e2 : pre.length + body.length + ws.length + 1 =
        pre.length + (body ++ ws ++ ['\n']).length := by
      simp only [List.length_append, List.length_cons, List.length_nil]; omega
    have hs : sliceExcl (pre ++ body ++ ws ++ '\n' :: post) pre.length
        (pre.length + body.length + ws.length + 1) = some (body ++ ws ++ ['\n']) := by
      rw [e2]
      conv => lhs; arg 1; rw [e1]
      exact sliceExcl_mid _ _ _
    rw [hs]
    simp only [hev, Nat.sub_zero, List.take_length, List.append_assoc]

/-! ### Idempotence of remove_trailing_white_spaces on texts without `'` -/

/-- `CharClasses` and the loop of `remove_trailing_white_spaces` fused: status `s` is the one reached
after the blanks in `sp` have been read. -/
def rtwS : CC.Status → List Char → List Char → Option (List Char)
  | _, _, [] => some []
  | s, sp, c :: t =>
    match CC.step s c t with
    | none => none
    | some (s', k) =>
      if c = '\n' then (rtwS s' [] t).map fun o => (if k = .inString then sp else []) ++ '\n' :: o
      else if isWhitespace c then rtwS s' (sp ++ [c]) t
      else (rtwS s' [] t).map fun o => sp ++ c :: o

theorem rtwS_eq (t : List Char) (s : CC.Status) (spT : List (CC.Kind × Char)) :
    (CC.run s t).map (fun ks => (rtwTagged spT ks).map Prod.snd) = rtwS s (spT.map Prod.snd) t := by
  induction t generalizing s spT with
  | nil => simp [CC.run, rtwS, rtwTagged]
  | cons c t ih =>
    simp only [CC.run, rtwS]
    cases hs : CC.step s c t with
    | none => simp
    | some r =>
      obtain ⟨s', k⟩ := r
      simp only
      by_cases hn : c = '\n'
      · subst hn
        have ih0 := ih s' []
        simp only [List.map_nil] at ih0
        rw [← ih0]
        cases hr : CC.run s' t with
        | none => simp
        | some ks =>
          simp only [Option.map_some, rtwTagged_cons_lf, if_true, List.map_append, List.map_cons]
          split <;> simp
      · by_cases hw : isWhitespace c = true
        · simp only [hn, hw, if_false, if_true]
          have := ih s' (spT ++ [(k, c)])
          simp only [List.map_append, List.map_cons, List.map_nil] at this
          rw [← this]
          cases hr : CC.run s' t with
          | none => simp
          | some ks => simp [rtwTagged_cons_ws _ _ _ _ hn hw]
        · have hw' : isWhitespace c = false := by simpa using hw
          simp only [hn, hw', if_false, Bool.false_eq_true]
          have ih0 := ih s' []
          simp only [List.map_nil] at ih0
          rw [← ih0]
          cases hr : CC.run s' t with
          | none => simp
          | some ks => simp [rtwTagged_cons_text _ _ _ _ hn hw']

theorem removeTrailingWhiteSpaces_eq_rtwS (t : List Char) :
    removeTrailingWhiteSpaces t = rtwS .normal [] t := by
  simpa [removeTrailingWhiteSpaces, CC.classify] using rtwS_eq t .normal []


/-- The chars `CharClasses` looks for are not blanks. -/
theorem ws_not_special (c : Char) (h : isWhitespace c = true) :
    c ≠ 'r' ∧ c ≠ '"' ∧ c ≠ '\'' ∧ c ≠ '/' ∧ c ≠ '*' ∧ c ≠ '#' ∧ c ≠ '\\' := by
  refine ⟨?_, ?_, ?_, ?_, ?_, ?_, ?_⟩ <;> (rintro rfl; revert h; decide)

/-- A blank never triggers a look-ahead. -/
theorem step_ws (s : CC.Status) (c : Char) (r1 r2 : List Char) (h : isWhitespace c = true) :
    CC.step s c r1 = CC.step s c r2 := by
  obtain ⟨h1, h2, h3, h4, h5, h6, h7⟩ := ws_not_special c h
  cases s <;> simp [CC.step, h1, h2, h3, h4, h5, h6, h7]

/-- All blanks other than `\n` act alike. -/
theorem step_blank (s : CC.Status) (c : Char) (r : List Char) (h : isWhitespace c = true)
    (hn : c ≠ '\n') : CC.step s c r = CC.step s ' ' [] := by
  obtain ⟨h1, h2, h3, h4, h5, h6, h7⟩ := ws_not_special c h
  cases s <;> simp [CC.step, h1, h2, h3, h4, h5, h6, h7, hn]

/-- Leading run of non-blank chars. -/
def P (l : List Char) : List Char := l.takeWhile fun c => !isWhitespace c

theorem head_P (l : List Char) (x : Char) (hx : isWhitespace x = false) :
    l.head? = some x ↔ (P l).head? = some x := by
  cases l with
  | nil => simp [P]
  | cons y ys =>
    by_cases hy : isWhitespace y = true
    · simp only [P, List.takeWhile_cons, hy, Bool.not_true, Bool.false_eq_true, if_false,
        List.head?_cons, List.head?_nil, Option.some.injEq]
      constructor
      · rintro rfl; simp [hx] at hy
      · intro h; cases h
    · have hy' : isWhitespace y = false := by simpa using hy
      simp [P, hy']

theorem head_of_P (r1 r2 : List Char) (h : P r1 = P r2) (x : Char) (hx : isWhitespace x = false) :
    r1.head? = some x ↔ r2.head? = some x := by
  rw [head_P r1 x hx, head_P r2 x hx, h]

theorem isRawStringSuffix_P (r : List Char) (n : Nat) :
    CC.isRawStringSuffix r n = CC.isRawStringSuffix (P r) n := by
  induction n generalizing r with
  | zero => cases r <;> simp [CC.isRawStringSuffix]
  | succ n ih =>
    cases r with
    | nil => simp [P, CC.isRawStringSuffix]
    | cons c rest =>
      by_cases hc : c = '#'
      · subst hc
        have : isWhitespace '#' = false := by decide
        simp only [CC.isRawStringSuffix, if_true, P, List.takeWhile_cons, this, Bool.not_false]
        exact ih rest
      · by_cases hw : isWhitespace c = true
        · simp [CC.isRawStringSuffix, hc, P, hw]
        · have hw' : isWhitespace c = false := by simpa using hw
          simp [CC.isRawStringSuffix, hc, P, hw']

/-- Except for `'` (two chars of look-ahead) `CharClasses::next` depends on the rest of the text only
through its leading non-blank run. -/
theorem step_P (s : CC.Status) (c : Char) (r1 r2 : List Char) (hc : c ≠ '\'') (h : P r1 = P r2) :
    CC.step s c r1 = CC.step s c r2 := by
  have e1 := head_of_P r1 r2 h '#' (by decide)
  have e2 := head_of_P r1 r2 h '"' (by decide)
  have e3 := head_of_P r1 r2 h '\\' (by decide)
  have e4 := head_of_P r1 r2 h '*' (by decide)
  have e5 := head_of_P r1 r2 h '/' (by decide)
  have e6 : ∀ n, CC.isRawStringSuffix r1 n = CC.isRawStringSuffix r2 n := fun n => by
    rw [isRawStringSuffix_P r1, isRawStringSuffix_P r2, h]
  cases s <;> simp only [CC.step, e1, e2, e3, e4, e5, e6, hc, if_false]

/-- The machine over a run of blanks. -/
def stepsWs : CC.Status → List Char → Option CC.Status
  | s, [] => some s
  | s, w :: ws =>
    match CC.step s w [] with
    | none => none
    | some (s', _) => stepsWs s' ws

theorem stepsWs_append (s : CC.Status) (a b : List Char) :
    stepsWs s (a ++ b) = (stepsWs s a).bind fun s' => stepsWs s' b := by
  induction a generalizing s with
  | nil => simp [stepsWs]
  | cons w ws ih =>
    simp only [List.cons_append, stepsWs]
    cases CC.step s w [] with
    | none => simp
    | some r => obtain ⟨s', _⟩ := r; exact ih s'

/-- Blanks other than `\n`. -/
def Blanks (sp : List Char) : Prop := ∀ c ∈ sp, isWhitespace c = true ∧ c ≠ '\n'

/-- Re-reading buffered blanks reproduces the buffer and the status. -/
theorem rtwS_prefix (sp : List Char) (hsp : Blanks sp) :
    ∀ (s0 s : CC.Status) (sp0 x : List Char), stepsWs s0 sp = some s →
      rtwS s0 sp0 (sp ++ x) = rtwS s (sp0 ++ sp) x := by
  induction sp with
  | nil => intro s0 s sp0 x h; simp [stepsWs] at h; subst h; simp
  | cons w ws ih =>
    intro s0 s sp0 x h
    have hw := hsp w (by simp)
    have hws : Blanks ws := fun c hc => hsp c (by simp [hc])
    simp only [stepsWs] at h
    simp only [List.cons_append, rtwS]
    rw [step_ws s0 w (ws ++ x) [] hw.1]
    cases hs : CC.step s0 w [] with
    | none => simp [hs] at h
    | some r =>
      obtain ⟨s1, k⟩ := r
      simp only [hs] at h
      simp only [hw.2, hw.1, if_false, if_true]
      rw [ih hws s1 s _ x h]
      simp

/-- With a non-empty buffer the output starts with a blank (or is empty); with an empty buffer it starts
with the leading non-blank run of the input. -/
theorem P_rtwS_buf (t : List Char) : ∀ (s : CC.Status) (sp O : List Char), sp ≠ [] →
    (∀ c ∈ sp, isWhitespace c = true) → rtwS s sp t = some O → P O = [] := by
  induction t with
  | nil => intro s sp O _ _ h; simp [rtwS] at h; subst h; rfl
  | cons c t ih =>
    intro s sp O hne hsp h
    simp only [rtwS] at h
    cases hs : CC.step s c t with
    | none => simp [hs] at h
    | some r =>
      obtain ⟨s', k⟩ := r
      simp only [hs] at h
      obtain ⟨w, ws, rfl⟩ := List.exists_cons_of_ne_nil hne
      have hw := hsp w (by simp)
      by_cases hn : c = '\n'
      · subst hn
        simp only [if_true, Option.map_eq_some_iff] at h
        obtain ⟨o, _, rfl⟩ := h
        split <;> simp [P, List.takeWhile_cons, hw]
        decide
      · by_cases hcw : isWhitespace c = true
        · simp only [hn, hcw, if_false, if_true] at h
          refine ih s' _ O (by simp) ?_ h
          intro x hx
          simp only [List.mem_append, List.mem_singleton] at hx
          rcases hx with hx | rfl
          · exact hsp x hx
          · exact hcw
        · have hcw' : isWhitespace c = false := by simpa using hcw
          simp only [hn, hcw', if_false, Bool.false_eq_true, Option.map_eq_some_iff] at h
          obtain ⟨o, _, rfl⟩ := h
          simp [P, hw]

theorem P_rtwS (t : List Char) : ∀ (s : CC.Status) (O : List Char),
    rtwS s [] t = some O → P O = P t := by
  induction t with
  | nil => intro s O h; simp [rtwS] at h; subst h; rfl
  | cons c t ih =>
    intro s O h
    simp only [rtwS] at h
    cases hs : CC.step s c t with
    | none => simp [hs] at h
    | some r =>
      obtain ⟨s', k⟩ := r
      simp only [hs] at h
      by_cases hn : c = '\n'
      · subst hn
        simp only [if_true, Option.map_eq_some_iff] at h
        obtain ⟨o, _, rfl⟩ := h
        have : isWhitespace '\n' = true := by decide
        split <;> simp [P, this]
      · by_cases hcw : isWhitespace c = true
        · simp only [hn, hcw, if_false, if_true, List.nil_append] at h
          rw [P_rtwS_buf t s' [c] O (by simp) (by simpa using hcw) h]
          simp [P, hcw]
        · have hcw' : isWhitespace c = false := by simpa using hcw
          simp only [hn, hcw', if_false, Bool.false_eq_true, List.nil_append,
            Option.map_eq_some_iff] at h
          obtain ⟨o, ho, rfl⟩ := h
          simp only [P, List.takeWhile_cons, hcw', Bool.not_false, if_true]
          congr 1
          exact ih s' o ho


/-- After one blank the status no longer changes on blanks. -/
theorem step_blank_stable (s0 s1 : CC.Status) (k1 : CC.Kind)
    (h : CC.step s0 ' ' [] = some (s1, k1)) : ∃ k2, CC.step s1 ' ' [] = some (s1, k2) := by
  cases s0 <;> simp [CC.step] at h <;>
    (try (obtain ⟨rfl, rfl⟩ := h)) <;> (try (obtain ⟨h0, rfl, rfl⟩ := h)) <;> simp [CC.step, *]

theorem stepsWs_stable (sp : List Char) (hsp : Blanks sp) (s1 s : CC.Status) (k : CC.Kind)
    (h1 : CC.step s1 ' ' [] = some (s1, k)) (h : stepsWs s1 sp = some s) : s = s1 := by
  induction sp with
  | nil => simp [stepsWs] at h; exact h.symm
  | cons w ws ih =>
    have hw := hsp w (by simp)
    have hws : Blanks ws := fun c hc => hsp c (by simp [hc])
    simp only [stepsWs, step_blank s1 w [] hw.1 hw.2, h1] at h
    exact ih hws h

/-- Skipping a non-empty run of blanks before a `\n` that is not inside a string leaves the status after
the `\n` unchanged. -/
theorem step_skip_blanks (s0 s1 s' : CC.Status) (k1 k : CC.Kind) (r r' : List Char)
    (h0 : CC.step s0 ' ' [] = some (s1, k1)) (h1 : CC.step s1 '\n' r = some (s', k))
    (hk : k ≠ .inString) : ∃ k', CC.step s0 '\n' r' = some (s', k') := by
  cases s0 <;> simp [CC.step] at h0 <;>
    (try (obtain ⟨rfl, rfl⟩ := h0)) <;> (try (obtain ⟨h00, rfl, rfl⟩ := h0)) <;>
    simp [CC.step, *] at h1 ⊢ <;> (try (obtain ⟨rfl, rfl⟩ := h1)) <;> simp_all


/-- Main claim: re-running the fused function on its own output, from the status `s0` held before the
buffered blanks were read, reproduces that output — when the text has no `'`. -/
theorem rtwS_rerun (t : List Char) : ∀ (s0 s : CC.Status) (sp O : List Char), '\'' ∉ t →
    Blanks sp → stepsWs s0 sp = some s → rtwS s sp t = some O → rtwS s0 [] O = some O := by
  induction t with
  | nil =>
    intro s0 s sp O _ _ _ h
    simp [rtwS] at h; subst h; simp [rtwS]
  | cons c t ih =>
    intro s0 s sp O hq hsp hst h
    have hqt : '\'' ∉ t := fun e => hq (by simp [e])
    have hqc : c ≠ '\'' := fun e => hq (by simp [e])
    simp only [rtwS] at h
    cases hs : CC.step s c t with
    | none => simp [hs] at h
    | some r =>
      obtain ⟨s', k⟩ := r
      simp only [hs] at h
      by_cases hn : c = '\n'
      · subst hn
        simp only [if_true, Option.map_eq_some_iff] at h
        obtain ⟨O', hO', rfl⟩ := h
        have ihO := ih s' s' [] O' hqt (by intro c hc; simp at hc) rfl hO'
        have hlf : isWhitespace '\n' = true := by decide
        by_cases hk : k = .inString
        · simp only [hk, if_true]
          have := rtwS_prefix sp hsp s0 s [] ('\n' :: O') hst
          rw [this]
          simp only [List.nil_append, rtwS, step_ws s '\n' O' t hlf, hs, hk, if_true, ihO,
            Option.map_some]
        · simp only [hk, if_false, List.nil_append]
          -- the status reached by `\n` directly from `s0`
          have hstep : ∃ k', CC.step s0 '\n' O' = some (s', k') := by
            cases sp with
            | nil =>
              simp [stepsWs] at hst; subst hst
              exact ⟨k, by rw [step_ws s0 '\n' O' t hlf, hs]⟩
            | cons w ws =>
              have hw := hsp w (by simp)
              have hws : Blanks ws := fun c hc => hsp c (by simp [hc])
              simp only [stepsWs, step_blank s0 w [] hw.1 hw.2] at hst
              cases h0 : CC.step s0 ' ' [] with
              | none => simp [h0] at hst
              | some r0 =>
                obtain ⟨s1, k1⟩ := r0
                simp only [h0] at hst
                obtain ⟨k2, hk2⟩ := step_blank_stable s0 s1 k1 h0
                have : s = s1 := stepsWs_stable ws hws s1 s k2 hk2 hst
                subst this
                exact step_skip_blanks s0 s s' k1 k t O' h0 hs hk
          obtain ⟨k', hk'⟩ := hstep
          simp only [rtwS, hk', if_true, ihO, Option.map_some]
          split <;> rfl
      · by_cases hcw : isWhitespace c = true
        · simp only [hn, hcw, if_false, if_true] at h
          refine ih s0 s' (sp ++ [c]) O hqt ?_ ?_ h
          · intro x hx
            simp only [List.mem_append, List.mem_singleton] at hx
            rcases hx with hx | rfl
            · exact hsp x hx
            · exact ⟨hcw, hn⟩
          · rw [stepsWs_append, hst]
            simp only [Option.bind_some, stepsWs, ← step_ws s c t [] hcw, hs]
        · have hcw' : isWhitespace c = false := by simpa using hcw
          simp only [hn, hcw', if_false, Bool.false_eq_true, Option.map_eq_some_iff] at h
          obtain ⟨O', hO', rfl⟩ := h
          have ihO := ih s' s' [] O' hqt (by intro c hc; simp at hc) rfl hO'
          have := rtwS_prefix sp hsp s0 s [] (c :: O') hst
          rw [this]
          have hP : P O' = P t := P_rtwS t s' O' hO'
          simp only [List.nil_append, rtwS, step_P s c O' t hqc hP, hs, hn, hcw', if_false,
            Bool.false_eq_true, ihO, Option.map_some]

/-- `remove_trailing_white_spaces` is idempotent on every text without `'`. -/
theorem removeTrailingWhiteSpaces_idem_no_quote (t out : List Char) (hq : '\'' ∉ t)
    (h : removeTrailingWhiteSpaces t = some out) : removeTrailingWhiteSpaces out = some out := by
  rw [removeTrailingWhiteSpaces_eq_rtwS] at h ⊢
  exact rtwS_rerun t .normal .normal [] out hq (by intro c hc; simp at hc) rfl h

end RF.Lemmas.Newline
