import RF.Model.Emit
import RF.Lemmas.Diff
import RF.Lemmas.Backup
/-!
Proofs for C06 (`RF/Props/C06.lean`) about `RF/Model/Emit.lean`.  Core Lean only.
-/
namespace RF.Emit
open RF.Diff

/-- The assumption on the external `diff` crate, for one emitter input and a line splitter
`lines` (Rust's `str::lines`): the script's two sides are the line lists of the two texts, and it
is all-`both` when the line lists are equal (the crate strips the common prefix first).  The
correspondence checks it on every case. -/
structure ScriptOk {α : Type} (lines : List Char → List α) (i : Input α) : Prop where
  lefts_eq  : lefts i.script = lines i.orig
  rights_eq : rights i.script = lines i.fmt
  all_both  : lines i.orig = lines i.fmt → hasChange i.script = false

end RF.Emit

namespace RF.Lemmas.Emit
open RF.Gen.Emitters RF.Diff RF.Emit RF.Lemmas.Diff

/-! ### context 0: hunks carry no context lines -/

theorem go0_noctx {α} (ds : List (Edit α)) :
    ∀ ln lno since (cur : Mismatch α), newSide cur.lines = newLines cur.lines →
      ∀ m ∈ go 0 ln lno [] since cur ds, newSide m.lines = newLines m.lines := by
  induction ds with
  | nil =>
    intro ln lno since cur h m hm
    simp only [go, List.mem_singleton] at hm; subst hm; exact h
  | cons d ds ih =>
    intro ln lno since cur h m hm
    cases d with
    | left s =>
      simp only [go] at hm
      split at hm
      · rcases List.mem_cons.mp hm with rfl | hm
        · exact h
        · exact ih _ _ _ _ (by simp [newSide, newLines]) m hm
      · exact ih _ _ _ _ (by simp [newSide, newLines, h]) m hm
    | right s =>
      simp only [go] at hm
      split at hm
      · rcases List.mem_cons.mp hm with rfl | hm
        · exact h
        · exact ih _ _ _ _ (by simp [newSide, newLines]) m hm
      · exact ih _ _ _ _ (by simp [newSide, newLines, h]) m hm
    | both s =>
      simp only [go, Nat.not_lt_zero, if_false, Nat.lt_irrefl, List.length_nil, ge_iff_le,
        Nat.le_refl, if_true, List.tail_nil] at hm
      exact ih _ _ _ _ h m hm

theorem makeDiff0_noctx {α} (ds : List (Edit α)) :
    ∀ m ∈ makeDiff ds 0, newSide m.lines = newLines m.lines := by
  intro m hm
  exact go0_noctx ds 1 1 1 ⟨0, 0, []⟩ rfl m (List.mem_of_mem_tail hm)

/-! ### checkstyle: every reported line is the formatted text's line at that number -/

theorem checkstyleLoop_mem {α} (b : Nat) (ls : List (DiffLine α)) :
    ∀ c n s, (n, s) ∈ checkstyleLoop b c ls → ∃ i, n = b + c + i ∧ (newLines ls)[i]? = some s := by
  induction ls with
  | nil => intro c n s h; simp [checkstyleLoop] at h
  | cons x ls ih =>
    intro c n s h
    cases x with
    | context t => exact ih c n s (by simpa [checkstyleLoop] using h)
    | resulting t => exact ih c n s (by simpa [checkstyleLoop] using h)
    | expected t =>
      simp only [checkstyleLoop, List.mem_cons, Prod.mk.injEq] at h
      rcases h with ⟨rfl, rfl⟩ | h
      · exact ⟨0, by simp, by simp [newLines]⟩
      · obtain ⟨i, hi, hs⟩ := ih (c + 1) n s h
        exact ⟨i + 1, by omega, by simpa [newLines] using hs⟩

theorem checkstyle_points_at_fmt {α} (ds : List (Edit α)) :
    ∀ e ∈ checkstyleErrors (makeDiff ds 0), 1 ≤ e.1 ∧ (rights ds)[e.1 - 1]? = some e.2 := by
  intro e he
  simp only [checkstyleErrors, List.mem_flatMap] at he
  obtain ⟨m, hm, hem⟩ := he
  obtain ⟨i, hi, hs⟩ := checkstyleLoop_mem m.lineNumber m.lines 0 e.1 e.2 hem
  obtain ⟨_, A, T, hR, hA⟩ := hunks_consistent ds 0 m hm
  rw [makeDiff0_noctx ds m hm] at hR
  have hlt : i < (newLines m.lines).length := by
    rcases Nat.lt_or_ge i (newLines m.lines).length with h | h
    · exact h
    · rw [List.getElem?_eq_none h] at hs; exact absurd hs (by simp)
  refine ⟨by omega, ?_⟩
  have hidx : e.1 - 1 = A.length + i := by omega
  rw [hR, hidx, List.append_assoc, List.getElem?_append_right (by omega),
    Nat.add_sub_cancel_left, List.getElem?_append_left hlt]
  exact hs

/-! ### json: the blocks carry the modified-lines chunks -/

theorem blockChunk_jsonBlock {α} (m : Mismatch α) : blockChunk (jsonBlock m) = toChunk m := by
  obtain ⟨h1, h2, _, h4, _⟩ := json_lines_agree m
  simp only [blockChunk]
  rw [h1, h2, h4]

theorem json_chunks {α} (ms : List (Mismatch α)) :
    (ms.map jsonBlock).map blockChunk = ofMismatches ms := by
  simp [ofMismatches, List.map_map, Function.comp_def, blockChunk_jsonBlock]

/-! ### the Diff emitter's `has_diff` -/

theorem isEmpty_makeDiff {α} (ds : List (Edit α)) (ctx : Nat) :
    (makeDiff ds ctx).isEmpty = !hasChange ds := by
  have := empty_iff_no_change ds ctx
  cases h : hasChange ds
  · simp [this.mpr h]
  · have hne : makeDiff ds ctx ≠ [] := fun e => by rw [this.mp e] at h; exact absurd h (by simp)
    cases hm : makeDiff ds ctx with
    | nil => exact absurd hm hne
    | cons _ _ => simp

theorem diff_hasDiff {α} (cfg : Cfg) (i : Input α) :
    (emit .diff cfg i).hasDiff = (hasChange i.script || decide (i.orig ≠ i.fmt)) := by
  simp only [emit, isEmpty_makeDiff, Bool.not_not]
  cases h : hasChange i.script
  · by_cases e : i.orig = i.fmt <;> simp [e]
  · simp

theorem diff_hasDiff_iff {α} (cfg : Cfg) (i : Input α)
    (h : i.orig = i.fmt → hasChange i.script = false) :
    (emit .diff cfg i).hasDiff = true ↔ i.orig ≠ i.fmt := by
  rw [diff_hasDiff]
  by_cases e : i.orig = i.fmt
  · simp [e, h e]
  · simp [e]

/-! ### ops -/

theorem emit_ops {α} (kind : EmitterKind) (cfg : Cfg) (i : Input α) :
    (emit kind cfg i).ops = RF.Backup.guardedOps kind i.orig i.fmt := by
  cases kind <;> simp only [emit] <;> (repeat' split) <;> rfl

end RF.Lemmas.Emit
