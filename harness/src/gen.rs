//! Generators shared by the whole-formatter searches: option sets, widths, token-preserving
//! re-layout and token-level mutation (lexing with rustc_lexer, independent of rustfmt's scanners).
use rustfmt_nightly::Config;

use crate::util::Rng;

pub const OPTION_TABLE: &[(&str, &[&str])] = &[
    ("hard_tabs", &["true"]),
    ("tab_spaces", &["1", "2", "3", "8"]),
    ("newline_style", &["Unix", "Windows"]),
    ("indent_style", &["Visual"]),
    ("use_small_heuristics", &["Off", "Max"]),
    ("wrap_comments", &["true"]),
    ("format_code_in_doc_comments", &["true"]),
    ("normalize_comments", &["true"]),
    ("normalize_doc_attributes", &["true"]),
    ("format_strings", &["true"]),
    ("format_macro_matchers", &["true"]),
    ("format_macro_bodies", &["false"]),
    ("hex_literal_case", &["Upper", "Lower"]),
    ("float_literal_trailing_zero", &["Always", "IfNoPostfix", "Never"]),
    ("empty_item_single_line", &["false"]),
    ("struct_lit_single_line", &["false"]),
    ("fn_single_line", &["true"]),
    ("where_single_line", &["true"]),
    ("imports_indent", &["Visual"]),
    ("imports_layout", &["Vertical", "Horizontal", "HorizontalVertical"]),
    ("imports_granularity", &["Crate", "Module", "Item", "One"]),
    ("group_imports", &["StdExternalCrate", "One"]),
    ("reorder_imports", &["false"]),
    ("reorder_modules", &["false"]),
    ("reorder_impl_items", &["true"]),
    ("type_punctuation_density", &["Compressed"]),
    ("space_before_colon", &["true"]),
    ("space_after_colon", &["false"]),
    ("spaces_around_ranges", &["true"]),
    ("binop_separator", &["Back"]),
    ("remove_nested_parens", &["false"]),
    ("combine_control_expr", &["false"]),
    ("short_array_element_width_threshold", &["0", "20"]),
    ("overflow_delimited_expr", &["true"]),
    ("struct_field_align_threshold", &["20"]),
    ("enum_discrim_align_threshold", &["20"]),
    ("match_arm_blocks", &["false"]),
    ("match_arm_leading_pipes", &["Always", "Preserve"]),
    ("match_arm_indent", &["false"]),
    ("force_multiline_blocks", &["true"]),
    ("fn_params_layout", &["Compressed", "Vertical"]),
    ("brace_style", &["AlwaysNextLine", "PreferSameLine"]),
    ("control_brace_style", &["AlwaysNextLine", "ClosingNextLine"]),
    ("trailing_semicolon", &["false"]),
    ("trailing_comma", &["Always", "Never"]),
    ("match_block_trailing_comma", &["true"]),
    ("blank_lines_upper_bound", &["0", "2", "3"]),
    ("blank_lines_lower_bound", &["1"]),
    ("inline_attribute_width", &["50"]),
    ("merge_derives", &["false"]),
    ("use_try_shorthand", &["true"]),
    ("use_field_init_shorthand", &["true"]),
    ("force_explicit_abi", &["false"]),
    ("condense_wildcard_suffixes", &["true"]),
    ("edition", &["2018", "2021", "2024"]),
    ("style_edition", &["2018", "2021", "2024"]),
];

pub const WIDTHS_QUICK: &[usize] = &[20, 23, 37, 50, 60, 80, 100, 137, 200];

/// every (key, value) of the table that the current tree accepts
pub fn option_singles() -> Vec<(String, String)> {
    let mut v = vec![];
    for (k, vals) in OPTION_TABLE {
        for val in *vals {
            if Config::is_valid_key_val(k, val) {
                v.push((k.to_string(), val.to_string()));
            }
        }
    }
    v
}

/// a random option set of `n` distinct keys
pub fn random_option_set(rng: &mut Rng, n: usize) -> Vec<(String, String)> {
    let singles = option_singles();
    let mut res: Vec<(String, String)> = vec![];
    let mut guard = 0;
    while res.len() < n && guard < 100 {
        guard += 1;
        let (k, v) = rng.pick(&singles).clone();
        if !res.iter().any(|(k2, _)| *k2 == k) {
            res.push((k, v));
        }
    }
    res
}

/// merge: later entries override earlier ones with the same key
pub fn merge_cfg(base: &[(String, String)], extra: &[(String, String)]) -> Vec<(String, String)> {
    let mut res: Vec<(String, String)> = base.to_vec();
    for (k, v) in extra {
        if let Some(e) = res.iter_mut().find(|(k2, _)| k2 == k) {
            e.1 = v.clone();
        } else {
            res.push((k.clone(), v.clone()));
        }
    }
    res
}

pub fn cfg_get<'a>(cfg: &'a [(String, String)], key: &str) -> Option<&'a str> {
    cfg.iter().rev().find(|(k, _)| k == key).map(|(_, v)| v.as_str())
}

pub fn cfg_text(cfg: &[(String, String)]) -> String {
    cfg.iter().map(|(k, v)| format!("{}={}", k, v)).collect::<Vec<_>>().join(",")
}

// ------------------------------------------------------------------------------------------------
// lexing

#[derive(Clone, Debug, PartialEq, Eq)]
pub enum TokClass {
    Ws,
    LineComment { doc: bool },
    BlockComment { doc: bool, terminated: bool },
    Ident,
    RawIdent,
    Lifetime,
    Literal,
    Punct,
    Open,
    Close,
    Unknown,
}

#[derive(Clone, Debug)]
pub struct Tok {
    pub class: TokClass,
    pub text: String,
}

pub fn lex(src: &str) -> Vec<Tok> {
    use rustc_lexer::TokenKind as K;
    let mut res = vec![];
    let mut pos = 0usize;
    // a shebang line is not a token for rustc_lexer::tokenize; keep it as whitespace-like prefix
    if let Some(n) = rustc_lexer::strip_shebang(src) {
        res.push(Tok { class: TokClass::Unknown, text: src[..n].to_string() });
        pos = n;
    }
    for t in rustc_lexer::tokenize(&src[pos..]) {
        let len = t.len as usize;
        let text = src[pos..pos + len].to_string();
        pos += len;
        let class = match t.kind {
            K::Whitespace => TokClass::Ws,
            K::LineComment { doc_style } => TokClass::LineComment { doc: doc_style.is_some() },
            K::BlockComment { doc_style, terminated } => TokClass::BlockComment { doc: doc_style.is_some(), terminated },
            K::Ident | K::InvalidIdent => TokClass::Ident,
            K::RawIdent => TokClass::RawIdent,
            K::Lifetime { .. } | K::RawLifetime => TokClass::Lifetime,
            K::Literal { .. } => TokClass::Literal,
            K::OpenParen | K::OpenBrace | K::OpenBracket => TokClass::Open,
            K::CloseParen | K::CloseBrace | K::CloseBracket => TokClass::Close,
            K::Eof => continue,
            K::Unknown | K::UnknownPrefix | K::UnknownPrefixLifetime | K::GuardedStrPrefix => TokClass::Unknown,
            _ => TokClass::Punct,
        };
        res.push(Tok { class, text });
    }
    res
}

fn is_comment(t: &Tok) -> bool {
    matches!(t.class, TokClass::LineComment { .. } | TokClass::BlockComment { .. })
}

/// Could the two token texts fuse into a different token sequence when written without a blank?
fn must_separate(a: &Tok, b: &Tok) -> bool {
    use TokClass::*;
    let wordy = |t: &Tok| matches!(t.class, Ident | RawIdent | Lifetime | Literal);
    if wordy(a) && wordy(b) {
        return true;
    }
    if a.class == Punct && b.class == Punct {
        return true; // `=` `=`, `-` `>`, `&` `&`, `.` `.`, `<` `-`, `/` `/` …: keep a blank between puncts only when there was one
    }
    if a.class == Punct && (wordy(b)) && (a.text == "'" || a.text == "-" || a.text == "." || a.text == "#") {
        return true;
    }
    if wordy(a) && b.class == Punct && (b.text == "." || b.text == "'" || b.text == "#" || b.text == "\"") {
        return true;
    }
    if a.class == Punct && a.text == "/" && (is_comment(b) || b.text == "*" || b.text == "/") {
        return true;
    }
    false
}

/// Re-emit the tokens of `src` with random but lexically safe spacing and line breaks.
/// Comments keep their text; a line comment is always followed by a line break. Where the original
/// had no whitespace between two tokens, none is inserted unless harmless (after `{`, `;`, `,`).
pub fn relayout(src: &str, rng: &mut Rng) -> String {
    let toks = lex(src);
    let mut out = String::with_capacity(src.len() * 2);
    let mut i = 0;
    let mode = rng.below(4); // 0: squeeze, 1: one token per line-ish, 2: random, 3: wide
    let mut prev: Option<Tok> = None;
    while i < toks.len() {
        let t = &toks[i];
        if t.class == TokClass::Ws {
            // decide replacement
            let had_newline = t.text.contains('\n');
            let prev_is_line_comment = prev.as_ref().map(|p| matches!(p.class, TokClass::LineComment { .. })).unwrap_or(false);
            let blank_lines = t.text.matches('\n').count();
            let ws = if prev_is_line_comment {
                "\n".to_string()
            } else {
                match mode {
                    0 => if had_newline && rng.chance(1, 3) { "\n".to_string() } else { " ".to_string() },
                    1 => if rng.chance(2, 3) { "\n".to_string() } else { " ".to_string() },
                    3 => {
                        let n = rng.range(1, 6);
                        if rng.chance(1, 3) { format!("\n{}", " ".repeat(n)) } else { " ".repeat(n) }
                    }
                    _ => match rng.below(6) {
                        0 => "\n".to_string(),
                        1 => "\n\n".to_string(),
                        2 => "\t".to_string(),
                        3 => format!("\n{}", " ".repeat(rng.below(12))),
                        4 => "  ".to_string(),
                        _ => " ".to_string(),
                    },
                }
            };
            // keep at least the blank-line structure class (0 / 1 / many) sometimes, to vary both ways
            let ws = if blank_lines >= 2 && rng.chance(1, 2) && !ws.contains("\n\n") { format!("{}\n\n", ws.trim_end_matches(' ')) } else { ws };
            out.push_str(&ws);
            i += 1;
            continue;
        }
        // no whitespace token between prev and t in the source: keep adjacency
        out.push_str(&t.text);
        if matches!(t.class, TokClass::LineComment { .. }) {
            // the lexer's line comment does not include the newline; the following Ws token has it
        }
        prev = Some(t.clone());
        // optionally insert harmless whitespace after `{` `;` `,` when the next token is adjacent
        if i + 1 < toks.len() && toks[i + 1].class != TokClass::Ws {
            let next = &toks[i + 1];
            if (t.text == "{" || t.text == ";" || t.text == ",") && t.class != TokClass::Literal && rng.chance(1, 4) && !must_separate(t, next) {
                // only outside macro-sensitive adjacency: `,` `;` `{` followed by anything is safe to space
                out.push_str(if rng.chance(1, 2) { "\n" } else { " " });
            }
        }
        i += 1;
    }
    if !out.ends_with('\n') && rng.chance(3, 4) {
        out.push('\n');
    }
    out
}

/// Token-level mutation for robustness testing: deletion, duplication, swap, truncation, delimiter
/// imbalance, non-ASCII insertion.
pub fn mutate(src: &str, rng: &mut Rng) -> String {
    let mut toks: Vec<Tok> = lex(src);
    if toks.is_empty() {
        return src.to_string();
    }
    let n_mut = rng.range(1, 4);
    for _ in 0..n_mut {
        if toks.is_empty() {
            break;
        }
        let i = rng.below(toks.len());
        match rng.below(8) {
            0 => {
                toks.remove(i);
            }
            1 => {
                let t = toks[i].clone();
                toks.insert(i, t);
            }
            2 => {
                let j = rng.below(toks.len());
                toks.swap(i, j);
            }
            3 => {
                toks.truncate(i + 1);
            }
            4 => {
                let d = *rng.pick(&["(", ")", "{", "}", "[", "]", "<", ">"]);
                toks.insert(i, Tok { class: TokClass::Punct, text: d.to_string() });
            }
            5 => {
                let s = *rng.pick(&["é", "→", "\u{1f98a}", "\u{200b}", "ß", "\u{feff}", "ａ", "\u{301}"]);
                toks.insert(i, Tok { class: TokClass::Unknown, text: s.to_string() });
            }
            6 => {
                // cut a token in the middle (unterminated string/comment, half identifier)
                let t = &mut toks[i];
                let cs: Vec<char> = t.text.chars().collect();
                if cs.len() > 1 {
                    let k = rng.range(1, cs.len() - 1);
                    t.text = cs[..k].iter().collect();
                }
            }
            _ => {
                let s = *rng.pick(&["#[rustfmt::skip]", "// c\n", "/* c */", "'", "\"", "r#\"", "b'", "::", "..=", "=>", "macro_rules!", "where", "async", "unsafe", "0x", "1e", "'a"]);
                toks.insert(i, Tok { class: TokClass::Unknown, text: s.to_string() });
            }
        }
    }
    toks.iter().map(|t| t.text.as_str()).collect()
}

/// `depth` nested `mod m { … }` / `fn f() { … }` / blocks around a small body.
pub fn nested_program(rng: &mut Rng, depth: usize) -> String {
    let mut s = String::new();
    let mode = rng.below(3);
    let switch = rng.below(depth + 1);
    let kinds: Vec<usize> = (0..depth).map(|d| match mode { 0 => 0, 1 => if d < switch { 0 } else { 4 }, _ => rng.below(5) }).collect();
    let mut in_fn = false;
    let mut closers = vec![];
    for (d, k) in kinds.iter().enumerate() {
        if !in_fn {
            match k {
                0 | 1 => { s.push_str(&format!("mod m{} {{\n", d)); closers.push("}\n"); }
                2 => { s.push_str(&format!("impl T{} {{\n", d)); closers.push("}\n"); s.push_str(&format!("fn f{}() {{\n", d)); closers.push("}\n"); in_fn = true; }
                3 => { s.push_str(&format!("trait Tr{} {{\n", d)); closers.push("}\n"); s.push_str(&format!("fn f{}() {{\n", d)); closers.push("}\n"); in_fn = true; }
                _ => { s.push_str(&format!("fn f{}() {{\n", d)); closers.push("}\n"); in_fn = true; }
            }
        } else {
            match k {
                0 => { s.push_str("if a {\n"); closers.push("}\n"); }
                1 => { s.push_str("match x { _ => {\n"); closers.push("} }\n"); }
                2 => { s.push_str("let _ = || {\n"); closers.push("};\n"); }
                3 => { s.push_str("loop {\n"); closers.push("}\n"); }
                _ => { s.push_str("{\n"); closers.push("}\n"); }
            }
        }
    }
    let body = if in_fn {
        *rng.pick(&["// comment\nlet x = 1;\n", "// only a comment\n", "/* block */\n", "/* block */ foo(a, b, c);\n", "let long_name = some_function(argument_one, argument_two, argument_three);\n", "x.iter().map(|y| y + 1).filter(|z| *z > 2).collect::<Vec<_>>();\n", "macro_rules! m { ($x:expr) => { let y = $x + 1; println!(\"{}\", y); }; }\n", "let s = S { field_one: 1, field_two: 2, ..Default::default() };\n", "let v = vec![1, 2, 3]; let t = (a, b, c); let [p, q] = r;\n", "let Some(x) = y else { return; };\n", "match z { A | B if c => 1, D { e, .. } => 2, _ => 3 }\n", ""])
    } else {
        *rng.pick(&["// comment\nuse a::b;\n", "/* c */ struct S { a: u32, b: u32 }\n", "// only a comment\n", "/* only a block comment */\n", "// a comment that is fairly long so that it has to be wrapped somewhere\nfn g() {}\n", "fn g(a: u32, b: u32) -> u32 { a + b }\n", "macro_rules! m { ($x:expr) => { let y = $x + 1; println!(\"{}\", y); }; }\n", "macro_rules! n { () => { fn generated() {} }; ($a:ident, $b:ty) => { struct $a($b); }; }\n", "enum E { A = 1, Bb = 2, Ccc { x: u32 }, D(u8, u16) }\n", "pub(crate) const C: [u8; 3] = [1, 2, 3];\nstatic S: &str = \"a string literal that is somewhat long\";\n", "impl<T: Clone + Send> Tr for X<T> where T: Sync { type A = u8; const B: u8 = 1; fn f(&self) {} }\n", "extern \"C\" { fn ext(a: u32) -> u32; static X: u8; }\n", "#[derive(Debug)]\n#[cfg(test)]\nunion U { a: u32, b: f32 }\n", ""])
    };
    s.push_str(body);
    for c in closers.iter().rev() {
        s.push_str(c);
    }
    s
}

/// Identifier universe aimed at the import/module ordering code: both cases, digits with leading
/// zeros, underscores, raw identifiers, non-ASCII upper/lower case and non-ASCII digits.
pub const IDENT_UNIVERSE: &[&str] = &[
    "a", "b", "B", "Ab", "aB", "AB", "A_B", "a_b", "ZED", "zed", "Zed", "x86", "x86_64", "x64", "X86", "u8", "u16", "u128", "U8", "v1", "v01", "v001", "v10", "v9", "_a", "a1", "a01", "a10",
    "ÀB", "àb", "Àb", "MAX_9", "MAX_٣", "MAX_10", "Ünï", "ünï", "ÜNÏ", "r#type", "r#Zed", "std", "core", "alloc", "foo", "Foo", "FOO", "bar", "w5s009t", "w005s09t",
];

fn use_tree(rng: &mut Rng, depth: usize) -> String {
    let mut s = String::new();
    let n = rng.range(1, 3);
    for i in 0..n {
        if i > 0 {
            s.push_str("::");
        }
        s.push_str(*rng.pick(IDENT_UNIVERSE));
    }
    match rng.below(6) {
        0 => s.push_str("::*"),
        1 | 2 if depth < 3 => {
            let k = rng.range(1, 5);
            let mut items: Vec<String> = (0..k).map(|_| if rng.chance(1, 6) { "self".to_string() } else { use_tree_leaf(rng, depth + 1) }).collect();
            if rng.chance(1, 5) {
                items.push(use_tree(rng, depth + 1));
            }
            s.push_str(&format!("::{{{}}}", items.join(", ")));
        }
        3 => s.push_str(&format!(" as {}", rng.pick(&["x", "y", "_", "Z"]))),
        _ => {}
    }
    s
}

fn use_tree_leaf(rng: &mut Rng, depth: usize) -> String {
    if depth < 3 && rng.chance(1, 6) {
        use_tree(rng, depth)
    } else {
        let mut s = rng.pick(IDENT_UNIVERSE).to_string();
        if rng.chance(1, 8) {
            s.push_str(&format!(" as {}", rng.pick(&["x", "y", "_"])));
        }
        s
    }
}

/// A file of import / `mod` / `extern crate` groups over `IDENT_UNIVERSE`, separated by blank lines
/// and other items, in random order.
pub fn import_program(rng: &mut Rng) -> String {
    let mut s = String::new();
    for _ in 0..rng.range(1, 4) {
        match rng.below(5) {
            0 => {
                for _ in 0..rng.range(1, 5) {
                    let id = *rng.pick(IDENT_UNIVERSE);
                    s.push_str(&format!("{}mod {};\n", if rng.chance(1, 5) { "pub " } else { "" }, id));
                }
            }
            1 => {
                for _ in 0..rng.range(1, 4) {
                    let id = rng.pick(IDENT_UNIVERSE).trim_start_matches("r#").to_string();
                    if rng.chance(1, 3) {
                        s.push_str(&format!("extern crate {} as {};\n", id, rng.pick(&["x", "y", "zz"])));
                    } else {
                        s.push_str(&format!("extern crate {};\n", id));
                    }
                }
            }
            _ => {
                for _ in 0..rng.range(1, 6) {
                    let vis = *rng.pick(&["", "", "", "pub ", "pub(crate) "]);
                    s.push_str(&format!("{}use {};\n", vis, use_tree(rng, 0)));
                }
            }
        }
        s.push_str(*rng.pick(&["\n", "\nfn f() {}\n\n", "\n// group\n", "\n"]));
    }
    s
}

const TEXT_PIECES: &[&str] = &[
    ":", "::", ":x", "a::b", ":registry_index_crates_io_proc_macro_expansion_cache_entry_with_a_long_name", "http://example.com/a/very/long/url/that/cannot/be/broken/anywhere/at/all/index.html",
    "word", "another", "a", "the_quick_brown_fox_jumps_over_the_lazy_dog_and_keeps_running_for_a_long_while", "`code`", "* item", "- item", "+ item", "> quote", "> >", "1. item", "10) item", "```", "```rust", "~~~",
    "\u{3000}", "\u{3000}\u{3000}* foo", "é", "日本語のテキスト", "🦊", "\u{a0}", "\\", "'", "[link]: http://x.y", "[a][b]", "#", "# Heading", "|", "| a | b |", "---", "===", "TODO:", "FIXME(x):", "@generated", "{", "}", "(", ")", "/*", "*/", "//", "\t", "  ", ".", "!", "?", ",", ";",
];

fn text_line(rng: &mut Rng) -> String {
    let mut s = String::new();
    if rng.chance(1, 3) {
        s.push_str(&" ".repeat(rng.below(6)));
    }
    for i in 0..rng.range(1, 7) {
        if i > 0 && rng.chance(4, 5) {
            s.push(' ');
        }
        s.push_str(*rng.pick(TEXT_PIECES));
    }
    s
}

/// A program whose comments (line, block, doc, inner doc) and string literals carry hostile text:
/// leading punctuation, unbreakable runs, Markdown markers, wide and combining characters.
pub fn text_program(rng: &mut Rng) -> String {
    let mut s = String::new();
    let sanitize = |l: String, block: bool| -> String { if block { l.replace("*/", "* /").replace("/*", "/ *") } else { l } };
    for _ in 0..rng.range(1, 4) {
        match rng.below(6) {
            0 => { for _ in 0..rng.range(1, 4) { s.push_str(&format!("// {}\n", text_line(rng))); } }
            1 => { for _ in 0..rng.range(1, 4) { s.push_str(&format!("/// {}\n", text_line(rng))); } }
            2 => { s.push_str("/*\n"); for _ in 0..rng.range(1, 4) { s.push_str(&format!(" * {}\n", sanitize(text_line(rng), true))); } s.push_str(" */\n"); }
            3 => { s.push_str("/**\n"); for _ in 0..rng.range(1, 3) { s.push_str(&format!(" * {}\n", sanitize(text_line(rng), true))); } s.push_str(" */\n"); }
            4 => { s.push_str(&format!("//{}\n", text_line(rng))); }
            _ => { s.push_str(&format!("/* {} */\n", sanitize(text_line(rng), true))); }
        }
        match rng.below(4) {
            0 => {
                let lit = text_line(rng).replace('\\', "\\\\").replace('"', "\\\"").replace('\t', " ");
                s.push_str(&format!("fn f() {{\n    let s = \"{}\";\n    // {}\n    call(a, \"{}\", b);\n}}\n", lit, text_line(rng), text_line(rng).replace('\\', "/").replace('"', "'")));
            }
            1 => s.push_str(&format!("struct S {{\n    /// {}\n    a: u32, // {}\n}}\n", text_line(rng), text_line(rng))),
            2 => s.push_str(&format!("mod m {{\n    //! {}\n    fn g() {{ /* {} */ }}\n}}\n", text_line(rng), sanitize(text_line(rng), true))),
            _ => s.push_str("fn h() {}\n"),
        }
    }
    s
}

/// White space that is not ASCII (char::is_whitespace / rustc's lexer accept it) in the places where rustfmt computes
/// byte offsets from character or line counts: between items, after comments, in front of the `*` of a block-comment
/// line, at line ends, inside blank lines.
pub fn blank_program(rng: &mut Rng) -> String {
    const WS: &[&str] = &["\u{2028}", "\u{2029}", "\u{85}", "\u{3000}", "\u{a0}", "\u{2003}", "\u{200e}", "\u{200f}", "\u{b}", "\u{c}", " ", "\t", "\r"];
    let w = |rng: &mut Rng| -> String { (0..rng.range(1, 3)).map(|_| *rng.pick(WS)).collect() };
    let mut s = String::new();
    for i in 0..rng.range(1, 4) {
        match rng.below(7) {
            0 => s.push_str(&format!("fn a{}() {{}}\n// c\n{}\nfn b{}() {{}}\n", i, w(rng), i)),
            1 => s.push_str(&format!("fn a{}() {{\n    /* a\n{}* b\n     */\n    let x = 1;{}\n}}\n", i, w(rng), w(rng))),
            2 => s.push_str(&format!("/* a\n{}* b\n{}*/\nfn c{}() {{}}\n", w(rng), w(rng), i)),
            3 => s.push_str(&format!("struct S{} {{\n    a: u32,{}// c{}\n{}\n    b: u32,\n}}\n", i, w(rng), w(rng), w(rng))),
            4 => s.push_str(&format!("fn d{}() {{\n    call(a,{}/* x */{}b);{}\n{}\n    // e\n{}}}\n", i, w(rng), w(rng), w(rng), w(rng), w(rng))),
            5 => s.push_str(&format!("{}\n{}fn e{}() {{}}{}\n{}", w(rng), w(rng), i, w(rng), w(rng))),
            _ => s.push_str(&format!("use a::{{b,{}c}};{}\n{}\nmod m{} {{{}\n}}\n", w(rng), w(rng), w(rng), i, w(rng))),
        }
    }
    s
}

const NUM_LITS: &[&str] = &[
    "0", "1", "1.", "1.0", "1.0e5", "1e5", "1e+5", "1E-5", "0x1f", "0XFF", "0xdead_beef", "0b1f32", "0b101", "0o17", "1f32", "1_f32", "1.f32", "1._0", "0x1p3", "1e", "0x", "0b", "1_000_000", "0.0.0", "1..2", "1.e1", "0e0", "0E0f64", "0b1e3", "0x1e3", "0xe+1", "1u8", "1usize", "1i128", "0b1_u8", "1.0E+10_f64", "00012", "0_0", "1e1_0", "9999999999999999999999999999", "0xFFFF_FFFF_FFFF_FFFF_FFFF",
];

/// Statements full of numeric literals in every spelling (valid or not).
pub fn literal_program(rng: &mut Rng) -> String {
    let mut s = String::from("fn f() {\n");
    for i in 0..rng.range(1, 8) {
        match rng.below(4) {
            0 => s.push_str(&format!("    let x{} = {};\n", i, rng.pick(NUM_LITS))),
            1 => s.push_str(&format!("    g({}, {}, t.{});\n", rng.pick(NUM_LITS), rng.pick(NUM_LITS), rng.pick(&["0", "0.0", "1.2", "0.0.0"]))),
            2 => s.push_str(&format!("    let a = [{}, {}, {}];\n", rng.pick(NUM_LITS), rng.pick(NUM_LITS), rng.pick(NUM_LITS))),
            _ => s.push_str(&format!("    match x {{ {} => 1, {}..={} => 2, _ => 3 }}\n", rng.pick(NUM_LITS), rng.pick(NUM_LITS), rng.pick(NUM_LITS))),
        }
    }
    s.push_str("}\n");
    s
}
