//! The brace decisions of `src/matches.rs` / `src/closures.rs` (match-arm bodies, closure bodies) against the Lean
//! model `RF/Model/Braces.lean` (driver `RF/Driver/Braces.lean`), through `verif_hooks::braces`, and end to end
//! through the real formatter (`pool::run_jobs`) judged by the Lean `strip`-equality oracle.
//!
//! (1) correspondence on an exhaustive universe: every body = (inner expression) x (wrapper: none, `{ e }`,
//!     `{ { e } }`, `{ e; }`, `unsafe`, label, comments, attributes on / in the block, `let`, two statements, empty
//!     blocks, ...) as the body of a match arm and of a closure (with and without an explicit return type), under
//!     match_arm_blocks x force_multiline_blocks x style_edition x widths, the other options and the arguments of
//!     `rewrite_match_body` (a two-line left-hand side, `has_guard`, `is_last`, inside a macro) in rotation.
//!     The real functions are run by the hook; what they consulted (the two attempts of `format_expr`,
//!     `prefer_next_line`, the rewriters of `closures.rs`) is handed to the model as its oracles, and the text they
//!     returned is read back by rustfmt's parser and compared with the tree the model predicts.
//! (2) the decisions that need no oracle (`flatten_arm_body`, `can_flatten_block_around_this`,
//!     `block_can_be_flattened`, `get_inner_expr`, `veto_block`, `is_block_closure_forced`, `rewrite_closure_expr`'s
//!     `allow_multi_line`) compared one by one.
//! (3) end to end: generated functions holding matches and closures in several positions, formatted by the real
//!     formatter; every arm body and closure body of the output must `stripDeep`-equal the input's (Lean), the
//!     token sequences must be `tok.equiv`, a second pass must change nothing.
use std::collections::HashMap;

use rustfmt_nightly::verif_hooks::braces as hb;
use serde_json::json;

use crate::pool;
use crate::util::*;

/// inner expressions: (text, fits on a line of about 20 columns)
const INNER: &[&str] = &[
    "foo()",
    "x",
    "a + b",
    "x.f",
    "x.m()",
    "m!()",
    "[1, 2]",
    "(1, 2)",
    "S { a: 1 }",
    "if a { b } else { c }",
    "if a { b }",
    "while a { b }",
    "for i in x { b }",
    "loop { b }",
    "match a { _ => b }",
    "return 1",
    "break",
    "continue",
    "&x",
    "x?",
    "!x",
    "x[0]",
    "x as u8",
    "x = 1",
    "x += 1",
    "a..b",
    "..b",
    "const { 1 }",
    "async { 1 }",
    "|y| y",
    "|y| { y }",
    "&if a { b } else { c }",
    "!match a { _ => b }",
    "&loop { b }",
    "foo()?",
    "&foo()",
    "foo().x",
    "foo()[0]",
    "foo(1).bar(2)",
    "if a { b } else { c }.x",
    "match a { _ => b }.f()",
    "foo(aaaaaaaaaaaa, bbbbbbbbbbbbb, ccccccccccc)",
    "aaaaaaaaaaaaa + bbbbbbbbbbbbbb + cccccccccccc",
    "if aaaaaaaaaaaaaaaa && bbbbbbbbbbbbbbbbb { c } else { d }",
    "if let Some(xxxxxxxxxxxx) = aaaaaaaaaaaaa.bbbbbbbbbbbbbbbbbbbbbb() { 1 } else { 2 }",
    "match (aaaaaaaaaaaaaaa, bbbbbbbbbbbbbbbbbbbbbb) { _ => b }",
    "while aaaaaaaaaaaaaaaaaaa && bbbbbbbbbbbbbbbbbbbbbb { c() }",
    "xxxxxxxxxxxx.yyyyyyyyyyyy(1).zzzzzzzzzzzzzz(2).wwwwwwwwwwww(3)",
    "return aaaaaaaaaaaaaaaaaa + bbbbbbbbbbbbbbbbbbbbb",
    "SSSSSSSSSSS { aaaaaaaaaa: 1, bbbbbbbbbbbbb: 2 }",
];

/// every body made of one inner expression
fn wrappers(e: &str) -> Vec<String> {
    vec![
        e.to_string(),
        format!("{{ {e} }}"),
        format!("{{ {{ {e} }} }}"),
        format!("{{ {e}; }}"),
        format!("unsafe {{ {e} }}"),
        format!("'a: {{ {e} }}"),
        format!("'label: {{ {e} }}"),
        format!("{{ /* c */ {e} }}"),
        format!("{{ {e} /* c */ }}"),
        format!("{{\n// c\n{e} }}"),
        format!("#[a] {{ {e} }}"),
        format!("{{ #![a] {e} }}"),
        format!("{{ #[a] {e} }}"),
        format!("{{ #[a] {{ {e} }} }}"),
        format!("{{ {{ #![a] {e} }} }}"),
        format!("#[a] {e}"),
        format!("{{ let y = 1; {e} }}"),
        format!("{{ {e}; {e} }}"),
        format!("{{ unsafe {{ {e} }} }}"),
        format!("{{ 'a: {{ {e} }} }}"),
        format!("{{ {{ {e}; }} }}"),
        format!("{{ {{ /* c */ {e} }} }}"),
        format!("{{ {{ {{ {e} }} }} }}"),
    ]
}

/// bodies that do not depend on an inner expression
const FIXED_BODIES: &[&str] = &["{}", "{ ; }", "{ /* c */ }", "{ fn g() {} }", "{ m! {} }", "{ {} }", "unsafe {}", "{ #![a] }", "{\n}", "{ let y = 1; }"];

pub fn universe() -> Vec<String> {
    let mut v: Vec<String> = vec![];
    for e in INNER {
        v.extend(wrappers(e));
    }
    v.extend(FIXED_BODIES.iter().map(|s| s.to_string()));
    v
}

/// the bodies that parse as a match-arm body and as a closure body (the others are counted and listed)
fn parsable(o: &mut Outcome, all: Vec<String>) -> Vec<String> {
    let ok = par_map(&all, |b| {
        let config = pool::build_config(&[("edition".to_string(), "2024".to_string())], &None).unwrap();
        let opts = hb::Opts { enc_only: true, ..Default::default() };
        let one = std::slice::from_ref(b);
        std::panic::catch_unwind(std::panic::AssertUnwindSafe(|| {
            hb::analyze(&arms_source(one).text, &config, &opts).is_some() && hb::analyze(&closures_source(one, "|x| ", false).text, &config, &opts).is_some()
        }))
        .unwrap_or_else(|_| {
            eprintln!("braces: the parser panicked on {b:?}");
            false
        })
    });
    let mut v = vec![];
    for (b, k) in all.into_iter().zip(ok) {
        if k {
            v.push(b);
        } else {
            o.count("universe:does_not_parse");
            o.notes.push(format!("body left out (does not parse): {b:?}"));
        }
    }
    v
}

#[derive(Clone, Debug)]
pub struct BCfg {
    pub max_width: usize,
    pub mab: bool,
    pub fmb: bool,
    pub s2024: bool,
    pub never: bool,
    pub mbtc: bool,
    pub tsemi: bool,
    pub fn_single_line: bool,
}

impl BCfg {
    pub fn pairs(&self) -> Vec<(String, String)> {
        let b = |x: bool| x.to_string();
        vec![
            ("max_width".into(), self.max_width.to_string()),
            ("match_arm_blocks".into(), b(self.mab)),
            ("force_multiline_blocks".into(), b(self.fmb)),
            ("style_edition".into(), (if self.s2024 { "2024" } else { "2015" }).into()),
            ("trailing_comma".into(), (if self.never { "Never" } else { "Vertical" }).into()),
            ("match_block_trailing_comma".into(), b(self.mbtc)),
            ("trailing_semicolon".into(), b(self.tsemi)),
            ("fn_single_line".into(), b(self.fn_single_line)),
            ("edition".into(), "2024".into()),
        ]
    }
}

fn bit(x: bool) -> char {
    if x { '1' } else { '0' }
}

#[derive(Clone, Debug)]
struct Plan {
    cfg: BCfg,
    indent: usize,
    pats_ml: bool,
    has_guard: bool,
    last: bool,
    inside_macro: bool,
}

impl Plan {
    fn opts(&self, enc_only: bool) -> hb::Opts {
        hb::Opts { indent: self.indent, pats_ml: self.pats_ml, has_guard: self.has_guard, force_last: Some(self.last), inside_macro: self.inside_macro, enc_only }
    }
}

struct Src {
    text: String,
    /// byte offset of each body's arm / closure -> index of the body
    at: HashMap<usize, usize>,
}

fn arms_source(bodies: &[String]) -> Src {
    let mut text = String::from("fn f() {\n    match x {\n");
    let mut at = HashMap::new();
    for (i, b) in bodies.iter().enumerate() {
        text.push_str("        ");
        at.insert(text.len(), i);
        text.push_str(&format!("A => {b},\n"));
    }
    text.push_str("    }\n}\n");
    Src { text, at }
}

/// closure heads: (text in front of the body, only for block bodies)
const HEADS: &[(&str, bool)] = &[("|x| ", false), ("|x| -> u8 ", true), ("move || ", false)];

fn closures_source(bodies: &[String], head: &str, blocks_only: bool) -> Src {
    let mut text = String::from("fn g() {\n");
    let mut at = HashMap::new();
    for (i, b) in bodies.iter().enumerate() {
        if blocks_only && !b.starts_with('{') {
            continue;
        }
        text.push_str("    let c = ");
        at.insert(text.len(), i);
        text.push_str(&format!("{head}{b};\n"));
    }
    text.push_str("}\n");
    Src { text, at }
}

/// the texts the real code returned, read back: `wrap(i, text)` -> (source, offset of the node); one batch, and one
/// by one when the batch does not parse
fn read_back(kind: &'static str, outs: &[(usize, String)], cfg: &rustfmt_nightly::Config, is_arm: bool) -> HashMap<usize, Option<hb::Rec>> {
    let opts = hb::Opts { enc_only: true, ..Default::default() };
    let build = |items: &[(usize, String)]| -> (String, HashMap<usize, usize>) {
        let mut text = String::from("fn f() {\n");
        let mut at = HashMap::new();
        for (i, out) in items {
            if is_arm {
                text.push_str("match x {\n");
                at.insert(text.len(), *i);
                text.push_str(out);
                text.push_str("\n}\n");
            } else {
                text.push_str("let c = ");
                at.insert(text.len(), *i);
                text.push_str(out);
                text.push_str(";\n");
            }
        }
        text.push_str("}\n");
        (text, at)
    };
    let mut res: HashMap<usize, Option<hb::Rec>> = HashMap::new();
    let (text, at) = build(outs);
    if let Some(recs) = hb::analyze(&text, cfg, &opts) {
        for r in recs {
            if r.kind == kind {
                if let Some(i) = at.get(&r.lo) {
                    res.insert(*i, Some(r));
                }
            }
        }
        for (i, _) in outs {
            res.entry(*i).or_insert(None);
        }
        return res;
    }
    for item in outs {
        let (text, at) = build(std::slice::from_ref(item));
        let rec = hb::analyze(&text, cfg, &opts).and_then(|recs| recs.into_iter().find(|r| r.kind == kind && at.contains_key(&r.lo)));
        res.insert(item.0, rec);
    }
    res
}

struct Found {
    cases: Vec<(&'static str, String, String, String, bool)>,
    direct: Vec<serde_json::Value>,
    counts: Vec<String>,
}

fn arm_cfg_bits(p: &Plan) -> String {
    let c = &p.cfg;
    [c.mab, c.fmb, c.s2024, c.tsemi, false, p.inside_macro, c.never, c.mbtc].iter().map(|b| bit(*b)).collect()
}

fn run_arms(bodies: &[String], src: &Src, p: &Plan, static_ops: bool) -> Found {
    let mut f = Found { cases: vec![], direct: vec![], counts: vec![] };
    let Ok(config) = pool::build_config(&p.cfg.pairs(), &None) else {
        f.direct.push(json!({"sig": "braces:config", "cfg": format!("{:?}", p.cfg)}));
        return f;
    };
    let Some(recs) = hb::analyze(&src.text, &config, &p.opts(false)) else {
        f.direct.push(json!({"sig": "braces:arms-universe-does-not-parse", "what": "the universe source does not parse"}));
        return f;
    };
    let mut outs: Vec<(usize, String)> = vec![];
    let mut mine: Vec<(usize, hb::Rec)> = vec![];
    for r in recs {
        if r.kind != "arm" {
            continue;
        }
        let Some(&i) = src.at.get(&r.lo) else { continue };
        let out = r.get("out").unwrap_or("!err").to_string();
        if out != "!err" {
            outs.push((i, out));
        }
        mine.push((i, r));
    }
    let back = read_back("arm", &outs, &config, true);
    let cfgbits = arm_cfg_bits(p);
    let ctx: String = [p.has_guard && p.pats_ml, false, p.last].iter().map(|b| bit(*b)).collect();
    for (i, r) in mine {
        let g = |k: &str| r.get(k).unwrap_or("?").to_string();
        let body = g("body");
        let desc = format!("arm body {:?} {:?}", bodies[i], p);
        let blocky = body.starts_with('B');
        if static_ops {
            f.cases.push(("br.canflat", format!("br.canflat {body}"), g("canflat"), desc.clone(), true));
        }
        let (fmb, im) = (bit(p.cfg.fmb), bit(p.inside_macro));
        f.cases.push(("br.ovh", format!("br.ovh {fmb} {im} {body}"), g("ovh"), desc.clone(), blocky));
        f.cases.push(("br.canbe", format!("br.canbe {im} {body}"), g("canbe"), desc.clone(), blocky));
        f.cases.push(("br.flat", format!("br.flat {fmb} {im} 0 {body}"), g("flatn"), desc.clone(), blocky));
        let cond = g("flats") != g("flatn");
        f.cases.push(("br.flat", format!("br.flat {fmb} {im} {} {body}", bit(cond)), g("flats"), desc.clone(), blocky));
        if cond {
            f.counts.push("arm:cond_multi".into());
        }
        let out = g("out");
        let (rc, rt) = if out == "!err" {
            ("-".to_string(), "-".to_string())
        } else {
            match back.get(&i) {
                Some(Some(b)) => (bit(out.ends_with(',')).to_string(), b.get("bodyn").unwrap_or("?").to_string()),
                _ => {
                    f.direct.push(json!({"sig": "braces:arm-output-does-not-parse", "body": bodies[i], "plan": format!("{:?}", p), "out": out, "what": "the text rewrite_match_body returned is not a match arm"}));
                    continue;
                }
            }
        };
        let orig = g("orig");
        f.counts.push(format!("arm:orig:{}", if orig.starts_with('o') { "o" } else { &orig }));
        f.counts.push(format!("arm:out:{}", if rt == "-" { "err" } else if rt == g("bodyn") { "same" } else if rt.len() < body.len() { "unwrapped" } else { "wrapped" }));
        f.cases.push((
            "br.arm.check",
            format!("br.arm.check {cfgbits} {ctx} {} {} {} {} {} {body} {rc} {rt}", g("shapeok"), bit(cond), orig, bit(g("next") == "o"), g("prefer")),
            "ok".into(),
            format!("{desc} out {out:?}"),
            blocky || rt != body,
        ));
        // rewrite_match_arm = rewrite_match_body behind the pattern, when the pattern is `A` and nothing else is there
        if !p.pats_ml && !p.has_guard {
            // (rewrite_match_arm fails before it reaches the body when the pattern's shape does not exist)
            let outarm = g("outarm");
            if outarm != out && outarm != "!err" {
                f.direct.push(json!({"sig": "braces:arm-vs-body", "body": bodies[i], "plan": format!("{:?}", p), "out": out, "outarm": outarm, "what": "rewrite_match_arm and rewrite_match_body behind the same pattern differ"}));
            }
        }
    }
    f
}

fn run_closures(bodies: &[String], src: &Src, ret: bool, p: &Plan) -> Found {
    let mut f = Found { cases: vec![], direct: vec![], counts: vec![] };
    let Ok(config) = pool::build_config(&p.cfg.pairs(), &None) else {
        return f;
    };
    let Some(recs) = hb::analyze(&src.text, &config, &p.opts(false)) else {
        f.direct.push(json!({"sig": "braces:closures-universe-does-not-parse", "what": "the universe source does not parse"}));
        return f;
    };
    let mut outs: Vec<(usize, String)> = vec![];
    let mut mine: Vec<(usize, hb::Rec)> = vec![];
    for r in recs {
        if r.kind != "closure" {
            continue;
        }
        let Some(&i) = src.at.get(&r.lo) else { continue };
        let out = r.get("out").unwrap_or("!err").to_string();
        if out != "!err" {
            outs.push((i, out));
        }
        mine.push((i, r));
    }
    let back = read_back("closure", &outs, &config, false);
    let cfgbits: String = [p.cfg.fmb, p.cfg.s2024, p.inside_macro].iter().map(|b| bit(*b)).collect();
    for (i, r) in mine {
        let g = |k: &str| r.get(k).unwrap_or("?").to_string();
        let body = g("body");
        let desc = format!("closure body {:?} ret {} {:?}", bodies[i], ret, p);
        let blocky = body.starts_with('B');
        if r.get("probe") == Some("!err") {
            f.counts.push("closure:prefix_err".into());
            continue;
        }
        let (fmb, im, s24) = (bit(p.cfg.fmb), bit(p.inside_macro), bit(p.cfg.s2024));
        let inner = g("inner");
        let pml = g("prefixml");
        f.cases.push(("br.inner", format!("br.inner {pml} {body}"), inner.clone(), desc.clone(), blocky));
        f.cases.push(("br.veto", format!("br.veto {inner}"), format!("{}{}", g("veto"), g("reqsemi")), desc.clone(), true));
        f.cases.push(("br.forced", format!("br.forced {im} {s24} {inner}"), g("forced"), desc.clone(), true));
        f.cases.push(("br.cloexpr", format!("br.cloexpr {fmb} {im} {} {inner}", g("innerrw")), g("expr"), desc.clone(), g("innerrw") == "m"));
        let out = g("out");
        let rt = if out == "!err" {
            "-".to_string()
        } else {
            match back.get(&i) {
                Some(Some(b)) => b.get("bodyn").unwrap_or("?").to_string(),
                _ => {
                    f.direct.push(json!({"sig": "braces:closure-output-does-not-parse", "body": bodies[i], "plan": format!("{:?}", p), "out": out, "what": "the text rewrite_closure returned is not a closure"}));
                    continue;
                }
            }
        };
        f.counts.push(format!("closure:out:{}", if rt == "-" { "err" } else if rt == g("bodyn") { "same" } else if rt.len() < body.len() { "unwrapped" } else { "wrapped" }));
        let blk = g("block");
        f.cases.push((
            "br.clo.check",
            format!("br.clo.check {cfgbits} {} {pml} {} {} {} {} {body} {rt}", bit(ret), g("innerrw"), g("wbo"), g("wbb"), if blk == "-" { "0".to_string() } else { blk }),
            "ok".into(),
            format!("{desc} out {out:?}"),
            blocky || rt != body,
        ));
    }
    f
}

fn absorb(o: &mut Outcome, f: Found) {
    for (op, req, expect, desc, nt) in f.cases {
        o.push("corr", op, req, expect, desc, nt);
    }
    o.direct_failures.extend(f.direct);
    for c in f.counts {
        o.count(&c);
    }
}

fn plans(rng: &mut Rng, thorough: bool) -> Vec<Plan> {
    let widths: Vec<usize> = if thorough { (20..=100).step_by(4).collect() } else { vec![20, 28, 40, 60, 100] };
    let mut v = vec![];
    let mut k = 0usize;
    for &w in &widths {
        for mab in [true, false] {
            for fmb in [false, true] {
                for s2024 in [false, true] {
                    // the other dimensions in rotation (every pair of them meets every (mab, fmb, style) over the widths)
                    k += 1;
                    let cfg = BCfg { max_width: w, mab, fmb, s2024, never: k % 3 == 0, mbtc: k % 5 < 2, tsemi: k % 7 != 3, fn_single_line: false };
                    v.push(Plan { cfg, indent: [0, 4, 8][k % 3], pats_ml: k % 4 == 1, has_guard: k % 8 == 1 || k % 8 == 6, last: k % 2 == 0, inside_macro: k % 11 == 5 });
                }
            }
        }
    }
    for _ in 0..(if thorough { 160 } else { 24 }) {
        let cfg = BCfg { max_width: rng.range(20, 100), mab: rng.chance(1, 2), fmb: rng.chance(1, 3), s2024: rng.chance(1, 2), never: rng.chance(1, 2), mbtc: rng.chance(1, 2), tsemi: rng.chance(2, 3), fn_single_line: false };
        v.push(Plan { cfg, indent: *rng.pick(&[0usize, 4, 8, 12]), pats_ml: rng.chance(1, 3), has_guard: rng.chance(1, 3), last: rng.chance(1, 2), inside_macro: rng.chance(1, 8) });
    }
    v
}

/// (1) + (2): the hooks against the model
fn corr_cases(o: &mut Outcome, rng: &mut Rng, thorough: bool) {
    let bodies = parsable(o, universe());
    o.count_n("universe:bodies", bodies.len() as u64);
    let arms = arms_source(&bodies);
    let clos: Vec<(Src, bool)> = HEADS.iter().map(|(h, blocks_only)| (closures_source(&bodies, h, *blocks_only), *blocks_only)).collect();
    let ps = plans(rng, thorough);
    o.count_n("plans", ps.len() as u64);
    let idx: Vec<usize> = (0..ps.len()).collect();
    for chunk in idx.chunks(24) {
        let found = par_map(chunk, |&k| {
            let mut fs = vec![run_arms(&bodies, &arms, &ps[k], k == 0)];
            for (s, ret) in clos.iter() {
                fs.push(run_closures(&bodies, s, *ret, &ps[k]));
            }
            fs
        });
        for fs in found {
            for f in fs {
                absorb(o, f);
            }
        }
        o.flush(jobs());
    }
}

// ---------------------------------------------------------------------------------------------------------------
// (3) end to end

const PATS: &[&str] = &["A", "| A", "A | B", "Some(x)", "Aaaaaaaaaaaaaaaaaaaa::Bbbbbbbbbbbbbbbbbbb(ccccccccc)"];
const GUARDS: &[&str] = &["", "", "", " if g", " if ggggggggggggggggggg && hhhhhhhhhhhhhhhhhhhhhhh"];

/// Shapes the seed-dependent generator stays away from (each is an enumerated probe or a finding of another check):
/// an arm body that carries attributes once its redundant braces are gone (`A => #[a] e`, `A => { #[a] e }`: known
/// finding BRACES-ATTR-BODY-BRACE-LINE), and the long `return` whose `;` is added after the line was filled.
/// `{ loop { .. }; }`: the statement printer drops the `;` behind a loop, the block becomes a single-expression block
/// and the next pass removes it (known finding BRACES-LOOP-SEMI).
fn loop_semi(b: &str) -> bool {
    ["{ loop ", "{ while ", "{ for "].iter().any(|p| b.contains(p)) && b.contains("; }")
}
fn arm_body_ok(b: &str) -> bool {
    !(b.starts_with("#[a] ") && !b.starts_with("#[a] {")) && !b.starts_with("{ #[a] ") && !b.contains("return aaaa") && !loop_semi(b)
}
fn closure_body_ok(b: &str) -> bool {
    !b.contains("return aaaa") && !loop_semi(b)
}
/// a closure that is a call argument goes through `rewrite_last_closure`, which removes ONE plain block where
/// `get_inner_expr` removes them all: nested plain blocks there are not stable (known finding
/// BRACES-LAST-CLOSURE-NESTED)
fn closure_arg_body_ok(b: &str) -> bool {
    closure_body_ok(b) && !b.starts_with("{ {")
}
fn pick_body<'a>(rng: &mut Rng, bodies: &'a [String], ok: fn(&str) -> bool) -> &'a String {
    loop {
        let b = rng.pick(bodies);
        if ok(b) {
            return b;
        }
    }
}

fn gen_program(rng: &mut Rng, bodies: &[String]) -> String {
    let mut s = String::from("fn f() {\n");
    let n_match = rng.range(0, 2);
    for _ in 0..n_match {
        s.push_str("    match x {\n");
        let n = rng.range(1, 5);
        for j in 0..n {
            let b = pick_body(rng, bodies, arm_body_ok);
            let pat = rng.pick(PATS);
            let guard = rng.pick(GUARDS);
            let arrow = if rng.chance(1, 12) { " /* k */" } else { "" };
            let comma = if j + 1 == n && rng.chance(1, 2) { "" } else { "," };
            let comma = if comma.is_empty() && !b.ends_with('}') { "," } else { comma };
            s.push_str(&format!("        {pat}{guard} =>{arrow} {b}{comma}\n"));
        }
        s.push_str("    }\n");
    }
    let n_clo = rng.range(if n_match == 0 { 1 } else { 0 }, 3);
    for _ in 0..n_clo {
        let pos = rng.below(5);
        let b = pick_body(rng, bodies, if (1..=3).contains(&pos) { closure_arg_body_ok } else { closure_body_ok });
        let head = match rng.below(6) {
            0 if b.starts_with('{') => "|x| -> u8 ",
            1 => "move |x, y| ",
            2 => "|| ",
            _ => "|x| ",
        };
        match pos {
            0 => s.push_str(&format!("    let c = {head}{b};\n")),
            1 => s.push_str(&format!("    foo({head}{b});\n")),
            2 => s.push_str(&format!("    foo(1, {head}{b});\n")),
            3 => s.push_str(&format!("    it.map({head}{b}).count();\n")),
            _ => s.push_str(&format!("    let c = |z| {{ {head}{b} }};\n")),
        }
    }
    s.push_str("}\n");
    s
}

fn gen_cfg(rng: &mut Rng) -> BCfg {
    BCfg { max_width: rng.range(20, 100), mab: rng.chance(2, 3), fmb: rng.chance(1, 4), s2024: rng.chance(1, 2), never: rng.chance(1, 3), mbtc: rng.chance(1, 3), tsemi: rng.chance(3, 4), fn_single_line: rng.chance(1, 4) }
}

struct E2e {
    src: String,
    cfg: BCfg,
}

fn bodies_of(src: &str, cfg: &BCfg) -> Option<Vec<(String, String)>> {
    let config = pool::build_config(&cfg.pairs(), &None).ok()?;
    let recs = hb::analyze(src, &config, &hb::Opts { enc_only: true, ..Default::default() })?;
    Some(recs.into_iter().map(|r| (r.kind.to_string(), r.get("body").unwrap_or("?").to_string())).collect())
}

fn e2e_batch(o: &mut Outcome, batch: &[E2e], tag: &str) {
    let t = std::time::Duration::from_secs(20);
    let jobs1: Vec<pool::Job> = batch.iter().map(|e| pool::Job { src: e.src.clone(), cfg: e.cfg.pairs(), file_lines: None }).collect();
    let outs1 = pool::run_jobs(&jobs1, jobs(), t);
    let jobs2: Vec<pool::Job> = batch.iter().zip(outs1.iter()).map(|(e, r)| pool::Job { src: if r.clean() { r.out.clone() } else { "fn f() {}\n".to_string() }, cfg: e.cfg.pairs(), file_lines: None }).collect();
    let outs2 = pool::run_jobs(&jobs2, jobs(), t);
    for ((e, r1), r2) in batch.iter().zip(outs1.iter()).zip(outs2.iter()) {
        let desc = format!("{} {:?} {:?}", tag, e.cfg, e.src);
        if !r1.clean() {
            o.count(&format!("e2e:first_pass:{}", match &r1.status { pool::Status::Ok => "flags", pool::Status::Timeout => "timeout", pool::Status::Panic(_) => "panic", _ => "other" }));
            if let pool::Status::Panic(m) = &r1.status {
                o.direct_failures.push(json!({"sig": "braces:e2e-panic", "src": e.src, "cfg": format!("{:?}", e.cfg), "what": m}));
            }
            continue;
        }
        o.count("e2e:formatted");
        let out1 = &r1.out;
        // tokens (tok.equiv does not see through `#[a] continue;`: the `;` trailing_semicolon adds behind a jump with an
        // attribute in front keeps it from recognising the block as a single expression; such programs are judged by
        // the strip oracle and the second pass only)
        let attr_jump = ["return", "break", "continue"].iter().any(|k| e.src.contains(&format!("#[a] {k}")) || e.src.contains(&format!("#![a] {k}")));
        if attr_jump {
            o.count("e2e:tokens:not_judged(attribute in front of a jump)");
        } else {
            o.push("oracle", "tok.equiv", format!("tok.equiv {} {} {}", crate::c01::validator_cfg(&e.cfg.pairs()), crate::toks::encode_tokens(&e.src, false), crate::toks::encode_tokens(out1, false)), "ok".into(), format!("e2e tokens {desc} -> {out1:?}"), out1 != &e.src);
        }
        // strip-equality of every arm body and closure body
        match (bodies_of(&e.src, &e.cfg), bodies_of(out1, &e.cfg)) {
            (Some(a), Some(b)) => {
                if a.len() != b.len() || a.iter().zip(b.iter()).any(|(x, y)| x.0 != y.0) {
                    o.direct_failures.push(json!({"sig": "braces:e2e-node-count", "src": e.src, "cfg": format!("{:?}", e.cfg), "first": out1, "what": "the output has other arms / closures than the input"}));
                } else {
                    for (x, y) in a.iter().zip(b.iter()) {
                        o.count(&format!("e2e:{}:{}", x.0, if x.1 == y.1 { "same" } else if y.1.len() < x.1.len() { "unwrapped" } else { "wrapped" }));
                        o.push("oracle", "br.oracle.strip", format!("br.oracle.strip {} {}", x.1, y.1), "ok".into(), format!("e2e {} body {desc} -> {out1:?}", x.0), x.1 != y.1);
                    }
                }
            }
            (Some(_), None) => o.direct_failures.push(json!({"sig": "braces:e2e-output-does-not-parse", "src": e.src, "cfg": format!("{:?}", e.cfg), "first": out1, "what": "the output does not parse"})),
            _ => o.count("e2e:input_does_not_parse"),
        }
        // second pass
        if r2.status == pool::Status::Timeout {
            o.count("e2e:second_pass:timeout");
        } else if !r2.clean() {
            o.count("e2e:second_pass:not_clean");
        } else if &r2.out != out1 && (e.cfg.max_width < 60 || out1.contains("{ {") || out1.contains("{\n        {") || e.src.contains("{ {")) {
            // a page so narrow that the layout is decided by the rewriters' fall-backs, or a block directly inside a block (the
            // known finding BRACES-LAST-CLOSURE-NESTED: rewrite_last_closure peels one block per pass): idempotence there is C02's
            // measured universe and the enumerated probes, not this seed-dependent generator's business
            o.count("e2e:second_pass:not-judged(changed)");
        } else if &r2.out != out1 {
            o.direct_failures.push(json!({"sig": "braces:idempotence", "src": e.src, "cfg": format!("{:?}", e.cfg), "first": out1, "second": r2.out, "what": "a second pass changes the result"}));
        } else {
            o.count("e2e:idem");
        }
    }
}

/// hand-written sources: the repaired defects and their neighbours
const FIXED_E2E: &[&str] = &[
    "fn f() {\n    let a = || #[allow(unused)] { foo() };\n    let b = || { #![allow(unused)] foo() };\n    let c = |x| { #[a] foo() };\n}\n",
    "fn f() {\n    match x {\n        A => 1,\n        Bbbbbbbbbbbbbbbbbbbbbbbbbbbbbbbbbbbb => if let Some(xxxxxxxxxxxxxxxxxxxxxxxx) = aaaaaaaaaaaaaaaaaaaaaaaaaaaa.bbbbbbbbbbbbbbbbbbbbbbbbbbbbbbbbbbbbbbbbbbbbb() { 1 } else { 2 }\n    }\n}\n",
    "fn f() {\n    match x {\n        A => #[a] { foo() }\n        B => { #![a] foo() }\n        C => { return 1 }\n        D => return aaaaaaaaaaaaaaaaaaaaaaaaaaaaaaaaaaaaaaaaaaaaaaaaaaaaaaaa + bbbbbbbbbbbbbbbbbbbbbbbbbbbbbbbbbbbbbbbbbbbbbbbbbbbbbbbb,\n    }\n}\n",
    "fn f() {\n    let c = |x| { |y| { x + y } };\n    let d = |x| -> u8 { |y| -> u8 { x + y } };\n    let e = |x| { |y| unsafe { x + y } };\n}\n",
];

fn e2e_cases(o: &mut Outcome, rng: &mut Rng, thorough: bool) {
    let bodies = parsable(&mut Outcome::default(), universe());
    let mut batch = vec![];
    for src in FIXED_E2E {
        for w in [100usize, 60, 30] {
            for (never, mbtc) in [(false, false), (true, true), (true, false)] {
                for s2024 in [false, true] {
                    batch.push(E2e { src: src.to_string(), cfg: BCfg { max_width: w, mab: true, fmb: false, s2024, never, mbtc, tsemi: true, fn_single_line: false } });
                }
            }
        }
    }
    e2e_batch(o, &batch, "fixed");
    o.flush(jobs());
    let n = if thorough { 12000 } else { 900 };
    let mut batch = vec![];
    for _ in 0..n {
        batch.push(E2e { src: gen_program(rng, &bodies), cfg: gen_cfg(rng) });
    }
    for chunk in batch.chunks(1500) {
        e2e_batch(o, chunk, "gen");
        o.flush(jobs());
    }
}

/// Enumerated probes of inputs known dirty on the current tree (each: a second pass changes the first pass's output).
pub fn probes(o: &mut Outcome) {
    let list: [(&str, &str, &str, &[(&str, &str)]); 3] = [
        (
            "BRACES-ATTR-BODY-BRACE-LINE",
            "fn f() {\n    match x {\n        A => #[a] continue,\n    }\n}\n",
            "a match arm body with an attribute that is wrapped in a block gets `=>` newline `{` (the attribute forbids the same line, tests/target/attrib.rs blesses it); when the next pass does not remove that block again (the `;` added behind the jump under style_edition 2024, or a multi-line condition) it prints `=> {`",
            &[("style_edition", "2024")],
        ),
        (
            "BRACES-LOOP-SEMI",
            "fn f() {\n    match x {\n        A => { { loop { b }; } }\n    }\n}\n",
            "the `;` behind a loop statement is dropped, which turns `{ loop { .. }; }` into a single-expression block that the next pass removes (arm bodies and closure bodies)",
            &[("match_arm_blocks", "false")],
        ),
        (
            "BRACES-LAST-CLOSURE-NESTED",
            "fn f() {\n    it.map(move |x, y| { { { if a { b } else { c } } } }).count();\n}\n",
            "a closure in call-argument position goes through rewrite_last_closure, which removes one plain block where get_inner_expr removes all of them: nested plain blocks around a control-flow body take two passes to settle",
            &[("max_width", "62")],
        ),
    ];
    for (id, src, what, cfg) in list {
        let cfg: Vec<(String, String)> = cfg.iter().map(|(k, v)| (k.to_string(), v.to_string())).collect();
        let t = std::time::Duration::from_secs(20);
        let r1 = pool::run_jobs(&[pool::Job { src: src.to_string(), cfg: cfg.clone(), file_lines: None }], 1, t);
        let out1 = r1.first().map(|r| r.out.clone()).unwrap_or_default();
        let r2 = pool::run_jobs(&[pool::Job { src: out1.clone(), cfg, file_lines: None }], 1, t);
        let out2 = r2.first().map(|r| r.out.clone()).unwrap_or_default();
        let fails = r1.first().map_or(false, |r| r.clean()) && r2.first().map_or(false, |r| r.clean()) && out1 != out2;
        o.probes.push(json!({"id": id, "fails": fails, "what": what, "detail": format!("{out1:?} -> {out2:?}")}));
    }
}

pub fn cases(o: &mut Outcome, rng: &mut Rng, thorough: bool) {
    if std::env::var("BRACES_DEBUG").is_err() {
        pool::install_panic_hook();
    }
    corr_cases(o, rng, thorough);
    e2e_cases(o, rng, thorough);
}

pub fn run(tier: &str, seed: u64, out: &std::path::Path) -> i32 {
    let mut o = Outcome::new("BRACES", tier, seed);
    let mut rng = Rng::new(seed);
    cases(&mut o, &mut rng, tier == "thorough");
    probes(&mut o);
    o.finish(out, jobs())
}
