#!/bin/bash
# mkworker.sh <name> : scratch copy of /verif and a git worktree of /repo for one builder, under /tmp/hw/<name>.
#   /tmp/hw/<name>/verif  copy of /verif (with the Lean build output, without .build and work)
#   /tmp/hw/<name>/repo   git worktree of /repo's HEAD on a new branch hw-<name>
# the copy's harness depends on the worktree and builds into /tmp/hw/<name>/verif/.build/target
set -e
W=$1; [ -n "$W" ] || { echo "usage: mkworker.sh <name>"; exit 2; }
B=/tmp/hw/$W
mkdir -p $B
[ -d $B/repo ] || git -C /repo worktree add -q -b hw-$W $B/repo HEAD
rsync -a --delete --exclude .build --exclude work --exclude .git /verif/ $B/verif/
sed -i "s#path = \"/repo\"#path = \"$B/repo\"#" $B/verif/harness/Cargo.toml
sed -i "s#/verif/.build/target#$B/verif/.build/target#" $B/verif/harness/.cargo/config.toml
mkdir -p $B/verif/work $B/verif/.build
# seed the cargo target dir with /verif's build output so the first build is incremental
[ -d $B/verif/.build/target ] || cp -a /verif/.build/target $B/verif/.build/target 2>/dev/null || true
cat > $B/env.sh <<EOF
export VERIF_REPO=$B/repo
export CARGO_NET_OFFLINE=true
export RUSTC_ICE=0
export LD_LIBRARY_PATH=\$(cd /repo && rustc --print sysroot)/lib:\$LD_LIBRARY_PATH
export RFMODEL=$B/verif/lean/.lake/build/bin/rfmodel
EOF
echo "worker $W ready: $B/verif (run checks with: cd $B/verif && . ../env.sh && ./check Cnn)"
