import RF.Lemmas.TokEquiv

/-!
# C01  Formatting preserves the meaning of the program — the validator is sound for hard tokens

There is no model of rustfmt's rewriters here.  `RF.Tok.equiv cfg a b` (op `tok.equiv`) is the
*validator* that judges every (input tokens, output tokens, configuration) triple the real formatter
produces in `rfverif c01`; this file proves, FOR ALL token lists, what an `ok` of the validator
certifies.

* `soft cfg t`: delimiters, `,` `;` `|` `<` `>` `:` `+` (a trailing `+` of a bound list), the keywords
  `where` `for` `in`, the literal `"C"` and (only with `use_try_shorthand`) `try` / `r#try` `!` `?`.  Everything else is *hard*: identifiers,
  lifetimes, literals, every other keyword and operator, doc comments (`hard cfg t = !soft cfg t`).
* `norm cfg = post cfg ∘ regions cfg ∘ mid cfg`.  `mid` re-spells single tokens (rules 10–13: doc
  comments, string continuations, literal spelling, `x.0.0`), `regions` replaces every maximal run
  of `use` / `mod x;` / `extern crate` items and every run of `#[derive(..)]` by one block of
  canonically ordered leaves (rule 4), `post` is the chain of 16 separator / delimiter rules
  (rules 1–3, 5–9, 13).
* `hardSeq cfg ts`: the certificate.  The list of segments of `mid cfg ts` — a hard token outside
  every reorder region, or a non-empty reorder region as (kind, canonical leaf list) — in order.

Main results

* `norm_rule_local`  one locality lemma per rule of `post` (and per stage of `mid`): the rule only
  deletes / inserts / rewrites tokens of the class it names; every other token is kept, in order.
  This is what keeps the closed list closed.
* `norm_hard_preserved`  the hard tokens of the normal form are exactly the rendering of `hardSeq`:
  no rule of `post` can add, drop, reorder or alter a hard token (options `use_field_init_shorthand`
  and `condense_wildcard_suffixes` off; with them on see `norm_weak_preserved`).
* `equiv_sound`  an accepted pair has EQUAL certificates: the same hard tokens in the same order
  outside reorder regions, and region by region the same canonical leaves — by
  `region_leaves_sound` the same list of derive paths, a permutation of the `mod` / `extern crate`
  items, the same set of imported paths.  So the validator cannot accept an output in which an
  identifier, lifetime, literal, keyword, operator, visibility, attribute or doc comment was added,
  dropped, reordered or altered outside the closed list.  `equiv_rejects` is the contrapositive.
* `mid_local`, `mid_plain`, `canonTok_other`, `resplit_text`: `mid` touches only literals, doc
  comments and the `.` of `x.0.0` (with `normalize_doc_attributes` also the tokens of a
  `#[doc = ".."]` attribute); it is the token-wise map `canonTok` after `resplit`, which keeps the
  concatenated text.
* `norm_hard_preserved_fis`, `equiv_sound_fis`  the same for `use_field_init_shorthand = true`, up to
  `squash` (an identifier that repeats the hard token before it is dropped: `a: a` ~ `a`).
* `literal_canon_value`  the literal-spelling canonicalisations of the validator keep the value.
* `validator_distinguishes`  the validator (which compares soft tokens as well) tells apart 1-tuples,
  tuple arguments, statements vs tail expressions, dropped parentheses, `a & &b` vs `a && b`.
* `tokEquiv_refl`, `tokEquiv_symm`, `tokEquiv_trans`: the validator is an equivalence relation.
* `norm_idem_counterexample`: `norm` is NOT idempotent on arbitrary token lists (`< , >`); nothing
  above needs idempotence, the validator being the kernel of `norm`.

What is not proved here: that the SOFT tokens of an accepted pair mean the same (which
parentheses, braces and separators are redundant) — that rests on the output re-parsing; and that
rustfmt's output is accepted for every program — that is the search of `rfverif c01`.
-/
namespace RF.Props.C01
open RF.Tok

/-! ## The validator is an equivalence relation -/

theorem equiv_iff_norm_eq (cfg : Cfg) (a b : List Tok) : equiv cfg a b = true ↔ norm cfg a = norm cfg b := by
  unfold equiv; exact beq_iff_eq

theorem tokEquiv_refl (cfg : Cfg) (a : List Tok) : equiv cfg a a = true :=
  (equiv_iff_norm_eq cfg a a).2 rfl

theorem tokEquiv_symm (cfg : Cfg) (a b : List Tok) : equiv cfg a b = equiv cfg b a := by
  unfold equiv
  exact Bool.eq_iff_iff.2
    ⟨fun h => beq_iff_eq.2 (beq_iff_eq.1 h).symm, fun h => beq_iff_eq.2 (beq_iff_eq.1 h).symm⟩

theorem tokEquiv_trans (cfg : Cfg) (a b c : List Tok) (h1 : equiv cfg a b = true) (h2 : equiv cfg b c = true) :
    equiv cfg a c = true :=
  (equiv_iff_norm_eq cfg a c).2
    (((equiv_iff_norm_eq cfg a b).1 h1).trans ((equiv_iff_norm_eq cfg b c).1 h2))

/-- `firstDiff` (what `tok.equiv` prints) answers `none` exactly when the validator accepts. -/
theorem firstDiff_none_iff (cfg : Cfg) (a b : List Tok) : firstDiff cfg a b = none ↔ equiv cfg a b = true := by
  rw [equiv_iff_norm_eq]
  unfold firstDiff
  generalize norm cfg a = x
  generalize norm cfg b = y
  suffices h : ∀ (x y : List Tok) (n : Nat), firstDiffAux n x y = none ↔ x = y from h x y 0
  intro x
  induction x with
  | nil => intro y n; cases y <;> simp [firstDiffAux]
  | cons t x ih =>
    intro y n
    cases y with
    | nil => simp [firstDiffAux]
    | cons u y =>
      unfold firstDiffAux
      by_cases h : t = u
      · subst h; simp [ih]
      · simp [h]

/-! ## Locality: each rule touches only the class of tokens it names -/

/-- One lemma per rule of the pipeline.  `outside S ts` is `ts` without the tokens of class `S`; the
classes are
`clsDelim` (any delimiter), `clsAbi` (`"C"`), `clsVis` (`in`, `:`), `clsEmpty` (`<` `>` `for` `where`
`:` `+`), `clsPipe` (`|`), `clsSemi` (`;`), `clsComma` (`,`), `clsBlock` (delimiters and `,`), `clsTry`
(`try` / `r#try` `!` `?` `,` and delimiters), `clsFis` (`:` and identifiers, raw ones included), `clsWild` (`_` `,` `.`). -/
theorem norm_rule_local (ts : List Tok) :
    outside clsDelim (runRule ruleVec ts) = outside clsDelim ts ∧
    outside clsAbi (runRule ruleAbi ts) = outside clsAbi ts ∧
    outside clsVis (runRule ruleVis ts) = outside clsVis ts ∧
    outside clsComma (whereSep false 0 0 false ts) = outside clsComma ts ∧
    outside clsEmpty (runRule ruleEmpty ts) = outside clsEmpty ts ∧
    outside clsPipe (runRule rulePipe ts) = outside clsPipe ts ∧
    outside clsComma (closureSep 0 0 noTok ts) = outside clsComma ts ∧
    outside clsSemi (semiSep [] {} false false 1 0 noTok ts) = outside clsSemi ts ∧
    outside clsBlock (runRule ruleBlock ts) = outside clsBlock ts ∧
    outside clsComma (runRule ruleComma ts) = outside clsComma ts ∧
    outside clsDelim (runRule ruleParen ts) = outside clsDelim ts ∧
    outside clsDelim (runRule ruleLitParen ts) = outside clsDelim ts ∧
    outside clsDelim (runRule ruleClosureParen ts) = outside clsDelim ts ∧
    outside clsTry (runRule ruleTry ts) = outside clsTry ts ∧
    outside clsFis (runRule ruleFis ts) = outside clsFis ts ∧
    outside clsWild (wildCondense ts) = outside clsWild ts :=
  ⟨runRule_outside _ _ ruleVec_local ts, runRule_outside _ _ ruleAbi_local ts,
   runRule_outside _ _ ruleVis_local ts, whereSep_local ts false 0 0 false,
   runRule_outside _ _ ruleEmpty_local ts, runRule_outside _ _ rulePipe_local ts,
   closureSep_local ts 0 0 noTok, semiSep_local ts [] {} false false 1 0 noTok,
   runRule_outside _ _ ruleBlock_local ts, runRule_outside _ _ ruleComma_local ts,
   runRule_outside _ _ ruleParen_local ts, runRule_outside _ _ ruleLitParen_local ts,
   runRule_outside _ _ ruleClosureParen_local ts, runRule_outside _ _ ruleTry_local ts,
   runRule_outside _ _ ruleFis_local ts, wildCondense_local ts⟩

/-- The classes of the thirteen always-on rules (and of `ruleTry` under its option) are soft. -/
theorem rule_classes_soft (cfg : Cfg) (t : Tok) :
    (clsDelim t = true → soft cfg t = true) ∧ (clsAbi t = true → soft cfg t = true) ∧
    (clsVis t = true → soft cfg t = true) ∧ (clsEmpty t = true → soft cfg t = true) ∧
    (clsPipe t = true → soft cfg t = true) ∧ (clsSemi t = true → soft cfg t = true) ∧
    (clsComma t = true → soft cfg t = true) ∧ (clsBlock t = true → soft cfg t = true) ∧
    (cfg.useTry = true → clsTry t = true → soft cfg t = true) :=
  ⟨clsDelim_soft cfg t, clsAbi_soft cfg t, clsVis_soft cfg t, clsEmpty_soft cfg t, clsPipe_soft cfg t,
   clsSemi_soft cfg t, clsComma_soft cfg t, clsBlock_soft cfg t, fun h => clsTry_soft cfg h t⟩

/-- The generic step behind every `runRule` lemma: a rule function whose every action is local to a
class `S` (it replaces the current token by tokens equal to it outside `S`, and may replace closers /
insert or drop a `,` only when those are in `S`) yields a pass that keeps all tokens outside `S`. -/
theorem transducer_local (S : Tok → Bool) (f : Rule) (hf : RuleLocal S f) (ts : List Tok) :
    outside S (runRule f ts) = outside S ts :=
  runRule_outside S f hf ts

/-- `mid` (rules 10–13 on single tokens) only touches literals, doc comments, the `.` between tuple
indices and — with `normalize_doc_attributes` — the tokens `#` `!` `[` `]` `doc` `=` of an attribute. -/
theorem mid_local (cfg : Cfg) (ts : List Tok) : outside (clsMid cfg) (mid cfg ts) = outside (clsMid cfg) ts :=
  mid_outside cfg ts

/-- With `normalize_doc_attributes` and comment re-flowing off, `mid` is a token-wise re-spelling
after `resplit`. -/
theorem mid_plain (cfg : Cfg) (h1 : cfg.docattr = false) (h2 : cfg.reflow = false) (ts : List Tok) :
    mid cfg ts = (resplit ts).map (canonTok cfg) :=
  mid_eq_map cfg h1 h2 ts

/-- The re-spelling leaves every token alone that is neither a literal nor a doc comment, and never
changes the class of one (except an integer-class literal with an `f32`/`f64` suffix under
`float_literal_trailing_zero`, which is compared as the float it is). -/
theorem canonTok_other (cfg : Cfg) (t : Tok) :
    (t.isDoc = false → isLit t = false → canonTok cfg t = t) ∧
    ((canonTok cfg t).cls = t.cls ∨ (t.cls = ['L','i'] ∧ (canonTok cfg t).cls = ['L','f'])) :=
  ⟨RF.Tok.canonTok_other cfg t, canonTok_cls cfg t⟩

/-- "Literals keep their value" on the validator's side.  `hex_literal_case`: the canonical spelling of
an integer literal has the same value, so two literals the validator identifies have equal values
(the suffix is part of the compared text).  `float_literal_trailing_zero`: the canonical spelling is
the text itself or the text without a fractional part made of `0` and `_` only. -/
theorem literal_canon_value (a b : List Char) :
    intValue (hexCanon a) = intValue a ∧ (hexCanon a = hexCanon b → intValue a = intValue b) ∧
    (floatCanon a = a ∨ ∃ ip fp rest, a = ip ++ '.' :: (fp ++ rest) ∧
      fp.all (fun c => c == '0' || c == '_') = true ∧ floatCanon a = ip ++ rest) :=
  ⟨intValue_hexCanon a, hexCanon_eq_value, floatCanon_shape a⟩

example : hexCanon (chars% "0xDEAD_beefu32") = (chars% "0xdead_beefu32") ∧ intValue (chars% "0xDEAD_beefu32") = 3735928559 ∧
    floatCanon (chars% "1.0_0e5") = (chars% "1e5") ∧ floatCanon (chars% "1.50") = (chars% "1.50") := by decide +kernel

/-- Rule 12 keeps the text: `resplit` only cuts a float-shaped literal into `digits . digits`. -/
theorem resplit_text (ts : List Tok) :
    (resplit ts).flatMap (·.text) = ts.flatMap (·.text) ∧ outside clsNum (resplit ts) = outside clsNum ts :=
  ⟨resplitAux_text ts 0, resplitAux_outside ts 0⟩

/-! ## Hard tokens are preserved -/

/-- `post` (all sixteen rules) keeps every hard token, in order.  The two opt-in rewrites of hard
tokens must be off. -/
theorem post_hard_preserved (cfg : Cfg) (hf : cfg.fis = false) (hw : cfg.wild = false) (ts : List Tok) :
    hards cfg (post cfg ts) = hards cfg ts :=
  post_hards cfg hf hw ts

/-- The hard tokens of the normal form are the rendering of the certificate `hardSeq`: the hard
tokens of `mid cfg ts` outside reorder regions, in order, and each non-empty reorder region as the
block of its canonical leaves. -/
theorem norm_hard_preserved (cfg : Cfg) (hf : cfg.fis = false) (hw : cfg.wild = false) (ts : List Tok) :
    hards cfg (norm cfg ts) = render (hardSeq cfg ts) := by
  unfold norm pre hardSeq
  rw [post_hards cfg hf hw, regions_eq_render, hards_render]

/-- For every configuration (the opt-in rewrites included): `post` keeps every token outside the
soft class and outside the classes of the ENABLED opt-in rewrites (`use_field_init_shorthand`: `:`
and identifiers; `condense_wildcard_suffixes`: `_` `,` `.`). -/
theorem norm_weak_preserved (cfg : Cfg) (ts : List Tok) :
    outside (softX cfg) (norm cfg ts) = outside (softX cfg) (pre cfg ts) :=
  post_outside_softX cfg (pre cfg ts)

/-- With `use_field_init_shorthand` on (and for every value of it): the hard tokens of the normal form
are the rendering of the certificate up to `squash`, which drops an identifier that repeats the
hard token directly before it — exactly the trace `a: a` ~ `a` leaves on the hard tokens. -/
theorem norm_hard_preserved_fis (cfg : Cfg) (hw : cfg.wild = false) (ts : List Tok) :
    squash noTok (hards cfg (norm cfg ts)) = squash noTok (render (hardSeq cfg ts)) := by
  unfold norm pre hardSeq
  rw [post_hards_squash cfg hw, regions_eq_render, hards_render]

/-- Soundness with `use_field_init_shorthand` on: equal certificates up to `squash`. -/
theorem equiv_sound_fis (cfg : Cfg) (hw : cfg.wild = false) (a b : List Tok) (h : equiv cfg a b = true) :
    squash noTok (render (hardSeq cfg a)) = squash noTok (render (hardSeq cfg b)) := by
  have hn := (equiv_iff_norm_eq cfg a b).1 h
  rw [← norm_hard_preserved_fis cfg hw a, ← norm_hard_preserved_fis cfg hw b, hn]

/-- SOUNDNESS.  If the validator accepts `(a, b)` — two lists as the lexer sends them, i.e. without
synthetic `R…` classes — then `a` and `b` have the same certificate. -/
theorem equiv_sound (cfg : Cfg) (hf : cfg.fis = false) (hw : cfg.wild = false) (a b : List Tok)
    (ha : NoR a) (hb : NoR b) (h : equiv cfg a b = true) : hardSeq cfg a = hardSeq cfg b := by
  have hn := (equiv_iff_norm_eq cfg a b).1 h
  have h1 := norm_hard_preserved cfg hf hw a
  have h2 := norm_hard_preserved cfg hf hw b
  rw [hn] at h1
  exact render_inj _ _ (hardSeq_wf cfg a ha) (hardSeq_wf cfg b hb) (h1.symm.trans h2)

/-- The contrapositive: a pair whose certificates differ is rejected. -/
theorem equiv_rejects (cfg : Cfg) (hf : cfg.fis = false) (hw : cfg.wild = false) (a b : List Tok)
    (ha : NoR a) (hb : NoR b) (h : hardSeq cfg a ≠ hardSeq cfg b) : equiv cfg a b = false := by
  cases he : equiv cfg a b
  · rfl
  · exact absurd (equiv_sound cfg hf hw a b ha hb he) h

/-- The weak form for every configuration. -/
theorem equiv_sound_all_cfg (cfg : Cfg) (a b : List Tok) (h : equiv cfg a b = true) :
    outside (softX cfg) (pre cfg a) = outside (softX cfg) (pre cfg b) := by
  have hn := (equiv_iff_norm_eq cfg a b).1 h
  rw [← norm_weak_preserved, ← norm_weak_preserved, hn]

/-- The certificate really is a cut of the token list: `regions` is the rendering of the segments,
every plain segment is a token of `mid cfg ts`, and a segment list is determined by its rendering
(`render` is injective on well-formed segment lists). -/
theorem hardSeq_faithful (cfg : Cfg) (ts : List Tok) :
    regions cfg (mid cfg ts) = render (segs cfg (mid cfg ts)) ∧
    (∀ t, Seg.plain t ∈ segs cfg (mid cfg ts) → t ∈ mid cfg ts) ∧
    (∀ s1 s2 : List Seg, (∀ s ∈ s1, s.wf) → (∀ s ∈ s2, s.wf) → render s1 = render s2 → s1 = s2) :=
  ⟨regions_eq_render cfg _, fun t h => segsAux_plain_mem cfg _ 0 t h, render_inj⟩

/-- The hard tokens the certificate lists outside reorder regions are a SUBSEQUENCE of the hard tokens
of `mid cfg ts`: their order is the order of the text and none is invented. -/
theorem hardSeq_in_order (cfg : Cfg) (ts : List Tok) :
    ((hardSeq cfg ts).filterMap Seg.plain?).Sublist (hards cfg (mid cfg ts)) :=
  hardSeq_plain_sublist cfg ts

/-- What equal canonical leaf lists of two reorder regions say about their raw leaves: kind 3
(`#[derive]`): the same list; kinds 1, 2 (`mod x;`, `extern crate`): a permutation; kind 0 (`use`):
the same set of paths (the formatter drops an import it has already seen). -/
theorem region_leaves_sound (k : Kind) (l1 l2 : List (List Tok)) (h : canonLeaves k l1 = canonLeaves k l2) :
    (k = 3 → l1 = l2) ∧ (k ≠ 3 → k ≠ 0 → l1.Perm l2) ∧ (k = 0 → ∀ x, x ∈ l1 ↔ x ∈ l2) :=
  canonLeaves_sound k l1 l2 h

/-! ## Non-vacuity and counterexamples on fixture fragments

`lexEx` is a toy lexer for blank-separated words and `chars% ".."` the character list of a string
literal (Lemmas/TokEquiv.lean). -/

/-- tests/source/structs.rs:274 `pub(in self) struct Foo{}`, tests/source/closure.rs:21
`|trivial| { closure() }`, tests/source/match.rs:488 (leading `|`), tests/source/issue-945.rs:3
(`default async extern "C" fn`), with a trailing comma, an empty `where`, an empty generic list, a
redundant nested parenthesis and a `return` arm in a block added -/
def exIn : List Tok := lexEx (chars% "pub ( in self ) struct Foo { } impl Baz { default async extern \"C\" fn foo < 'a , > ( & 'a mut self , ) -> u32 where { let unblock_me = | trivial | { closure ( ) } ; match x { Foo :: A => println ! ( \"No\" ) , | Foo :: D => { return g :: < > ( ( 2.0 ) , ) ; } , } } }")

/-- what rustfmt prints for it (token-wise) -/
def exOut : List Tok := lexEx (chars% "pub ( self ) struct Foo { } impl Baz { default async extern \"C\" fn foo < 'a > ( & 'a mut self ) -> u32 { let unblock_me = | trivial | closure ( ) ; match x { Foo :: A => println ! ( \"No\" ) , Foo :: D => return g ( 2.0 ) , } } }")

/-- the same with the `mut` of the receiver dropped -/
def exBadMut : List Tok := lexEx (chars% "pub ( self ) struct Foo { } impl Baz { default async extern \"C\" fn foo < 'a > ( & 'a self ) -> u32 { let unblock_me = | trivial | closure ( ) ; match x { Foo :: A => println ! ( \"No\" ) , Foo :: D => return g ( 2.0 ) , } } }")

/-- the same with the modifier `default` dropped -/
def exBadDefault : List Tok := lexEx (chars% "pub ( self ) struct Foo { } impl Baz { async extern \"C\" fn foo < 'a > ( & 'a mut self ) -> u32 { let unblock_me = | trivial | closure ( ) ; match x { Foo :: A => println ! ( \"No\" ) , Foo :: D => return g ( 2.0 ) , } } }")

/-- the same with the lifetime altered -/
def exBadLt : List Tok := lexEx (chars% "pub ( self ) struct Foo { } impl Baz { default async extern \"C\" fn foo < 'a > ( & 'b mut self ) -> u32 { let unblock_me = | trivial | closure ( ) ; match x { Foo :: A => println ! ( \"No\" ) , Foo :: D => return g ( 2.0 ) , } } }")

/-- the hypotheses of `equiv_sound` hold of a non-trivial accepted pair -/
example : equiv {} exIn exOut = true ∧ NoR exIn ∧ NoR exOut ∧ exIn ≠ exOut ∧
    ({} : Cfg).fis = false ∧ ({} : Cfg).wild = false := by decide +kernel

/-- hence equal certificates (also visible by evaluation) -/
example : hardSeq {} exIn = hardSeq {} exOut := by decide +kernel
example : (hardSeq {} exIn).length = 37 := by decide +kernel

/-- the three altered outputs are rejected -/
example : equiv {} exIn exBadMut = false ∧ equiv {} exIn exBadDefault = false ∧ equiv {} exIn exBadLt = false := by
  decide +kernel

/-- and `equiv_rejects` applies to them: their certificates differ -/
example : hardSeq {} exIn ≠ hardSeq {} exBadMut ∧ hardSeq {} exIn ≠ hardSeq {} exBadDefault := by
  decide +kernel

/-- tests/source/imports.rs:21-28 with an attribute and a `mod` run: reorder regions -/
def exUseIn : List Tok := lexEx (chars% "use Foo :: { Baz , Bar } ; use std :: io :: { self } ; use std :: io :: self ; # [ derive ( Clone ) ] # [ derive ( Debug , ) ] struct S ; mod b ; mod a ;")
def exUseOut : List Tok := lexEx (chars% "use std :: io ; use Foo :: { Bar , Baz } ; # [ derive ( Clone , Debug ) ] struct S ; mod a ; mod b ;")
def exUseBad : List Tok := lexEx (chars% "use std :: io ; use Foo :: { Bar } ; # [ derive ( Clone , Debug ) ] struct S ; mod a ; mod b ;")

example : equiv {} exUseIn exUseOut = true ∧ equiv {} exUseIn exUseBad = false ∧ NoR exUseIn ∧ NoR exUseOut := by
  decide +kernel

/-- three regions (imports, derives, modules) and the three hard tokens `struct S` between them -/
example : (hardSeq {} exUseIn).map (fun s => match s with | .plain _ => 9 | .region k l => 10 * l.length + k) =
    [30, 23, 9, 9, 21] := by decide +kernel

/-- `region_leaves_sound` on a real pair of leaf lists -/
example : canonLeaves 1 [lexEx (chars% "mod b"), lexEx (chars% "mod a")] = canonLeaves 1 [lexEx (chars% "mod a"), lexEx (chars% "mod b")] := by
  decide +kernel

/-- `norm_rule_local` is not vacuous: `ruleEmpty` does delete tokens of its class -/
example : runRule ruleEmpty (lexEx (chars% "fn f < > ( ) where { }")) = lexEx (chars% "fn f ( ) { }") := by
  decide +kernel

/-- The hypotheses `fis = false`, `wild = false` of `equiv_sound` are needed: with the options on, the
validator accepts pairs whose hard tokens differ (that is the point of the two options). -/
theorem equiv_sound_fis_wild_counterexample :
    (equiv { fis := true } (lexEx (chars% "S { a : a , }")) (lexEx (chars% "S { a }")) = true ∧
     hardSeq { fis := true } (lexEx (chars% "S { a : a , }")) ≠ hardSeq { fis := true } (lexEx (chars% "S { a }"))) ∧
    (equiv { wild := true } (lexEx (chars% "S ( a , _ , _ )")) (lexEx (chars% "S ( a , . . )")) = true ∧
     hardSeq { wild := true } (lexEx (chars% "S ( a , _ , _ )")) ≠ hardSeq { wild := true } (lexEx (chars% "S ( a , . . )"))) := by
  decide +kernel

/-- `equiv_sound_fis` is not vacuous and still rejects: the shorthand is accepted, a changed field
value is not -/
example : equiv { fis := true } (lexEx (chars% "S { a : a , b : c }")) (lexEx (chars% "S { a , b : c }")) = true ∧
    equiv { fis := true } (lexEx (chars% "S { a : a , b : c }")) (lexEx (chars% "S { a , b }")) = false ∧
    squash noTok (render (hardSeq { fis := true } (lexEx (chars% "S { a : a , b : c }")))) =
      squash noTok (render (hardSeq { fis := true } (lexEx (chars% "S { a , b : c }")))) := by decide +kernel

/-- The validator compares SOFT tokens too (after the closed-list normalisations), which the theorems
above do not need but the search relies on.  Pairs it tells apart: a 1-tuple and a parenthesised
expression; a tuple argument and two arguments; a unit argument and no argument; a statement and a
tail expression; parenthesised and bare operands; a binary `&` of a borrow and a lazy `&&` (sent as
one token by the lexer front end).  Pairs it identifies: trailing commas of lists and arguments, the
`;` after `return` / `break` / `continue` and after a `loop` statement, doubled parentheses. -/
theorem validator_distinguishes :
    equiv {} (lexEx (chars% "let t = ( x , ) ;")) (lexEx (chars% "let t = ( x ) ;")) = false ∧
    equiv {} (lexEx (chars% "f ( ( a , b ) ) ;")) (lexEx (chars% "f ( a , b ) ;")) = false ∧
    equiv {} (lexEx (chars% "f ( ( ) ) ;")) (lexEx (chars% "f ( ) ;")) = false ∧
    equiv {} (lexEx (chars% "fn g ( ) { f ( ) ; }")) (lexEx (chars% "fn g ( ) { f ( ) }")) = false ∧
    equiv {} (lexEx (chars% "( a + b ) * c")) (lexEx (chars% "a + b * c")) = false ∧
    equiv {} [mkI ['a'], mkP '&', mkP '&', mkI ['b']] [mkI ['a'], ⟨['p'], ['&', '&']⟩, mkI ['b']] = false ∧
    equiv {} (lexEx (chars% "f ( a , b , ) ;")) (lexEx (chars% "f ( a , b ) ;")) = true ∧
    equiv {} (lexEx (chars% "let t = ( x , y , ) ;")) (lexEx (chars% "let t = ( x , y ) ;")) = true ∧
    equiv {} (lexEx (chars% "fn g ( ) { return 1 ; }")) (lexEx (chars% "fn g ( ) { return 1 }")) = true ∧
    equiv {} (lexEx (chars% "fn g ( ) { loop { } ; h ( ) ; }")) (lexEx (chars% "fn g ( ) { loop { } h ( ) ; }")) = true ∧
    equiv {} (lexEx (chars% "let y = ( ( a + b ) ) ;")) (lexEx (chars% "let y = ( a + b ) ;")) = true ∧
    equiv {} (lexEx (chars% "f ( ( a ) ) ;")) (lexEx (chars% "f ( a ) ;")) = true := by
  decide +kernel

/-- `norm` is not idempotent on arbitrary token lists: rule 1 (`,` before `>`) runs after rule 3
(`<>`), so `< , >` normalises to `< >`, which normalises to nothing.  Soundness does not need
idempotence. -/
theorem norm_idem_counterexample :
    norm {} (norm {} (lexEx (chars% "< , >"))) ≠ norm {} (lexEx (chars% "< , >")) := by
  decide +kernel

end RF.Props.C01
