import RF.Lemmas.StringFmt
import RF.Lemmas.Shape
import RF.Gen.StringFmtRegex
/-!
# `rewrite_string` / `break_string` (src/string.rs): parts of C01, C02, C03, C16

The theorems are about `RF/Model/StringFmt.lean`, for EVERY text (`List Char`), every width, indentation and
configuration; the model is tied to the code by the correspondence of `rfverif strings`
(`harness/src/strings_corr.rs`: `str.break`, `str.url`, `str.valid`, `str.trimlf`, `str.strip`, `str.rewrite`)
and the specification functions used here (`strValue`, `payload`, `commentWords`) are the oracles that the
harness evaluates on what the real code returns, in-process and through the whole formatter.

Graphemes are characters (see the model's header): the statements are about texts in which every
grapheme cluster is one `char` of width `cw`.

* C01 "literals keep their value", "re-indentation after string line-continuations":
  `rewriteString_value`, `rewriteString_value_orig_partial`, `strip_value_counterexample`.
* C03 "the words of every comment are preserved in order": `rewriteString_payload` (all inputs, all formats),
  `rewriteString_words_partial` (texts without punctuation: the word list is preserved),
  `rewriteString_words_counterexample` (a word is cut after a punctuation character), `breakString_words_partial`.
* C02 "re-breaking at the same width is the identity": `rewriteString_idem_partial`,
  `rewriteString_idem_counterexample`; the lines fit: `breakString_fits`, `rewriteString_fits`.
* C16 (no slice out of range, termination): `breakString_bounds`, `breakString_progress`,
  `breakString_indices_in_range`, `rewriteString_terminates`.
-/
namespace RF.Props.StringFmt
open RF.StringFmt RF.Lemmas.StringFmt

/-! ## the model's hand-written matcher implements the pattern that string.rs compiles -/

/-- The literal read out of `src/string.rs` by `translate/strfmt_regex.py` is the one `stripGo` implements. -/
theorem regex_literal_is_modelled : RF.Gen.StringFmtRegex.stripRegex = modelledRegex := by decide

/-- `MIN_STRING` of string.rs is the model's. -/
theorem min_string_is_modelled : RF.Gen.StringFmtRegex.minString = MIN_STRING := by decide

/-! ## `break_string`: indices, progress -/

/-- **No slice of `break_string` is out of range.**  `break_string` either returns the whole input as
`EndOfInput`, or calls `break_at(index)` with `index < input.len()` (so `input[0..=index]`, `input[index + 1..]`
and everything `break_at` derives from them exist), at a boundary grapheme or directly before white space. -/
theorem breakString_indices_in_range (maxWidth : Nat) (trimEnd : Bool) (lineEnd input : List Char) :
    breakString maxWidth trimEnd lineEnd input = .endOfInput input ∨
      ∃ index, index < input.length ∧ CallSite input index ∧
        breakString maxWidth trimEnd lineEnd input = breakAt trimEnd input index :=
  breakString_cases maxWidth trimEnd lineEnd input

example : breakString 20 false [] "Placerat felis. Mauris porta ante sagittis purus.".toList
    = breakAt false "Placerat felis. Mauris porta ante sagittis purus.".toList 15 := by decide

/-- **Bounds.**  `EndOfInput` carries the whole input (under `trim_end`, when only blanks follow the break
point: the input without them); the length a `LineEnd` / `EndWithLineFeed` reports is between 1 and the
length of the input, so `graphemes[cur_start..]` of the next turn of `rewrite_string` is in range. -/
theorem breakString_bounds (maxWidth : Nat) (trimEnd : Bool) (lineEnd input : List Char) :
    match breakString maxWidth trimEnd lineEnd input with
    | .endOfInput line => ∃ m, line = input.take m ∧ (input.drop m).all blank = true
    | .lineEnd _ len => 1 ≤ len ∧ len ≤ input.length
    | .endWithLineFeed _ len => 1 ≤ len ∧ len ≤ input.length := by
  have h := (breakString_step maxWidth trimEnd lineEnd input).len_bounds
  cases hb : breakString maxWidth trimEnd lineEnd input <;> simpa [hb, lenOk] using h

/-- non-vacuity of the trimmed `EndOfInput`: the blanks at the end are dropped, no next line is opened -/
example : breakString 12 true [] "aaaaaaaaaaaa    ".toList = .endOfInput "aaaaaaaaaaaa".toList := by decide

/-- **Progress.**  Every step that does not end the rewriting consumes at least one grapheme. -/
theorem breakString_progress (maxWidth : Nat) (trimEnd : Bool) (lineEnd input line : List Char) (len : Nat)
    (h : breakString maxWidth trimEnd lineEnd input = .lineEnd line len ∨
         breakString maxWidth trimEnd lineEnd input = .endWithLineFeed line len) :
    1 ≤ len ∧ (input.drop len).length < input.length := by
  have hb := breakString_bounds maxWidth trimEnd lineEnd input
  rcases h with h | h <;> (rw [h] at hb; simp only at hb; simp only [List.length_drop]; omega)

example : breakString 15 false [] "Neque in sem.      \n      Pellentesque tellus augue.".toList
    = .endWithLineFeed "Neque in sem.      \n".toList 20 := by decide

/-- **Termination without a hidden fuel.**  The loop of `rewrite_string` is written with a fuel in the
model; a fuel of one more than the number of graphemes is never used up: the model never answers "out
of fuel", for any format and any text. -/
theorem rewriteString_terminates (k : LoopCfg) (opener closer orig : List Char) :
    (rewriteRaw k opener closer orig).isSome = true := by
  unfold rewriteRaw
  simp only
  have := loop_isSome k ((stripLineBreaks orig).length + 1) (stripLineBreaks orig) opener.reverse k.mwWith
    (by omega)
  cases hl : loop k ((stripLineBreaks orig).length + 1) (stripLineBreaks orig) opener.reverse k.mwWith with
  | none => rw [hl] at this; cases this
  | some _ => rfl

/-- …and more fuel changes nothing (`fuel = length + 1` is not a truncation). -/
theorem loop_fuel_irrelevant (k : LoopCfg) (fuel : Nat) (rem acc : List Char) (curMax : Nat)
    (h : rem.length < fuel) : (loop k fuel rem acc curMax).isSome = true :=
  loop_isSome k fuel rem acc curMax h

/-! ## C01: a re-broken string literal denotes the same string -/

/-- The format of a string literal as `rewrite_string` sees it (`StringFormat::new`: opener and closer `"`,
`line_start` one blank, `line_end` a backslash, no trimming); opener and closer are left free. -/
structure IsStringFormat (f : Fmt) : Prop where
  trim : f.trimEnd = false
  lineEnd : f.lineEnd = ['\\']
  lineStart : f.lineStart.all isContWs = true

theorem isStringFormat_new (shape : RF.Shape.Shape) (config : RF.Shape.Config) : IsStringFormat (Fmt.new shape config) :=
  ⟨rfl, rfl, by show [' '].all isContWs = true; decide⟩

/-- **A re-broken string literal has the value of the stripped original** (or `rewrite_string` returns
`None`, or `Indent::to_string` panics on `tab_spaces = 0`).  `body` is what stands between opener and
closer; `strValue` deletes every line continuation the way Rust reads it (backslash, line feed, then
blanks, tabs, line feeds and carriage returns) and leaves every other escape as written.  For every
text, every shape, every configuration. -/
theorem rewriteString_value (orig : List Char) (f : Fmt) (newlineMax : Nat) (hf : IsStringFormat f)
    (r : List Char) (h : rewriteString orig f newlineMax = .ok (some r)) :
    ∃ body, r = f.opener ++ body ++ f.closer ∧ strValue body = strValue (stripLineBreaks orig) := by
  unfold rewriteString at h
  cases h1 : f.maxWidthWithIndent with
  | none => simp [h1] at h
  | some mwWith =>
    cases h2 : f.maxWidthWithoutIndent with
    | none => simp [h1, h2] at h
    | some mwWithout =>
      cases h3 : f.loopCfg newlineMax mwWith mwWithout with
      | error e => simp [h1, h2, h3] at h
      | ok k =>
        cases h4 : rewriteRaw k f.opener f.closer orig with
        | none => simp [h1, h2, h3, h4] at h
        | some raw =>
          simp only [h1, h2, h3, h4] at h
          split at h
          · simp only [Except.ok.injEq, Option.some.injEq] at h
            subst h
            obtain ⟨ht, hls, hle, hbare, hnl, _⟩ := loopCfg_ok h3
            have hk : StringLike k :=
              { trim := by rw [ht, hf.trim]
                lineEnd := by rw [hle, hf.lineEnd]
                bare := by rw [hbare]; exact all_isWs_of_all_isContWs hf.lineStart
                indent := ⟨_, hnl, indentChars_contWs _ _⟩
                lineStart := by rw [hls]; exact hf.lineStart }
            unfold rewriteRaw at h4
            simp only at h4
            cases hl : loop k ((stripLineBreaks orig).length + 1) (stripLineBreaks orig) f.opener.reverse k.mwWith with
            | none => simp [hl] at h4
            | some acc' =>
              simp only [hl, Option.some.injEq] at h4
              obtain ⟨mid, hacc, hval⟩ := loop_value k hk _ _ _ _ _ hl
              refine ⟨mid, ?_, hval .normal (by simp)⟩
              rw [← h4, hacc]
              simp [pushStr]
          · simp at h

/-- The same for the call `rewrite_string_lit` makes (`StringFormat::new`). -/
theorem rewriteStringLit_value (orig : List Char) (shape : RF.Shape.Shape) (config : RF.Shape.Config)
    (newlineMax : Nat) (r : List Char)
    (h : rewriteString orig (Fmt.new shape config) newlineMax = .ok (some r)) :
    ∃ body, r = '"' :: (body ++ ['"']) ∧ strValue body = strValue (stripLineBreaks orig) := by
  obtain ⟨body, hr, hv⟩ := rewriteString_value orig _ newlineMax (isStringFormat_new shape config) r h
  exact ⟨body, by simpa [Fmt.new] using hr, hv⟩

/-- non-vacuity: a literal that is broken twice, with an escape next to the break -/
example : rewriteString "Nulla\nconsequat erat\\\" at massa. Vivamus id mi.".toList
    (Fmt.new ⟨25, ⟨0, 0⟩, 0⟩ ⟨false, 4, 27, 80⟩) 23
    = .ok (some "\"Nulla\nconsequat erat\\\" at \\\n massa. Vivamus id mi.\"".toList) := by decide +kernel

/-- **Stripping the existing continuations keeps the value** — `_partial`: for texts without a carriage
return.  (rustc hands rustfmt the source with CR LF already turned into LF, and a bare CR is not allowed in
a string literal.) -/
theorem strip_value_partial (orig : List Char) (h : ∀ c ∈ orig, c ≠ '\r') :
    strValue (stripLineBreaks orig) = strValue orig :=
  strValue_strip orig h

/-- …and it is false with one: the regex `\\[\n\r]` takes backslash–CR for a line continuation, Rust does
not (for Rust that text is an error, so no valid program is affected). -/
theorem strip_value_counterexample :
    strValue (stripLineBreaks ['a', '\\', '\r', ' ', 'b']) ≠ strValue ['a', '\\', '\r', ' ', 'b'] := by decide

example : stripLineBreaks "ab\\\n     cd\\\\\n e".toList = "abcd\\\\\n e".toList ∧
    (∀ c ∈ "ab\\\n     cd\\\\\n e".toList, c ≠ '\r') := by decide

/-- **C01, string literals**: the re-broken literal denotes the string the original denotes (`_partial`:
no carriage return in the original, see `strip_value_counterexample`). -/
theorem rewriteString_value_orig_partial (orig : List Char) (f : Fmt) (newlineMax : Nat) (hf : IsStringFormat f)
    (hcr : ∀ c ∈ orig, c ≠ '\r') (r : List Char) (h : rewriteString orig f newlineMax = .ok (some r)) :
    ∃ body, r = f.opener ++ body ++ f.closer ∧ strValue body = strValue orig := by
  obtain ⟨body, hr, hv⟩ := rewriteString_value orig f newlineMax hf r h
  exact ⟨body, hr, by rw [hv, strip_value_partial orig hcr]⟩

/-! ## C03: nothing of a wrapped comment is lost -/

/-- **Nothing but white space and decoration is added or removed**, for every format (`trim_end` or not),
every text, every shape: the characters of the result that are not white space are those of the opener,
then those of the stripped input in order with copies of `line_end ++ line_start` or `line_start` woven in,
then those of the closer. -/
theorem rewriteString_payload (orig : List Char) (f : Fmt) (newlineMax : Nat) (r : List Char)
    (h : rewriteString orig f newlineMax = .ok (some r)) :
    ∃ X, payload r = payload f.opener ++ X ++ payload f.closer ∧
      Woven [payload f.lineEnd ++ payload f.lineStart, payload f.lineStart] (payload (stripLineBreaks orig)) X := by
  unfold rewriteString at h
  cases h1 : f.maxWidthWithIndent with
  | none => simp [h1] at h
  | some mwWith =>
    cases h2 : f.maxWidthWithoutIndent with
    | none => simp [h1, h2] at h
    | some mwWithout =>
      cases h3 : f.loopCfg newlineMax mwWith mwWithout with
      | error e => simp [h1, h2, h3] at h
      | ok k =>
        cases h4 : rewriteRaw k f.opener f.closer orig with
        | none => simp [h1, h2, h3, h4] at h
        | some raw =>
          simp only [h1, h2, h3, h4] at h
          split at h
          · simp only [Except.ok.injEq, Option.some.injEq] at h
            subst h
            obtain ⟨_, hls, hle, _, hnl, hnonl⟩ := loopCfg_ok h3
            have hic := all_isWs_of_all_isContWs (indentChars_contWs f.shape.indent f.config)
            have hk : BlankIndent k :=
              { nl := by rw [hnl]; simp only [List.all_cons, hic, Bool.and_true]; decide
                noNl := by rw [hnonl]; exact hic }
            obtain ⟨X, hX, hW⟩ := rewriteRaw_payload k hk _ _ _ _ h4
            refine ⟨X, hX, ?_⟩
            simpa [decorations, hls, hle] using hW
          · simp at h

/-- non-vacuity: the unit test `retain_blank_lines` of string.rs -/
example : rewriteString "Aenean\n\nmetus. Vestibulum ac lacus.\n\n".toList
    { opener := [], closer := [], lineStart := "// ".toList, lineEnd := [], shape := ⟨20, ⟨4, 0⟩, 0⟩, trimEnd := true,
      config := ⟨false, 4, 100, 80⟩ } 20
    = .ok (some "Aenean\n    //\n    // metus. Vestibulum ac\n    // lacus.\n    //\n".toList) := by decide +kernel

/-- **The word list itself is not preserved**: `break_string` also breaks after a punctuation character
inside a word.  Here `aaaaaaaaaaaa,bbbbbbbbbbbb` (one word) comes back as two. -/
theorem rewriteString_words_counterexample :
    ∃ r, rewriteString "aaaaaaaaaaaa,bbbbbbbbbbbb cc".toList
        { opener := [], closer := [], lineStart := "// ".toList, lineEnd := [], shape := ⟨16, ⟨0, 0⟩, 0⟩,
          trimEnd := true, config := ⟨false, 4, 100, 80⟩ } 16 = .ok (some r) ∧
      commentWords "// ".toList r ≠ words "aaaaaaaaaaaa,bbbbbbbbbbbb cc".toList ∧
      refinesWords (words "aaaaaaaaaaaa,bbbbbbbbbbbb cc".toList) (commentWords "// ".toList r) = true :=
  ⟨"aaaaaaaaaaaa,\n// bbbbbbbbbbbb cc".toList, by decide +kernel, by decide +kernel, by decide +kernel⟩

/-- **One step of `break_string` keeps the list of words** (`_partial`: `trim_end`, and the text offers no
punctuation to break after — every boundary grapheme of the text is white space): the words of the line it
returns followed by the words of what is left are the words of its input.  `rewriteString_words_counterexample`
shows that the hypothesis is needed; `rewriteString_payload` is what holds without it. -/
theorem breakString_words_partial (maxWidth : Nat) (lineEnd input line : List Char) (len : Nat)
    (hnp : noPunctBreakB input = true) (h : breakString maxWidth true lineEnd input = .lineEnd line len) :
    words line ++ words (input.drop len) = words input := by
  have hs := breakString_step maxWidth true lineEnd input
  rw [h] at hs
  exact hs.wordsLine (noPunctBreak_of_B hnp)

/-- non-vacuity: the unit test `big_whitespace` (a run of blanks at the break is dropped, no word is) -/
example : noPunctBreakB "Neque in sem            Pellentesque tellus augue".toList = true ∧
    breakString 20 true [] "Neque in sem            Pellentesque tellus augue".toList
      = .lineEnd "Neque in sem".toList 24 ∧
    words "Neque in sem".toList ++ words ("Neque in sem            Pellentesque tellus augue".toList.drop 24)
      = words "Neque in sem            Pellentesque tellus augue".toList := by decide

/-- The format `CommentRewrite` hands to `rewrite_string` (comment.rs:628-636): no opener, closer or line end,
trimmed lines, and a line start that is empty or ends in white space (`// `, ` * `, `/// `, …). -/
structure IsCommentFormat (f : Fmt) : Prop where
  trim : f.trimEnd = true
  opener : f.opener = []
  closer : f.closer = []
  lineEnd : f.lineEnd = []
  lineStart : f.lineStart = [] ∨ ∃ l w, f.lineStart = l ++ [w] ∧ isWs w = true

/-- **C03, the words of a wrapped comment line** (`_partial`: the text holds no punctuation character other
than a backslash, so that `break_string` can only break at white space — `rewriteString_words_counterexample`
shows what happens otherwise).  The white-space separated words of what `rewrite_string` returns are the
words of the input, in order, with the word of the line start (`//`, `*`, `///`) inserted where a new line
begins: no word is lost, split, merged or reordered, for every text (line feeds included), width and shape. -/
theorem rewriteString_words_partial (orig : List Char) (f : Fmt) (newlineMax : Nat) (hf : IsCommentFormat f)
    (hnp : noPunct (stripLineBreaks orig) = true) (r : List Char)
    (h : rewriteString orig f newlineMax = .ok (some r)) :
    Woven [words f.lineStart] (words (stripLineBreaks orig)) (words r) := by
  unfold rewriteString at h
  cases h1 : f.maxWidthWithIndent with
  | none => simp [h1] at h
  | some mwWith =>
    cases h2 : f.maxWidthWithoutIndent with
    | none => simp [h1, h2] at h
    | some mwWithout =>
      cases h3 : f.loopCfg newlineMax mwWith mwWithout with
      | error e => simp [h1, h2, h3] at h
      | ok k =>
        cases h4 : rewriteRaw k f.opener f.closer orig with
        | none => simp [h1, h2, h3, h4] at h
        | some raw =>
          simp only [h1, h2, h3, h4] at h
          split at h
          · simp only [Except.ok.injEq, Option.some.injEq] at h
            subst h
            obtain ⟨ht, hls, hle, hbare, hnl, hnonl⟩ := loopCfg_ok h3
            have hic := all_isWs_of_all_isContWs (indentChars_contWs f.shape.indent f.config)
            have hk : CommentLike k :=
              { trim := by rw [ht, hf.trim]
                lineEnd := by rw [hle, hf.lineEnd]
                blank := { nl := by rw [hnl]; simp only [List.all_cons, hic, Bool.and_true]; decide
                           noNl := by rw [hnonl]; exact hic }
                nlNe := by rw [hnl]; simp
                bare := by rw [hbare, hls]
                lineStart := by rw [hls]; exact hf.lineStart }
            rw [hf.opener, hf.closer] at h4
            have := rewriteRaw_words k hk orig raw hnp h4
            rwa [hls] at this
          · simp at h

/-- non-vacuity: three lines, the word `//` woven in twice -/
example : noPunct (stripLineBreaks "Aenean metus Vestibulum ac lacus".toList) = true ∧
    rewriteString "Aenean metus Vestibulum ac lacus".toList
      { opener := [], closer := [], lineStart := "// ".toList, lineEnd := [], shape := ⟨13, ⟨4, 0⟩, 0⟩, trimEnd := true,
        config := ⟨false, 4, 100, 80⟩ } 13
      = .ok (some "Aenean metus\n    // Vestibulum ac\n    // lacus".toList) ∧
    words "Aenean metus\n    // Vestibulum ac\n    // lacus".toList
      = ["Aenean".toList, "metus".toList, "//".toList, "Vestibulum".toList, "ac".toList, "//".toList, "lacus".toList] := by
  decide +kernel

/-! ## C02 / C07: the lines fit -/

/-- **Every line `break_string` returns fits into `max_width`, its trailing white space apart — or the
input cannot be broken before the limit**: a URL (or alike) is detected at the limit, or no boundary (white
space, or punctuation that is not part of `::` and is not a backslash) lies between `MIN_STRING` and the
limit.  For every text, width, `trim_end` and `line_end`. -/
theorem breakString_fits (maxWidth : Nat) (trimEnd : Bool) (lineEnd input line : List Char) (len : Nat)
    (h : breakString maxWidth trimEnd lineEnd input = .lineEnd line len ∨
         breakString maxWidth trimEnd lineEnd input = .endWithLineFeed line len) :
    width (trimEndWs line) ≤ maxWidth ∨ Unbreakable maxWidth input :=
  breakString_line_fits maxWidth trimEnd lineEnd input line len h

/-- non-vacuity, first alternative: the unit test `should_break_on_whitespace` -/
example : breakString 20 false [] "Placerat felis. Mauris porta ante sagittis purus.".toList
      = .lineEnd "Placerat felis. ".toList 16 ∧ width (trimEndWs "Placerat felis. ".toList) ≤ 20 := by decide

/-- …and the second alternative is needed: the unit test `should_break_forward` returns a line of 28
columns for `max_width = 20` (no boundary between `MIN_STRING` and the limit). -/
theorem breakString_fits_counterexample :
    breakString 20 true [] "Venenatis_tellus_vel_tellus. Aliquam aliquam dolor at justo.".toList
      = .lineEnd "Venenatis_tellus_vel_tellus.".toList 29 ∧
    ¬ width (trimEndWs "Venenatis_tellus_vel_tellus.".toList) ≤ 20 := by decide

/-- **What `rewrite_string` returns has passed `wrap_str`**: after `filter_normal_code`, the first line is
at most `shape.width` wide, every other line at most `max_width`, and the last one at most
`shape.used_width() + shape.width` (`filtered_str_fits`, utils.rs:397). -/
theorem rewriteString_fits (orig : List Char) (f : Fmt) (newlineMax : Nat) (r : List Char)
    (h : rewriteString orig f newlineMax = .ok (some r)) :
    filteredStrFits r f.config.max_width f.shape = true := by
  unfold rewriteString at h
  cases h1 : f.maxWidthWithIndent with
  | none => simp [h1] at h
  | some mwWith =>
    cases h2 : f.maxWidthWithoutIndent with
    | none => simp [h1, h2] at h
    | some mwWithout =>
      cases h3 : f.loopCfg newlineMax mwWith mwWithout with
      | error e => simp [h1, h2, h3] at h
      | ok k =>
        cases h4 : rewriteRaw k f.opener f.closer orig with
        | none => simp [h1, h2, h3, h4] at h
        | some raw =>
          simp only [h1, h2, h3, h4] at h
          split at h
          · rename_i hfit
            simp only [Except.ok.injEq, Option.some.injEq] at h
            subst h
            exact hfit
          · simp at h

/-! ## C02: re-breaking what was re-broken changes nothing -/

/-- `rewrite_string` reads its input only through the stripping regex. -/
theorem rewriteString_congr (a b : List Char) (f : Fmt) (newlineMax : Nat)
    (h : stripLineBreaks a = stripLineBreaks b) : rewriteString a f newlineMax = rewriteString b f newlineMax := by
  unfold rewriteString rewriteRaw
  simp only [h]

/-- **Idempotence of the string-literal format** (`_partial`: the original holds no backslash directly in
front of a line feed or a carriage return, i.e. no line continuation of its own): if `rewrite_string`
returns `opener ++ body ++ closer`, then given `body` in the same format, shape and configuration it returns
the very same text.  With C01's `rewriteString_value` this is the "re-indentation after string
line-continuations" of the property: the second pass strips exactly the continuations the first one wrote. -/
theorem rewriteString_idem_partial (orig : List Char) (f : Fmt) (newlineMax : Nat) (hf : IsStringFormat f)
    (hno : noBsNl orig = true) (r : List Char) (h : rewriteString orig f newlineMax = .ok (some r)) :
    ∃ body, r = f.opener ++ body ++ f.closer ∧ rewriteString body f newlineMax = .ok (some r) := by
  have h0 := h
  unfold rewriteString at h
  cases h1 : f.maxWidthWithIndent with
  | none => simp [h1] at h
  | some mwWith =>
    cases h2 : f.maxWidthWithoutIndent with
    | none => simp [h1, h2] at h
    | some mwWithout =>
      cases h3 : f.loopCfg newlineMax mwWith mwWithout with
      | error e => simp [h1, h2, h3] at h
      | ok k =>
        cases h4 : rewriteRaw k f.opener f.closer orig with
        | none => simp [h1, h2, h3, h4] at h
        | some raw =>
          simp only [h1, h2, h3, h4] at h
          split at h
          · simp only [Except.ok.injEq, Option.some.injEq] at h
            subst h
            obtain ⟨ht, hls, hle, hbare, hnl, _⟩ := loopCfg_ok h3
            have hk : StringLike k :=
              { trim := by rw [ht, hf.trim]
                lineEnd := by rw [hle, hf.lineEnd]
                bare := by rw [hbare]; exact all_isWs_of_all_isContWs hf.lineStart
                indent := ⟨_, hnl, indentChars_contWs _ _⟩
                lineStart := by rw [hls]; exact hf.lineStart }
            obtain ⟨body, hr, hstrip, hid⟩ := rewriteRaw_restrip k hk _ _ _ _ hno h4
            refine ⟨body, hr, ?_⟩
            rw [rewriteString_congr body orig f newlineMax (by rw [hstrip, hid])]
            exact h0
          · simp at h

/-- non-vacuity: a literal with escapes that is broken twice and is a fixed point afterwards -/
example : noBsNl "Nulla\nconsequat erat\\\" at massa. Vivamus id mi.".toList = true ∧
    rewriteString "Nulla\nconsequat erat\\\" at massa. Vivamus id mi.".toList (Fmt.new ⟨25, ⟨0, 0⟩, 0⟩ ⟨false, 4, 27, 80⟩) 23
      = .ok (some "\"Nulla\nconsequat erat\\\" at \\\n massa. Vivamus id mi.\"".toList) ∧
    rewriteString "Nulla\nconsequat erat\\\" at \\\n massa. Vivamus id mi.".toList (Fmt.new ⟨25, ⟨0, 0⟩, 0⟩ ⟨false, 4, 27, 80⟩) 23
      = .ok (some "\"Nulla\nconsequat erat\\\" at \\\n massa. Vivamus id mi.\"".toList) := by decide +kernel

/-- **Without the hypothesis idempotence fails**: a line continuation directly followed by an escaped
backslash and another line continuation.  The stripping pattern consumes the character in front of a match, so
the second continuation is only found by the second pass (known finding STR-IDEM-CONT-ESC). -/
theorem rewriteString_idem_counterexample :
    rewriteString "aaaaaaaa bb\\\n \\\\\\\n cc ddddd".toList (Fmt.new ⟨24, ⟨0, 0⟩, 0⟩ ⟨false, 4, 100, 80⟩) 22
      = .ok (some "\"aaaaaaaa bb\\\\\\\n cc ddddd\"".toList) ∧
    rewriteString "aaaaaaaa bb\\\\\\\n cc ddddd".toList (Fmt.new ⟨24, ⟨0, 0⟩, 0⟩ ⟨false, 4, 100, 80⟩) 22
      = .ok (some "\"aaaaaaaa bb\\\\cc ddddd\"".toList) := by decide +kernel

end RF.Props.StringFmt
