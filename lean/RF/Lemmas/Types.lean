import RF.Model.Types
/-!
TYPES — the induction behind `types_tokens_preserved`: for every tree, every piece position and
every oracle, a rewriter of the repaired code returns `none` or the canonical tokens of its tree.
-/
namespace RF.Types
open RF.Tok

/-- the answer of a rewriter is acceptable: a failure, or exactly the canonical tokens -/
def Ok {α : Type} (o : Option α) (c : α) : Prop := o = none ∨ o = some c

theorem pick_ok {α : Type} {a b : Option α} {c : α} (f : Bool) (ha : Ok a c) (hb : Ok b c) : Ok (pick f a b) c := by
  unfold Ok at *; unfold pick; grind

theorem att_ok {α : Type} {a : Option α} {c : α} (f : Bool) (ha : Ok a c) : Ok (att f a) c := by
  unfold Ok at *; unfold att; grind

theorem joinB_ok {a b : Option (List Toks)} {c : List Toks} (f : Bool) (ha : Ok a c) (hb : Ok b c) :
    Ok (joinB a f b) (sepBy plus c) := by
  unfold Ok at *; unfold joinB; grind

theorem binderPre_ok {a : Option (List Toks)} {c : List Toks} (o : Toks) (ha : Ok a c) :
    Ok (binderPre false o a) (if c.isEmpty then [] else o ++ sepBy comma c ++ [tP '>']) := by
  unfold Ok at *; unfold binderPre; grind

theorem unsafePre_ok {a : Option (List Toks)} {c : List Toks} (ha : Ok a c) :
    Ok (unsafePre false a) ([kw "unsafe", tP '<'] ++ sepBy comma c ++ [tP '>']) := by
  unfold Ok at *; unfold unsafePre; grind


/-- closes a constructor case once the facts about the sub-rewrites are in the context -/
macro "types_case" : tactic =>
  `(tactic| (simp only [Ok, rwTy, rwOptTy, rwTys, rwTysPlain, rwSegs, rwGArgs, rwBounds, rwParams, rwFnArgs,
      canonTy, canonOptTy, canonTys, canonSegs, canonGArgs, canonBounds, canonParams, canonFnArgs, att,
      binderToks] at *; grind))

mutual
theorem rwTy_ok (e : Env) (he : e.pinned = false) : ∀ (t : Ty) (p : Piece), Ok (rwTy e p t) (canonTy e.abi t)
  | .path g segs, p => by
      have h0 := rwSegs_ok e he segs (p ++ [0]) 0 false
      types_case
  | .qpath q tg tr rest, p => by
      have h0 := rwTy_ok e he q (p ++ [0])
      have h1 := rwSegs_ok e he tr (p ++ [1]) 0 false
      have h2 := rwSegs_ok e he rest (p ++ [2]) 0 false
      types_case
  | .ref lt m t, p => by
      have h0 := rwTy_ok e he t (p ++ [0])
      types_case
  | .ptr m t, p => by
      have h0 := rwTy_ok e he t (p ++ [0])
      types_case
  | .never, p => by types_case
  | .infer, p => by types_case
  | .tup ts, p => by
      have h0 := rwTys_ok e he ts (p ++ [0]) 0
      types_case
  | .paren t, p => by
      have h0 := pick_ok (e.fits (p ++ [2])) (att_ok (e.fits (p ++ [3])) (rwTy_ok e he t (p ++ [0])))
        (rwTy_ok e he t (p ++ [1]))
      types_case
  | .array t n, p => by
      have h0 := rwTy_ok e he t (p ++ [0])
      types_case
  | .slice t, p => by
      have h0 := rwTy_ok e he t (p ++ [0])
      types_case
  | .implTrait bs, p => by
      have h0 := joinB_ok (e.fits (p ++ [2])) (rwBounds_ok e he bs (p ++ [0]) 0) (rwBounds_ok e he bs (p ++ [1]) 0)
      types_case
  | .traitObj d bs, p => by
      have h0 := joinB_ok (e.fits (p ++ [2])) (rwBounds_ok e he bs (p ++ [0]) 0) (rwBounds_ok e he bs (p ++ [1]) 0)
      types_case
  | .bareFn b u ex args v ret, p => by
      have h0 := binderPre_ok [kw "for", tP '<'] (rwParams_ok e he b (p ++ [0]) 0)
      have h1 := rwOptTy_ok e he ret (p ++ [2]) arrow
      have h2 := rwFnArgs_ok e he args (p ++ [1]) 0
      rw [← he] at h0
      types_case
  | .unsafeBinder b t, p => by
      have h0 := unsafePre_ok (rwParams_ok e he b (p ++ [0]) 0)
      have h1 := rwTy_ok e he t (p ++ [1])
      rw [← he] at h0
      types_case
  | .pat t lo incl hi, p => by
      have h0 := rwTy_ok e he t (p ++ [0])
      types_case
theorem rwOptTy_ok (e : Env) (he : e.pinned = false) :
    ∀ (t : OptTy) (p : Piece) (pre : Toks), Ok (rwOptTy e p pre t) (canonOptTy e.abi pre t)
  | .none, p, pre => by types_case
  | .some t, p, pre => by
      have h0 := rwTy_ok e he t p
      types_case
theorem rwTys_ok (e : Env) (he : e.pinned = false) :
    ∀ (ts : Tys) (p : Piece) (i : Nat), Ok (rwTys e p i ts) (canonTys e.abi ts)
  | .nil, p, i => by types_case
  | .cons t r, p, i => by
      have h0 := pick_ok (e.fits (p ++ [i, 2])) (rwTy_ok e he t (p ++ [i, 0])) (rwTy_ok e he t (p ++ [i, 1]))
      have h1 := rwTys_ok e he r p (i + 1)
      types_case
theorem rwTysPlain_ok (e : Env) (he : e.pinned = false) :
    ∀ (ts : Tys) (p : Piece) (i : Nat), Ok (rwTysPlain e p i ts) (canonTys e.abi ts)
  | .nil, p, i => by types_case
  | .cons t r, p, i => by
      have h0 := rwTy_ok e he t (p ++ [i])
      have h1 := rwTysPlain_ok e he r p (i + 1)
      types_case
theorem rwSegs_ok (e : Env) (he : e.pinned = false) :
    ∀ (s : Segs) (p : Piece) (i : Nat) (expr : Bool), Ok (rwSegs e p i expr s) (canonSegs e.abi expr s)
  | .nil, p, i, expr => by types_case
  | .plain n r, p, i, expr => by
      have h0 := rwSegs_ok e he r p (i + 1) expr
      types_case
  | .angle n args r, p, i, expr => by
      have h0 := rwSegs_ok e he r p (i + 1) expr
      have h1 := att_ok (e.fits (p ++ [i, 0])) (rwGArgs_ok e he args (p ++ [i, 0]) 0)
      types_case
  | .fn n ins ret r, p, i, expr => by
      have h0 := rwSegs_ok e he r p (i + 1) expr
      have h1 := rwOptTy_ok e he ret (p ++ [i, 1]) arrow
      have h2 := rwTysPlain_ok e he ins (p ++ [i, 0]) 0
      types_case
  | .elided n r, p, i, expr => by
      have h0 := rwSegs_ok e he r p (i + 1) expr
      types_case
theorem rwGArgs_ok (e : Env) (he : e.pinned = false) :
    ∀ (a : GArgs) (p : Piece) (i : Nat), Ok (rwGArgs e p i a) (canonGArgs e.abi a)
  | .nil, p, i => by types_case
  | .lt n r, p, i => by
      have h0 := rwGArgs_ok e he r p (i + 1)
      types_case
  | .ty t r, p, i => by
      have h0 := pick_ok (e.fits (p ++ [i, 2])) (rwTy_ok e he t (p ++ [i, 0])) (rwTy_ok e he t (p ++ [i, 1]))
      have h1 := rwGArgs_ok e he r p (i + 1)
      types_case
  | .const br v r, p, i => by
      have h0 := rwGArgs_ok e he r p (i + 1)
      types_case
  | .assocEq n ga t r, p, i => by
      have h0 := rwGArgs_ok e he r p (i + 1)
      have h1 := att_ok (e.fits (p ++ [i, 0])) (rwGArgs_ok e he ga (p ++ [i, 0]) 0)
      have h2 := rwTy_ok e he t (p ++ [i, 1])
      types_case
  | .assocBound n ga bs r, p, i => by
      have h0 := rwGArgs_ok e he r p (i + 1)
      have h1 := att_ok (e.fits (p ++ [i, 0])) (rwGArgs_ok e he ga (p ++ [i, 0]) 0)
      have h2 := joinB_ok (e.fits (p ++ [i, 3])) (rwBounds_ok e he bs (p ++ [i, 1]) 0)
        (rwBounds_ok e he bs (p ++ [i, 2]) 0)
      types_case
theorem rwBounds_ok (e : Env) (he : e.pinned = false) :
    ∀ (b : Bounds) (p : Piece) (i : Nat), Ok (rwBounds e p i b) (canonBounds e.abi b)
  | .nil, p, i => by types_case
  | .trait paren b c a pol g path r, p, i => by
      have h0 := binderPre_ok [kw "for", tP '<'] (rwParams_ok e he b (p ++ [i, 0]) 0)
      have h1 := rwSegs_ok e he path (p ++ [i, 1]) 0 false
      have h2 := rwBounds_ok e he r p (i + 1)
      rw [← he] at h0
      types_case
  | .outlives n r, p, i => by
      have h2 := rwBounds_ok e he r p (i + 1)
      types_case
  | .use args r, p, i => by
      have h2 := rwBounds_ok e he r p (i + 1)
      types_case
theorem rwParams_ok (e : Env) (he : e.pinned = false) :
    ∀ (b : Params) (p : Piece) (i : Nat), Ok (rwParams e p i b) (canonParams e.abi b)
  | .nil, p, i => by types_case
  | .lifetime n bs r, p, i => by
      have h0 := rwParams_ok e he r p (i + 1)
      types_case
  | .type n bs d r, p, i => by
      have h0 := rwParams_ok e he r p (i + 1)
      have h1 := joinB_ok (e.fits (p ++ [i, 2])) (rwBounds_ok e he bs (p ++ [i, 0]) 0)
        (rwBounds_ok e he bs (p ++ [i, 1]) 0)
      have h2 := rwOptTy_ok e he d (p ++ [i, 3]) [tP '=']
      simp only [Ok, rwParams, canonParams, att] at *
      rcases h0 with h0 | h0 <;> rcases h1 with h1 | h1 <;> rcases h2 with h2 | h2 <;>
        cases hf : e.fits (p ++ [i]) <;> simp [h0, h1, h2]
  | .const n t d r, p, i => by
      have h0 := rwParams_ok e he r p (i + 1)
      have h1 := rwTy_ok e he t (p ++ [i, 0])
      types_case
theorem rwFnArgs_ok (e : Env) (he : e.pinned = false) :
    ∀ (a : FnArgs) (p : Piece) (i : Nat), Ok (rwFnArgs e p i a) (canonFnArgs e.abi a)
  | .nil, p, i => by types_case
  | .cons name t r, p, i => by
      have h0 := rwTy_ok e he t (p ++ [i])
      have h1 := rwFnArgs_ok e he r p (i + 1)
      types_case
end

end RF.Types
