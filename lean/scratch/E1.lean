import RF.Lemmas.TokEquiv
open RF.Tok
def exIn : List Tok := lexEx ("pub ( in self ) struct Foo { } impl Baz { default unsafe extern \"C\" fn foo < 'a , > ( & 'a mut self , ) -> u32 where { let unblock_me = | trivial | { closure ( ) } ; match x { Foo :: A => println ! ( \"No\" ) , | Foo :: D => { g :: < > ( ( 2.0 ) , ) } , } ; } }").toList
def exA : List Tok := lexEx ("impl Baz { default unsafe extern \"C\" fn foo < 'a , > ( & 'a mut self , ) where { } }").toList
def exAo : List Tok := lexEx ("impl Baz { default unsafe extern \"C\" fn foo < 'a > ( & 'a mut self ) { } }").toList
set_option profiler true
example : exIn.length = 86 := by decide +kernel
example : (norm {} exIn).length = 60 := by decide +kernel
example : equiv {} exA exAo = true := by decide +kernel
example : hardSeq {} exA = hardSeq {} exAo := by decide +kernel
