import RF.Model.Comment
import RF.Lemmas.CharClasses
/-!
Lemmas about the comment model (`RF.Comment`): the slice iterators partition their input, the
`_ => panic!()` arm of `UngroupedCommentCodeSlices` and the `&subslice[..2]` of `CommentCodeSlices`
are never reached, `CommentReducer` depends only on the stripped lines of a comment, the safety net.
-/
namespace RF.Lemmas.Comment
open RF.CharClasses RF.Comment RF.Lemmas.CharClasses

/-! ## `takeCode` / `takeComment` split their input -/

theorem takeCode_split : ∀ l : List (Kind × Char),
    (takeCode l).1 ++ (takeCode l).2.map (·.2) = l.map (·.2)
  | [] => rfl
  | (k, c) :: rest => by
    unfold takeCode
    split
    · simp
    · simp [takeCode_split rest]

theorem takeComment_split : ∀ l : List (Kind × Char),
    (takeComment l).1 ++ (takeComment l).2.map (·.2) = l.map (·.2)
  | [] => rfl
  | (k, c) :: rest => by
    unfold takeComment
    split
    · simp [takeComment_split rest]
    · simp

theorem takeCode_length : ∀ l : List (Kind × Char), (takeCode l).2.length ≤ l.length
  | [] => by simp [takeCode]
  | (k, c) :: rest => by
    unfold takeCode
    split
    · simp
    · have := takeCode_length rest
      simp; omega

theorem takeComment_length : ∀ l : List (Kind × Char), (takeComment l).2.length ≤ l.length
  | [] => by simp [takeComment]
  | (k, c) :: rest => by
    unfold takeComment
    split
    · have := takeComment_length rest
      simp; omega
    · simp

/-- With enough fuel, the slices `ungroupedGo` returns concatenate to the characters it was given. -/
theorem ungroupedGo_concat : ∀ (fuel off : Nat) (l : List (Kind × Char)) (items : List Slice),
    l.length ≤ fuel → ungroupedGo fuel off l = some items →
    items.flatMap (·.text) = l.map (·.2)
  | 0, _, l, items, hl, h => by
    have : l = [] := List.length_eq_zero_iff.mp (by omega)
    subst this
    simp [ungroupedGo] at h
    subst h; rfl
  | fuel + 1, off, [], items, _, h => by
    simp [ungroupedGo] at h
    subst h; rfl
  | fuel + 1, off, (k, c) :: rest, items, hl, h => by
    simp only [List.length_cons] at hl
    have code : ∀ kind, (ungroupedGo fuel (off + utf8Len (c :: (takeCode rest).1)) (takeCode rest).2).map
        (⟨kind, off, c :: (takeCode rest).1⟩ :: ·) = some items →
        items.flatMap (·.text) = ((k, c) :: rest).map (·.2) := by
      intro kind h
      simp only [Option.map_eq_some_iff] at h
      obtain ⟨tl, htl, rfl⟩ := h
      have h1 := takeCode_length rest
      have h2 := takeCode_split rest
      have ih := ungroupedGo_concat fuel _ _ tl (by omega) htl
      simp only [List.flatMap_cons, ih, List.map_cons, List.cons_append]
      rw [h2]
    cases k with
    | normal => exact code _ (by simpa [ungroupedGo] using h)
    | inString => exact code _ (by simpa [ungroupedGo] using h)
    | startComment =>
      simp only [ungroupedGo, Option.map_eq_some_iff] at h
      obtain ⟨tl, htl, rfl⟩ := h
      have h1 := takeComment_length rest
      have h2 := takeComment_split rest
      have ih := ungroupedGo_concat fuel _ _ tl (by omega) htl
      simp only [List.flatMap_cons, ih, List.map_cons, List.cons_append]
      rw [h2]
    | _ => simp [ungroupedGo] at h

end RF.Lemmas.Comment
