import RF.Lemmas.TokEquiv
namespace RF.Tok

theorem actLocal_mk (S : Tok → Bool) (t : Tok) (a : Act) (h1 : outside S a.out = outside S [t])
    (h2 : ∀ o, a.close = some o → outside S o = []) (h3 : ∀ c : Tok, c.isClose = true → S c = true)
    (h4 : S (mkP ',') = true) : ActLocal S t a :=
  ⟨h1, fun o ho => ⟨h2 o ho, h3⟩, fun _ => h4⟩

theorem ruleBlock_local : RuleLocal clsBlock ruleBlock := by
  intro enc lo p2 p1 t rest a h
  have hcl : ∀ c : Tok, c.isClose = true → clsBlock c = true := fun c h => by simp [clsBlock, clsDelim, h]
  have hcomma : clsBlock (mkP ',') = true := by decide
  have h1 : clsBlock (mkO '{') = true := by decide
  have h2 : clsBlock (mkC '}') = true := by decide
  unfold ruleBlock at h
  rule_cases h
  all_goals (cases h; simp only [Bool.and_eq_true] at *)
  all_goals
    have ht : clsBlock t = true := by
      simp_all [clsBlock, clsDelim, Tok.isO, Tok.isOpen]
  all_goals refine actLocal_mk _ _ _ ?_ ?_ hcl hcomma
  all_goals simp [outside_cons, ht, h1, h2]

theorem whereSep_local : ∀ (ts : List Tok) (w : Bool) (d : Nat),
    outside clsComma (whereSep w d ts) = outside clsComma ts := by
  intro ts
  induction ts with
  | nil => intros; simp [whereSep]
  | cons t ts ih =>
    intro w d
    unfold whereSep
    repeat' split
    all_goals simp only [outside_cons, ih]
    all_goals simp_all [clsComma]

theorem closureSep_local : ∀ (ts : List Tok) (m d : Nat) (p1 : Tok),
    outside clsComma (closureSep m d p1 ts) = outside clsComma ts := by
  intro ts
  induction ts with
  | nil => intro m d p1; unfold closureSep; rfl
  | cons t ts ih =>
    intro m d p1
    unfold closureSep
    repeat' split
    all_goals simp only [outside_cons, ih]
    all_goals simp_all [clsComma]

end RF.Tok
