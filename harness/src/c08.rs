//! C08: emitted text obeys the whitespace and newline discipline.
//! (1) correspondence of the Lean model RF/Model/Newline.lean with the real newline converters,
//!     `append_newline` + the truncation of `format_lines`, `push_vertical_spaces`,
//!     `process_missing_code`, `remove_trailing_white_spaces`, `CharClasses` (second transcription) and
//!     `Indent::to_string*` (shape_corr.rs);
//! (2) the Lean oracles evaluated on what those functions returned, under the hypotheses of the theorems;
//! (3) the Lean oracles over the bytes the real formatter emits (final terminator, first line,
//!     terminator style, "Unix and Windows output differ in terminators only", indentation alphabet)
//!     and the blank-line bounds on generated programs whose structure is known;
//! (4) enumerated probes of the inputs known to be dirty on the pinned tree (F5a, F5b, F17).
use std::collections::HashSet;
use std::path::Path;
use std::process::Command;
use std::time::Duration;

use rustfmt_nightly::verif_hooks::{comment as hc, newline as hn, report as hr};
use rustfmt_nightly::{Config, NewlineStyle};
use serde_json::json;

use crate::corpus;
use crate::gen::*;
use crate::pool::{self, Job, Status};
use crate::shape_corr;
use crate::util::*;

fn guard<T>(f: impl FnOnce() -> T) -> Option<T> {
    std::panic::catch_unwind(std::panic::AssertUnwindSafe(f)).ok()
}

fn p_str(x: Option<String>) -> String {
    x.map(|s| enc_str(&s)).unwrap_or_else(|| "panic".into())
}

/// kind letters of `verif_hooks::comment` (and of the C07 model `cc.classes`) -> letters of `nl.classify`
fn nl_letters(k: &str) -> String {
    k.chars()
        .map(|c| match c {
            'N' => 'n',
            'S' => 's',
            'C' => 'c',
            'E' => 'e',
            'P' => 'A',
            'Q' => 'B',
            'R' => 'C',
            'T' => 'a',
            'U' => 'b',
            'I' => 'i',
            x => x,
        })
        .collect()
}

fn dash(s: String) -> String {
    if s.is_empty() { "-".into() } else { s }
}

const ALPHA: &[char] = &['a', '\r', '\n', ' ', '\t', '"', '\'', '\\', '/', '*'];
const ALPHA_NL: &[char] = &['a', '\r', '\n', 'é'];

/// every string over `alpha` of length <= maxlen, shortest first
fn all_strings(alpha: &[char], maxlen: usize) -> Vec<String> {
    let mut all = vec![String::new()];
    let mut lo = 0;
    for _ in 0..maxlen {
        let hi = all.len();
        for i in lo..hi {
            for c in alpha {
                let mut t = all[i].clone();
                t.push(*c);
                all.push(t);
            }
        }
        lo = hi;
    }
    all
}

const PIECES: &[&str] = &[
    "\n", "\n", "\r\n", "\r\n", "\r", "\r\r\n", "\n\r", "a", "bc", " ", "  ", "\t", " \t", "\"", "'", "\\", "//", "/*", "*/", "// c ", "\"s \n t\"", "' '", "'\"'", "r#\"", "\"#", "é", "\u{a0}", "\u{3000}", "\u{2028}", "\u{85}", "\u{b}", "\u{c}", "fn f() {}", "let x = 1; ", "x ",
];

/// 0: LF, 1: CRLF, 2: CR-heavy, 3: mixed
fn random_text(rng: &mut Rng, family: usize) -> String {
    let n = rng.range(1, 14);
    let mut s = String::new();
    for _ in 0..n {
        let p = *rng.pick(PIECES);
        match family {
            0 => s.push_str(&p.replace('\r', "")),
            1 => s.push_str(&p.replace('\r', "").replace('\n', "\r\n")),
            2 => {
                s.push_str(p);
                if rng.chance(1, 3) {
                    s.push('\r');
                }
            }
            _ => s.push_str(p),
        }
    }
    s
}

fn lower_upper(lower: usize, upper: usize) -> Config {
    let mut c = Config::default();
    c.set().blank_lines_lower_bound(lower);
    c.set().blank_lines_upper_bound(upper);
    c
}

fn starts_with_blank_line(t: &str) -> bool {
    for c in t.chars() {
        if c == '\n' {
            return true;
        }
        if !c.is_whitespace() {
            return false;
        }
    }
    false
}

struct TextOps {
    default: Config,
    /// lower 0, upper 30: makes the `offset` of push_vertical_spaces observable
    probe_cfg: Config,
}

impl TextOps {
    /// the converters, detection, finalisation and their oracles on one text
    fn terminators(&self, o: &mut Outcome, t: &str, desc: &str) {
        let e = enc_str(t);
        let has_term = t.contains('\n');
        let has_cr = t.contains('\r');
        let w = hn::convert_to_windows_newlines(t);
        let u = hn::convert_to_unix_newlines(t);
        o.push("corr", "nl.windows", format!("nl.windows {}", e), enc_str(&w), desc.into(), has_term || has_cr);
        o.push("corr", "nl.unix", format!("nl.unix {}", e), enc_str(&u), desc.into(), t.contains("\r\n"));
        o.push("corr", "nl.auto", format!("nl.auto {}", e), if hn::auto_detect_is_windows(t) { "windows" } else { "unix" }.into(), desc.into(), has_term);
        // the oracle the e2e stage uses, on the converters' real output (theorems windows_style_ok,
        // unix_style_ok_partial: the latter under its hypothesis "no \r\r\n")
        if !(has_term || has_cr) {
            o.count("converters:text-without-CR-or-LF(oracles skipped, identity)");
        } else if t.contains("\r\r\n") {
            o.count("unix:input-has-crcrlf(hypothesis of unix_no_crlf_partial fails; F5b)");
        } else {
            o.push("oracle", "nl.oracle.style(unix)", format!("nl.oracle.style unix {}", enc_str(&u)), "ok".into(), desc.into(), has_term);
            // … and only the terminators changed (unix_only_terminators_partial)
            o.push("oracle", "nl.lines(unix)", format!("nl.lines {}", e), lines_enc(&u), desc.into(), t.contains("\r\n"));
        }
        if has_term || has_cr {
            o.push("oracle", "nl.oracle.style(windows)", format!("nl.oracle.style windows {}", enc_str(&w)), "ok".into(), desc.into(), has_term);
            // windows_only_terminators: the converter's output has the line contents of its input
            o.push("oracle", "nl.lines(windows)", format!("nl.lines {}", e), lines_enc(&w), desc.into(), has_term);
        }
        // append_newline + format_lines' truncation
        let fin = guard(|| hr::format_lines(&hn::append_newline(t), &[], &self.default).0);
        o.push("corr", "nl.finalize", format!("nl.finalize {}", e), p_str(fin.clone()), desc.into(), t.ends_with('\n') || t.ends_with('\r'));
        let tr = guard(|| hr::format_lines(t, &[], &self.default).0);
        o.push("corr", "nl.truncate", format!("nl.truncate {}", e), p_str(tr.clone()), desc.into(), tr.as_ref().map(|x| x.len() != t.len()).unwrap_or(true));
        // newline_count is observable through the truncation once it is >= 2
        let t2 = format!("{}\n\n", t);
        if let Some(x) = guard(|| hr::format_lines(&t2, &[], &self.default).0) {
            o.push("corr", "nl.newline_count", format!("nl.newline_count {}", enc_str(&t2)), (t2.len() - x.len() + 1).to_string(), desc.into(), has_term);
        }
        // exactly_one_final_newline: no \r in the buffer, at least one char other than \n
        if let Some(f) = &fin {
            if !has_cr && t.chars().any(|c| c != '\n') && !starts_with_blank_line(f) {
                o.push("oracle", "nl.oracle.final", format!("nl.oracle.final {}", enc_str(f)), "ok".into(), desc.into(), t.ends_with('\n'));
            } else {
                o.count("final:hypothesis-of-exactly_one_final_newline-excluded");
            }
        }
    }

    /// CharClasses (both transcriptions) and remove_trailing_white_spaces on one text
    fn classes(&self, o: &mut Outcome, t: &str, desc: &str) {
        let e = enc_str(t);
        let k = hc::char_classes(t);
        o.push("corr", "nl.classify", format!("nl.classify {}", e), dash(nl_letters(&k)), desc.into(), t.len() > 1);
        if desc != "exhaustive6" {
            // the other transcription (C07's model); its own check covers length 6
            o.push("corr", "cc.classes", format!("cc.classes {}", e), dash(k.clone()), desc.into(), t.len() > 1);
        }
        let r = guard(|| hn::remove_trailing_white_spaces(t));
        o.push("corr", "nl.rtw", format!("nl.rtw {}", e), p_str(r.clone()), desc.into(), r.as_ref().map(|x| x.len() != t.len()).unwrap_or(true));
        if let Some(r) = r {
            // removeTrailingWhitespace_no_trailing_blank_plain: no \n of the text inside a string literal
            let nl_in_string = t.chars().zip(k.chars()).any(|(c, k)| c == '\n' && k == 'I');
            if !nl_in_string {
                o.push("oracle", "nl.oracle.notrailing", format!("nl.oracle.notrailing {}", enc_str(&r)), "ok".into(), desc.into(), r.len() != t.len());
            } else {
                o.count("rtw:newline-inside-string(hypothesis excluded)");
            }
            // removeTrailingWhitespace_idem_no_quote_partial
            if !t.contains('\'') {
                o.direct_evals += 1;
                if hn::remove_trailing_white_spaces(&r) != r {
                    o.direct_failures.push(json!({"sig": "c08:rtw-not-idempotent-without-quote", "what": "remove_trailing_white_spaces is not idempotent on a text without `'`", "text": t}));
                }
            }
        }
    }

    /// push_vertical_spaces on a buffer text
    fn vspaces(&self, o: &mut Outcome, buf: &str, n: usize, lower: usize, upper: usize, cfg: &Config, desc: &str) {
        let off = buf.chars().rev().take_while(|c| *c == '\n').count();
        match guard(|| hn::push_vertical_spaces(buf, n, cfg)) {
            Some((b2, ln)) => {
                o.push("corr", "nl.pvs", format!("nl.pvs {} {} {} {}", enc_str(buf), n, lower, upper), format!("{}:{}", enc_str(&b2), ln), desc.into(), b2.len() != buf.len());
                if !b2.starts_with(buf) {
                    o.direct_failures.push(json!({"sig": "c08:push_vertical_spaces-rewrote-buffer", "what": "push_vertical_spaces changed what was already in the buffer", "buffer": buf}));
                }
                let run = b2.chars().rev().take_while(|c| *c == '\n').count();
                o.direct_evals += 1;
                // clamp_bounds (hypothesis lower <= upper)
                if lower <= upper && !(run >= lower + 1 && run <= off.max(upper + 1)) {
                    o.direct_failures.push(json!({"sig": "c08:clamp-out-of-bounds", "what": format!("push_vertical_spaces: run of {} newlines with offset {} request {} lower {} upper {}", run, off, n, lower, upper), "buffer": buf}));
                }
            }
            None => o.push("corr", "nl.pvs", format!("nl.pvs {} {} {} {}", enc_str(buf), n, lower, upper), "panic".into(), desc.into(), true),
        }
    }

    fn trailing_newlines(&self, o: &mut Outcome, buf: &str, desc: &str) {
        // with lower 0, upper 30 and a request of 64 the call pushes 31 - offset newlines
        if let Some((b2, _)) = guard(|| hn::push_vertical_spaces(buf, 64, &self.probe_cfg)) {
            let pushed = b2.len() - buf.len();
            if pushed <= 31 && pushed > 0 {
                o.push("corr", "nl.trailing_newlines", format!("nl.trailing_newlines {}", enc_str(buf)), (31 - pushed).to_string(), desc.into(), buf.ends_with('\n'));
            }
        }
    }
}

fn lines_enc(t: &str) -> String {
    // line contents with the terminator (`\n` or `\r\n`) removed; the piece after the last `\n` is kept
    let parts: Vec<&str> = t.split('\n').collect();
    let n = parts.len();
    let v: Vec<String> = parts.iter().enumerate().map(|(i, p)| if i + 1 < n { p.strip_suffix('\r').unwrap_or(p).to_string() } else { p.to_string() }).collect();
    enc_list(&v)
}

fn style_word(s: &str) -> &'static str {
    match s {
        "Windows" => "windows",
        _ => "unix",
    }
}

fn pmc_case(o: &mut Outcome, sn: &str, off: usize, len: usize, ls: usize, lw: Option<usize>, indent: usize, cfg: &Config, desc: &str) {
    let r = guard(|| hn::process_missing_code(sn, off, len, (ls, lw, 1), indent, cfg));
    let lws = |x: Option<usize>| x.map(|v| v.to_string()).unwrap_or_else(|| "none".into());
    let expect = match &r {
        Some((pushed, (ls2, lw2, _))) => format!("{}:{}:{}", enc_str(pushed), ls2, lws(*lw2)),
        None => "panic".into(),
    };
    o.count(if r.is_some() { "pmc:returned" } else { "pmc:panic" });
    let nontrivial = r.as_ref().map(|x| !x.0.is_empty()).unwrap_or(false);
    o.push("corr", "nl.pmc", format!("nl.pmc {} {} {} {} {} {}", enc_str(sn), off, len, ls, lws(lw), enc_str(&" ".repeat(indent))), expect, desc.into(), nontrivial);
}

// ------------------------------------------------------------------------------------------------
// e2e inputs

/// LF-normalised text without a bare CR, or None
fn normalise(src: &str) -> Option<String> {
    let t = src.replace("\r\n", "\n");
    if t.contains('\r') { None } else { Some(t) }
}

fn blank_line(rng: &mut Rng) -> &'static str {
    match rng.below(6) {
        0 => "  ",
        1 => "\t",
        2 => " \t ",
        _ => "",
    }
}

/// Re-terminates an LF text (0: LF, 1: CRLF, 2: mixed, per line), adds 0-6 blank lines in front, at the
/// end and at up to three interior line boundaries, optionally turns leading runs of 4 spaces into tabs.
fn redress(src: &str, rng: &mut Rng, term: usize, tabs: bool) -> String {
    let mut lines: Vec<String> = src.split('\n').map(|s| s.to_string()).collect();
    let had_final = lines.last().map(|l| l.is_empty()).unwrap_or(false);
    if had_final {
        lines.pop();
    }
    if tabs {
        for l in lines.iter_mut() {
            let lead = l.len() - l.trim_start_matches(' ').len();
            if lead >= 4 {
                *l = format!("{}{}{}", "\t".repeat(lead / 4), " ".repeat(lead % 4), &l[lead..]);
            }
        }
    }
    let mut out: Vec<String> = vec![];
    for _ in 0..rng.below(7) {
        out.push(blank_line(rng).to_string());
    }
    let mut spots = vec![];
    if lines.len() > 2 {
        for _ in 0..rng.below(4) {
            spots.push(rng.range(1, lines.len() - 1));
        }
    }
    for (i, l) in lines.iter().enumerate() {
        if spots.contains(&i) {
            for _ in 0..rng.range(1, 6) {
                out.push(blank_line(rng).to_string());
            }
        }
        out.push(l.clone());
    }
    let trailing = if rng.chance(1, 2) { rng.below(7) } else { 0 };
    for _ in 0..trailing {
        out.push(blank_line(rng).to_string());
    }
    let mut s = String::new();
    let n = out.len();
    for (i, l) in out.iter().enumerate() {
        s.push_str(l);
        if i + 1 < n || had_final || rng.chance(3, 4) {
            s.push_str(match term {
                0 => "\n",
                1 => "\r\n",
                _ => if rng.chance(1, 2) { "\n" } else { "\r\n" },
            });
        }
    }
    s
}

/// The shape of known finding F17c: blank line(s) at the start of the file and blanks in front of the
/// first token on its own line.
fn f17c_shape(s: &str) -> bool {
    let w = &s[..s.len() - s.trim_start().len()];
    w.contains('\n') && !w.ends_with('\n')
}

const SMALL_PIECES: &[&str] = &["fn f() {}", "// c", "/* c */", "\n", " ", "\t", "#[rustfmt::skip]\n", "struct S;", "mod m {", "}", "#![a]", "//! d", "/// e\n", "\r\n"];

fn first_terminator_is_crlf(s: &str) -> Option<bool> {
    s.find('\n').map(|p| p > 0 && s.as_bytes()[p - 1] == b'\r')
}

/// A program built from one-line items / statements / list elements with marker names and 0-6 blank
/// lines at every boundary. List elements (fields, variants, arms, arguments and comments between them)
/// carry markers starting with `l`/`L`; everything else is an item or a statement.
fn blank_program(rng: &mut Rng, trailing_comment_ok: bool) -> String {
    let mut s = String::new();
    let mut id = 0usize;
    let mut gap = |s: &mut String, rng: &mut Rng| {
        s.push('\n');
        let k = match rng.below(4) { 0 => 0, 1 => 1, _ => rng.below(7) };
        for _ in 0..k {
            s.push_str(blank_line(rng));
            s.push('\n');
        }
    };
    fn stmts(s: &mut String, rng: &mut Rng, id: &mut usize, depth: usize, tc: bool, gap: &mut dyn FnMut(&mut String, &mut Rng)) {
        let n = rng.range(1, 5);
        for k in 0..n {
            *id += 1;
            let mut kind = rng.below(if depth < 2 { 8 } else { 6 });
            if !tc && k + 1 == n && (kind == 2 || kind == 3) {
                kind = 1;
            }
            match kind {
                0 => s.push_str(&format!("let s{} = {};", id, id)),
                1 => s.push_str(&format!("s{}();", id)),
                2 => s.push_str(&format!("// s{}", id)),
                3 => s.push_str(&format!("/* s{} */", id)),
                4 => s.push_str(&format!("if s{} {{}}", id)),
                5 => s.push_str(&format!("let s{}: u8 = s{}.t{}();", id, id, id)),
                6 => {
                    s.push_str(&format!("match s{} {{", id));
                    gap(s, rng);
                    for k in 0..rng.range(1, 4) {
                        *id += 1;
                        // (a match holding nothing but comments is copied verbatim: not generated)
                        if k > 0 && rng.chance(1, 4) {
                            s.push_str(&format!("// lc{}", id));
                        } else {
                            s.push_str(&format!("{} => la{}(),", id, id));
                        }
                        gap(s, rng);
                    }
                    s.push('}');
                }
                _ => {
                    s.push_str(&format!("s{}(", id));
                    gap(s, rng);
                    for _ in 0..rng.range(1, 4) {
                        *id += 1;
                        // (short enough to fit at every width used: a statement that cannot be fitted is
                        // copied verbatim with its blank lines, known finding F17d)
                        s.push_str(&format!("lg{}_{},", id, "x".repeat(rng.below(20))));
                        gap(s, rng);
                    }
                    s.push_str(");");
                }
            }
            gap(s, rng);
        }
    }
    fn items(s: &mut String, rng: &mut Rng, id: &mut usize, depth: usize, tc: bool, gap: &mut dyn FnMut(&mut String, &mut Rng)) {
        let n = rng.range(1, if depth == 0 { 7 } else { 3 });
        for k in 0..n {
            *id += 1;
            let mut kind = rng.below(if depth < 2 { 15 } else { 9 });
            if !tc && depth > 0 && k + 1 == n && (kind == 5 || kind == 6) {
                kind = 0;
            }
            match kind {
                0 => s.push_str(&format!("fn i{}() {{}}", id)),
                1 => s.push_str(&format!("struct I{};", id)),
                2 => s.push_str(&format!("const I{}: u8 = 0;", id)),
                3 => s.push_str(&format!("static I{}: u8 = 0;", id)),
                4 => s.push_str(&format!("type I{} = u8;", id)),
                5 => s.push_str(&format!("// i{}", id)),
                6 => s.push_str(&format!("/* i{} */", id)),
                7 => s.push_str(&format!("use i{};", id)),
                8 => s.push_str(&format!("mod i{} {{}}", id)),
                9 => {
                    s.push_str(&format!("fn i{}() {{", id));
                    gap(s, rng);
                    stmts(s, rng, id, depth + 1, tc, gap);
                    s.push('}');
                }
                10 => {
                    s.push_str(&format!("struct I{} {{", id));
                    gap(s, rng);
                    for k in 0..rng.range(1, 4) {
                        *id += 1;
                        if k > 0 && rng.chance(1, 4) {
                            s.push_str(&format!("// lc{}", id));
                        } else {
                            s.push_str(&format!("lf{}: u8,", id));
                        }
                        gap(s, rng);
                    }
                    s.push('}');
                }
                11 => {
                    s.push_str(&format!("enum I{} {{", id));
                    gap(s, rng);
                    for _ in 0..rng.range(1, 4) {
                        *id += 1;
                        s.push_str(&format!("Lv{},", id));
                        gap(s, rng);
                    }
                    s.push('}');
                }
                12 => {
                    s.push_str(&format!("mod i{} {{", id));
                    gap(s, rng);
                    items(s, rng, id, depth + 1, tc, gap);
                    s.push('}');
                }
                13 => {
                    s.push_str(&format!("impl I{} {{", id));
                    gap(s, rng);
                    for _ in 0..rng.range(1, 3) {
                        *id += 1;
                        if rng.chance(1, 2) {
                            s.push_str(&format!("fn i{}() {{}}", id));
                        } else {
                            s.push_str(&format!("fn i{}() {{", id));
                            gap(s, rng);
                            stmts(s, rng, id, depth + 2, tc, gap);
                            s.push('}');
                        }
                        gap(s, rng);
                    }
                    s.push('}');
                }
                _ => {
                    s.push_str(&format!("trait I{} {{", id));
                    gap(s, rng);
                    for _ in 0..rng.range(1, 3) {
                        *id += 1;
                        s.push_str(&format!("fn i{}();", id));
                        gap(s, rng);
                    }
                    s.push('}');
                }
            }
            gap(s, rng);
        }
    }
    // leading blank lines
    for _ in 0..rng.below(4) {
        s.push_str(blank_line(rng));
        s.push('\n');
    }
    items(&mut s, rng, &mut id, 0, trailing_comment_ok, &mut gap);
    s
}

fn is_list_line(l: &str) -> bool {
    // the line *starts* with a list-element marker: lf<n> lg<n> lc<n> Lv<n>, `// lc<n>`, or `<n> => la<n>`
    let t = l.trim();
    let t = t.strip_prefix("// ").unwrap_or(t);
    let b = t.as_bytes();
    if b.len() >= 3 && ((b[0] == b'l' && matches!(b[1], b'f' | b'g' | b'c')) || (b[0] == b'L' && b[1] == b'v')) && b[2].is_ascii_digit() {
        return true;
    }
    let digits = b.iter().take_while(|c| c.is_ascii_digit()).count();
    digits > 0 && t[digits..].starts_with(" => la")
}

/// (1-based line of the first blank line of the run, run length, bound) for every run of blank lines
/// longer than its bound
fn blank_violations(out: &str, upper: usize) -> Vec<(usize, usize, usize)> {
    let lines: Vec<&str> = out.split('\n').map(|l| l.strip_suffix('\r').unwrap_or(l)).collect();
    let mut res = vec![];
    let mut i = 0;
    let n = if lines.last().map(|l| l.is_empty()).unwrap_or(false) { lines.len() - 1 } else { lines.len() };
    while i < n {
        if lines[i].trim().is_empty() {
            let start = i;
            while i < n && lines[i].trim().is_empty() {
                i += 1;
            }
            let run = i - start;
            let prev_list = start > 0 && is_list_line(lines[start - 1]);
            let next_list = i < n && is_list_line(lines[i]);
            let bound = if prev_list || next_list { 1 } else { upper };
            if run > bound {
                res.push((start + 1, run, bound));
            }
        } else {
            i += 1;
        }
    }
    res
}

struct Inp {
    name: String,
    src: String,
    cfg: Vec<(String, String)>,
    /// Some(upper) for generated blank-line programs
    blank_upper: Option<usize>,
    hard_tabs: bool,
    has_token: bool,
}

fn rustfmt_bin() -> Option<std::path::PathBuf> {
    if let Some(p) = std::env::var_os("RUSTFMT_BIN") {
        return Some(p.into());
    }
    // <build>/target/debug/rfverif -> <build>/repo-target/debug/rustfmt (built by ./check, "needs_bins")
    let exe = std::env::current_exe().ok()?;
    let p = exe.parent()?.parent()?.parent()?.join("repo-target").join("debug").join("rustfmt");
    if p.exists() { Some(p) } else { None }
}

pub fn run(tier: &str, seed: u64, out: &Path) -> i32 {
    pool::install_panic_hook();
    let mut o = Outcome::new("C08", tier, seed);
    let thorough = tier == "thorough";
    let mut rng = Rng::new(seed ^ 0xc08);
    let ops = TextOps { default: Config::default(), probe_cfg: lower_upper(0, 30) };

    // ---- 1. exhaustive texts -------------------------------------------------------------------
    let texts = all_strings(ALPHA, 5);
    for t in &texts {
        ops.terminators(&mut o, t, "exhaustive");
        ops.classes(&mut o, t, "exhaustive");
    }
    o.count_n("texts:exhaustive(10 letters, len<=5)", texts.len() as u64);
    if thorough {
        // the classifier and the blank remover see all ten letters; the converters see only \r, \n, other
        let t6 = all_strings(ALPHA, 6);
        for t in t6.iter().filter(|t| t.chars().count() == 6) {
            ops.classes(&mut o, t, "exhaustive6");
        }
        o.count_n("texts:exhaustive(10 letters, len=6, classifier and blank remover)", (t6.len() - texts.len()) as u64);
    }
    let tn = all_strings(ALPHA_NL, if thorough { 8 } else { 7 });
    for t in tn.iter().filter(|t| t.chars().count() > 5 || t.contains('é')) {
        ops.terminators(&mut o, t, "exhaustive-nl");
    }
    o.count_n("texts:exhaustive(a CR LF é)", tn.len() as u64);
    // push_vertical_spaces on buffer texts
    let bufs = all_strings(&['a', '\n', '\r', ' '], 6);
    for (i, b) in bufs.iter().enumerate() {
        let (lower, upper) = [(0, 1), (0, 0), (1, 1), (0, 3), (1, 2), (2, 3), (3, 3), (0, 2)][i % 8];
        let cfg = lower_upper(lower, upper);
        ops.vspaces(&mut o, b, (i / 8) % 7, lower, upper, &cfg, "exhaustive-buffer");
        ops.trailing_newlines(&mut o, b, "exhaustive-buffer");
    }
    // ---- 2. the clamp over the whole small numeric domain ---------------------------------------
    for lower in 0..=3usize {
        for upper in 0..=3usize {
            let cfg = lower_upper(lower, upper);
            for off in 0..=6usize {
                for n in 0..=6usize {
                    for prefix in ["x", ""] {
                        let buf = format!("{}{}", prefix, "\n".repeat(off));
                        if let Some((b2, ln)) = guard(|| hn::push_vertical_spaces(&buf, n, &cfg)) {
                            let pushed = b2.len() - buf.len();
                            let run = b2.chars().rev().take_while(|c| *c == '\n').count();
                            o.push("corr", "nl.vspaces", format!("nl.vspaces {} {} {} {}", off, n, lower, upper), pushed.to_string(), format!("prefix={:?}", prefix), true);
                            o.push("corr", "nl.clamp", format!("nl.clamp {} {} {} {}", off, n, lower, upper), run.to_string(), format!("prefix={:?}", prefix), true);
                            o.direct_evals += 1;
                            if ln != b2.matches('\n').count() {
                                o.direct_failures.push(json!({"sig": "c08:line_number-out-of-step", "what": "line_number differs from the number of newlines in the buffer after push_vertical_spaces", "buffer": buf}));
                            }
                            if lower <= upper {
                                ops.vspaces(&mut o, &buf, n, lower, upper, &cfg, "numeric-domain");
                            }
                            o.count(if lower <= upper { "clamp:lower<=upper" } else { "clamp:lower>upper(F17 domain; corr only)" });
                        }
                    }
                }
            }
        }
    }
    for _ in 0..(if thorough { 5000 } else { 500 }) {
        let (lower, upper) = (rng.below(40), rng.below(40));
        let (off, n) = (rng.below(60), rng.below(60));
        let cfg = lower_upper(lower, upper);
        let buf = format!("y{}", "\n".repeat(off));
        if let Some((b2, _)) = guard(|| hn::push_vertical_spaces(&buf, n, &cfg)) {
            o.push("corr", "nl.vspaces", format!("nl.vspaces {} {} {} {}", off, n, lower, upper), (b2.len() - buf.len()).to_string(), "random".into(), true);
        }
    }
    // ---- 3. apply_newline_style: (style, formatted, raw) -----------------------------------------
    let styles = [("auto", NewlineStyle::Auto), ("native", NewlineStyle::Native), ("unix", NewlineStyle::Unix), ("windows", NewlineStyle::Windows)];
    let small = all_strings(&['a', '\r', '\n'], 4);
    let raws = all_strings(&['a', '\r', '\n'], 3);
    for f in &small {
        for r in &raws {
            for (w, st) in styles.iter() {
                let res = hn::apply_newline_style(*st, f, r);
                o.push("corr", "nl.apply", format!("nl.apply {} {} {}", w, enc_str(f), enc_str(r)), enc_str(&res), "exhaustive".into(), f.contains('\n'));
            }
        }
    }
    // ---- 4. random texts: LF / CRLF / CR-heavy / mixed -----------------------------------------
    for i in 0..(if thorough { 40000 } else { 4000 }) {
        let fam = i % 4;
        let t = random_text(&mut rng, fam);
        let desc = ["random-lf", "random-crlf", "random-cr-heavy", "random-mixed"][fam];
        ops.terminators(&mut o, &t, desc);
        ops.classes(&mut o, &t, desc);
        let (w, st) = styles[rng.below(4)];
        let raw_fam = rng.below(4);
        let raw = random_text(&mut rng, raw_fam);
        let res = hn::apply_newline_style(st, &t, &raw);
        o.push("corr", "nl.apply", format!("nl.apply {} {} {}", w, enc_str(&t), enc_str(&raw)), enc_str(&res), desc.into(), t.contains('\n'));
        if i % 8 == 0 {
            let (lower, upper) = (rng.below(4), rng.below(4));
            let (lower, upper) = (lower.min(upper), lower.max(upper));
            ops.vspaces(&mut o, &t, rng.below(8), lower, upper, &lower_upper(lower, upper), desc);
            ops.trailing_newlines(&mut o, &t, desc);
        }
        o.count(&format!("texts:{}", desc));
    }
    // fixture files: the classifier and the blank remover on real code
    let progs = corpus::programs(&["tests/target", "tests/source"]);
    for p in progs.iter().filter(|p| p.src.len() < 20000).take(if thorough { 2000 } else { 120 }) {
        ops.classes(&mut o, &p.src, &p.name);
        ops.terminators(&mut o, &p.src, &p.name);
    }
    // ---- 5. process_missing_code -----------------------------------------------------------------
    {
        let cfg = Config::default();
        let sn_all = all_strings(&['a', ' ', '\n', '\t'], if thorough { 5 } else { 4 });
        let mut cases = vec![];
        for sn in &sn_all {
            let l = sn.len();
            for off in 0..=l {
                for len in 0..=(l - off) {
                    for ls in 0..=off {
                        cases.push((sn.clone(), off, len, ls, None));
                        if off > ls {
                            cases.push((sn.clone(), off, len, ls, Some(ls + (off - ls) / 2)));
                            cases.push((sn.clone(), off, len, ls, Some(off - 1)));
                        }
                    }
                }
            }
        }
        // inputs outside the caller's invariants (slice panics) and a non-zero indent
        for sn in sn_all.iter().filter(|s| s.len() <= 3) {
            let l = sn.len();
            cases.push((sn.clone(), 0, l + 1, 0, None));
            cases.push((sn.clone(), l, 0, l + 1, None));
            cases.push((sn.clone(), 0, l, 0, Some(l + 2)));
        }
        o.count_n("pmc:cases", cases.len() as u64);
        for (i, (sn, off, len, ls, lw)) in cases.iter().enumerate() {
            pmc_case(&mut o, sn, *off, *len, *ls, *lw, if i % 3 == 0 { 4 } else { 0 }, &cfg, "exhaustive");
        }
        // enumerated: a trailing run of blanks is stripped only when it has exactly one blank
        for sn in ["b \n", "b  \n", "b   \n", "b    \n", "b\t \n"] {
            pmc_case(&mut o, sn, 0, sn.len(), 0, None, 0, &cfg, "enumerated: trailing run of 1/2/3/4 blanks (processMissingCode_strip_counterexample)");
        }
    }
    // ---- 6. Indent::to_string* / Shape::to_string_with_newline ------------------------------------
    shape_corr::indent_string_cases(&mut o, &mut rng, thorough);
    crate::missed_corr::cases_c08(&mut o, &mut rng, thorough);
    // enumerated model-vs-code cases named by the theorems' counterexamples
    {
        let t = "' \n'\"'\" \n";
        let r1 = hn::remove_trailing_white_spaces(t);
        let r2 = hn::remove_trailing_white_spaces(&r1);
        o.push("corr", "nl.rtw", format!("nl.rtw {}", enc_str(t)), enc_str(&r1), "enumerated: removeTrailingWhitespace_idem_counterexample".into(), true);
        o.push("corr", "nl.rtw", format!("nl.rtw {}", enc_str(&r1)), enc_str(&r2), "enumerated: removeTrailingWhitespace_idem_counterexample (second pass)".into(), true);
        o.push("corr", "nl.oracle.rtwstable", format!("nl.oracle.rtwstable {}", enc_str(t)), if r1 == r2 { "ok" } else { "bad" }.into(), "enumerated: the hypothesis of the idempotence theorem fails exactly where the code is not idempotent".into(), true);
        o.notes.push(format!("remove_trailing_white_spaces is not idempotent on {:?}: first pass {:?}, second pass {:?} (model agrees; not lexable Rust, so no formatter run reaches it)", t, r1, r2));
        let b = "x\n\r";
        let f = hr::format_lines(&hn::append_newline(b), &[], &ops.default).0;
        o.push("corr", "nl.finalize", format!("nl.finalize {}", enc_str(b)), enc_str(&f), "enumerated: exactly_one_final_newline_counterexample".into(), true);
        o.notes.push(format!("format_lines counts `\\n` ignoring `\\r` but truncates bytes: the buffer {:?} is finalised to {:?} (model agrees). No formatter run was found that leaves `\\n\\r` at the end of the buffer: trailing blanks of the last item are trimmed before append_newline (searched: see distribution e2e:final:*)", b, f));
    }

    // ---- 7. the real formatter --------------------------------------------------------------------
    let mut inputs: Vec<Inp> = vec![];
    let widths: &[usize] = if thorough { WIDTHS_QUICK } else { &[50, 60, 80, 100, 137, 200] };
    let mut fixtures: Vec<&corpus::Program> = progs.iter().filter(|p| p.src.len() < 30000 && !p.src.trim().is_empty()).collect();
    // a different slice of the corpus per seed in quick; everything in thorough
    let n_fix = if thorough { fixtures.len() } else { 260 };
    for i in (1..fixtures.len()).rev() {
        let j = rng.below(i + 1);
        fixtures.swap(i, j);
    }
    let variants = if thorough { 4 } else { 1 };
    for p in fixtures.iter().take(n_fix).flat_map(|p| std::iter::repeat(p).take(variants)) {
        let lf = match normalise(&p.src) {
            Some(t) => t,
            None => { o.count("e2e:input-with-bare-CR(excluded: F5b family)"); continue; }
        };
        let term = rng.below(3);
        let tabs = rng.chance(1, 3);
        let src = redress(&lf, &mut rng, term, tabs);
        let upper = rng.below(4);
        let lower = rng.below(upper + 1);
        let hard_tabs = rng.chance(1, 2);
        let mut cfg: Vec<(String, String)> = p.cfg.iter().filter(|(k, _)| k != "newline_style").cloned().collect();
        cfg = merge_cfg(&cfg, &[
            ("blank_lines_upper_bound".into(), upper.to_string()),
            ("blank_lines_lower_bound".into(), lower.to_string()),
            ("tab_spaces".into(), rng.range(1, 8).to_string()),
            ("hard_tabs".into(), hard_tabs.to_string()),
        ]);
        if rng.chance(1, 2) {
            cfg = merge_cfg(&cfg, &[("max_width".into(), rng.pick(widths).to_string())]);
        }
        if f17c_shape(&src) {
            o.count("e2e:input-excluded(blank lines then an indented first token: F17c family)");
            continue;
        }
        o.count(["e2e:input:LF", "e2e:input:CRLF", "e2e:input:mixed"][term]);
        let has_token = lex(&src).iter().any(|t| t.class != TokClass::Ws);
        inputs.push(Inp { name: p.name.clone(), src, cfg, blank_upper: None, hard_tabs, has_token });
    }
    // every sequence of at most 3 (quick) / 4 (thorough) small pieces: tiny files where the first and the
    // last thing is an item, a comment, an attribute, a skipped item, a brace or white space
    {
        let maxlen = if thorough { 4 } else { 3 };
        let mut seqs: Vec<String> = vec![String::new()];
        let mut lo = 0;
        for _ in 0..maxlen {
            let hi = seqs.len();
            for i in lo..hi {
                for p in SMALL_PIECES {
                    seqs.push(format!("{}{}", seqs[i], p));
                }
            }
            lo = hi;
        }
        for (k, src) in seqs.into_iter().enumerate().skip(1) {
            if f17c_shape(&src) {
                o.count("e2e:input-excluded(blank lines then an indented first token: F17c family)");
                continue;
            }
            let has_token = lex(&src).iter().any(|t| t.class != TokClass::Ws);
            if !has_token {
                continue;
            }
            o.count("e2e:input:small-pieces");
            inputs.push(Inp { name: format!("pieces{}", k), src, cfg: vec![], blank_upper: None, hard_tabs: false, has_token });
        }
    }
    for k in 0..(if thorough { 30000 } else { 700 }) {
        let upper = rng.below(4);
        // a comment that is the last thing inside braces keeps one blank line above it whatever the
        // bound (close_block; known finding F17b): with upper = 0 the generator leaves that shape out
        let lf = blank_program(&mut rng, upper >= 1);
        let term = rng.below(3);
        let tabs = rng.chance(1, 3);
        let src = redress(&lf, &mut rng, term, tabs);
        let lower = rng.below(upper + 1);
        let hard_tabs = rng.chance(1, 2);
        let cfg: Vec<(String, String)> = vec![
            ("blank_lines_upper_bound".into(), upper.to_string()),
            ("blank_lines_lower_bound".into(), lower.to_string()),
            ("tab_spaces".into(), rng.range(1, 8).to_string()),
            ("hard_tabs".into(), hard_tabs.to_string()),
            ("max_width".into(), rng.pick(&[60usize, 80, 100, 137, 200]).to_string()),
        ];
        if f17c_shape(&src) {
            o.count("e2e:input-excluded(blank lines then an indented first token: F17c family)");
            continue;
        }
        o.count(["e2e:input:LF", "e2e:input:CRLF", "e2e:input:mixed"][term]);
        inputs.push(Inp { name: format!("blank{}", k), src, cfg, blank_upper: Some(upper), hard_tabs, has_token: true });
    }
    // verbatim copies with their own terminators: a skipped item (first in the file, or after other items) whose lines end in
    // CR CR LF (rustc's source map leaves CR LF of it, which lands in a buffer whose other lines end in LF), the rest of the file LF
    // or CRLF: every emitted terminator must still be in the requested style
    for k in 0..(if thorough { 400 } else { 80 }) {
        let inner = ["\r\r\n", "\r\n", "\n"][rng.below(2)];
        let outer = if rng.chance(1, 3) { "\r\n" } else { "\n" };
        let skipped = format!("#[rustfmt::skip]{t}fn  s{k}( ) {{{t}    let x  =  1;{t}    let  y = 2 ;{t}}}{t}", t = inner, k = k);
        let plain = |i: usize| format!("fn  p{i}( a:u32 ) {{{t}let z=a;{t}}}{t}", i = i, t = outer);
        let mut src = String::new();
        let first = rng.chance(1, 2);
        if first {
            src.push_str(&skipped);
        }
        for i in 0..rng.range(1, 3) {
            src.push_str(&plain(i));
        }
        if !first || rng.chance(1, 2) {
            src.push_str(&skipped.replace(&format!("s{}", k), &format!("t{}", k)));
            src.push_str(&plain(9));
        }
        inputs.push(Inp { name: format!("verbatim-terminators{}", k), src, cfg: vec![], blank_upper: None, hard_tabs: false, has_token: true });
        o.count("e2e:input:verbatim-copy-with-CR-CR-LF");
    }
    // jobs: every input under Unix and Windows, plus Native or (first terminator LF only) Auto
    let mut jobs: Vec<Job> = vec![];
    let mut meta: Vec<(usize, &'static str)> = vec![];
    for (i, inp) in inputs.iter().enumerate() {
        for st in ["Unix", "Windows"] {
            jobs.push(Job { src: inp.src.clone(), cfg: merge_cfg(&inp.cfg, &[("newline_style".into(), st.into())]), file_lines: None });
            meta.push((i, st));
        }
        let third = match first_terminator_is_crlf(&inp.src) {
            Some(true) => { o.count("e2e:auto-skipped(first terminator CRLF: F5a family)"); "Native" }
            _ => if rng.chance(2, 3) { "Auto" } else { "Native" },
        };
        jobs.push(Job { src: inp.src.clone(), cfg: merge_cfg(&inp.cfg, &[("newline_style".into(), third.into())]), file_lines: None });
        meta.push((i, third));
    }
    let res = pool::run_jobs(&jobs, crate::util::jobs(), Duration::from_secs(if thorough { 30 } else { 10 }));
    let usable = |r: &pool::FmtOut| r.status == Status::Ok && !r.flags[1] && !r.out.is_empty();
    let mut indent_reqs: Vec<String> = vec![];
    let mut indent_meta: Vec<usize> = vec![];
    let mut distinct_e2e = HashSet::new();
    for (j, ((i, st), r)) in meta.iter().zip(res.iter()).enumerate() {
        let inp = &inputs[*i];
        match &r.status {
            Status::Timeout => { o.count("e2e:timeout"); continue; }
            Status::Ok => {}
            _ => { o.count("e2e:not-ok(error, panic: C16's business)"); continue; }
        }
        if !usable(r) {
            o.count(if r.flags[1] { "e2e:parse-error" } else { "e2e:no-output(skipped file)" });
            continue;
        }
        o.count(&format!("e2e:formatted:{}", st));
        if inp.blank_upper.is_none() && !inp.name.starts_with("pieces") && r.out.len() > 200 {
            o.sample(json!({"kind": "e2e", "program": inp.name, "config": cfg_text(&jobs[j].cfg), "src_bytes": inp.src.len(), "src_first_terminator_crlf": first_terminator_is_crlf(&inp.src), "out_bytes": r.out.len(), "out_lines": r.out.matches('\n').count(), "out_crlf": r.out.matches("\r\n").count()}));
        }
        distinct_e2e.insert((*i, *st));
        let desc = format!("{} [{}]", inp.name, cfg_text(&jobs[j].cfg));
        let eo = enc_str(&r.out);
        // final terminator / first line
        if inp.has_token {
            o.push("oracle", "nl.oracle.final(e2e)", format!("nl.oracle.final {}", eo), "ok".into(), format!("{} src={}", desc, enc_str(&inp.src)), true);
            o.count(if inp.src.ends_with("\n\n") || inp.src.ends_with("\n\r\n") || !inp.src.ends_with('\n') || starts_with_blank_line(&inp.src) { "e2e:final:input-needs-repair" } else { "e2e:final:input-already-fine" });
        } else {
            o.count("e2e:final:no-token(property silent)");
        }
        // terminator style
        let want = match *st {
            "Auto" => if first_terminator_is_crlf(&inp.src) == Some(true) { "windows" } else { "unix" },
            x => style_word(x),
        };
        o.push("oracle", &format!("nl.oracle.style(e2e:{})", st), format!("nl.oracle.style {} {}", want, eo), "ok".into(), format!("{} src={}", desc, enc_str(&inp.src)), r.out.matches('\n').count() > 1);
        // Unix vs Windows: nothing but the terminators differs
        if *st == "Windows" {
            let ru = &res[j - 1];
            if usable(ru) && !ru.out.contains('\r') {
                let parts: Vec<&str> = ru.out.split('\n').collect();
                o.push("oracle", "nl.lines(e2e:windows-vs-unix)", format!("nl.lines {}", eo), enc_list(&parts), format!("{} src={}", desc, enc_str(&inp.src)), true);
            }
        }
        // indentation alphabet (answered by the model now: the verbatim-copy exemption needs the lines)
        if *st != "Windows" {
            indent_reqs.push(format!("nl.oracle.indent {} {}", inp.hard_tabs as u8, eo));
            indent_meta.push(j);
        }
        // blank-line bounds
        if let Some(upper) = inp.blank_upper {
            o.direct_evals += 1;
            let v = blank_violations(&r.out, upper);
            let runs = r.out.split('\n').filter(|l| l.trim().is_empty()).count();
            o.count(if runs > 1 { "e2e:blank:output-has-blank-lines" } else { "e2e:blank:output-without-blank-lines" });
            if let Some((line, run, bound)) = v.first() {
                o.direct_failures.push(json!({"sig": "c08:blank-lines-above-bound", "what": format!("{} blank lines at output line {} where at most {} are allowed", run, line, bound), "config": cfg_text(&jobs[j].cfg), "src": inp.src, "out": r.out}));
            }
        }
    }
    // the indentation oracle
    let answers = run_model(&indent_reqs, crate::util::jobs());
    for ((req, a), j) in indent_reqs.iter().zip(answers.iter()).zip(indent_meta.iter()) {
        let inp = &inputs[meta[*j].0];
        let r = &res[*j];
        o.direct_evals += 1;
        if a == "ok" {
            o.count(if inp.hard_tabs { "e2e:indent:ok(hard_tabs)" } else { "e2e:indent:ok(spaces)" });
            continue;
        }
        let bad: Vec<usize> = a.strip_prefix("bad:").map(|s| s.split(',').filter_map(|x| x.parse().ok()).collect()).unwrap_or_default();
        if bad.is_empty() {
            o.direct_failures.push(json!({"sig": "c08:indent-oracle-no-answer", "what": format!("model answered {:?}", a), "request": req}));
            continue;
        }
        // exemption: a line copied from the input (skipped code, macro bodies, code rustfmt gave up on):
        // its leading blanks and the word after them (or, for a line of blanks, the whole line) start a
        // line of the input. Copies lose trailing blanks and may gain a re-spaced trailing comment.
        let src_lines: Vec<&str> = inp.src.split('\n').map(|l| l.strip_suffix('\r').unwrap_or(l)).collect();
        let out_lines: Vec<&str> = r.out.split('\n').map(|l| l.strip_suffix('\r').unwrap_or(l)).collect();
        let copied = |l: &str| -> bool {
            let lead = l.len() - l.trim_start().len();
            let word: String = l[lead..].chars().take_while(|c| !c.is_whitespace()).take(12).collect();
            let key = format!("{}{}", &l[..lead], word);
            src_lines.iter().any(|sl| sl.starts_with(&key) && (!word.is_empty() || sl.trim().is_empty()))
        };
        let real: Vec<usize> = bad.iter().copied().filter(|l| !copied(out_lines[*l - 1])).collect();
        if real.is_empty() {
            o.count("e2e:indent:only-verbatim-lines-off-alphabet(exempt)");
        } else {
            o.direct_failures.push(json!({"sig": "c08:indentation-alphabet", "what": format!("output line {} is indented with {}", real[0], if inp.hard_tabs { "a tab after a space" } else { "a tab although hard_tabs is off" }), "line": out_lines[real[0] - 1], "config": cfg_text(&jobs[*j].cfg), "src": inp.src, "out": r.out}));
        }
    }
    o.direct_distinct += distinct_e2e.len() as u64;

    // ---- 7b. files on disk through the real binary (explicit newline_style) --------------------------
    // `write_file` compares the formatted text with the bytes ON DISK when the style is not Auto: a file whose only
    // deviation is its terminators must still be rewritten.  (Auto on CRLF input is the known finding F5a.)
    if let Some(bin) = rustfmt_bin() {
        let dir = out.join("disk");
        let _ = std::fs::remove_dir_all(&dir);
        let _ = std::fs::create_dir_all(&dir);
        let bodies: [(&str, &str); 3] = [
            ("formatted", "mod util;\n\nfn f() {\n    let x = 1;\n    // c\n}\n"),
            ("unformatted", "mod util;\nfn f() {\nlet x  =  1;\n\n\n\n// c\n}\n"),
            ("formatted-with-string", "mod util;\n\nfn f() {\n    let s = \"a\\\n        b\";\n}\n"),
        ];
        let util = "pub fn g() {\n    h();\n}\n";
        let mut k = 0usize;
        for (bname, body) in bodies.iter() {
            for term in ["lf", "crlf", "mixed"] {
                for style in ["Unix", "Windows", "Native"] {
                    k += 1;
                    let d = dir.join(format!("c{}", k));
                    let _ = std::fs::create_dir_all(&d);
                    let redo = |t: &str| -> String {
                        match term {
                            "lf" => t.to_string(),
                            "crlf" => t.replace('\n', "\r\n"),
                            _ => {
                                let mut s2 = String::new();
                                for (i, l) in t.split_inclusive('\n').enumerate() {
                                    if i % 2 == 0 { s2.push_str(&l.replace('\n', "\r\n")); } else { s2.push_str(l); }
                                }
                                s2
                            }
                        }
                    };
                    let main = redo(body);
                    let ut = redo(util);
                    let _ = std::fs::write(d.join("main.rs"), &main);
                    let _ = std::fs::write(d.join("util.rs"), &ut);
                    let r = run_cmd(Command::new(&bin).arg("--config").arg(format!("newline_style={}", style)).arg(d.join("main.rs")).env("LD_LIBRARY_PATH", toolchain_lib()), b"", Duration::from_secs(30));
                    o.direct_evals += 1;
                    o.direct_distinct += 1;
                    o.count(&format!("disk:{}:{}:{}", bname, term, style));
                    if r.code != Some(0) {
                        o.direct_failures.push(json!({"sig": "c08:disk-run-failed", "what": format!("exit {:?}: {}", r.code, r.stderr.chars().take(300).collect::<String>()), "style": style, "main": main}));
                        continue;
                    }
                    let want = if style == "Windows" { "windows" } else { "unix" };
                    for f in ["main.rs", "util.rs"] {
                        let after = std::fs::read_to_string(d.join(f)).unwrap_or_default();
                        o.push("oracle", "nl.oracle.style(file on disk)", format!("nl.oracle.style {} {}", want, enc_str(&after)), "ok".into(), format!("{} {} terminators, newline_style={}, {} after `rustfmt main.rs`", bname, term, style, f), true);
                    }
                }
            }
        }
    }

    // ---- 8. enumerated probes of known-dirty inputs -------------------------------------------------
    let one = |src: &str, cfg: &[(&str, &str)]| -> pool::FmtOut {
        let job = Job { src: src.to_string(), cfg: cfg.iter().map(|(k, v)| (k.to_string(), v.to_string())).collect(), file_lines: None };
        pool::run_jobs(&[job], 1, Duration::from_secs(10)).remove(0)
    };
    let has_lone_lf = |t: &str| { let b = t.as_bytes(); (0..b.len()).any(|i| b[i] == b'\n' && (i == 0 || b[i - 1] != b'\r')) };
    // F5a: newline_style=Auto on CRLF input
    {
        let src = "fn f() {\r\nlet x = 1;\r\n}\r\n";
        let r = one(src, &[("newline_style", "Auto")]);
        let inproc = r.status == Status::Ok && has_lone_lf(&r.out);
        let mut detail = json!({"src": src, "in_process_out": r.out});
        let mut seen = vec![format!("in-process Session (Input::Text): {}", if inproc { "LF" } else { "CRLF" })];
        let mut fails = inproc;
        match rustfmt_bin() {
            Some(bin) => {
                let so = run_cmd(Command::new(&bin).arg("--config").arg("newline_style=Auto").env("LD_LIBRARY_PATH", toolchain_lib()), src.as_bytes(), Duration::from_secs(20));
                let stdin_lf = so.code == Some(0) && has_lone_lf(&String::from_utf8_lossy(&so.stdout));
                seen.push(format!("binary, stdin: {}", if stdin_lf { "LF" } else { "CRLF" }));
                let dir = out.join("f5a");
                let _ = std::fs::create_dir_all(&dir);
                let f = dir.join("crlf.rs");
                let _ = std::fs::write(&f, src);
                let fo = run_cmd(Command::new(&bin).arg("--config").arg("newline_style=Auto").arg(&f).env("LD_LIBRARY_PATH", toolchain_lib()), b"", Duration::from_secs(20));
                let after = std::fs::read_to_string(&f).unwrap_or_default();
                let file_lf = fo.code == Some(0) && has_lone_lf(&after);
                seen.push(format!("binary, file on disk (rewritten in place): {}", if file_lf { "LF" } else { "CRLF" }));
                // an already formatted CRLF file is compared with the normalised text and left alone
                let f2 = dir.join("crlf_formatted.rs");
                let src2 = "fn f() {\r\n    let x = 1;\r\n}\r\n";
                let _ = std::fs::write(&f2, src2);
                let _ = run_cmd(Command::new(&bin).arg("--config").arg("newline_style=Auto").arg(&f2).env("LD_LIBRARY_PATH", toolchain_lib()), b"", Duration::from_secs(20));
                let after2 = std::fs::read_to_string(&f2).unwrap_or_default();
                seen.push(format!("binary, already formatted CRLF file: {}", if after2 == src2 { "untouched" } else if has_lone_lf(&after2) { "rewritten with LF" } else { "rewritten" }));
                detail["file_after"] = json!(after);
                detail["stdin_out"] = json!(String::from_utf8_lossy(&so.stdout));
                fails = fails || stdin_lf || file_lf;
            }
            None => seen.push("rustfmt binary not built: file/stdin variants not run".into()),
        }
        o.probes.push(json!({"id": "F5a", "fails": fails, "what": format!("newline_style=Auto, input with CRLF terminators that needs re-indenting; terminators of the result: {}", seen.join("; ")), "detail": detail}));
    }
    // F5b: a CRLF survives newline_style=Unix
    {
        let u = hn::convert_to_unix_newlines("a\r\r\n");
        let src = "#[rustfmt::skip]\nfn f() { let x  =  1; // c\r\r\r\n}\n";
        let r = one(src, &[("newline_style", "Unix")]);
        let e2e = r.status == Status::Ok && r.out.contains("\r\n");
        o.probes.push(json!({"id": "F5b", "fails": u.contains("\r\n") || e2e, "what": format!("convert_to_unix_newlines(\"a\\r\\r\\n\") = {:?}; a skipped fn whose line comment ends in \\r\\r\\r\\n, newline_style=Unix: output {} a CRLF", u, if e2e { "contains" } else { "does not contain" }), "detail": {"src": src, "out": r.out}}));
    }
    // F17: lower bound above upper bound
    {
        let src = "fn a() {}\n\nfn b() {}\n";
        let r = one(src, &[("blank_lines_lower_bound", "2"), ("blank_lines_upper_bound", "1")]);
        let v = if r.status == Status::Ok { blank_violations(&r.out, 1) } else { vec![] };
        o.probes.push(json!({"id": "F17", "fails": !v.is_empty(), "what": format!("blank_lines_lower_bound=2, blank_lines_upper_bound=1: {:?} (line, blank lines, bound) in the output", v), "detail": {"src": src, "out": r.out}}));
    }
    // F17b: the last comment inside braces keeps a blank line above it whatever the upper bound
    {
        let src = "fn f() {\n    let a = 1;\n\n\n    /* c */\n}\nmod m {\n\n    // d\n}\n";
        let r = one(src, &[("blank_lines_upper_bound", "0")]);
        let v = if r.status == Status::Ok { blank_violations(&r.out, 0) } else { vec![] };
        o.probes.push(json!({"id": "F17b", "fails": !v.is_empty(), "what": format!("blank_lines_upper_bound=0, a comment that is the last thing inside a fn body / a mod body: {:?} (line, blank lines, bound) in the output", v), "detail": {"src": src, "out": r.out}}));
    }
    // F17d: a statement that cannot be fitted is copied with the blank lines inside it
    {
        let src = format!("fn f() {{\n    g(\n\n\n\n        lg1,\n\n\n        lg2_{},\n    );\n}}\n", "b".repeat(60));
        let r = one(&src, &[("max_width", "40")]);
        let v = if r.status == Status::Ok { blank_violations(&r.out, 1) } else { vec![] };
        o.probes.push(json!({"id": "F17d", "fails": !v.is_empty(), "what": format!("max_width=40, a call with an argument that cannot fit and blank lines between the arguments: {:?} (line, blank lines, bound) in the output; session flags [operational, parsing, formatting, macro, check, diff, unformatted]: {:?}, diagnostics: {:?}", v, r.flags, r.entries.iter().map(|e| e.kind.clone()).collect::<Vec<_>>()), "detail": {"src": src, "out": r.out}}));
    }
    // F17c: a leading blank line survives when the first token is indented
    {
        let src = "\n fn f() {}\n";
        let r = one(src, &[]);
        let lead = r.status == Status::Ok && starts_with_blank_line(&r.out);
        o.probes.push(json!({"id": "F17c", "fails": lead, "what": format!("source {:?} (a blank line, then an indented item): the output is {:?}{}", src, r.out, if lead { ", which starts with a blank line" } else { "" }), "detail": {"src": src, "out": r.out}}));
    }
    // observation (not part of the property's statement; file_lines is C17's): process_missing_code
    // strips a trailing run of blanks from a copied line only when the run has exactly one blank
    {
        let mut seen = vec![];
        for blanks in 1..=4usize {
            let src = format!("/* a\nb{}\nc */\nfn f() {{}}\n", " ".repeat(blanks));
            let job = Job { src: src.clone(), cfg: vec![], file_lines: Some("[{\"file\":\"stdin\",\"range\":[2,2]}]".into()) };
            let r = pool::run_jobs(&[job], 1, Duration::from_secs(10)).remove(0);
            let line2 = r.out.split('\n').nth(1).unwrap_or("").to_string();
            seen.push(format!("{} -> {}", blanks, line2.len().saturating_sub(1)));
        }
        o.notes.push(format!("process_missing_code through the formatter (block comment line `b` + k blanks, file_lines = line 2 only): trailing blanks in -> out: {} (model: processMissingCode_strip_counterexample; correspondence nl.pmc agrees)", seen.join(", ")));
    }
    o.notes.push("under hard_tabs Indent::to_string emits block_indent / tab_spaces tabs and drops block_indent % tab_spaces columns (block_indent is a multiple of tab_spaces wherever the visitor builds it); modelled literally, theorem indent_visual_width states the loss".into());
    o.notes.push("non-trivial: converters - the text has a terminator or CR; classifier - length > 1; blank remover/truncation - the result is shorter than the input; push_vertical_spaces - something was pushed; e2e - every formatted (input, style) pair".into());
    o.finish(out, crate::util::jobs())
}
