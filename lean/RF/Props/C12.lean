import RF.Lemmas.Diff

/-!
# C12  Diff-based reports reconstruct the formatted text exactly

Theorems about `RF.Model.Diff` (the model of `make_diff`, `ModifiedLines`, the json / checkstyle
numbering and `XmlEscaped`).  Quantification: every edit script `ds` (hence every pair of texts
for which `diff::lines` returns a script with `lefts ds` = original lines and `rights ds` =
formatted lines — that assumption on the external crate is checked case by case by the
correspondence), every line type `α`, every context size.
-/
namespace RF.Props.C12
open RF.Diff

/-- `Consistent m orig new` (defined in `RF/Lemmas/Diff.lean` as `RF.Diff.Consistent`, so that the
lemmas and this file share it): hunk `m` is consistent with both texts at the line numbers it
states.  This theorem spells the definition out; it holds by unfolding. -/
theorem consistent_def {α} (m : Mismatch α) (orig new : List α) :
    Consistent m orig new ↔
      (∃ A T, orig = A ++ origSide m.lines ++ T ∧ A.length + 1 = m.lineNumberOrig) ∧
      (∃ A T, new = A ++ newSide m.lines ++ T ∧ A.length + 1 = m.lineNumber) :=
  Iff.rfl

/-- The executable oracle `consistentB` (what `diff.consistent` of the driver evaluates on the
hunks the real `make_diff` returned) decides exactly `Consistent`. -/
theorem consistentB_iff {α} [DecidableEq α] (m : Mismatch α) (orig new : List α) :
    consistentB m orig new = true ↔ Consistent m orig new :=
  RF.Lemmas.Diff.consistentB_iff m orig new

/-- The chunks of the modified-lines report (context 0), applied to the original, yield the
formatted text line for line. -/
theorem apply_modified_lines {α} (ds : List (Edit α)) :
    apply (ofMismatches (makeDiff ds 0)) (lefts ds) = rights ds :=
  RF.Lemmas.Diff.apply_modified_lines ds

/-- Every hunk, for every context size, matches both texts at its stated line numbers. -/
theorem hunks_consistent {α} (ds : List (Edit α)) (ctx : Nat) :
    ∀ m ∈ makeDiff ds ctx, Consistent m (lefts ds) (rights ds) :=
  RF.Lemmas.Diff.hunks_consistent ds ctx

/-- Every hunk carries at least one removed or added line. -/
theorem hunks_nonempty {α} (ds : List (Edit α)) (ctx : Nat) :
    ∀ m ∈ makeDiff ds ctx, numRemoved m.lines + (newLines m.lines).length > 0 :=
  RF.Lemmas.Diff.hunks_nonempty ds ctx

/-- Hunks are ordered and do not overlap in the original text. -/
theorem hunks_ordered_disjoint {α} (ds : List (Edit α)) (ctx : Nat) :
    (makeDiff ds ctx).Pairwise
      (fun a b => a.lineNumberOrig + (origSide a.lines).length ≤ b.lineNumberOrig ∧
                  a.lineNumber + (newSide a.lines).length ≤ b.lineNumber) :=
  RF.Lemmas.Diff.hunks_ordered_disjoint ds ctx

/-- A report is empty exactly when the script has no insertion or deletion. -/
theorem empty_iff_no_change {α} (ds : List (Edit α)) (ctx : Nat) :
    makeDiff ds ctx = [] ↔ hasChange ds = false :=
  RF.Lemmas.Diff.empty_iff_no_change ds ctx

/-- … and a script without insertion or deletion relates equal line lists. -/
theorem no_change_same_lines {α} (ds : List (Edit α)) (h : hasChange ds = false) :
    lefts ds = rights ds :=
  RF.Lemmas.Diff.no_change_same_lines ds h

/-- The subtraction `line_number - context_queue.len()` never truncates: stated as "every
reported line number is at least 1". -/
theorem line_numbers_positive {α} (ds : List (Edit α)) (ctx : Nat) :
    ∀ m ∈ makeDiff ds ctx, 1 ≤ m.lineNumber ∧ 1 ≤ m.lineNumberOrig :=
  RF.Lemmas.Diff.line_numbers_positive ds ctx

/-- The report survives printing and re-parsing. -/
theorem print_parse {α} (header : Sum (Nat × Nat × Nat) α → Option (Nat × Nat × Nat))
    (asText : Sum (Nat × Nat × Nat) α → α)
    (hh : ∀ h, header (Sum.inl h) = some h) (ht : ∀ s, asText (Sum.inr s) = s)
    (cs : List (Chunk α)) :
    parseChunks header asText (printChunks cs) = some cs :=
  RF.Lemmas.Diff.print_parse header asText hh ht cs

/-- The json report names the same line numbers and texts as the modified-lines chunks. -/
theorem json_lines_agree {α} (m : Mismatch α) :
    let b := jsonBlock m
    let c := toChunk m
    b.originalBeginLine = c.lineNumberOrig ∧ b.expected = c.lines ∧
    b.original = oldLines m.lines ∧ b.original.length = c.linesRemoved ∧ b.expectedBeginLine = m.lineNumber ∧
    (c.linesRemoved > 0 → b.originalEndLine + 1 = b.originalBeginLine + c.linesRemoved) ∧
    (c.lines.length > 0 → b.expectedEndLine + 1 = b.expectedBeginLine + c.lines.length) :=
  RF.Lemmas.Diff.json_lines_agree m

/-- The checkstyle report numbers the added lines of a hunk consecutively from its formatted
line number and carries the same texts as the chunk. -/
theorem checkstyle_lines_agree {α} (m : Mismatch α) :
    checkstyleLoop m.lineNumber 0 m.lines =
      (List.range (toChunk m).lines.length).zipWith (fun i s => (m.lineNumber + i, s))
        (toChunk m).lines :=
  RF.Lemmas.Diff.checkstyle_lines_agree m

/-- No raw XML-special character survives escaping, except the `&` that starts an entity. -/
theorem xmlEscape_safe (s : List Char) :
    ∀ c ∈ xmlEscape s, c ≠ '<' ∧ c ≠ '>' ∧ c ≠ '"' ∧ c ≠ '\'' :=
  RF.Lemmas.Diff.xmlEscape_safe s

/-- A conforming reader recovers the message exactly. -/
theorem xmlUnescape_escape (s : List Char) : xmlUnescape (xmlEscape s) = some s :=
  RF.Lemmas.Diff.xmlUnescape_escape s

/-! Non-vacuity: concrete scripts on which the statements say something. -/
example : makeDiff [Edit.both "a", .left "b", .right "c", .both "d"] 1 =
    [⟨1, 1, [.context "a", .resulting "b", .expected "c", .context "d"]⟩] := by decide
example : apply (ofMismatches (makeDiff [Edit.both 1, .left 2, .right 3, .both 4, .right 5] 0))
    [1, 2, 4] = [1, 3, 4, 5] := by decide
example : makeDiff [Edit.both 'a', .both 'b'] 3 = [] := by decide
/-- the hypothesis of `no_change_same_lines` holds of a non-empty script -/
example : hasChange [Edit.both 'a', .both 'b'] = false := by decide
/-- the hypotheses of `print_parse` are satisfiable: the evident reader of the symbolic lines -/
example : ∃ (header : Sum (Nat × Nat × Nat) Nat → Option (Nat × Nat × Nat))
    (asText : Sum (Nat × Nat × Nat) Nat → Nat),
    (∀ h, header (Sum.inl h) = some h) ∧ (∀ s, asText (Sum.inr s) = s) ∧
    parseChunks header asText (printChunks [⟨3, 1, [7, 8]⟩, ⟨9, 0, [5]⟩]) =
      some [⟨3, 1, [7, 8]⟩, ⟨9, 0, [5]⟩] :=
  ⟨fun | .inl h => some h | .inr _ => none, fun | .inr s => s | .inl _ => 0,
    fun _ => rfl, fun _ => rfl, print_parse _ _ (fun _ => rfl) (fun _ => rfl) _⟩
/-- `consistentB` accepts a right hunk and rejects one whose line number is off by one -/
example : consistentB ⟨2, 2, [.resulting 'b', .expected 'c']⟩ ['a', 'b', 'd'] ['a', 'c', 'd'] = true ∧
    consistentB ⟨2, 1, [.resulting 'b', .expected 'c']⟩ ['a', 'b', 'd'] ['a', 'c', 'd'] = false := by
  decide

end RF.Props.C12
