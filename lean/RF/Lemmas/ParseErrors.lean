import RF.Model.ParseErrors
import RF.Lemmas.Project
/-! Lemmas about `RF.ParseErrors` that do not depend on the generated tables (C05). -/
namespace RF.Lemmas.ParseErrors
open RF.ParseErrors RF.Gen.ParseErrs RF.Project

/-- What the two blocks of an emitter program are required to do, as a finite check: the block for a
diagnostic that cannot be ignored raises `has_non_ignorable_parser_errors`, clears `can_reset` and shows the
diagnostic once; the block for an ignored file leaves the private flag alone, shows nothing, and may raise
`can_reset` only if no non-ignorable diagnostic has been seen. -/
def blockSpec (p : EmitProg) (hn cr : Bool) : Bool :=
  let s : Sess := ⟨hn, cr, 0, 0, []⟩
  let h := runStmts p.handle s
  let i := runStmts p.ignored s
  h.hasNonIgn && !h.canReset && h.shown == 1 && h.errCount == 0 &&
  (i.hasNonIgn == hn) && (i.canReset == (if hn then cr else true)) && i.shown == 0 && i.errCount == 0

def emitProgOk (p : EmitProg) : Bool :=
  blockSpec p false false && blockSpec p false true && blockSpec p true false && blockSpec p true true

/-- a block's effect does not depend on the two counters or on the stash; it moves the counters by a fixed
amount and leaves the stash alone -/
theorem runStmts_counters (l : List Stmt) : ∀ (s : Sess),
    (runStmts l s).hasNonIgn = (runStmts l ⟨s.hasNonIgn, s.canReset, 0, 0, []⟩).hasNonIgn ∧
    (runStmts l s).canReset = (runStmts l ⟨s.hasNonIgn, s.canReset, 0, 0, []⟩).canReset ∧
    (runStmts l s).errCount = s.errCount + (runStmts l ⟨s.hasNonIgn, s.canReset, 0, 0, []⟩).errCount ∧
    (runStmts l s).shown = s.shown + (runStmts l ⟨s.hasNonIgn, s.canReset, 0, 0, []⟩).shown ∧
    (runStmts l s).stash = s.stash := by
  induction l with
  | nil => intro s; simp [runStmts]
  | cons st r ih =>
    intro s
    simp only [runStmts]
    have h1 := ih (runStmt st s)
    have h2 := ih (runStmt st ⟨s.hasNonIgn, s.canReset, 0, 0, []⟩)
    cases st with
    | setHasNonIgn v => simp only [runStmt] at h1 h2 ⊢; simp only [Nat.zero_add] at h2; exact h1
    | storeCanReset v => simp only [runStmt] at h1 h2 ⊢; exact h1
    | storeCanResetUnlessHasNonIgn v =>
      simp only [runStmt] at h1 h2 ⊢
      cases hh : s.hasNonIgn <;> simp only [hh, Bool.false_eq_true, if_false, if_true] at h1 h2 ⊢ <;> (try exact h1)
    | forward =>
      simp only [runStmt] at h1 h2 ⊢
      obtain ⟨a1, a2, a3, a4, a5⟩ := h1
      obtain ⟨b1, b2, b3, b4, _⟩ := h2
      simp only [Nat.zero_add] at b3 b4
      refine ⟨?_, ?_, ?_, ?_, a5⟩
      · rw [a1, b1]
      · rw [a2, b2]
      · rw [a3, b3]
      · rw [a4, b4]; omega

theorem sess_eq {a b : Sess} (h1 : a.hasNonIgn = b.hasNonIgn) (h2 : a.canReset = b.canReset)
    (h3 : a.errCount = b.errCount) (h4 : a.shown = b.shown) (h5 : a.stash = b.stash) : a = b := by
  cases a; cases b; simp_all

/-- the two blocks of a program that passes the check, on any state -/
theorem blocks_of_ok (p : EmitProg) (hp : emitProgOk p = true) (s : Sess) :
    runStmts p.handle s = { s with hasNonIgn := true, canReset := false, shown := s.shown + 1 } ∧
    runStmts p.ignored s = { s with canReset := if s.hasNonIgn then s.canReset else true } := by
  obtain ⟨hn, cr, ec, sh, st⟩ := s
  obtain ⟨a1, a2, a3, a4, a5⟩ := runStmts_counters p.handle ⟨hn, cr, ec, sh, st⟩
  obtain ⟨b1, b2, b3, b4, b5⟩ := runStmts_counters p.ignored ⟨hn, cr, ec, sh, st⟩
  simp only [emitProgOk, blockSpec, Bool.and_eq_true, beq_iff_eq, Bool.not_eq_true'] at hp
  simp only at a1 a2 a3 a4 a5 b1 b2 b3 b4 b5
  constructor
  · apply sess_eq <;> simp only
    · rw [a1]; cases hn <;> cases cr <;> simp_all
    · rw [a2]; cases hn <;> cases cr <;> simp_all
    · rw [a3]; cases hn <;> cases cr <;> simp_all
    · rw [a4]; cases hn <;> cases cr <;> simp_all
    · exact a5
  · apply sess_eq <;> simp only
    · rw [b1]; cases hn <;> cases cr <;> simp_all
    · rw [b2]; cases hn <;> cases cr <;> simp_all
    · rw [b3]; cases hn <;> cases cr <;> simp_all
    · rw [b4]; cases hn <;> cases cr <;> simp_all
    · exact b5

/-- closed form of one emitter call for a program that passes the check -/
theorem emitterStep_of_ok (p : EmitProg) (hp : emitProgOk p = true) (s : Sess) (d : Diag) :
    emitterStep p s d =
      if d.ignorable then { s with canReset := if s.hasNonIgn then s.canReset else true }
      else { s with hasNonIgn := true, canReset := false, shown := s.shown + 1 } := by
  obtain ⟨h1, h2⟩ := blocks_of_ok p hp s
  unfold emitterStep Diag.ignorable
  rw [h1, h2]
  obtain ⟨lv, lc, st⟩ := d
  cases lv <;> cases lc <;> (try rename_i b; cases b) <;> simp

/-- one diagnostic through `DiagCtxtInner::emit_diagnostic`, field by field -/
theorem dcxEmitNow_of_ok (p : EmitProg) (hp : emitProgOk p = true) (s : Sess) (d : Diag) :
    (dcxEmitNow p s d).hasNonIgn = (s.hasNonIgn || !d.ignorable) ∧
    (dcxEmitNow p s d).canReset = (if d.ignorable then (if s.hasNonIgn then s.canReset else true) else false) ∧
    (dcxEmitNow p s d).errCount = s.errCount + (if d.isError then 1 else 0) ∧
    (dcxEmitNow p s d).shown = s.shown + (if d.ignorable then 0 else 1) ∧
    (dcxEmitNow p s d).stash = s.stash := by
  unfold dcxEmitNow
  rw [emitterStep_of_ok p hp]
  cases hi : d.ignorable <;> cases he : d.isError <;> simp

/-- **closed form of a whole sequence of emitted diagnostics**, from any state -/
theorem emitNowAll_of_ok (p : EmitProg) (hp : emitProgOk p = true) : ∀ (ds : List Diag) (s : Sess),
    (emitNowAll p s ds).hasNonIgn = (s.hasNonIgn || ds.any (fun d => !d.ignorable)) ∧
    (emitNowAll p s ds).canReset =
      (if ds.any (fun d => !d.ignorable) then false else (s.canReset || (!s.hasNonIgn && !ds.isEmpty))) ∧
    (emitNowAll p s ds).errCount = s.errCount + ds.countP Diag.isError ∧
    (emitNowAll p s ds).shown = s.shown + ds.countP (fun d => !d.ignorable) ∧
    (emitNowAll p s ds).stash = s.stash := by
  intro ds
  induction ds with
  | nil => intro s; simp [emitNowAll]
  | cons d r ih =>
    intro s
    obtain ⟨h1, h2, h3, h4, h5⟩ := ih (dcxEmitNow p s d)
    obtain ⟨g1, g2, g3, g4, g5⟩ := dcxEmitNow_of_ok p hp s d
    simp only [emitNowAll]
    rw [h1, h2, h3, h4, h5, g1, g2, g3, g4, g5]
    simp only [List.any_cons, List.countP_cons, List.isEmpty_cons]
    refine ⟨?_, ?_, ?_, ?_, trivial⟩
    · by_cases hi : d.ignorable = true <;> by_cases hn : s.hasNonIgn = true <;> simp [hi, hn]
    · by_cases hi : d.ignorable = true <;> by_cases hn : s.hasNonIgn = true <;> by_cases hc : s.canReset = true <;>
        by_cases ha : r.any (fun d => !d.ignorable) = true <;> simp [hi, hn, hc, ha]
    · by_cases he : d.isError = true <;> simp [he] <;> omega
    · by_cases hi : d.ignorable = true <;> simp [hi] <;> omega

/-- emitting does not look at the stash -/
theorem emitNowAll_stash (p : EmitProg) (hp : emitProgOk p = true) (ds : List Diag) (s : Sess) (x : List Diag) :
    emitNowAll p { s with stash := x } ds = { emitNowAll p s ds with stash := x } := by
  obtain ⟨a1, a2, a3, a4, a5⟩ := emitNowAll_of_ok p hp ds { s with stash := x }
  obtain ⟨b1, b2, b3, b4, _⟩ := emitNowAll_of_ok p hp ds s
  apply sess_eq
  · rw [a1, b1]
  · rw [a2, b2]
  · rw [a3, b3]
  · rw [a4, b4]
  · rw [a5]

/-- **a sequence of diagnostics leaving the parser**: the ones that are emitted act as above, the stashed ones
are appended to the stash -/
theorem emitAll_split (p : EmitProg) (hp : emitProgOk p = true) : ∀ (ds : List Diag) (s : Sess),
    emitAll p s ds =
      { emitNowAll p s (ds.filter fun d => !d.stashed) with stash := s.stash ++ ds.filter fun d => d.stashed } := by
  intro ds
  induction ds with
  | nil =>
    intro s
    simp [emitAll, emitNowAll]
  | cons d r ih =>
    intro s
    simp only [emitAll]
    rw [ih]
    by_cases hd : d.stashed = true
    · simp only [dcxEmit, hd, if_true, List.filter_cons, Bool.not_true, Bool.false_eq_true, if_false]
      rw [emitNowAll_stash p hp]
      simp [List.append_assoc]
    · simp only [Bool.not_eq_true] at hd
      simp only [dcxEmit, hd, Bool.false_eq_true, if_false, List.filter_cons, Bool.not_false, if_true, emitNowAll]
      rw [(dcxEmitNow_of_ok p hp s d).2.2.2.2]

/-- the state a hard error leaves: the private flag up, `can_reset` down, a non-zero count -/
def Poisoned (s : Sess) : Prop := s.hasNonIgn = true ∧ s.canReset = false ∧ s.errCount ≠ 0

theorem poisoned_stable (p : EmitProg) (hp : emitProgOk p = true) (ds : List Diag) (s : Sess) (h : Poisoned s) :
    Poisoned (emitNowAll p s ds) := by
  obtain ⟨h1, h2, h3, _, _⟩ := emitNowAll_of_ok p hp ds s
  obtain ⟨a, b, c⟩ := h
  refine ⟨?_, ?_, ?_⟩
  · rw [h1, a]; rfl
  · rw [h2, a, b]
    by_cases ha : ds.any (fun d => !d.ignorable) = true <;> simp [ha]
  · rw [h3]; omega

theorem hard_error_poisons_now (p : EmitProg) (hp : emitProgOk p = true) (ds : List Diag) (s : Sess)
    (h : ds.any Diag.hardError = true) : Poisoned (emitNowAll p s ds) := by
  obtain ⟨d, hd, hh⟩ := List.any_eq_true.1 h
  simp only [Diag.hardError, Bool.and_eq_true, Bool.not_eq_true'] at hh
  obtain ⟨h1, h2, h3, _, _⟩ := emitNowAll_of_ok p hp ds s
  have ha : ds.any (fun d => !d.ignorable) = true := List.any_eq_true.2 ⟨d, hd, by simp [hh.2]⟩
  have hc : 0 < ds.countP Diag.isError := List.countP_pos_iff.2 ⟨d, hd, hh.1⟩
  refine ⟨?_, ?_, ?_⟩
  · rw [h1, ha]; simp
  · rw [h2]; simp [ha]
  · rw [h3]; omega

/-- **a hard error is never lost on the way to the decision**: after the diagnostics of a call have left the
parser (emitted or stashed) and the stash has been emitted, the session is poisoned if any of them — or
anything still in the stash from before — was a hard error -/
theorem flush_poisoned (p : EmitProg) (hp : emitProgOk p = true) (ds : List Diag) (s : Sess)
    (h : ds.any Diag.hardError = true) : Poisoned (flushStash p (emitAll p s ds)) := by
  obtain ⟨d, hd, hh⟩ := List.any_eq_true.1 h
  rw [emitAll_split p hp]
  unfold flushStash
  simp only
  by_cases hs : d.stashed = true
  · apply hard_error_poisons_now p hp
    apply List.any_eq_true.2
    refine ⟨d, ?_, hh⟩
    simp only [List.mem_filter, List.mem_append, Bool.or_eq_true]
    refine ⟨Or.inr ⟨hd, hs⟩, Or.inl ?_⟩
    simp only [Diag.hardError, Bool.and_eq_true] at hh
    exact hh.1
  · apply poisoned_stable p hp
    have : Poisoned (emitNowAll p s (ds.filter fun d => !d.stashed)) := by
      apply hard_error_poisons_now p hp
      apply List.any_eq_true.2
      refine ⟨d, ?_, hh⟩
      simp only [List.mem_filter]
      exact ⟨hd, by simpa using hs⟩
    exact this

/-! ### the lift: a fault that is reached makes the annotated crate faulty -/
open RF.Gen.ModArms

/-- what the lift needs of the parser tables: a file with a fault is never accepted, in whatever state the
session is; and a call on a path that exists ends in `Ok` or in `ParseError` -/
def NeverAccepts (pp : ParseProg) : Prop :=
  (∀ (s : Sess) (fp : FileParse), fp.fault = true → (parseFile pp s fp).2 ≠ some .ok) ∧
  (∀ (s : Sess) (fp : FileParse), fp.fault = true → (parseCrate pp s fp).2 ≠ some .ok)

def ExistingIsParseError (pp : ParseProg) : Prop :=
  ∀ (s : Sess) (fp : FileParse), fp.pathExists = true →
    (parseFile pp s fp).2 = some .ok ∨ (parseFile pp s fp).2 = some .parseError

/-- what the lift needs of the resolver tables (finite check): a `ParseError` on a candidate or on the default
file is an error of module resolution whatever else holds; an accepted file with `#![rustfmt::skip]` is left
out; an accepted file without is taken -/
def modProgOk (mp : ModProg) : Bool :=
  [true, false].all (fun sk =>
    toAltAct (selectM mp.alt (some .parseError) sk true) == .fail &&
    [true, false].all (fun oe => toDfltAct (selectM mp.dflt (some .parseError) sk oe) == .fail)) &&
  toAltAct (selectM mp.alt (some .ok) true true) == .skip &&
  toAltAct (selectM mp.alt (some .ok) false true) == .use &&
  [true, false].all (fun oe =>
    toDfltAct (selectM mp.dflt (some .ok) true oe) == .none &&
    toDfltAct (selectM mp.dflt (some .ok) false oe) == .file)

structure Safe (pp : ParseProg) (mp : ModProg) : Prop where
  never : NeverAccepts pp
  existing : ExistingIsParseError pp
  mods : modProgOk mp = true

theorem retToParse_ok (r : Option Ret) : retToParse r = .ok ↔ r = some .ok := by
  cases r with
  | none => simp [retToParse]
  | some x => cases x <;> simp [retToParse]

theorem fault_existing (fp : FileParse) : (existing fp).fault = fp.fault := rfl

section
variable {pp : ParseProg} {mp : ModProg} (h : Safe pp mp) (pi : Nat → FileParse)
include h

theorem mods_alt_err (sk : Bool) : toAltAct (selectM mp.alt (some .parseError) sk true) = .fail := by
  have := h.mods
  simp only [modProgOk, List.all_cons, List.all_nil, Bool.and_true, Bool.and_eq_true, beq_iff_eq] at this
  cases sk <;> simp_all
theorem mods_dflt_err (sk oe : Bool) : toDfltAct (selectM mp.dflt (some .parseError) sk oe) = .fail := by
  have := h.mods
  simp only [modProgOk, List.all_cons, List.all_nil, Bool.and_true, Bool.and_eq_true, beq_iff_eq] at this
  cases sk <;> cases oe <;> simp_all
theorem mods_alt_ok (sk : Bool) : toAltAct (selectM mp.alt (some .ok) sk true) = if sk then .skip else .use := by
  have := h.mods
  simp only [modProgOk, List.all_cons, List.all_nil, Bool.and_true, Bool.and_eq_true, beq_iff_eq] at this
  cases sk <;> simp_all
theorem mods_dflt_ok (sk oe : Bool) : toDfltAct (selectM mp.dflt (some .ok) sk oe) = if sk then .none else .file := by
  have := h.mods
  simp only [modProgOk, List.all_cons, List.all_nil, Bool.and_true, Bool.and_eq_true, beq_iff_eq] at this
  cases sk <;> cases oe <;> simp_all

/-- the decision for one candidate: a fault fails; otherwise accepted-with-skip is left out, accepted is taken -/
theorem alt_decision (s : Sess) (f : File) :
    let r := parseFile pp s (existing (pi f.path))
    let act := toAltAct (selectM mp.alt r.2 f.skipAttr true)
    ((pi f.path).fault = true → act = .fail) ∧ (act ≠ .fail → act = if f.skipAttr then .skip else .use) := by
  intro r act
  have hr := h.existing s (existing (pi f.path)) rfl
  constructor
  · intro hf
    have hne := h.never.1 s (existing (pi f.path)) (by rw [fault_existing]; exact hf)
    rcases hr with hr | hr
    · exact absurd hr hne
    · show toAltAct (selectM mp.alt (parseFile pp s (existing (pi f.path))).2 f.skipAttr true) = .fail
      rw [hr]; exact mods_alt_err h _
  · intro hne
    rcases hr with hr | hr
    · show toAltAct (selectM mp.alt (parseFile pp s (existing (pi f.path))).2 f.skipAttr true) = _
      rw [hr]; exact mods_alt_ok h _
    · exfalso; apply hne
      show toAltAct (selectM mp.alt (parseFile pp s (existing (pi f.path))).2 f.skipAttr true) = .fail
      rw [hr]; exact mods_alt_err h _

theorem altDecisions_fault : ∀ (a : Alts) (s : Sess), altsFileFault pi a = true →
    decsFail (altDecisions pp mp pi a s).1 = true
  | .nil, s => by simp [altsFileFault]
  | .cons a0 (.node f m) rest, s => by
    intro hf
    simp only [altsFileFault, Bool.or_eq_true] at hf
    obtain ⟨h1, _⟩ := alt_decision h pi s f
    simp only [altDecisions]
    by_cases hact : toAltAct (selectM mp.alt (parseFile pp s (existing (pi f.path))).2 f.skipAttr true) = .fail
    · simp [hact, decsFail]
    · rcases hf with hf | hf
      · exact absurd (h1 hf) hact
      · simp only [hact, if_false]
        have := altDecisions_fault rest (parseFile pp s (existing (pi f.path))).1 hf
        simp only [decsFail, List.any_cons, Bool.or_eq_true] at this ⊢
        right; exact this

theorem altDecisions_allSkip : ∀ (a : Alts) (s : Sess), altsAllSkip a = true →
    decsFail (altDecisions pp mp pi a s).1 = false → decsAnyUse (altDecisions pp mp pi a s).1 = false
  | .nil, s => by simp [altDecisions, decsAnyUse]
  | .cons a0 (.node f m) rest, s => by
    intro hs hnf
    simp only [altsAllSkip, Bool.and_eq_true] at hs
    obtain ⟨_, h2⟩ := alt_decision h pi s f
    simp only [altDecisions] at hnf ⊢
    by_cases hact : toAltAct (selectM mp.alt (parseFile pp s (existing (pi f.path))).2 f.skipAttr true) = .fail
    · simp [hact, decsFail] at hnf
    · have hsk := h2 hact
      have hite : (if f.skipAttr = true then AltAct.skip else AltAct.use) = .skip := by simp [hs.1]
      rw [hite] at hsk
      simp only [hact, if_false, decsFail, List.any_cons, Bool.or_eq_false_iff] at hnf
      simp only [hact, if_false, decsAnyUse, List.any_cons, Bool.or_eq_false_iff]
      refine ⟨by rw [hsk]; rfl, ?_⟩
      exact altDecisions_allSkip rest _ hs.2 hnf.2

omit h in
theorem applyDecs_fail : ∀ (a : Alts) (s : Sess), decsFail (altDecisions pp mp pi a s).1 = true →
    altsFail (applyDecs a (altDecisions pp mp pi a s).1) = true
  | .nil, s => by simp [altDecisions, decsFail]
  | .cons a0 (.node f m) rest, s => by
    intro hf
    simp only [altDecisions] at hf ⊢
    by_cases hact : toAltAct (selectM mp.alt (parseFile pp s (existing (pi f.path))).2 f.skipAttr true) = .fail
    · simp [hact, applyDecs, altsFail]
    · simp only [hact, if_false, decsFail, List.any_cons, Bool.or_eq_true, beq_iff_eq] at hf
      simp only [hact, if_false, applyDecs, altsFail, Bool.or_eq_true, beq_iff_eq]
      rcases hf with hf | hf
      · exact hf.elim
      · right; exact applyDecs_fail rest _ hf

mutual
theorem annT_fault : ∀ (t : Tree) (s : Sess), faultET pi t = true → faultT (annT pp mp pi t s).1 = true
  | .node f mods, s => by
    intro hf
    unfold annT
    simp only [faultET, Bool.or_eq_true, Bool.and_eq_true, Bool.not_eq_true'] at hf
    by_cases hc : (parseFile pp s (pi f.path)).2 = some .ok ∧ f.skipAttr = false
    · simp only [hc, and_self, if_true]
      rcases hf with hf | ⟨_, hf⟩
      · exact absurd hc.1 (h.never.1 s _ hf)
      · have := annM_fault mods (parseFile pp s (pi f.path)).1 hf
        simp [faultT, this]
    · simp only [hc, if_false]
      by_cases hr : (parseFile pp s (pi f.path)).2 = some .ok
      · have hs : f.skipAttr = true := by
          cases hsk : f.skipAttr with
          | true => rfl
          | false => exact absurd ⟨hr, hsk⟩ hc
        rcases hf with hf | ⟨hf, _⟩
        · exact absurd hr (h.never.1 s _ hf)
        · rw [hs] at hf; cases hf
      · have : retToParse (parseFile pp s (pi f.path)).2 ≠ .ok := fun e => hr ((retToParse_ok _).1 e)
        simp [faultT, this]
theorem annM_fault : ∀ (m : Mods) (s : Sess), faultEM pi m = true → faultM (annM pp mp pi m s).1 = true
  | .nil, s => by simp [faultEM]
  | .found t rest, s => by
    intro hf
    unfold annM
    simp only [faultEM, Bool.or_eq_true] at hf
    by_cases hc : faultT (annT pp mp pi t s).1 = true
    · simp [hc, faultM]
    · simp only [hc, Bool.false_eq_true, if_false]
      rcases hf with hf | hf
      · exact absurd (annT_fault t s hf) hc
      · simp [faultM, annM_fault rest _ hf]
  | .skipped rest, s => by
    intro hf
    unfold annM
    simp only [faultEM] at hf
    simp [faultM, annM_fault rest s hf]
  | .notFound rest, s => by simp [annM, faultM]
  | .multiple rest, s => by simp [annM, faultM]
  | .cfgAttr alts dk a0 (.node df dm) ghost rest, s => by
    intro hf
    simp only [faultEM, Bool.or_eq_true] at hf
    unfold annM
    by_cases hdf : decsFail (altDecisions pp mp pi alts s).1 = true
    · simp [hdf, faultM]
    · have hnf : decsFail (altDecisions pp mp pi alts s).1 = false := by simpa using hdf
      have hnoalt : altsFileFault pi alts = false := by
        cases hx : altsFileFault pi alts with
        | false => rfl
        | true => exact absurd (altDecisions_fault h pi alts s hx) hdf
      simp only [hnoalt, Bool.false_eq_true, false_or] at hf
      simp only [hnf, Bool.false_eq_true, if_false]
      have hex := h.existing (altDecisions pp mp pi alts s).2 (existing (pi df.path)) rfl
      cases dk with
      | found =>
        simp only [if_true] at hf ⊢
        rcases hex with hex | hex
        · -- the default file is accepted
          have hnofault : (pi df.path).fault = false := by
            cases hx : (pi df.path).fault with
            | false => rfl
            | true => exact absurd hex (h.never.1 _ _ (by rw [fault_existing]; exact hx))
          have hact := mods_dflt_ok h df.skipAttr (!decsAnyUse (altDecisions pp mp pi alts s).1)
          rw [← hex] at hact
          simp only [hnofault, Bool.false_or, Bool.or_eq_true, Bool.and_eq_true, Bool.not_eq_true'] at hf
          cases hs : df.skipAttr with
          | true =>
            simp only [hs, if_true] at hact
            simp only [hs] at hf
            rw [hact]
            simp only []
            have hrest : faultEM pi rest = true := by
              rcases hf with ⟨hf, _⟩ | ⟨_, hf⟩
              · cases hf
              · exact hf
            simp [faultM, annM_fault rest _ hrest]
          | false =>
            simp only [hs, Bool.false_eq_true, if_false] at hact
            simp only [hs] at hf
            rw [hact]
            simp only []
            have hf' : faultEA pi alts = true ∨ faultEM pi dm = true ∨ faultEM pi rest = true := by
              rcases hf with ⟨_, hf⟩ | ⟨hf, _⟩
              · rcases hf with (hf | hf) | hf
                · exact Or.inl hf
                · exact Or.inr (Or.inl hf)
                · exact Or.inr (Or.inr hf)
              · cases hf
            by_cases hc : faultA (annA pp mp pi alts (altDecisions pp mp pi alts s).1 (parseFile pp (altDecisions pp mp pi alts s).2 (existing (pi df.path))).1).1 = true
            · simp [hc, faultM]
            · simp only [hc, Bool.false_eq_true, if_false]
              rcases hf' with hf' | hf' | hf'
              · exact absurd (annA_fault alts s _ hnf hf') hc
              · simp [faultM, annM_fault dm _ hf']
              · by_cases hd : faultM (annM pp mp pi dm (annA pp mp pi alts (altDecisions pp mp pi alts s).1 (parseFile pp (altDecisions pp mp pi alts s).2 (existing (pi df.path))).1).2).1 = true
                · simp [hd, faultM]
                · simp only [hd, Bool.false_eq_true, if_false]
                  simp [faultM, annM_fault rest _ hf']
        · -- the default file is a `ParseError`
          have hact := mods_dflt_err h df.skipAttr (!decsAnyUse (altDecisions pp mp pi alts s).1)
          rw [← hex] at hact
          rw [hact]
          simp [faultM]
      | notFound =>
        simp only [Bool.or_eq_true] at hf
        by_cases hoe : decsAnyUse (altDecisions pp mp pi alts s).1 = true
        · simp only [hoe, Bool.not_true, Bool.false_eq_true, if_false, reduceCtorEq]
          by_cases hc : faultA (annA pp mp pi alts (altDecisions pp mp pi alts s).1 (altDecisions pp mp pi alts s).2).1 = true
          · simp [hc, faultM]
          · simp only [hc, Bool.false_eq_true, if_false]
            rcases hf with (hf | hf) | hf
            · have := altDecisions_allSkip h pi alts s hf hnf
              rw [hoe] at this; cases this
            · exact absurd (annA_fault alts s _ hnf hf) hc
            · simp [faultM, annM_fault rest _ hf]
        · simp [hoe, faultM]
      | multiple =>
        simp only [Bool.or_eq_true] at hf
        by_cases hoe : decsAnyUse (altDecisions pp mp pi alts s).1 = true
        · simp only [hoe, Bool.not_true, Bool.false_eq_true, if_false, reduceCtorEq]
          by_cases hc : faultA (annA pp mp pi alts (altDecisions pp mp pi alts s).1 (altDecisions pp mp pi alts s).2).1 = true
          · simp [hc, faultM]
          · simp only [hc, Bool.false_eq_true, if_false]
            rcases hf with (hf | hf) | hf
            · have := altDecisions_allSkip h pi alts s hf hnf
              rw [hoe] at this; cases this
            · exact absurd (annA_fault alts s _ hnf hf) hc
            · simp [faultM, annM_fault rest _ hf]
        · simp [hoe, faultM]
theorem annA_fault : ∀ (a : Alts) (s s1 : Sess), decsFail (altDecisions pp mp pi a s).1 = false →
    faultEA pi a = true → faultA (annA pp mp pi a (altDecisions pp mp pi a s).1 s1).1 = true
  | .nil, s, s1 => by simp [faultEA]
  | .cons a0 (.node f m) rest, s, s1 => by
    intro hnf hf
    simp only [faultEA, Bool.or_eq_true, Bool.and_eq_true, Bool.not_eq_true'] at hf
    obtain ⟨_, h2⟩ := alt_decision h pi s f
    simp only [altDecisions] at hnf ⊢
    by_cases hact : toAltAct (selectM mp.alt (parseFile pp s (existing (pi f.path))).2 f.skipAttr true) = .fail
    · simp [hact, decsFail] at hnf
    · simp only [hact, if_false, decsFail, List.any_cons, Bool.or_eq_false_iff] at hnf
      simp only [hact, if_false]
      have hsk := h2 hact
      generalize toAltAct (selectM mp.alt (parseFile pp s (existing (pi f.path))).2 f.skipAttr true) = act at hsk hact hnf ⊢
      cases act with
      | fail => exact absurd rfl hact
      | use =>
        simp only [annA]
        by_cases hc : faultM (annM pp mp pi m s1).1 = true
        · simp [hc, faultA]
        · simp only [hc, Bool.false_eq_true, if_false]
          rcases hf with ⟨_, hf⟩ | hf
          · exact absurd (annM_fault m s1 hf) hc
          · have := annA_fault rest (parseFile pp s (existing (pi f.path))).1 (annM pp mp pi m s1).2 hnf.2 hf
            simp [faultA, this]
      | skip =>
        simp only [annA]
        rcases hf with ⟨hs, _⟩ | hf
        · rw [hs] at hsk; simp at hsk
        · have := annA_fault rest (parseFile pp s (existing (pi f.path))).1 s1 hnf.2 hf
          simp [faultA, this]
end

end

theorem annotateRoot_node (pp : ParseProg) (mp : ModProg) (pi : Nat → FileParse) (cfg : Cfg) (f : File) (mods : Mods) :
    annotateRoot pp mp pi cfg (.node f mods) =
      if (parseCrate pp Sess.init (pi f.path)).2 = some .ok ∧ cfg.skipChildren = false then
        .node { f with parse := retToParse (parseCrate pp Sess.init (pi f.path)).2 }
          (annM pp mp pi mods (parseCrate pp Sess.init (pi f.path)).1).1
      else .node { f with parse := retToParse (parseCrate pp Sess.init (pi f.path)).2 } mods := rfl

theorem annotateRoot_file (pp : ParseProg) (mp : ModProg) (pi : Nat → FileParse) (cfg : Cfg) (root : Tree) :
    (annotateRoot pp mp pi cfg root).file.ignored = root.file.ignored ∧
    (annotateRoot pp mp pi cfg root).file.path = root.file.path := by
  cases root with
  | node f mods =>
    rw [annotateRoot_node]
    split <;> simp [Tree.file]

/-- **the lift**: if the crate cannot be processed in the sense of `faultyE` (a reachable file with a fault —
also a candidate of a nested `#[cfg_attr(.., path = "..")]`, or anything below one that is taken —, or a `mod`
without a file or with two), the crate annotated by the tables is `faulty` in the sense of `RF.Project`,
whatever the diagnostics of the other files are and in whatever order they are met. -/
theorem annotateRoot_faulty (pp : ParseProg) (mp : ModProg) (h : Safe pp mp) (pi : Nat → FileParse) (cfg : Cfg) (root : Tree)
    (hf : faultyE pi cfg root = true) : faulty cfg (annotateRoot pp mp pi cfg root) = true := by
  cases root with
  | node f mods =>
    simp only [faultyE, Tree.file, Tree.mods, Bool.or_eq_true, Bool.and_eq_true, Bool.not_eq_true'] at hf
    rw [annotateRoot_node]
    by_cases hc : (parseCrate pp Sess.init (pi f.path)).2 = some .ok ∧ cfg.skipChildren = false
    · rw [if_pos hc]
      rcases hf with hf | ⟨_, hf⟩
      · exact absurd hc.1 (h.never.2 _ _ hf)
      · have := annM_fault h pi mods (parseCrate pp Sess.init (pi f.path)).1 hf
        simp [faulty, Tree.file, Tree.mods, this, hc.2]
    · rw [if_neg hc]
      by_cases hr : (parseCrate pp Sess.init (pi f.path)).2 = some .ok
      · have hs : cfg.skipChildren = true := by
          cases hsk : cfg.skipChildren with
          | true => rfl
          | false => exact absurd ⟨hr, hsk⟩ hc
        rcases hf with hf | ⟨hf, _⟩
        · exact absurd hr (h.never.2 _ _ hf)
        · rw [hs] at hf; cases hf
      · have : retToParse (parseCrate pp Sess.init (pi f.path)).2 ≠ .ok := fun e => hr ((retToParse_ok _).1 e)
        simp [faulty, Tree.file, this]

end RF.Lemmas.ParseErrors
