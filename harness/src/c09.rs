//! C09: released style editions are frozen.
//! (a) the working tree gives identical text under style editions 2015, 2018 and 2021;
//! (b) the working tree gives, under every released edition, the text of the frozen binary built from
//!     the audited commit, on inputs that binary formats without error.
use std::path::Path;
use std::process::Command;
use std::time::Duration;

use serde_json::json;

use crate::corpus;
use crate::gen::*;
use crate::pool::{self, Job, Status};
use crate::util::*;

const EDITIONS: [&str; 4] = ["2015", "2018", "2021", "2024"];

fn frozen(src: &str, cfg: &[(String, String)], timeout: Duration) -> CliOut {
    let mut cmd = Command::new("/verif/frozen/rustfmt-pinned");
    cmd.current_dir("/verif/frozen").arg("--config-path").arg("/verif/frozen/empty.toml").arg("--emit").arg("stdout");
    if !cfg.is_empty() {
        cmd.arg("--config").arg(cfg_text(cfg));
    }
    run_cmd(&mut cmd, src.as_bytes(), timeout)
}

pub fn run(tier: &str, seed: u64, out: &Path) -> i32 {
    let mut o = Outcome::new("C09", tier, seed);
    let thorough = tier == "thorough";
    let mut rng = Rng::new(seed ^ 0xc09);
    let mut progs = corpus::programs(&["tests/target", "tests/source"]);
    progs.retain(|p| !p.src.trim().is_empty());
    for p in progs.iter_mut() {
        p.cfg.retain(|(k, _)| k != "style_edition" && k != "version");
    }
    // cases: (program, cfg)
    let mut cases: Vec<(String, String, Vec<(String, String)>)> = vec![];
    let singles: Vec<(String, String)> = option_singles().into_iter().filter(|(k, _)| k != "style_edition").collect();
    let per_prog = if thorough { 6 } else { 1 };
    for p in &progs {
        cases.push((p.name.clone(), p.src.clone(), p.cfg.clone()));
        for _ in 0..per_prog {
            if !thorough && !rng.chance(1, 3) {
                continue;
            }
            let mut cfg = p.cfg.clone();
            if rng.chance(2, 3) {
                cfg = merge_cfg(&cfg, &[("max_width".into(), rng.pick(WIDTHS_QUICK).to_string())]);
            }
            if rng.chance(2, 3) {
                let (k, v) = rng.pick(&singles).clone();
                // options that contain a comma in --config would need escaping; none in the table
                cfg = merge_cfg(&cfg, &[(k, v)]);
            }
            let src = if rng.chance(1, 4) { relayout(&p.src, &mut rng.fork()) } else { p.src.clone() };
            cases.push((p.name.clone(), src, cfg));
        }
    }
    // generated import / mod / extern crate groups over an identifier universe aimed at the ordering code
    let import_opts: Vec<(String, String)> = singles.iter().filter(|(k, _)| k.starts_with("imports_") || k == "group_imports" || k.starts_with("reorder_")).cloned().collect();
    for k in 0..(if thorough { 4000 } else { 600 }) {
        let src = import_program(&mut rng);
        let mut cfg: Vec<(String, String)> = vec![];
        if rng.chance(1, 2) {
            let (a, b) = rng.pick(&import_opts).clone();
            cfg.push((a, b));
        }
        if rng.chance(1, 4) {
            cfg = merge_cfg(&cfg, &[("max_width".into(), rng.pick(WIDTHS_QUICK).to_string())]);
        }
        cases.push((format!("gen-imports{}", k), src, cfg));
    }
    o.count_n("cases", cases.len() as u64);
    // current tree, in-process, every released edition
    let mut jobs = vec![];
    for (_, src, cfg) in &cases {
        for e in EDITIONS {
            jobs.push(Job { src: src.clone(), cfg: merge_cfg(cfg, &[("style_edition".into(), e.into())]), file_lines: None });
        }
    }
    let timeout = Duration::from_secs(if thorough { 30 } else { 10 });
    let cur = pool::run_jobs(&jobs, jobs_n(), timeout);
    let fro: Vec<CliOut> = par_map(&jobs, |j| frozen(&j.src, &j.cfg, timeout));
    let mut nontrivial = 0u64;
    let mut distinct = std::collections::HashSet::new();
    for (ci, (name, src, cfg)) in cases.iter().enumerate() {
        let r = &cur[ci * 4..ci * 4 + 4];
        let f = &fro[ci * 4..ci * 4 + 4];
        // (a) 2015 = 2018 = 2021 on the working tree
        let ok3 = r[..3].iter().all(|x| x.status == Status::Ok);
        if ok3 {
            o.count("a:compared");
            if !(r[0].out == r[1].out && r[1].out == r[2].out) {
                o.direct_failures.push(json!({"sig": "c09:editions-2015-2018-2021-differ", "what": "style editions 2015/2018/2021 give different text on the working tree", "program": name, "config": cfg_text(cfg), "src": src, "out2015": r[0].out, "out2018": r[1].out, "out2021": r[2].out}));
            }
        } else if r[..3].iter().any(|x| x.status == Status::Timeout) {
            o.count("a:timeout");
        } else {
            let sts: Vec<String> = r[..3].iter().map(|x| format!("{:?}", x.status).chars().take(12).collect()).collect();
            if !(sts[0] == sts[1] && sts[1] == sts[2]) {
                o.direct_failures.push(json!({"sig": "c09:editions-2015-2018-2021-differ", "what": "style editions 2015/2018/2021 end differently on the working tree", "program": name, "config": cfg_text(cfg), "src": src, "statuses": sts}));
            }
            o.count("a:not-ok");
        }
        // (b) working tree vs frozen binary
        for k in 0..4 {
            let key = format!("{}|{}|{}", src.len(), cfg_text(cfg), k);
            if f[k].timed_out || r[k].status == Status::Timeout {
                o.count("b:timeout");
                continue;
            }
            if f[k].code != Some(0) {
                o.count("b:pinned-reports-error");
                continue;
            }
            let echoed = r[k].status == Status::Ok && r[k].out.is_empty() && !f[k].stdout.is_empty();
            if echoed {
                // inner skip attribute / disable_all_formatting on stdin: the input is echoed on the
                // process' stdout, which the in-process session does not capture
                o.count("b:echo");
                if f[k].stdout != src.as_bytes() {
                    o.count("b:echo-differs-from-input");
                }
                continue;
            }
            o.count("b:compared");
            let same = r[k].status == Status::Ok && r[k].out.as_bytes() == &f[k].stdout[..];
            if r[2].out != r[3].out {
                nontrivial += 1;
            }
            distinct.insert(key);
            if !same {
                o.direct_failures.push(json!({"sig": "c09:differs-from-pinned-release", "what": format!("style edition {}: the working tree's text differs from the pinned release's", EDITIONS[k]), "program": name, "config": cfg_text(cfg), "edition": EDITIONS[k], "src": src, "pinned": String::from_utf8_lossy(&f[k].stdout), "working_tree": r[k].out, "working_tree_status": format!("{:?}", r[k].status)}));
            }
        }
        if ci < 3 {
            o.sample(json!({"program": name, "config": cfg_text(cfg), "src_bytes": src.len(), "out2021_eq_out2024": r[2].out == r[3].out}));
        }
    }
    o.count_n("cases_where_2021_and_2024_differ(x editions)", nontrivial);
    o.notes.push("non-trivial case = one (program, config, edition) comparison against the frozen binary; the distribution counts how many cases actually exercise a gate (2021 output differs from 2024 output)".into());
    // account the direct comparisons as evaluations
    let evals = o.distribution.get("b:compared").copied().unwrap_or(0) + o.distribution.get("a:compared").copied().unwrap_or(0);
    o.count_n("evaluations_direct", evals);
    o.direct_evals = evals;
    o.direct_distinct = distinct.len() as u64;
    o.finish(out, jobs_n())
}

fn jobs_n() -> usize {
    jobs()
}
