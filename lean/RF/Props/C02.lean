import RF.Lemmas.Idem
import RF.Props.C08

/-!
# C02  Formatting is idempotent — the modelled stages

Idempotence of rustfmt as a whole ranges over the ~200 rewrite functions and is **not** proved here.
This file carries the theorem side of C02: every *modelled* stage, applied to its own output, returns
it unchanged — or, where the model (i.e. the code) says otherwise, a `_counterexample` with the concrete
input and a `_partial` with the hypothesis that excludes it.

The four mechanisms the property anchors:
 (i)   import normalisation / sorting / merging   (`RF.Model.Sort`, `RF.Model.Imports`);
 (ii)  blank-line clamping and final-newline handling (`RF.Model.Newline`);
 (iii) newline-style conversion and trailing-whitespace removal (`RF.Model.Newline`);
 (iv)  verbatim copy of skipped code (`RF.Model.Skip`).  (Comment re-indentation: `RF/Props/C02comments.lean`.)

Two runs are linked by `RF.Model.Idem`: the second run reads what the first wrote.  For `use` items the
only thing the rendering changes in the *shape* of a tree is that a tree with an empty path is written
as nothing (`reparseItems`); `runTwice` is the `use` arm run on its own (re-read) output.

Repaired in `/repo` (fix 343f709, found by C10 and by this file's former `useNormalize_idem_counterexample`):
`use a::{b::{}, c};` needed two passes with the **default** configuration (`use a::{ c};` then
`use a::c;`) because `normalize` left the nested `b::{}` as a tree with an empty path.  `normalize` now
removes such an element and normalises the list again, so the `leafyPath` hypothesis ("no `{}` anywhere")
of the `normalize` and whole-`use`-arm theorems is **gone** and the two counterexamples are replaced by
the proved fixed points `useNormalize_empty_nested_fixed` / `run_idem_empty_nested`.

Findings (every one replayed on `/repo/target/debug/rustfmt`, see the `_counterexample`s):
  * `use self::self;` becomes `use self;`, which the next pass deletes: `useNormalize_self_self_counterexample`;
  * `imports_granularity = One`: `use a::{b, b::c}; use a;` gives `use a::{self, b, b::c};` and then
    `use a::{self, b::{self, c}};` — legal Rust, satisfies the C10 safety hypothesis:
    `granularity_one_idem_counterexample`;
  * `imports_granularity = Module`: `use b; use a; use a as x;` gives `use {a, a as x, b};` and then
    `use {a, b};` (the C10 alias-twin loss, F6, strikes on the second pass):
    `granularity_module_idem_counterexample`;
  * `imports_granularity = Crate`: `use b; use b::{self};` gives `use b::{self, self};` then
    `use b::self;` (duplicate import, rejected by rustc): `granularity_crate_idem_counterexample`;
  * the Unix newline converter is not idempotent on `\r\r\n` (C08, F5b): `applyNewlineStyle_idem_counterexample`.
-/
namespace RF.Props.C02
open RF.Sort RF.Imports RF.Idem RF.Lemmas.Sort RF.Lemmas.Imports RF.Lemmas.Idem

/-! ## concrete trees -/

private def n (c : Char) : List Char := [c]
private def use (p : List Seg) : Item := ⟨.mk p, some [], none, false⟩
private def i (c : Char) : Seg := .ident (n c) none
private def ia (c x : Char) : Seg := .ident (n c) (some (n x))

/-! ## (i) Sorting -/

/-- Sorting twice is sorting once, for every total preorder (the contract of `slice::sort_by`). -/
theorem stableSort_idem {α} {cmp : α → α → Ordering} (tp : TotalPreorder cmp) (l : List α) :
    stableSort cmp (stableSort cmp l) = stableSort cmp l :=
  RF.Lemmas.Idem.stableSort_idem tp l

/-- More generally an ascending list is a fixed point of the sort — for *any* `cmp`. -/
theorem stableSort_fixed {α} (cmp : α → α → Ordering) (l : List α)
    (h : l.Pairwise (fun a b => cmp a b ≠ .gt)) : stableSort cmp l = l :=
  stableSort_of_sorted cmp l h

example : [1, 2, 2, 5].Pairwise (fun a b : Nat => compare a b ≠ .gt) := by decide

/-- `Vec<UseTree>::sort()` (`reorder.rs:143`, `imports.rs:888`) is idempotent, both style-edition
families.  No hypothesis: `UseTree::cmp` is a total preorder (C11), including the identifiers with
numbers ≥ 2^64 and the `r#` prefixes that rank equal. -/
theorem useSort_idem (v2024 : Bool) (l : List Tree) :
    stableSort (treeCmp v2024) (stableSort (treeCmp v2024) l) = stableSort (treeCmp v2024) l :=
  RF.Lemmas.Idem.stableSort_idem (treeCmp_tp v2024) l

/-- The same for the items of a `use` group (sorted by their trees). -/
theorem useItemSort_idem (v2024 : Bool) (l : List Item) :
    stableSort (fun a b => treeCmp v2024 a.tree b.tree)
        (stableSort (fun a b => treeCmp v2024 a.tree b.tree) l) =
      stableSort (fun a b => treeCmp v2024 a.tree b.tree) l :=
  RF.Lemmas.Idem.stableSort_idem ((treeCmp_tp v2024).pullback (fun it : Item => it.tree)) l

/-- Sorting `mod` / `extern crate` items by `compare_items` is idempotent (`kindCmp v k` is what
`compare_items` computes on two items of kind `k`, C11 `compareItems_total_preorder`). -/
theorem itemSort_idem (v2024 : Bool) (k : RF.Reorder.ItemKind) (l : List RF.Reorder.Item) :
    stableSort (kindCmp v2024 k) (stableSort (kindCmp v2024 k) l) = stableSort (kindCmp v2024 k) l :=
  RF.Lemmas.Idem.stableSort_idem (kindCmp_tp v2024 k) l

/-! ## (i) `UseTree::normalize` -/

/-- `normalize` applied to its own result returns it unchanged: for every total preorder used for the
nested sorts and **every** item as the parser builds it (`wfPath`; `{}` may occur anywhere), provided the
result is written at all (non-empty path) and is not the bare `use self;` that the next pass deletes.
Strengthened after the repair of `normalize` (a nested tree that imports nothing is removed and the list
normalised again): the former hypothesis `leafyPath it.tree.path` is no longer needed. -/
theorem useNormalize_idem_partial {cmp : Tree → Tree → Ordering} (tp : TotalPreorder cmp)
    (it it' : Item) (h : normalizeItem cmp it = .ok it') (hwf : wfPath true it.tree.path = true)
    (hne : it'.tree.path ≠ []) (hb : bareSelf it' = false) : normalizeItem cmp it' = .ok it' :=
  normalizeItem_idem tp it it' h hwf hne hb

/-- Instance for the real order, both style-edition families. -/
theorem useNormalize_idem (v2024 : Bool) (it it' : Item)
    (h : normalizeItem (treeCmp v2024) it = .ok it') (hwf : wfPath true it.tree.path = true)
    (hne : it'.tree.path ≠ []) (hb : bareSelf it' = false) :
    normalizeItem (treeCmp v2024) it' = .ok it' :=
  useNormalize_idem_partial (treeCmp_tp v2024) it it' h hwf hne hb

/-- Non-vacuity: `use a::{c::{d}, self as x, b::self};` satisfies the hypotheses; its normal form is
`use a::{self as x, b, c::d};`. -/
example :
    let it := use [i 'a', .list [.mk [i 'c', .list [.mk [i 'd']]], .mk [.slf (some (n 'x'))],
      .mk [i 'b', .slf none]]]
    let it' := use [i 'a', .list [.mk [.slf (some (n 'x'))], .mk [i 'b'], .mk [i 'c', i 'd']]]
    normalizeItem (treeCmp false) it = .ok it' ∧ wfPath true it.tree.path = true ∧
      it'.tree.path ≠ [] ∧ bareSelf it' = false := by
  decide +kernel

/-- Non-vacuity with `{}` inside (not `leafyPath`): `use a::{b::{}, c::{d, e::{}}, self as x, f::{g::{}}};`
is normalised to `use a::{self as x, c::d};`. -/
example :
    let it := use [i 'a', .list [.mk [i 'b', .list []],
      .mk [i 'c', .list [.mk [i 'd'], .mk [i 'e', .list []]]], .mk [.slf (some (n 'x'))],
      .mk [i 'f', .list [.mk [i 'g', .list []]]]]]
    let it' := use [i 'a', .list [.mk [.slf (some (n 'x'))], .mk [i 'c', i 'd']]]
    normalizeItem (treeCmp false) it = .ok it' ∧ wfPath true it.tree.path = true ∧
      leafyPath it.tree.path = false ∧ it'.tree.path ≠ [] ∧ bareSelf it' = false := by
  decide +kernel

/-- … and the result has no nested tree with an empty path, so the second run reads back exactly the
tree the first run returned (every item as the parser builds it; `leafyPath` no longer needed). -/
theorem useNormalize_read_back {cmp : Tree → Tree → Ordering} (it it' : Item)
    (h : normalizeItem cmp it = .ok it') (hwf : wfPath true it.tree.path = true) :
    reparseTree it'.tree = it'.tree :=
  normalizeItem_reparse it it' h hwf

/-- **Repaired** (was `useNormalize_idem_counterexample`: `a::{<empty>, c}`, written `use a::{ c};`, then
`use a::c;`).  `use a::{b::{}, c};` is now normalised to `a::c` at once; that is read back as it is and
is a fixed point.  The input is well formed and not `leafyPath`. -/
theorem useNormalize_empty_nested_fixed :
    let it := use [i 'a', .list [.mk [i 'b', .list []], .mk [i 'c']]]
    normalizeItem (treeCmp false) it = .ok (use [i 'a', i 'c']) ∧
    reparseItems [use [i 'a', i 'c']] = [use [i 'a', i 'c']] ∧
    normalizeItem (treeCmp false) (use [i 'a', i 'c']) = .ok (use [i 'a', i 'c']) ∧
    wfPath true it.tree.path = true ∧ leafyPath it.tree.path = false := by
  decide +kernel

/-- The same through the whole `use` arm (was `run_idem_counterexample_empty_nested`): both runs write
`use a::c;`. -/
theorem run_idem_empty_nested :
    runTwice (treeCmp false) .preserve .stdExternalCrate true
        [use [i 'a', .list [.mk [i 'b', .list []], .mk [i 'c']]]] =
      .ok ([[use [i 'a', i 'c']]], [[use [i 'a', i 'c']]]) := by
  decide +kernel

/-- **Finding.**  Without the `bareSelf` hypothesis: `use self::self;` (parsed; rejected by rustc,
E0429) becomes `use self;`, and the next pass deletes that. -/
theorem useNormalize_self_self_counterexample :
    normalizeItem (treeCmp false) (use [.slf none, .slf none]) = .ok (use [.slf none]) ∧
    normalizeItem (treeCmp false) (use [.slf none]) = .ok (use []) ∧
    wfPath true [.slf none, .slf none] = true ∧ leafyPath [.slf none, .slf none] = true ∧
    bareSelf (use [.slf none]) = true := by
  decide +kernel

/-! ## (i) `flatten`, `nest_trailing_self` -/

/-- Every piece `flatten` returns, for an item as the parser builds it, is flat: it has a comment
(and was returned as it is) or its last segment is not a list other than `{self}`. -/
theorem flatten_output_flat (g : Granularity) (it : Item) (hwf : wfPath true it.tree.path = true) :
    ∀ x ∈ flattenItem g it, x.hasComment = true ∨ flatLast x.tree.path = true :=
  flattenItem_flat g it hwf

/-- Flattening an already flat tree (after `nest_trailing_self`, as `flatten_use_trees` does) is the
identity. -/
theorem flatten_flat (g : Granularity) (x : Item)
    (h : x.hasComment = true ∨ flatLast x.tree.path = true) :
    flattenItem g (nestItem x) = [nestItem x] :=
  flattenItem_nest_fixed g x h

example : flatLast (use [i 'a', i 'b', .slf none]).tree.path = true := by decide

/-- `nest_trailing_self` is idempotent (`a::self` ↦ `a::{self}` ↦ `a::{self}`). -/
theorem nest_trailing_self_idem (x : Item) : nestItem (nestItem x) = nestItem x :=
  nestItem_idem x

/-- `flatten_use_trees` (flatten every item, nest, drop an import that `is_repeated_by` an earlier
kept one) applied to its own output is the identity, for items as the parser builds them. -/
theorem flattenUseTrees_idem (g : Granularity) (its : List Item)
    (hwf : ∀ it ∈ its, wfPath true it.tree.path = true) :
    flattenUseTrees g (flattenUseTrees g its) = flattenUseTrees g its :=
  RF.Lemmas.Idem.flattenUseTrees_idem g its hwf

/-- What makes the second application the identity: in the output of `flatten_use_trees` no import
`is_repeated_by` an earlier one (every list, no hypothesis) … -/
theorem flattenUseTrees_no_repeat (g : Granularity) (its : List Item) :
    (flattenUseTrees g its).Pairwise (fun a b => isRepeatedBy a b = false) :=
  dedupItems_pairwise _ [] List.Pairwise.nil

/-- … and the loop of `flatten_use_trees` returns such a list as it is. -/
theorem dedup_fixed (l : List Item) (h : l.Pairwise (fun a b => isRepeatedBy a b = false)) :
    dedupItems l [] = l := by
  have h' : ([] ++ l).Pairwise NoRep := by rw [List.nil_append]; exact h
  simpa using dedupItems_of_pairwise l [] h'

example : [use [i 'a'], (⟨.mk [i 'a'], some "pub".toList, none, false⟩ : Item),
    (⟨.mk [i 'a'], some [], some (n 'x'), false⟩ : Item)].Pairwise
      (fun a b => isRepeatedBy a b = false) := by decide

/-! ## (i) `normalize_use_trees_with_granularity` -/

/-- `Preserve`: the identity, so trivially idempotent (every `cmp`, every run). -/
theorem granularity_idem_preserve (cmp : Tree → Tree → Ordering) (its res : List Item)
    (_h : withGranularity cmp .preserve its = .ok res) : withGranularity cmp .preserve res = .ok res := rfl

/-- `Item`: the second application returns the list of the first, as a list (same items, same
order), for items as the parser builds them. -/
theorem granularity_idem_item (cmp : Tree → Tree → Ordering) (its res : List Item)
    (hwf : ∀ it ∈ its, wfPath true it.tree.path = true)
    (h : withGranularity cmp .item its = .ok res) : withGranularity cmp .item res = .ok res := by
  simp only [withGranularity, Except.ok.injEq] at h ⊢
  subst h
  exact RF.Lemmas.Idem.flattenUseTrees_idem .item its hwf

example : ∀ it ∈ [use [i 'a', .list [.mk [.slf none], .mk [i 'b', .list [.mk [i 'c'], .mk [.glob]]]]]],
    wfPath true it.tree.path = true := by decide

/-- **Finding** (`One`).  `use a::{b, b::c}; use a;` — legal Rust, no alias, no duplicate, satisfies
the C10 hypothesis `safeFor .one` — is merged to `use a::{self, b, b::c};`; the second pass, reading
that, merges `b` and `b::c` into `use a::{self, b::{self, c}};`.  (The merge result depends on the
order in which the flattened paths arrive.) -/
theorem granularity_one_idem_counterexample :
    let its := [use [i 'a', .list [.mk [i 'b'], .mk [i 'b', i 'c']]], use [i 'a']]
    runTwice (treeCmp false) .one .stdExternalCrate true its =
      .ok ([[use [i 'a', .list [.mk [.slf none], .mk [i 'b'], .mk [i 'b', i 'c']]]]],
           [[use [i 'a', .list [.mk [.slf none], .mk [i 'b', .list [.mk [.slf none], .mk [i 'c']]]]]]]) ∧
    mapE (normalizeItem (treeCmp false)) its = .ok its ∧ safeFor .one its = true ∧
    normalizable its = true := by
  decide +kernel

/-- The second output is then stable. -/
theorem granularity_one_third_pass :
    runTwice (treeCmp false) .one .stdExternalCrate true
        [use [i 'a', .list [.mk [.slf none], .mk [i 'b'], .mk [i 'b', i 'c']]]] =
      .ok ([[use [i 'a', .list [.mk [.slf none], .mk [i 'b', .list [.mk [.slf none], .mk [i 'c']]]]]]],
           [[use [i 'a', .list [.mk [.slf none], .mk [i 'b', .list [.mk [.slf none], .mk [i 'c']]]]]]]) := by
  decide +kernel

/-- **Finding** (`Module`, outside the C10 hypothesis: alias twins).  `use b; use a; use a as x;` is
merged to `use {a, a as x, b};`; the second pass drops `a as x`: `use {a, b};`.  (In the order
`use a; use a as x; use b;` the first pass already drops it: C10 `alias_twin_counterexample`.) -/
theorem granularity_module_idem_counterexample :
    let its := [use [i 'b'], use [i 'a'], use [ia 'a' 'x']]
    runTwice (treeCmp false) .module .stdExternalCrate true its =
      .ok ([[use [.list [.mk [i 'a'], .mk [ia 'a' 'x'], .mk [i 'b']]]]],
           [[use [.list [.mk [i 'a'], .mk [i 'b']]]]]) ∧
    safeFor .module its = false := by
  decide +kernel

/-- **Finding** (`Crate`, duplicate import — rejected by rustc, accepted by the parser).
`use b; use b::{self};` is merged to `use b::{self, self};`, then to `use b::self;`. -/
theorem granularity_crate_idem_counterexample :
    runTwice (treeCmp false) .crate .stdExternalCrate true
        [use [i 'b'], use [i 'b', .list [.mk [.slf none]]]] =
      .ok ([[use [i 'b', .list [.mk [.slf none], .mk [.slf none]]]]], [[use [i 'b', .slf none]]]) := by
  decide +kernel

/-! ## (i) `group_imports` -/

/-- Grouping the concatenation of a std group, an external group and a local group gives back
exactly these three groups (what the second run sees of the first run's output). -/
theorem groupImports_of_grouped (g1 g2 g3 : List Item) (h1 : ∀ t ∈ g1, classify t.tree = .std)
    (h2 : ∀ t ∈ g2, classify t.tree = .external) (h3 : ∀ t ∈ g3, classify t.tree = .localG) :
    groupImports (g1 ++ g2 ++ g3) = [g1, g2, g3] :=
  RF.Lemmas.Idem.groupImports_of_grouped g1 g2 g3 h1 h2 h3

/-- In particular regrouping the groups of any run returns the same groups. -/
theorem groupImports_idem (ts : List Item) :
    groupImports (groupImports ts).flatten = groupImports ts :=
  RF.Lemmas.Idem.groupImports_idem ts

/-! ## (i) the whole `use` arm, twice -/

/-- `imports_granularity = Preserve` (the default), every `group_imports`, `reorder_imports` on or
off, both style editions (any total preorder): the `use` arm run on what it wrote writes the same
groups, the same items in the same order.  Hypotheses: every input item is as the parser builds it
(`{}` allowed anywhere since the repair of `normalize`: the former `leafyPath` hypothesis is gone); no
normalised item is the bare `use self;` (see the counter-example above). -/
theorem run_idem_preserve {cmp : Tree → Tree → Ordering} (tp : TotalPreorder cmp) (gt : GroupTactic)
    (reorder : Bool) (items normalized : List Item)
    (hn : mapE (normalizeItem cmp) items = .ok normalized)
    (hwf : ∀ it ∈ items, wfPath true it.tree.path = true)
    (hb : ∀ it ∈ normalized, bareSelf it = false) :
    ∃ groups, runTwice cmp .preserve gt reorder items = .ok (groups, groups) :=
  RF.Lemmas.Idem.run_idem_preserve tp gt reorder items normalized hn hwf hb

/-- `imports_granularity = Item`, every `group_imports`, `reorder_imports` on or off, any total preorder:
the `use` arm run on what it wrote writes the same groups.  Only the input hypothesis (as the parser
builds it; `leafyPath` no longer needed); no condition on `self` (after `nest_trailing_self` no item is
the bare `use self;`).  The de-duplication is the repaired one (`is_repeated_by`: same path, same
visibility, no attributes, no comments). -/
theorem run_idem_item {cmp : Tree → Tree → Ordering} (tp : TotalPreorder cmp) (gt : GroupTactic)
    (reorder : Bool) (items normalized : List Item)
    (hn : mapE (normalizeItem cmp) items = .ok normalized)
    (hwf : ∀ it ∈ items, wfPath true it.tree.path = true) :
    ∃ groups, runTwice cmp .item gt reorder items = .ok (groups, groups) :=
  RF.Lemmas.Idem.run_idem_item tp gt reorder items normalized hn hwf

/-- Non-vacuity: `use a::{self, b::{c, *}}; use a::b::c as x;` -/
example :
    let items := [use [i 'a', .list [.mk [.slf none], .mk [i 'b', .list [.mk [i 'c'], .mk [.glob]]]]],
      use [i 'a', i 'b', ia 'c' 'x']]
    mapE (normalizeItem (treeCmp false)) items = .ok items ∧
      (∀ it ∈ items, wfPath true it.tree.path = true) ∧
      runTwice (treeCmp false) .item .stdExternalCrate true items =
        .ok ([[use [i 'a', i 'b', i 'c'], use [i 'a', i 'b', ia 'c' 'x'], use [i 'a', i 'b', .glob],
               use [i 'a', .list [.mk [.slf none]]]]],
             [[use [i 'a', i 'b', i 'c'], use [i 'a', i 'b', ia 'c' 'x'], use [i 'a', i 'b', .glob],
               use [i 'a', .list [.mk [.slf none]]]]]) := by
  decide +kernel

/-- Non-vacuity with `{}` and with the repaired de-duplication:
`use a::{b::{}, c}; pub use a::c; use a::{c, d::{e::{}}};` under `Item` is written
`use a::c; pub use a::c;` by both runs (the third declaration repeats the first: same path, same
visibility; the `pub` one does not and is kept — `unique()` used to drop it). -/
example :
    let items := [use [i 'a', .list [.mk [i 'b', .list []], .mk [i 'c']]],
      (⟨.mk [i 'a', i 'c'], some "pub".toList, none, false⟩ : Item),
      use [i 'a', .list [.mk [i 'c'], .mk [i 'd', .list [.mk [i 'e', .list []]]]]]]
    (∀ it ∈ items, wfPath true it.tree.path = true) ∧
      runTwice (treeCmp false) .item .stdExternalCrate true items =
        .ok ([[use [i 'a', i 'c'], ⟨.mk [i 'a', i 'c'], some "pub".toList, none, false⟩]],
             [[use [i 'a', i 'c'], ⟨.mk [i 'a', i 'c'], some "pub".toList, none, false⟩]]) := by
  decide +kernel

/-- `normalize` keeps the input hypothesis `wfPath` (so it holds of what the second run reads), and
the result has no `{}` left when the input had none or the declaration has no attributes
(`#[a] use b::{};` is kept as it is).  Strengthened: the former statement needed `leafyPath` of the
input for both parts. -/
theorem useNormalize_keeps_wf {cmp : Tree → Tree → Ordering} (it it' : Item)
    (h : normalizeItem cmp it = .ok it') (hwf : wfPath true it.tree.path = true) :
    wfPath true it'.tree.path = true ∧
      (leafyPath it.tree.path = true ∨ it.attrs = none → leafyPath it'.tree.path = true) := by
  obtain ⟨hp, -⟩ := normalizeItem_path h
  refine ⟨normPath_wf _ _ _ _ _ _ true hp hwf, ?_⟩
  rintro (hleafy | hattrs)
  · have := normalizeItem_okPath it it' h (by simp [okPath, hwf, hleafy])
    simp only [okPath, Bool.and_eq_true] at this
    exact this.2
  · exact normPath_leafy _ _ _ _ _ _ true (by simp [hattrs]) hp hwf

/-- Without either: `#[x] use a::{b::{}, c::{}};` keeps an empty list (`#[x] use a::{};`), which is a
fixed point all the same. -/
theorem useNormalize_attrs_keeps_empty_list :
    let it : Item := ⟨.mk [i 'a', .list [.mk [i 'b', .list []], .mk [i 'c', .list []]]], some [], some (n 'x'), false⟩
    let it' : Item := ⟨.mk [i 'a', .list []], some [], some (n 'x'), false⟩
    normalizeItem (treeCmp false) it = .ok it' ∧ leafyPath it'.tree.path = false ∧
      normalizeItem (treeCmp false) it' = .ok it' := by
  decide +kernel

/-- Non-vacuity: `use std::{b, a::self, c::{}}; use a::{self}; use crate::x as y;` -/
example :
    let items := [use [.ident "std".toList none, .list [.mk [i 'b'], .mk [i 'a', .slf none], .mk [i 'c', .list []]]],
      use [i 'a', .list [.mk [.slf none]]], use [.crate none, ia 'x' 'y']]
    ∃ normalized, mapE (normalizeItem (treeCmp true)) items = .ok normalized ∧
      (∀ it ∈ items, wfPath true it.tree.path = true) ∧
      (∀ it ∈ normalized, bareSelf it = false) :=
  ⟨[use [.ident "std".toList none, .list [.mk [i 'a'], .mk [i 'b']]],
    use [i 'a', .list [.mk [.slf none]]], use [.crate none, ia 'x' 'y']],
   by decide +kernel, by decide +kernel, by decide +kernel⟩

/-! ## (iii) Newline style -/
section Newline
open RF.Newline

/-- `apply_newline_style` applied to its own output — which is also the raw input of the second run,
so `Auto` detects from it — is the identity: for `Windows` always; for `Unix`, `Native` and an `Auto`
that detected Unix, when the text handed to the converter contains no `\r\r\n`. -/
theorem applyNewlineStyle_idem (style : Style) (formatted raw : List Char)
    (h : effective style raw = .unix → hasCrCrLf formatted = false) :
    applyNewlineStyle style (applyNewlineStyle style formatted raw)
        (applyNewlineStyle style formatted raw) = applyNewlineStyle style formatted raw :=
  RF.Lemmas.Idem.applyNewlineStyle_idem style formatted raw h

example : effective .auto ['a', '\r', '\n'] = .windows := by decide
example : effective .auto ['a', '\n'] = .unix ∧ hasCrCrLf ['x', '\r', '\n', 'y', '\n'] = false := by
  decide

/-- What `Auto` detects on the second run: a converted-to-Windows text is detected as Windows (or has
no line terminator at all), a text without `\r\n` as Unix. -/
theorem auto_redetects (t : List Char) :
    (autoDetect (convertToWindows t) = .windows ∨ '\n' ∉ convertToWindows t) ∧
    (hasCrLf t = false → autoDetect t = .unix) :=
  ⟨autoDetect_of_everyLfAfterCr _ (RF.Lemmas.Newline.everyLfAfterCr_windows t none),
   autoDetect_of_noCrLf t⟩

/-- Without the hypothesis (C08 F5b): under `Unix` the text `a\r\r\n` becomes `a\r\n`, then `a\n`;
under `Auto` with a Unix raw input, `a\r\r\nb\n` becomes `a\r\nb\n`, is then detected as *Windows*
and becomes `a\r\nb\r\n`. -/
theorem applyNewlineStyle_idem_counterexample :
    applyNewlineStyle .unix ['a', '\r', '\r', '\n'] [] = ['a', '\r', '\n'] ∧
    applyNewlineStyle .unix ['a', '\r', '\n'] ['a', '\r', '\n'] = ['a', '\n'] ∧
    applyNewlineStyle .auto ['a', '\r', '\r', '\n', 'b', '\n'] ['\n'] = ['a', '\r', '\n', 'b', '\n'] ∧
    applyNewlineStyle .auto ['a', '\r', '\n', 'b', '\n'] ['a', '\r', '\n', 'b', '\n'] =
      ['a', '\r', '\n', 'b', '\r', '\n'] := by
  decide

/-- Re-exports of C08: the two converters. -/
theorem windows_idempotent (t : List Char) :
    convertToWindows (convertToWindows t) = convertToWindows t :=
  RF.Props.C08.windows_idempotent t

theorem unix_idempotent_partial (t : List Char) (h : hasCrCrLf t = false) :
    convertToUnix (convertToUnix t) = convertToUnix t :=
  RF.Props.C08.unix_idempotent_partial t h

/-! ## (ii) Final newline -/

/-- A text `p ++ "\n"` whose body `p` ends in ordinary text (not `\n`, not `\r`) is what
`append_newline` + the truncation of `format_lines` return for **every** buffer `p ++ "\n"^k`: the next
run's visitor re-emits `p` followed by however many newlines, `append_newline` adds one, the truncation
keeps exactly one. -/
theorem finalize_fixed (p : List Char) (k : Nat)
    (hp : ∀ x, p.getLast? = some x → x ≠ '\n' ∧ x ≠ '\r') :
    finalize (p ++ List.replicate k '\n') = some (p ++ ['\n']) :=
  RF.Lemmas.Idem.finalize_fixed p k hp

example : ∀ x, ['f', 'n', ' ', 'f', '(', ')', ' ', '{', '}'].getLast? = some x → x ≠ '\n' ∧ x ≠ '\r' := by
  simp

/-- The first run's output has that form (C08 `exactly_one_final_newline`), hence: first run, then
second run on any buffer that re-emits the body, give the same text; and the truncation alone leaves
the first output as it is. -/
theorem truncate_append_fixed (b : List Char) (hcr : '\r' ∉ b) (hne : ∃ x ∈ b, x ≠ '\n') :
    ∃ p, finalize b = some (p ++ ['\n']) ∧ p ≠ [] ∧
      (∀ k, finalize (p ++ List.replicate k '\n') = some (p ++ ['\n'])) ∧
      formatLinesTruncate (p ++ ['\n']) = some (p ++ ['\n']) :=
  RF.Lemmas.Idem.finalize_idem b hcr hne

example : '\r' ∉ ['a', '\n', '\n', '\n'] ∧ ∃ x ∈ ['a', '\n', '\n', '\n'], x ≠ '\n' := by decide

/-- The truncation is the identity on every text whose trailing run holds at most one `\n`. -/
theorem truncate_fixed (t : List Char) (h : newlineCount 0 t ≤ 1) : formatLinesTruncate t = some t :=
  RF.Lemmas.Idem.truncate_fixed t h

example : newlineCount 0 ['a', '\n', 'b', '\n'] ≤ 1 := by decide

/-! ## (ii) Blank lines -/

/-- Re-export of C08: clamping is idempotent for `lower ≤ upper` … -/
theorem clampBlank_idem (off req lower upper : Nat) (h : lower ≤ upper) :
    clampBlank (clampBlank off req lower upper) 0 lower upper = clampBlank off req lower upper :=
  RF.Props.C08.clampBlank_idem off req lower upper h

/-- … and a gap produced by the clamp is reproduced when it is the request of the second pass. -/
theorem clampBlank_reformat (req lower upper : Nat) (h : lower ≤ upper) :
    clampBlank 0 (clampBlank 0 req lower upper) lower upper = clampBlank 0 req lower upper :=
  RF.Props.C08.clampBlank_reformat req lower upper h

/-- With `blank_lines_lower_bound > blank_lines_upper_bound` (F17) it is not. -/
theorem clampBlank_idem_counterexample :
    clampBlank (clampBlank 0 3 2 1) 0 2 1 ≠ clampBlank 0 3 2 1 :=
  RF.Props.C08.clampBlank_idem_counterexample

/-- A gap already within the bounds is left as it is: with `off` newlines at the end of the buffer
and `lower + 1 ≤ off + req ≤ upper + 1`, `push_vertical_spaces` pushes exactly the `req` newlines
asked for.  (No hypothesis relating `lower` and `upper`.) -/
theorem pushVerticalSpaces_fixed (off req lower upper : Nat) (h1 : lower + 1 ≤ req + off)
    (h2 : req + off ≤ upper + 1) : pushVerticalSpaces off req lower upper = req :=
  RF.Lemmas.Idem.pushVerticalSpaces_fixed off req lower upper h1 h2

example : (0 : Nat) + 1 ≤ 2 + 0 ∧ 2 + 0 ≤ 1 + 1 := by decide

/-! ## (iii) Trailing whitespace -/

/-- Re-exports of C08, with their honest hypotheses: the loop of `remove_trailing_white_spaces` is
idempotent on a fixed classification of the characters … -/
theorem removeTrailingWhitespace_idem (ks : List (CC.Kind × Char)) :
    rtwTagged [] (rtwTagged [] ks) = rtwTagged [] ks :=
  RF.Props.C08.removeTrailingWhitespace_idem ks

/-- … the whole function (which re-runs `CharClasses`) on every text whose classification survives
the removal (`rtwStable`, decidable, `nl.oracle.rtwstable`) … -/
theorem removeTrailingWhitespace_idem_partial (t out : List Char) (hs : rtwStable t = true)
    (h : removeTrailingWhiteSpaces t = some out) : removeTrailingWhiteSpaces out = some out :=
  RF.Props.C08.removeTrailingWhitespace_idem_partial t out hs h

/-- … in particular on every text without `'`. -/
theorem removeTrailingWhitespace_idem_no_quote_partial (t out : List Char) (hq : '\'' ∉ t)
    (h : removeTrailingWhiteSpaces t = some out) : removeTrailingWhiteSpaces out = some out :=
  RF.Props.C08.removeTrailingWhitespace_idem_no_quote_partial t out hq h

/-- Not in general (C08; the input is not lexable Rust). -/
theorem removeTrailingWhitespace_idem_counterexample :
    removeTrailingWhiteSpaces ['\'', ' ', '\n', '\'', '"', '\'', '"', ' ', '\n'] =
      some ['\'', '\n', '\'', '"', '\'', '"', ' ', '\n'] ∧
    removeTrailingWhiteSpaces ['\'', '\n', '\'', '"', '\'', '"', ' ', '\n'] =
      some ['\'', '\n', '\'', '"', '\'', '"', '\n'] :=
  RF.Props.C08.removeTrailingWhitespace_idem_counterexample

end Newline

/-! ## (iv) Skipped code -/
section Skip
open RF.Skip

/-- `str::trim` is idempotent. -/
theorem trim_idem (s : List Char) : trim (trim s) = trim s := RF.Lemmas.Idem.trim_idem s

/-- The `trim` of `process_missing_code` (`RF.Model.Newline`, the same `str::trim`) likewise. -/
theorem processMissingCode_trim_idem (s : List Char) :
    RF.Newline.trim (RF.Newline.trim s) = RF.Newline.trim s := newlineTrim_idem s

/-- Formatting a text that contains an already verbatim-copied skipped node: when the span
`lo2..hi2` of the second run's source holds what the first run pushed for the node (`trim sn`),
`push_skipped_with_span` pushes the same characters again. -/
theorem pushSkipped_roundtrip {src2 : List Char} {st st' : State} {attrHis : List Nat}
    {lo2 hi2 mainLo : Nat} {w sn : List Char}
    (hsn : snippet src2 lo2 hi2 = some (trim sn))
    (h : pushSkipped src2 st attrHis lo2 hi2 mainLo w = some st') :
    st'.buffer = st.buffer ++ w ++ trim sn := by
  obtain ⟨sn', hsn', -, hb, -⟩ := RF.Skip.pushSkipped_spec h
  rw [hsn] at hsn'
  cases hsn'
  rw [hb, RF.Lemmas.Idem.trim_idem]

/-- Non-vacuity: first run pushes `#[s] fn  f( ) {}` for the span ` #[s] fn  f( ) {} `-with-blanks;
the second run, on a source holding exactly that, pushes it again. -/
example :
    let sn := " #[s] fn  f( ) {}\n".toList
    let src2 := "a;\n#[s] fn  f( ) {}\n".toList
    snippet src2 3 19 = some (trim sn) ∧
      ∃ st', pushSkipped src2 ⟨"a;".toList, 2, 0, []⟩ [7] 3 19 3 "\n".toList = some st' ∧
        st'.buffer = "a;\n#[s] fn  f( ) {}".toList := by
  decide

end Skip

end RF.Props.C02
