/-
Line protocol shared by the model driver (`Main.lean`) and the Rust harness.

A request is one line: `op arg1 arg2 …`, blank separated.  Argument encodings:
  * number            decimal
  * string            lower-case hex of its UTF-8 bytes, `-` for the empty string
  * list of strings   items (encoded as above) joined by `,`; the empty list is `_`
A response is one line in the same encodings (each op documents its shape).
Import-free on purpose: the driver is linked as a native executable.
-/
namespace RF.Proto

def hexDigit (n : Nat) : Char :=
  if n < 10 then Char.ofNat (48 + n) else Char.ofNat (87 + n)

def hexVal (c : Char) : Option Nat :=
  if '0' ≤ c ∧ c ≤ '9' then some (c.toNat - 48)
  else if 'a' ≤ c ∧ c ≤ 'f' then some (c.toNat - 87)
  else if 'A' ≤ c ∧ c ≤ 'F' then some (c.toNat - 55)
  else none

def encBytes (bs : List UInt8) : String :=
  if bs.isEmpty then "-" else
  String.ofList (bs.foldr (fun b acc => hexDigit (b.toNat / 16) :: hexDigit (b.toNat % 16) :: acc) [])

def decBytesAux : List Char → Option (List UInt8)
  | [] => some []
  | [_] => none
  | a :: b :: rest =>
    match hexVal a, hexVal b, decBytesAux rest with
    | some x, some y, some r => some (UInt8.ofNat (x * 16 + y) :: r)
    | _, _, _ => none

def decBytes (s : String) : Option (List UInt8) :=
  if s == "-" then some [] else decBytesAux s.toList

def encStr (s : String) : String := encBytes s.toUTF8.toList

def decStr (s : String) : Option String :=
  match decBytes s with
  | some bs =>
    let ba := ByteArray.mk bs.toArray
    if h : ba.IsValidUTF8 then some (String.fromUTF8 ba h) else none
  | none => none

def encList (xs : List String) : String :=
  if xs.isEmpty then "_" else String.intercalate "," (xs.map encStr)

def decList (s : String) : Option (List String) :=
  if s == "_" then some [] else (s.splitOn ",").mapM decStr

def encChars (cs : List Char) : String := encStr (String.ofList cs)
def decChars (s : String) : Option (List Char) := (decStr s).map String.toList

end RF.Proto
