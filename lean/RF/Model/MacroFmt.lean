import RF.Model.Shape
import RF.Model.Comment
/-!
# Model of the token-stream scanners of `/repo/src/macros.rs` and `/repo/src/parse/macros/mod.rs`

These paths of rustfmt do not work on the AST but on `rustc_ast::tokenstream::TokenStream`s and on
plain text with hand-written scanners.  Modelled literally (quirks included):

  * `MacroArgParser` (`parse`, `add_separator`, `add_other`, `add_meta_variable`, `add_repeat`,
    `add_delimited`, `update_buffer`, `need_space_prefix`, `set_last_tok`), `next_space`,
    `force_space_before`, `ident_like`                               → `Parser.*`, `parseMatcher`
  * `MacroArgKind::rewrite`, `rewrite_delimited_inner`, `delim_token_to_str`, `wrap_macro_args`,
    `wrap_macro_args_inner`, `format_macro_args`                      → `rewriteArg`, `wrapInner`, `formatMatcher`
  * `replace_names`, `register_metavariable` and the loop of `MacroBranch::rewrite` that undoes the
    substitution (`old_body.contains(new)` → bail, `new_body.replace(new, old)` for every entry of
    the `HashMap`, in an order the model takes as a parameter)        → `replaceNames`, `undo`
  * `MacroParser::parse` / `parse_branch`                             → `parseBranches`
  * `macro_style`, the delimiter / `;` / trailing-comma decisions of `rewrite_macro_inner`, the
    loop of `parse_macro_args` over an abstract argument stream     → `macroStyle`, `callPlan`, `parseMacroArgs`

A token is what the scanners see of it: its `TokenKind` variant and `pprust::token_to_string`.  A
rewritten matcher is a list of `Piece`s — tokens and white space — so that "the tokens of the
output" is a projection and not a re-lexing; `render` gives the `String` the code builds, and the
correspondence check compares exactly that string.

Import-free apart from other `RF.Model` files (linked into the native driver).
-/
namespace RF.MacroFmt
open RF.Shape

/-! ## Tokens and token trees -/

/-- The `TokenKind` variants a source token stream can hold (`OpenDelim` / `CloseDelim` appear only
as `last_tok`, see `LastTok`).  `IdentRaw` = `Ident(_, IdentIsRaw::Yes)`. -/
inductive Kind where
  | Eq | Lt | Le | EqEq | Ne | Ge | Gt | AndAnd | OrOr | Bang | Tilde
  | Plus | Minus | Star | Slash | Percent | Caret | And | Or | Shl | Shr
  | PlusEq | MinusEq | StarEq | SlashEq | PercentEq | CaretEq | AndEq | OrEq | ShlEq | ShrEq
  | At | Dot | DotDot | DotDotDot | DotDotEq | Comma | Semi | Colon | PathSep
  | RArrow | LArrow | FatArrow | Pound | Dollar | Question | SingleQuote
  | Ident | IdentRaw | Literal | Lifetime | DocCommentLine | DocCommentBlock
  deriving DecidableEq, Repr, Inhabited

inductive Delim where
  | paren | bracket | brace
  deriving DecidableEq, Repr, Inhabited

/-- One token: kind and `pprust::token_to_string`. -/
structure Tok where
  kind : Kind
  text : List Char
  deriving DecidableEq, Repr, Inhabited

/-- `rustc_ast::tokenstream::TokenTree` (spans and spacing dropped). -/
inductive TT where
  | tok (t : Tok)
  | delim (d : Delim) (inner : List TT)
  deriving Repr, Inhabited

/-- A token of the flattened stream: a plain token or a delimiter. -/
inductive FTok where
  | t (tok : Tok)
  | o (d : Delim)
  | c (d : Delim)
  deriving DecidableEq, Repr, Inhabited

mutual
/-- The token sequence of a tree, delimiters included. -/
def TT.flat : TT → List FTok
  | .tok t => [.t t]
  | .delim d inner => .o d :: (flatList inner ++ [.c d])
def flatList : List TT → List FTok
  | [] => []
  | t :: ts => t.flat ++ flatList ts
end

def Delim.openChar : Delim → Char
  | .paren => '(' | .bracket => '[' | .brace => '{'
def Delim.closeChar : Delim → Char
  | .paren => ')' | .bracket => ']' | .brace => '}'

def FTok.text : FTok → List Char
  | .t tok => tok.text
  | .o d => [d.openChar]
  | .c d => [d.closeChar]

/-- Output of the matcher formatter: tokens and the white space between them. -/
inductive Piece where
  | ft (t : FTok)
  | ws (cs : List Char)
  deriving DecidableEq, Repr, Inhabited

def Piece.text : Piece → List Char
  | .ft t => t.text
  | .ws cs => cs

/-- The string the code builds. -/
def render : List Piece → List Char
  | [] => []
  | p :: ps => p.text ++ render ps

/-- The tokens of a piece list ("erasing white space"). -/
def toks : List Piece → List FTok
  | [] => []
  | .ft t :: ps => t :: toks ps
  | .ws _ :: ps => toks ps

def ptok (t : Tok) : Piece := .ft (.t t)
def sp : Piece := .ws [' ']

abbrev blen (ps : List Piece) : Nat := RF.Comment.utf8Len (render ps)

/-- `String::pop` on the rendered pieces. -/
def popChar (ps : List Piece) : List Piece :=
  match ps.getLast? with
  | none => []
  | some (.ws cs) => if cs.length ≤ 1 then ps.dropLast else ps.dropLast ++ [.ws cs.dropLast]
  | some (.ft (.t t)) =>
    if t.text.length ≤ 1 then ps.dropLast else ps.dropLast ++ [.ft (.t { t with text := t.text.dropLast })]
  | some (.ft _) => ps.dropLast

/-! ## `SpaceState`, `next_space`, `force_space_before`, `ident_like` (`macros.rs:1046-1134`) -/

inductive SpaceState where
  | never | punctuation | ident | always
  deriving DecidableEq, Repr

/-- `force_space_before` -/
def forceSpaceBefore : Kind → Bool
  | .Eq | .Lt | .Le | .EqEq | .Ne | .Ge | .Gt | .AndAnd | .OrOr | .Bang | .Tilde
  | .PlusEq | .MinusEq | .StarEq | .SlashEq | .PercentEq | .CaretEq | .AndEq | .OrEq | .ShlEq | .ShrEq
  | .At | .RArrow | .LArrow | .FatArrow
  | .Plus | .Minus | .Star | .Slash | .Percent | .Caret | .And | .Or | .Shl | .Shr
  | .Pound | .Dollar => true
  | _ => false

/-- `ident_like` -/
def identLike : Kind → Bool
  | .Ident | .IdentRaw | .Literal | .Lifetime => true
  | _ => false

/-- `self.last_tok`: `Eof` at the start, a token, or the `CloseDelim` that `last_tok(tt)` makes of a
delimited group. -/
inductive LastTok where
  | eof
  | tok (t : Tok)
  | close (d : Delim)
  deriving DecidableEq, Repr, Inhabited

/-- `next_space` on a token kind -/
def nextSpaceKind : Kind → SpaceState
  | .Bang | .And | .Tilde | .At | .Comma | .Dot | .DotDot | .DotDotDot | .DotDotEq | .Question => .punctuation
  | .PathSep | .Pound | .Dollar => .never
  | .Literal | .Ident | .IdentRaw | .Lifetime => .ident
  | _ => .always

/-- `next_space(&self.last_tok.kind)` -/
def nextSpace : LastTok → SpaceState
  | .eof => .always
  | .close _ => .never
  | .tok t => nextSpaceKind t.kind

/-- `needs_space` of `update_buffer`: does the token behind `last` get a blank in front -/
def needsSpace (last : LastTok) (k : Kind) : Bool :=
  match nextSpace last with
  | .ident => identLike k
  | .punctuation => !identLike k
  | .always => true
  | .never => false

/-! ## `ParsedMacroArg` -/

/-- `MacroArgKind`.  Strings are kept as pieces so that their tokens stay visible; `name`, `sep`,
`inner`, `prefix` and `another` are rendered exactly as the `String`s of the Rust code. -/
inductive Arg where
  /-- `MetaVariable(ty, name)`: `ty` is the fragment specifier's symbol (printed without `r#`) -/
  | metaVar (ty : List Char) (name : List Piece)
  /-- `Repeat(delim, args, another, tok)`; `another` is the `Other(buffer, "")` behind the group -/
  | repeat (d : Delim) (args : List Arg) (another : Option (List Piece)) (tok : Tok)
  | delimited (d : Delim) (args : List Arg)
  | separator (sep : List Piece) (pre : List Piece)
  | other (inner : List Piece) (pre : List Piece)
  deriving Repr, Inhabited

def Arg.startsWithBrace : Arg → Bool
  | .repeat .brace _ _ _ => true
  | .delimited .brace _ => true
  | _ => false

def Arg.startsWithDollar : Arg → Bool
  | .repeat .. => true
  | .metaVar .. => true
  | _ => false

def Arg.endsWithSpace : Arg → Bool
  | .separator .. => true
  | _ => false

mutual
/-- `MacroArgKind::has_meta_var` -/
def Arg.hasMetaVar : Arg → Bool
  | .metaVar .. => true
  | .repeat _ args _ _ => anyMetaVar args
  | _ => false
def anyMetaVar : List Arg → Bool
  | [] => false
  | a :: as => a.hasMetaVar || anyMetaVar as
end

/-! ## `MacroArgParser` (`macros.rs:705-990`) -/

/-- What the loop of `parse` is in the middle of: `add_meta_variable` and `add_repeat` take further
trees from the same iterator. -/
inductive Mode where
  | normal
  /-- inside `add_meta_variable`: the next tree must be the fragment specifier -/
  | frag (colon : Tok)
  /-- inside `add_repeat`: looking for `*`, `+` or `?`; `buffer` is the separator seen so far -/
  | rep (d : Delim) (args : List Arg) (buffer : Option Tok)
  deriving Repr, Inhabited

structure PState where
  buf : List Piece := []
  startTok : Option Tok := none
  isMetaVar : Bool := false
  lastTok : LastTok := .eof
  result : List Arg := []
  mode : Mode := .normal
  deriving Repr, Inhabited

namespace PState

def bufEmpty (s : PState) : Bool := (render s.buf).isEmpty

/-- `need_space_prefix` -/
def needSpacePrefix (s : PState) : Bool :=
  match s.result.getLast? with
  | none => false
  | some last =>
    let k? := s.startTok.map (·.kind)
    (match last with
      | .metaVar .. => (match k? with | some k => identLike k || k == .Colon | none => false)
      | _ => false)
    || (match k? with | some k => forceSpaceBefore k | none => false)

def pre (s : PState) : List Piece := if s.needSpacePrefix then [sp] else []

/-- `add_separator` -/
def addSeparator (s : PState) : PState :=
  { s with result := s.result ++ [.separator s.buf s.pre], buf := [] }

/-- `add_other` -/
def addOther (s : PState) : PState :=
  { s with result := s.result ++ [.other s.buf s.pre], buf := [] }

/-- `update_buffer` -/
def updateBuffer (s : PState) (t : Tok) : PState :=
  if s.bufEmpty then { s with startTok := some t, buf := s.buf ++ [ptok t] }
  else if forceSpaceBefore t.kind || needsSpace s.lastTok t.kind then { s with buf := s.buf ++ [sp, ptok t] }
  else { s with buf := s.buf ++ [ptok t] }

end PState

def isRepeatOp : Kind → Bool
  | .Plus | .Question | .Star => true
  | _ => false

def isDoc : Kind → Bool
  | .DocCommentLine | .DocCommentBlock => true
  | _ => false

/-- The end of `parse`: `is_meta_var` still set or a pending look-ahead → `None`; the rest of the
buffer becomes an `Other`. -/
def finish (s : PState) : Option (List Arg) :=
  match s.mode with
  | .normal =>
    if s.isMetaVar then none
    else if !s.bufEmpty then some (s.addOther).result else some s.result
  | _ => none

/-- A plain token in the `while let Some(tok) = iter.next()` loop of `parse` (or in the loops inside
`add_meta_variable` / `add_repeat` when one of them holds the iterator). -/
def stepTok (s : PState) (t : Tok) : Option PState :=
  match s.mode with
  | .frag colon =>
    -- `add_meta_variable`: only a plain identifier is a fragment specifier
    if t.kind == .Ident then
      some { s with result := s.result ++ [.metaVar t.text s.buf], buf := [], isMetaVar := false,
                    mode := .normal, lastTok := .tok colon }
    else none
  | .rep d args buffer =>
    if isRepeatOp t.kind then
      -- `/` in front of `*` would open a comment
      if (match buffer with | some b => b.text == ['/'] | none => false) && t.kind == .Star then none else
      let another := match buffer with
        | none => none
        | some b => if (RF.Comment.trim b.text).isEmpty then none else some [ptok b]
      some { s with result := s.result ++ [.repeat d args another t], mode := .normal,
                    isMetaVar := false, lastTok := .close d }
    else if isDoc t.kind then none
    else match buffer with
      | none => some { s with mode := .rep d args (some t) }
      | some _ => none
  | .normal =>
    if t.kind == .Dollar then
      if s.isMetaVar then none
      else
        let s := if !s.bufEmpty then s.addSeparator else s
        some { s with isMetaVar := true, startTok := some t, lastTok := .tok t }
    else if t.kind == .Colon && s.isMetaVar then some { s with mode := .frag t }
    else if isDoc t.kind then none
    else some { (s.updateBuffer t) with lastTok := .tok t }

/-- A delimited group in the loop of `parse`; `sub` is what the fresh parser makes of its trees. -/
def stepDelim (s : PState) (d : Delim) (sub : Option (List Arg)) : Option PState :=
  match s.mode with
  | .normal =>
    let flushed : Option PState :=
      if !s.bufEmpty then
        if s.isMetaVar then none
        else if nextSpace s.lastTok == .always then some s.addSeparator else some s.addOther
      else some s
    match flushed, sub with
    | some s, some args =>
      if s.isMetaVar then some { s with mode := .rep d args none }
      else some { s with result := s.result ++ [.delimited d args], lastTok := .close d }
    | _, _ => none
  | _ => none

mutual
/-- One tree of the loop. -/
def stepTT (s : PState) : TT → Option PState
  | .tok t => stepTok s t
  | .delim d inner =>
    stepDelim s d (match parseList {} inner with
      | none => none
      | some sub => finish sub)
termination_by structural t => t
def parseList (s : PState) : List TT → Option PState
  | [] => some s
  | t :: ts =>
    match stepTT s t with
    | none => none
    | some s' => parseList s' ts
termination_by structural ts => ts
end

/-- `MacroArgParser::new().parse(tokens)` -/
def parseMatcher (ts : List TT) : Option (List Arg) :=
  match parseList {} ts with
  | none => none
  | some s => finish s

/-- What every token of a real stream satisfies: its text is not blank, `$` and `:` are spelled
`$` and `:` (the rewrite prints these two itself). -/
def Tok.ok (t : Tok) : Bool :=
  !(RF.Comment.trim t.text).isEmpty && (t.kind != .Dollar || t.text == ['$']) &&
    (t.kind != .Colon || t.text == [':'])

mutual
def TT.ok : TT → Bool
  | .tok t => t.ok
  | .delim _ inner => okList inner
def okList : List TT → Bool
  | [] => true
  | t :: ts => t.ok && okList ts
end

/-! ## `MacroArgKind::rewrite`, `wrap_macro_args` (`macros.rs:583-700, 992-1060`) -/

/-- Why a rewrite has no result: `Err(..)`, or a panic inside `Indent::to_string_inner`. -/
inductive Fail where
  | err
  | panic
  deriving DecidableEq, Repr

abbrev R (α : Type) := Except Fail α

def liftPanic {α : Type} : Except Panic α → R α
  | .ok a => .ok a
  | .error _ => .error .panic

/-- `a.or_else(|_| b())` -/
def retry {α : Type} (a : R α) (b : Unit → R α) : R α :=
  match a with
  | .error .err => b ()
  | x => x

def dollar : Tok := ⟨.Dollar, ['$']⟩
def colon : Tok := ⟨.Colon, [':']⟩

/-- `delim_token_to_str` -/
def delimTokenToStr (config : Config) (d : Delim) (shape : Shape) (multi innerEmpty : Bool) :
    R (List Piece × List Piece) :=
  let pad : Bool := match d with
    | .brace => !(innerEmpty || multi)
    | _ => false
  let lhs : List Piece := .ft (.o d) :: (if pad then [sp] else [])
  let rhs : List Piece := (if pad then [sp] else []) ++ [.ft (.c d)]
  if multi then
    match liftPanic (shape.indent.to_string_with_newline config) with
    | .error e => .error e
    | .ok indentStr =>
      match liftPanic ((shape.indent.blockIndent config).to_string_with_newline config) with
      | .error e => .error e
      | .ok nested => .ok (lhs ++ [.ws nested], .ws indentStr :: rhs)
  else .ok (lhs, rhs)

/-- `wrap_macro_args_inner` around its loop (`loop` gets the indent string). -/
def wrapInnerWith (config : Config) (shape : Shape) (multi : Bool)
    (loop : List Char → R (List Piece)) : R (List Piece) :=
  match liftPanic (shape.indent.to_string_with_newline config) with
  | .error e => .error e
  | .ok indentStr =>
    match loop indentStr with
    | .error e => .error e
    | .ok result => if !multi && blen result ≥ shape.width then .error .err else .ok result

/-- `rewrite_delimited_inner` given `wrap_macro_args` on the group's arguments as a function of the
shape: `(lhs, inner, rhs)` concatenated. -/
def rewriteDelimitedWith (config : Config) (shape : Shape) (d : Delim)
    (wrap : Shape → R (List Piece)) : R (List Piece) :=
  match wrap shape with
  | .error e => .error e
  | .ok inner =>
    match delimTokenToStr config d shape false (render inner).isEmpty with
    | .error e => .error e
    | .ok (lhs, rhs) =>
      if blen lhs + blen inner + blen rhs ≤ shape.width then .ok (lhs ++ inner ++ rhs)
      else
        match delimTokenToStr config d shape true false with
        | .error e => .error e
        | .ok (lhs, rhs) =>
          match wrap ((shape.block_indent config.tab_spaces).with_max_width config) with
          | .error e => .error e
          | .ok inner => .ok (lhs ++ inner ++ rhs)

/-- What `wrap_macro_args_inner` puts behind the rewritten `arg` (`acc` ends with it). -/
def wrapGlue (multi : Bool) (indentStr : List Char) (arg : Arg) (next : Option Arg)
    (acc : List Piece) : List Piece :=
  let nextMeta := match next with | some n => n.hasMetaVar | none => false
  if multi && (arg.endsWithSpace || nextMeta) then
    (if arg.endsWithSpace then popChar acc else acc) ++ [.ws indentStr]
  else
    match next with
    | some n =>
      if (!arg.endsWithSpace && n.startsWithDollar) || n.startsWithBrace then acc ++ [sp] else acc
    | none => acc

mutual
/-- `ParsedMacroArg::rewrite` (`use_multiple_lines` is passed on and never read) -/
def rewriteArg (config : Config) (shape : Shape) : Arg → R (List Piece)
  | .metaVar ty name => .ok (ptok dollar :: (name ++ [ptok colon, ptok ⟨.Ident, ty⟩]))
  | .repeat d args another tok =>
    match rewriteDelimitedWith config shape d (fun sh =>
        retry (wrapInnerWith config sh false (fun s => wrapLoop config sh false s [] args))
          (fun _ => wrapInnerWith config sh true (fun s => wrapLoop config sh true s [] args))) with
    | .error e => .error e
    | .ok b => .ok (ptok dollar :: (b ++ another.getD [] ++ [ptok tok]))
  | .delimited d args =>
    rewriteDelimitedWith config shape d (fun sh =>
      retry (wrapInnerWith config sh false (fun s => wrapLoop config sh false s [] args))
        (fun _ => wrapInnerWith config sh true (fun s => wrapLoop config sh true s [] args)))
  | .separator s pre => .ok (pre ++ s ++ [sp])
  | .other inner pre => .ok (pre ++ inner)
termination_by structural a => a
/-- The `while let Some(arg) = iter.next()` loop of `wrap_macro_args_inner`; `acc` is `result`. -/
def wrapLoop (config : Config) (shape : Shape) (multi : Bool) (indentStr : List Char)
    (acc : List Piece) : List Arg → R (List Piece)
  | [] => .ok acc
  | arg :: rest =>
    match rewriteArg config shape arg with
    | .error e => .error e
    | .ok r => wrapLoop config shape multi indentStr (wrapGlue multi indentStr arg rest.head? (acc ++ r)) rest
termination_by structural args => args
end

/-- `wrap_macro_args_inner` -/
def wrapInner (config : Config) (shape : Shape) (multi : Bool) (args : List Arg) : R (List Piece) :=
  wrapInnerWith config shape multi (fun s => wrapLoop config shape multi s [] args)

/-- `wrap_macro_args` -/
def wrapMacroArgs (config : Config) (shape : Shape) (args : List Arg) : R (List Piece) :=
  retry (wrapInner config shape false args) (fun _ => wrapInner config shape true args)

/-- `format_macro_args` with `format_macro_matchers = true`; `none` = `MacroArgParser::parse`
returned `None` (the definition is then left as written). -/
def formatMatcher (config : Config) (shape : Shape) (ts : List TT) : Option (R (List Piece)) :=
  match parseMatcher ts with
  | none => none
  | some args => some (wrapMacroArgs config shape args)

/-! ## `replace_names` (`macros.rs:501-575`) and its undoing in `MacroBranch::rewrite` -/

/-- `char::is_alphanumeric` on the characters the correspondence covers: ASCII and Latin-1
(`ª µ º À-Ö Ø-ö ø-ÿ` alphabetic, `² ³ ¹ ¼ ½ ¾` numeric); beyond U+00FF every character counts as
alphanumeric except the white space of `isWs` (the harness checks its inputs against the real
predicate and never sends a character on which the two differ). -/
def isAlnum (c : Char) : Bool :=
  let n := c.toNat
  if n < 128 then c.isAlphanum
  else if n < 256 then
    n == 0xAA || n == 0xB5 || n == 0xBA || n == 0xB2 || n == 0xB3 || n == 0xB9 ||
    n == 0xBC || n == 0xBD || n == 0xBE || (0xC0 ≤ n && n != 0xD7 && n != 0xF7)
  else !RF.Comment.isWs c

/-- One substitution: `old = "$"*k ++ name`, `new = "$"*(k-1) ++ "z" ++ name`. -/
structure Subst where
  dollars : Nat
  name : List Char
  deriving DecidableEq, Repr, Inhabited

def Subst.old (s : Subst) : List Char := List.replicate s.dollars '$' ++ s.name
def Subst.new (s : Subst) : List Char := List.replicate (s.dollars - 1) '$' ++ 'z' :: s.name

structure RState where
  result : List Char := []
  substs : List Subst := []
  dollarCount : Nat := 0
  curName : List Char := []
  deriving Repr, Inhabited

/-- `register_metavariable` (the map is kept as the list of its keys in order of first insertion) -/
def RState.register (s : RState) : RState :=
  let e : Subst := ⟨s.dollarCount, s.curName⟩
  { s with result := s.result ++ e.new, substs := if s.substs.contains e then s.substs else s.substs ++ [e] }

/-- The body of the `for (kind, c) in CharClasses::new(input.chars())` loop. -/
def rstep (s : RState) (kc : RF.CharClasses.Kind × Char) : Option RState :=
  let (kind, c) := kc
  if kind != .normal then
    if s.dollarCount > 0 then none else some { s with result := s.result ++ [c] }
  else if c == '$' then
    if !s.curName.isEmpty then none else some { s with dollarCount := s.dollarCount + 1 }
  else if s.dollarCount == 0 then some { s with result := s.result ++ [c] }
  else if !isAlnum c && !s.curName.isEmpty then
    let s := s.register
    some { s with result := s.result ++ [c], dollarCount := 0, curName := [] }
  else if c == '(' && s.curName.isEmpty then none
  else if isAlnum c || c == '_' then some { s with curName := s.curName ++ [c] }
  else if !RF.Comment.isWs c then none
  else some s

def rloop (s : RState) : List (RF.CharClasses.Kind × Char) → Option RState
  | [] => some s
  | kc :: rest =>
    match rstep s kc with
    | none => none
    | some s' => rloop s' rest

/-- `replace_names(input)`: the text with `$name` → `zname` and the substitutions. -/
def replaceNames (input : List Char) : Option (List Char × List Subst) :=
  match rloop {} (RF.CharClasses.classes input) with
  | none => none
  | some s =>
    if !s.curName.isEmpty then
      let s := s.register
      some (s.result, s.substs)
    else if s.dollarCount > 0 then none
    else some (s.result, s.substs)

/-- `pat` is a prefix of `s` -/
def isPrefix : List Char → List Char → Bool
  | [], _ => true
  | _ :: _, [] => false
  | p :: ps, c :: cs => p == c && isPrefix ps cs

/-- `str::contains(pat)` -/
def containsStr (pat : List Char) : List Char → Bool
  | [] => pat.isEmpty
  | c :: cs => isPrefix pat (c :: cs) || containsStr pat cs

/-- `str::replace(pat, rep)` for a non-empty pattern: left to right, matches do not overlap.
`skip` is the number of characters of a match still to be passed over. -/
def replaceGo (pat rep : List Char) : Nat → List Char → List Char
  | _, [] => []
  | skip + 1, _ :: cs => replaceGo pat rep skip cs
  | 0, c :: cs =>
    if isPrefix pat (c :: cs) then rep ++ replaceGo pat rep (pat.length - 1) cs
    else c :: replaceGo pat rep 0 cs

def replaceAll (pat rep s : List Char) : List Char :=
  if pat.isEmpty then s else replaceGo pat rep 0 s

/-- The loop `for (old, new) in &substs { if old_body.contains(new) { bail } new_body =
new_body.replace(new, old) }` with the map's iteration order given as `order`: `none` = bail. -/
def undo (oldBody : List Char) : List Subst → List Char → Option (List Char)
  | [], body => some body
  | e :: rest, body =>
    if containsStr e.new oldBody then none else undo oldBody rest (replaceAll e.new e.old body)

/-- `replace_names` followed by the undoing loop on the untouched text (the formatter in between
taken as the identity), for one iteration order of the map (a permutation of the substitutions
applied to the indices `perm`). -/
def roundtrip (input : List Char) (perm : List Nat) : Option (List Char) :=
  match replaceNames input with
  | none => none
  | some (r, substs) => undo input (perm.filterMap (substs[·]?)) r

/-! ### The hypothesis under which the undoing loop is right (specification, not code)

`segsOf input` cuts the text `replace_names` returns into the characters it copied and the
metavariables it renamed; `noSpurious` says that `z ++ name` occurs in that text only where a
metavariable was renamed. -/

/-- No occurrence of `P` starts inside `region` (in `region ++ rest`). -/
def noOcc (P : List Char) : List Char → List Char → Bool
  | [], _ => true
  | c :: cs, rest => !isPrefix P (c :: cs ++ rest) && noOcc P cs rest

/-- One piece of a text after `replace_names`: a character that was copied, or a metavariable. -/
inductive Seg where
  | lit (c : Char)
  | var (k : Nat) (name : List Char)
  deriving DecidableEq, Repr

/-- The characters of a segment when the names in `done` are written with `$` again. -/
def Seg.flat (done : List Char → Bool) : Seg → List Char
  | .lit c => [c]
  | .var k name => List.replicate (k - 1) '$' ++ (if done name then '$' else 'z') :: name

def flatD (done : List Char → Bool) : List Seg → List Char
  | [] => []
  | s :: ss => s.flat done ++ flatD done ss

/-- the text `replace_names` returns -/
abbrev flatZ (segs : List Seg) : List Char := flatD (fun _ => false) segs
/-- the text with every `$name` in place -/
abbrev flatS (segs : List Seg) : List Char := flatD (fun _ => true) segs

/-- every metavariable is written with one `$` -/
def singles : List Seg → Bool
  | [] => true
  | .lit _ :: tl => singles tl
  | .var k _ :: tl => k == 1 && singles tl

/-- Every occurrence of `z ++ n` in the substituted text starts at a substituted `$m` whose name `m`
begins with `n` (and none starts inside such a name). -/
def safeFor (n : List Char) : List Seg → Bool
  | [] => true
  | .lit c :: tl => !isPrefix ('z' :: n) (c :: flatZ tl) && safeFor n tl
  | .var _ m :: tl =>
    (isPrefix n m || !isPrefix ('z' :: n) ('z' :: m ++ flatZ tl)) && noOcc ('z' :: n) m (flatZ tl) &&
      safeFor n tl

/-- The segments one step of the loop appends. -/
def stepSegs (s : RState) (kc : RF.CharClasses.Kind × Char) : List Seg :=
  if kc.1 != .normal then [.lit kc.2]
  else if kc.2 == '$' then []
  else if s.dollarCount == 0 then [.lit kc.2]
  else if !isAlnum kc.2 && !s.curName.isEmpty then [.var s.dollarCount s.curName, .lit kc.2]
  else []

def loopSegs (s : RState) : List (RF.CharClasses.Kind × Char) → List Seg
  | [] => []
  | kc :: rest =>
    match rstep s kc with
    | none => []
    | some s' => stepSegs s kc ++ loopSegs s' rest

/-- The text `replace_names` returns, cut into copied characters and renamed metavariables. -/
def segsOf (input : List Char) : List Seg :=
  match rloop {} (RF.CharClasses.classes input) with
  | none => []
  | some s =>
    loopSegs {} (RF.CharClasses.classes input) ++
      (if !s.curName.isEmpty then [.var s.dollarCount s.curName] else [])

def varNames : List Seg → List (List Char)
  | [] => []
  | .lit _ :: tl => varNames tl
  | .var _ m :: tl => m :: varNames tl

/-- `z ++ name` occurs in the substituted text only where a metavariable whose name begins with
`name` was renamed, for every name; and every metavariable is written with a single `$`. -/
def noSpurious (input : List Char) : Bool :=
  let segs := segsOf input
  singles segs && (varNames segs).all (fun n => safeFor n segs)

/-! ## `MacroParser` (`macros.rs:1200-1290`) -/

structure Branch where
  argsDelim : Delim
  args : List TT
  arrow : Tok
  bodyDelim : Delim
  body : List TT
  semi : Option Tok
  deriving Repr, Inhabited

/-- `parse_branch`: one `(..) => {..}` with the `;` behind it, and what is left of the stream. -/
def parseBranch : List TT → Option (Branch × List TT)
  | .delim d args :: .tok arrow :: .delim bd body :: rest =>
    if arrow.kind == .FatArrow then
      match rest with
      | .tok semi :: rest' =>
        if semi.kind == .Semi then some (⟨d, args, arrow, bd, body, some semi⟩, rest')
        else some (⟨d, args, arrow, bd, body, none⟩, rest)
      | _ => some (⟨d, args, arrow, bd, body, none⟩, rest)
    else none
  | _ => none

/-- `while self.iter.peek().is_some() { branches.push(self.parse_branch()?) }`.  `fuel` bounds the
number of rounds (each takes at least three trees). -/
def parseBranchesGo : Nat → List TT → Option (List Branch)
  | _, [] => some []
  | 0, _ :: _ => none
  | fuel + 1, t :: ts =>
    match parseBranch (t :: ts) with
    | none => none
    | some (b, rest) => (parseBranchesGo fuel rest).map (b :: ·)

/-- `MacroParser::parse` -/
def parseBranches (ts : List TT) : Option (List Branch) := parseBranchesGo ts.length ts

def Branch.trees (b : Branch) : List TT :=
  [.delim b.argsDelim b.args, .tok b.arrow, .delim b.bodyDelim b.body] ++
    (match b.semi with | some s => [.tok s] | none => [])

/-! ## Macro calls: `macro_style`, `rewrite_macro_inner`, `parse_macro_args` -/

/-- `macro_style`: the delimiter whose opener comes first outside comments. -/
def macroStyle (snippet : List Char) : Delim :=
  let pos (c : Char) : Option Nat := RF.Comment.findUncommented snippet [c]
  let lt (a b : Option Nat) : Bool :=
    match a, b with
    | some x, some y => x < y
    | some _, none => true
    | none, _ => false
  let paren := pos '('
  let bracket := pos '['
  let brace := pos '{'
  if lt paren bracket && lt paren brace then .paren
  else if lt bracket brace then .bracket
  else .brace

/-- `FORCED_BRACKET_MACROS.contains(&&macro_name[..])` (the name carries its `!`) -/
def isForcedBracket (macroName : List Char) : Bool := macroName == "vec!".toList

/-- The delimiter `rewrite_macro_inner` formats with. -/
def chosenStyle (macroName : List Char) (nested : Bool) (original : Delim) : Delim :=
  if isForcedBracket macroName && !nested then .bracket else original

inductive Position where
  | item | statement | expression | pat
  deriving DecidableEq, Repr

inductive Tactic where
  | always | never | vertical
  deriving DecidableEq, Repr

/-- One element of the argument stream as `parse_macro_args` meets it: something `check_keyword` /
`parse_macro_arg` accepts (an item or not), or the token the parser stands on afterwards. -/
inductive Elem where
  | arg (isItem : Bool)
  | comma
  | semi
  | other
  deriving DecidableEq, Repr

structure ParsedArgs where
  vecWithSemi : Bool := false
  trailingComma : Bool := false
  /-- `is_item` of each argument -/
  args : List Bool := []
  deriving DecidableEq, Repr

/-- The `loop` of `parse_macro_args` for a non-brace style.  `fuel` bounds the number of rounds
(each consumes an element). -/
def parseArgsGo (forced : Bool) : Nat → List Bool → List Elem → Option ParsedArgs
  | 0, _, _ => none
  | fuel + 1, args, .arg it :: rest =>
    let args := args ++ [it]
    match rest with
    | [] => some { args := args }
    | .comma :: rest' =>
      if rest'.isEmpty then some { args := args, trailingComma := true }
      else parseArgsGo forced fuel args rest'
    | .semi :: rest' =>
      if forced then
        match rest' with
        | [.arg it2] => if args.length + 1 == 2 then some { args := args ++ [it2], vecWithSemi := true } else none
        | _ => none
      else none
    | e :: rest' => if it then parseArgsGo forced fuel args (e :: rest') else none
  | _ + 1, _, _ => none

/-- `parse_macro_args(context, tokens, style, forced_bracket)` on the abstract stream. -/
def parseMacroArgs (style : Delim) (forced : Bool) (es : List Elem) : Option ParsedArgs :=
  if style == .brace then some {} else parseArgsGo forced (es.length + 1) [] es

/-- What `rewrite_macro_inner` does with a call once the arguments are parsed. -/
inductive Plan where
  /-- `name()`, `name[]`, `name {}` with `;` in item position for `()` and `[]` -/
  | empty (d : Delim) (semi : Bool)
  /-- `return_macro_parse_failure_fallback`: the source text, `;` appended in item position -/
  | fallback (semi : Bool)
  /-- `rewrite_macro_with_items` -/
  | items (d : Delim) (semi : Bool)
  /-- `handle_vec_semi` -/
  | vecSemi (d : Delim)
  /-- `overflow::rewrite_with_parens` -/
  | parens (tactic : Tactic) (semi : Bool)
  /-- `rewrite_array`; `leave` = `context.leave_macro()` was called -/
  | array (tactic : Tactic) (semi : Bool) (leave : Bool)
  /-- brace style: the text from the first `{` on, re-indented -/
  | braceVerbatim
  deriving DecidableEq, Repr

/-- The decisions of `rewrite_macro_inner` behind `use_try_shorthand` and `lazy_static!`. -/
def callPlan (macroName : List Char) (nested : Bool) (original : Delim) (position : Position)
    (tsEmpty hasComment blockIndentStyle : Bool) (parsed : Option ParsedArgs) : Plan :=
  let forced := isForcedBracket macroName
  let style := chosenStyle macroName nested original
  let item := position == .item
  if tsEmpty && !hasComment then
    match style with
    | .brace => .empty .brace false
    | d => .empty d item
  else
    match parsed with
    | none => .fallback item
    | some p =>
      if !p.args.isEmpty && p.args.all id then
        .items style (match style with | .brace => false | _ => item)
      else
        let tactic := if p.trailingComma then Tactic.always else Tactic.never
        match style with
        | .paren => if p.vecWithSemi then .vecSemi .paren else .parens tactic item
        | .bracket =>
          if p.vecWithSemi then .vecSemi .bracket
          else if forced && !nested then
            .array (if blockIndentStyle then .vertical else tactic) item true
          else .array tactic item false
        | .brace => .braceVerbatim

/-- `FmtVisitor::visit_mac` and the foreign-item arm of `items.rs` behind `rewrite_macro` in item
position: a call written with `()` or `[]` ends with `;` whatever path produced the text. -/
def finishItemCall (original : Delim) (rw : List Char) : List Char :=
  match original with
  | .brace => rw
  | _ => if rw.getLast? == some ';' then rw else rw ++ [';']

/-- The delimiter of the call as emitted (`none`: the source text is kept, whatever it holds). -/
def Plan.delim : Plan → Option Delim
  | .empty d _ => some d
  | .fallback _ => none
  | .items d _ => some d
  | .vecSemi d => some d
  | .parens _ _ => some .paren
  | .array _ _ _ => some .bracket
  | .braceVerbatim => some .brace

/-- The separator tactic handed to the list writer (`none`: no list is written). -/
def Plan.tactic : Plan → Option Tactic
  | .parens t _ => some t
  | .array t _ _ => some t
  | _ => none

end RF.MacroFmt
