/-!
# Model of rustfmt's module resolver (`ModResolver`, `src/modules.rs`) and of the file filters of
`format_project` (`src/formatting.rs`)  —  property C13

Import-free, total, computable.  What is modelled, literally and quirks included:

* paths as lists of components (`PathBuf` compares component-wise; `join`/`push` with an absolute
  argument replaces; `.` components vanish except a leading one; `..` is kept literally and only the
  file system resolves it);
* a file system as an association list `path ↦ file … | dir`;
* `Parser::submod_path_from_attr`, rustc's `default_submod_path` and rustfmt's wrapper around it
  (`ParseSess::default_submod_path`, the relative→absolute fallback), `Parser::parse_file_as_module`
  (outcome only: ok / exists-but-unreadable / missing), `ParseSess::is_file_parsed` (a list of the
  paths loaded so far — the source map), `Input::to_directory_ownership`;
* `ModResolver::{visit_crate, visit_mod_from_ast / visit_mod_outside_ast, visit_sub_mod, peek_sub_mod,
  insert_sub_mod, visit_sub_mod_inner, visit_sub_mod_after_directory_update, find_external_module,
  push_inline_mod_directory, find_mods_outside_of_ast}`;
* `format_project`'s choice of the files that are formatted (`should_skip_module`, stdin).

What is *not* modelled: the contents of files beyond their `mod` declarations (a file always
parses; `ParseError` arises only for a path that exists but is a directory), `cfg_if!`/`cfg_match!`
bodies (the encoder lists the `mod` items of all branches in place: that is exactly what
`visit_cfg_if` does with them), `mod` items inside function bodies (never visited by the resolver),
Windows separators, symlinks, and the glob semantics of `ignore` (the set of ignored paths is an
input).

The second half of the file is the **specification**: rustc's resolution rules
(`rustc_expand::module::{mod_file_path, mod_dir_path, default_submod_path}`) plus rustfmt's
documented fallback, first as a one-step function `scanItems` (used by the declarative closure in
`RF/Lemmas/Modules.lean`), then as the executable tree recursion `reachable`.
-/
namespace RF.Modules

/-! ## Paths -/

/-- One path component (`std::path::Component`): a normal name, `"."`, `".."`, or `"/"` (RootDir). -/
abbrev Comp := List Char
/-- A `PathBuf`, as its list of components. `[]` is the empty path. -/
abbrev Path := List Comp

def dot : Comp := ['.']
def dotdot : Comp := ['.', '.']
def rootComp : Comp := ['/']
def rsExt : List Char := ['.', 'r', 's']
def modRs : Comp := ['m', 'o', 'd', '.', 'r', 's']

/-- Split at `/`, dropping empty pieces (`Path::components` ignores repeated separators). -/
def splitSlashAux (cur : List Char) : List Char → List Comp
  | [] => if cur.isEmpty then [] else [cur.reverse]
  | c :: cs =>
    if c = '/' then
      (if cur.isEmpty then splitSlashAux [] cs else cur.reverse :: splitSlashAux [] cs)
    else splitSlashAux (c :: cur) cs

def splitSlash (s : List Char) : List Comp := splitSlashAux [] s

/-- `Path::components` drops every `.` that is not the first component. -/
def dropInnerDots : Path → Path
  | [] => []
  | c :: cs => c :: cs.filter (· ≠ dot)

/-- `Path::join` / `PathBuf::push` with a string argument (std): an absolute argument replaces the
receiver; otherwise the components are appended. -/
def join (dir : Path) (s : List Char) : Path :=
  dropInnerDots (if s.head? = some '/' then rootComp :: splitSlash s else dir ++ splitSlash s)

/-- `Path::parent`: `None` for the empty path and for the root. -/
def parent (p : Path) : Option Path :=
  if p = [] ∨ p = [rootComp] then none else some p.dropLast

/-- `Path::file_stem` on the last component (`rsplit_file_at_dot`): the name up to its last `.`,
the whole name when there is no `.` or when the only `.` is the first character. -/
def fileStem (name : Comp) : Option Comp :=
  if name = [] ∨ name = dotdot ∨ name = rootComp then none
  else
    let r := name.reverse
    match r.dropWhile (· ≠ '.') with
    | [] => some name                       -- no dot at all
    | _ :: before => if before.isEmpty then some name else some before.reverse

/-! ## Declarations and the file system -/

/-- The attributes of a `mod` item that the resolver looks at.
`path s` is `#[path = "s"]`, `skip` is `#[rustfmt::skip]` (also `cfg_attr(_, rustfmt::skip)`, and,
on an inline module, `#![rustfmt::skip]`), `cfgAttrPath s` is `#[cfg_attr(_, path = "s")]`. -/
inductive Attr where
  | path (s : List Char)
  | skip
  | cfgAttrPath (s : List Char)
  deriving DecidableEq, Repr

/-- A `mod` item: `mod name;` or `mod name { items }`.  `name` is an identifier (non-empty, no `/`,
neither `.` nor `..`). -/
inductive Decl where
  | ext (name : Comp) (attrs : List Attr)
  | inline (name : Comp) (attrs : List Attr) (items : List Decl)
  deriving Repr

/-- A node of the tree on disk.  A file carries: does it have `#![rustfmt::skip]`, does it have the
`@generated` marker within `generated_marker_line_search_limit` lines, and its `mod` items. -/
inductive Node where
  | file (skip generated : Bool) (items : List Decl)
  | dir
  deriving Repr

/-- The file system: keys are normalised paths (no `.`, no `..`; absolute ones start with `"/"`),
relative ones being relative to the working directory.  Every proper prefix of a key is a
directory; explicit `dir` entries are only needed for empty directories. -/
abbrev FS := List (Path × Node)

def lookupNode : FS → Path → Option Node
  | [], _ => none
  | (k, n) :: rest, p => if k = p then some n else lookupNode rest p

/-- `p` is a proper prefix of some key. -/
def isProperPrefixOfKey (fs : FS) (p : Path) : Bool :=
  fs.any (fun e => p.isPrefixOf e.1 && p.length < e.1.length)

/-- The node at an already normalised path. `[]` is the working directory, `["/"]` the root. -/
def nodeNorm (fs : FS) (np : Path) : Option Node :=
  if np = [] ∨ np = [rootComp] then some .dir
  else match lookupNode fs np with
    | some n => some n
    | none => if isProperPrefixOfKey fs np then some .dir else none

def isDirNode : Option Node → Bool
  | some .dir => true
  | _ => false

/-- Resolve `.` and `..` the way the OS does: `..` needs the path so far to be a directory.
`stack` is the normalised prefix. A `..` that would leave the working directory of a relative path
is outside the model (`none`, i.e. "does not exist"). -/
def normAux (fs : FS) : Path → Path → Option Path
  | stack, [] => some stack
  | stack, c :: cs =>
    if c = dot then normAux fs stack cs
    else if c = dotdot then
      if stack = [rootComp] then normAux fs stack cs
      else if stack = [] then none
      else if isDirNode (nodeNorm fs stack) then normAux fs stack.dropLast cs
      else none
    else normAux fs (stack ++ [c]) cs

/-- `stat(p)`. The empty path does not exist (`Path::new("").exists()` is false). -/
def nodeAt (fs : FS) (p : Path) : Option Node :=
  if p = [] then none
  else match normAux fs [] p with
    | some np => nodeNorm fs np
    | none => none

/-- `Path::exists` / `SourceMap::file_exists` (rustc_span `RealFileLoader`: `path.exists()`, so a
directory counts). -/
def pathExists (fs : FS) (p : Path) : Bool := (nodeAt fs p).isSome

/-- `Path::is_dir`. -/
def isDir (fs : FS) (p : Path) : Bool := isDirNode (nodeAt fs p)

/-! ## Directory ownership -/

/-- `rustc_expand::module::DirOwnership`. -/
inductive Ownership where
  | owned (relative : Option Comp)
  | unownedViaBlock
  deriving DecidableEq, Repr

/-- `parse::parser::Directory`. -/
structure Directory where
  path : Path
  ownership : Ownership
  deriving DecidableEq, Repr

/-- `config::FileName`. -/
inductive FileName where
  | real (p : Path)
  | stdin
  deriving DecidableEq, Repr

/-- src/lib.rs:558-575 `Input::to_directory_ownership`: an input `x.rs` next to a directory `x/`
is treated as a non-`mod.rs` file owning `x/`. `None` becomes `UnownedViaBlock` in `format_project`. -/
def toDirectoryOwnership (fs : FS) (root : Path) : Option Ownership :=
  match root.getLast? with
  | none => none
  | some n =>
    match fileStem n with
    | none => none
    | some stem =>
      match parent root with
      | none => none
      | some d => if isDir fs (d ++ [stem]) then some (.owned (some stem)) else none

/-! ## Errors -/

/-- Outcomes other than a file map.
`notfound`, `ambiguous`: `ModuleResolutionErrorKind::{NotFound, MultipleCandidates}` from the default
path; `pathattr`: `NotFound` for the target of a `#[path]`; `parse`: `ParseError` (in this model:
the target exists but is a directory); `root`: the input file itself cannot be parsed (not a module
resolution error: `format_project` records a parsing error and formats nothing);
`fuel`: the model ran out of fuel (the code would not terminate / nest this deep);
`circular`: only produced by the specification `reachable` (rustc's `CircularInclusion`);
`panic`: `mod_path.parent().unwrap()` on a path without parent (proved unreachable). -/
inductive ErrKind where
  | notfound | ambiguous | pathattr | parse | root | fuel | circular | panic
  deriving DecidableEq, Repr

/-! ## Attribute helpers -/

/-- utils.rs:268 `contains_skip`. -/
def hasSkip (attrs : List Attr) : Bool := decide (Attr.skip ∈ attrs)

/-- modules.rs:578-591 `find_path_value` = rustc_ast `first_attr_value_str_by_name(attrs, sym::path)`
on well-formed attributes: the first `#[path = ".."]`. -/
def findPathValue : List Attr → Option (List Char)
  | [] => none
  | .path s :: _ => some s
  | _ :: rest => findPathValue rest

/-- modules/visitor.rs:134-157 `PathVisitor`: every `path = ".."` name-value found in the meta
items of the attributes, nested ones (`cfg_attr(.., path = "..")`) included. -/
def pathVisitorPaths : List Attr → List (List Char)
  | [] => []
  | .path s :: rest => s :: pathVisitorPaths rest
  | .cfgAttrPath s :: rest => s :: pathVisitorPaths rest
  | .skip :: rest => pathVisitorPaths rest

/-- parse/parser.rs:87-99 `Parser::submod_path_from_attr`. -/
def submodPathFromAttr (attrs : List Attr) (dirPath : Path) : Option Path :=
  match findPathValue attrs with
  | some s => some (join dirPath s)
  | none => none

/-! ## Default submodule path -/

inductive ModError where
  | fileNotFound
  | multipleCandidates
  deriving DecidableEq, Repr

/-- rustc_expand/src/module.rs:210-248 `default_submod_path`: candidates `dir/[rel/]name.rs` and
`dir/[rel/]name/mod.rs`; existence is `Path::exists`. -/
def rustcDefaultSubmodPath (fs : FS) (name : Comp) (relative : Option Comp) (dirPath : Path) :
    Except ModError (Path × Ownership) :=
  let pre : Path := match relative with
    | some r => [r]
    | none => []
  let defaultPath := dirPath ++ pre ++ [name ++ rsExt]
  let secondaryPath := dirPath ++ pre ++ [name, modRs]
  match pathExists fs defaultPath, pathExists fs secondaryPath with
  | true, false => .ok (defaultPath, .owned (some name))
  | false, true => .ok (secondaryPath, .owned none)
  | false, false => .error .fileNotFound
  | true, true => .error .multipleCandidates

/-- parse/session.rs:172-192 `ParseSess::default_submod_path`: on `FileNotFound` with a relative
offset, retry without the offset; if that fails too, the *original* error is surfaced. -/
def defaultSubmodPath (fs : FS) (name : Comp) (relative : Option Comp) (dirPath : Path) :
    Except ModError (Path × Ownership) :=
  match rustcDefaultSubmodPath fs name relative dirPath with
  | .ok r => .ok r
  | .error e =>
    if e = .fileNotFound ∧ relative.isSome then
      match rustcDefaultSubmodPath fs name none dirPath with
      | .ok r => .ok r
      | .error _ => .error e
    else .error e

/-! ## Parsing a file -/

inductive ParseResult where
  /-- the file's `#![rustfmt::skip]`, and its items -/
  | ok (skip : Bool) (items : List Decl)
  /-- `ParserError::ParseError`: the parser panicked and the path exists (a directory) -/
  | parseError
  /-- `ParserError::ParsePanicError`: the parser panicked and the path does not exist -/
  | missing

/-- parse/parser.rs:101-130 `Parser::parse_file_as_module`, outcome only.  On `ok` the file has been
added to the source map (callers extend `parsed`). -/
def parseFileAsModule (fs : FS) (p : Path) : ParseResult :=
  match nodeAt fs p with
  | some (.file skip _ items) => .ok skip items
  | some .dir => .parseError
  | none => .missing

/-! ## Resolver state -/

/-- What the filters of `format_project` need from a `modules::Module`: the items still to visit
(`Cow::Owned(items)` of a loaded file; empty for the clone of a `mod foo;` item), whether its inner
attributes contain a skip, and the file that holds `module.span`. -/
structure Mod where
  items : List Decl
  innerSkip : Bool
  spanFile : FileName
  deriving Repr

/-- modules.rs:92-100 `SubModKind`. `internal` carries nothing: the item is at hand. -/
inductive SubModKind where
  | external (p : Path) (own : Ownership) (m : Mod)
  | multiExternal (mods : List (Path × Ownership × Mod))
  | internal

/-- The mutable part of `ModResolver` plus the part of `ParseSess` it mutates:
`directory`, the source map's file names (`is_file_parsed`), and `file_map`
(a `BTreeMap`: one entry per key; kept here in insertion order, the driver sorts). -/
structure St where
  dir : Directory
  parsed : List Path
  fileMap : List (FileName × Mod)

def keys (m : List (FileName × Mod)) : List FileName := m.map (·.1)

/-- `BTreeMap::entry(k).or_insert(v)`. -/
def insertIfAbsent (m : List (FileName × Mod)) (k : FileName) (v : Mod) : List (FileName × Mod) :=
  if k ∈ keys m then m else m ++ [(k, v)]

/-- `BTreeMap::insert(k, v)`: replaces the value of an existing key. -/
def insertReplace : List (FileName × Mod) → FileName → Mod → List (FileName × Mod)
  | [], k, v => [(k, v)]
  | (k', v') :: rest, k, v => if k' = k then (k, v) :: rest else (k', v') :: insertReplace rest k v

/-! ## `find_external_module` -/

/-- The clone of the `mod foo;` item's own `Module` (no items, no inner attributes, span in the
declaring file). -/
def declClone (cur : FileName) : Mod := ⟨[], false, cur⟩

/-- A module loaded from `p` (`Module::new(span, Some(Unloaded), Cow::Owned(items), attrs)`); only
built when the file has no skip attribute. -/
def loadedMod (p : Path) (items : List Decl) : Mod := ⟨items, false, .real p⟩

/-- modules.rs:528-575 `find_mods_outside_of_ast`, over the collected path strings. Threads the
source map.  A target that exists but does not parse (in this model: a directory) is a `ParseError`
of the whole resolution, not a candidate that is passed over. -/
def findModsOutsideOfAst (fs : FS) (dirPath : Path) (cur : FileName) :
    List (List Char) → List Path → Except ErrKind (List (Path × Ownership × Mod) × List Path)
  | [], parsed => .ok ([], parsed)
  | s :: rest, parsed =>
    let actual := join dirPath s
    if !pathExists fs actual then findModsOutsideOfAst fs dirPath cur rest parsed
    else if actual ∈ parsed then
      match findModsOutsideOfAst fs dirPath cur rest parsed with
      | .error e => .error e
      | .ok (r, parsed') => .ok ((actual, .owned none, declClone cur) :: r, parsed')
    else
      match parseFileAsModule fs actual with
      | .ok true _ => findModsOutsideOfAst fs dirPath cur rest (actual :: parsed)
      | .ok false items =>
        match findModsOutsideOfAst fs dirPath cur rest (actual :: parsed) with
        | .error e => .error e
        | .ok (r, parsed') => .ok ((actual, .owned none, loadedMod actual items) :: r, parsed')
      | .parseError => .error .parse
      | .missing => .error .pathattr

/-- modules.rs:357-498 `find_external_module`. Returns the result and the new source map. -/
def findExternalModule (fs : FS) (dir : Directory) (parsed : List Path) (cur : FileName)
    (name : Comp) (attrs : List Attr) :
    Except ErrKind (Option SubModKind) × List Path :=
  let relative : Option Comp := match dir.ownership with
    | .owned r => r
    | .unownedViaBlock => none
  match submodPathFromAttr attrs dir.path with
  | some path =>
    if path ∈ parsed then (.ok none, parsed)
    else match parseFileAsModule fs path with
      | .ok true _ => (.ok none, path :: parsed)
      | .ok false items =>
        (.ok (some (.external path (.owned none) (loadedMod path items))), path :: parsed)
      | .parseError => (.error .parse, parsed)
      | .missing => (.error .pathattr, parsed)
  | none =>
    match findModsOutsideOfAst fs dir.path cur (pathVisitorPaths attrs) parsed with
    | .error e => (.error e, parsed)
    | .ok (modsOutsideAst, parsed) =>
    match defaultSubmodPath fs name relative dir.path with
    | .ok (filePath, dirOwnership) =>
      let outsideModsEmpty := modsOutsideAst.isEmpty
      let shouldInsert := !modsOutsideAst.any (fun m => m.1 = filePath)
      let clone : List (Path × Ownership × Mod) :=
        if shouldInsert then [(filePath, dirOwnership, declClone cur)] else []
      if filePath ∈ parsed then
        if outsideModsEmpty then (.ok none, parsed)
        else (.ok (some (.multiExternal (modsOutsideAst ++ clone))), parsed)
      else match parseFileAsModule fs filePath with
        | .ok true _ => (.ok none, filePath :: parsed)
        | .ok false items =>
          if outsideModsEmpty then
            (.ok (some (.external filePath dirOwnership (loadedMod filePath items))),
              filePath :: parsed)
          else
            (.ok (some (.multiExternal
                (modsOutsideAst ++ [(filePath, dirOwnership, loadedMod filePath items)] ++ clone))),
              filePath :: parsed)
        | .parseError => (.error .parse, parsed)
        | .missing =>
          if outsideModsEmpty then (.error .notfound, parsed)
          else (.ok (some (.multiExternal (modsOutsideAst ++ clone))), parsed)
    | .error e =>
      if !modsOutsideAst.isEmpty then (.ok (some (.multiExternal modsOutsideAst)), parsed)
      else match e with
        | .fileNotFound => (.error .notfound, parsed)
        | .multipleCandidates => (.error .ambiguous, parsed)

/-! ## `push_inline_mod_directory` -/

/-- modules.rs:500-526 `push_inline_mod_directory`, with its `exists()` probe.
`probe = false` gives rustc's `mod_dir_path` (`Inline::Yes`), which has no probe: the specification
uses that. -/
def pushInlineModDirectory (probe : Bool) (fs : FS) (dir : Directory) (name : Comp)
    (attrs : List Attr) : Directory :=
  match findPathValue attrs with
  | some s => ⟨join dir.path s, .owned none⟩
  | none =>
    match dir.ownership with
    | .owned (some ident) =>
      let p := dir.path ++ [ident]
      if probe && pathExists fs p && !pathExists fs (p ++ [name]) then ⟨p, .owned none⟩
      else ⟨p ++ [name], .owned none⟩
    | .owned none => ⟨dir.path ++ [name], .owned none⟩
    | .unownedViaBlock => ⟨dir.path ++ [name], .unownedViaBlock⟩

/-! ## The walk -/

/-- modules.rs:286-306 `insert_sub_mod`. -/
def insertSubMod (m : List (FileName × Mod)) : SubModKind → List (FileName × Mod)
  | .external p _ sub => insertIfAbsent m (.real p) sub
  | .multiExternal mods => mods.foldl (fun acc e => insertIfAbsent acc (.real e.1) e.2.2) m
  | .internal => m

/-- What `visit_sub_mod_after_directory_update` does with the items of a file-backed module: the
open recursion point.  Arguments: state (directory already updated), the file, its items. -/
abbrev RecFn := St → Path → List Decl → Except ErrKind St

/-- The `MultiExternal` arm of `visit_sub_mod_inner` (modules.rs:325-334). -/
def visitMulti (rec : RecFn) : St → List (Path × Ownership × Mod) → Except ErrKind St
  | st, [] => .ok st
  | st, (p, own, m) :: rest =>
    match parent p with
    | none => .error .panic
    | some d =>
      match rec { st with dir := ⟨d, own⟩ } p m.items with
      | .error e => .error e
      | .ok st' => visitMulti rec st' rest

mutual
/-- modules.rs:222-249 `visit_mod_from_ast` and :190-219 `visit_mod_outside_ast` (they differ only
in how they treat `cfg_if!` items and in borrowed vs owned data). `cur` is the file being walked. -/
def visitItemsW (fs : FS) (rec : RecFn) (cur : FileName) : St → List Decl → Except ErrKind St
  | st, [] => .ok st
  | st, d :: ds =>
    match visitSubModW fs rec cur st d with
    | .error e => .error e
    | .ok st' => visitItemsW fs rec cur st' ds

/-- modules.rs:251-264 `visit_sub_mod`, with `peek_sub_mod` (:267-284), `insert_sub_mod` and
`visit_sub_mod_inner` (:308-336) / `visit_sub_mod_after_directory_update` (:338-354) inlined per
kind of item.  On an error the `?` leaves without restoring the directory; the walk is aborted. -/
def visitSubModW (fs : FS) (rec : RecFn) (cur : FileName) : St → Decl → Except ErrKind St
  | st, .ext name attrs =>
    let oldDirectory := st.dir
    if hasSkip attrs then .ok st
    else
      match findExternalModule fs st.dir st.parsed cur name attrs with
      | (.error e, _) => .error e
      | (.ok none, parsed) => .ok { st with parsed := parsed, dir := oldDirectory }
      | (.ok (some kind), parsed) =>
        match kind with
        | .external modPath own sub =>
          match parent modPath with
          | none => .error .panic
          | some d =>
            match rec ⟨⟨d, own⟩, parsed, insertSubMod st.fileMap kind⟩ modPath sub.items with
            | .error e => .error e
            | .ok st2 => .ok { st2 with dir := oldDirectory }
        | .multiExternal mods =>
          match visitMulti rec ⟨st.dir, parsed, insertSubMod st.fileMap kind⟩ mods with
          | .error e => .error e
          | .ok st2 => .ok { st2 with dir := oldDirectory }
        | .internal => .ok ⟨oldDirectory, parsed, insertSubMod st.fileMap kind⟩
  | st, .inline name attrs items =>
    let oldDirectory := st.dir
    if hasSkip attrs then .ok st
    else
      match visitItemsW fs rec cur
          { st with dir := pushInlineModDirectory true fs st.dir name attrs } items with
      | .error e => .error e
      | .ok st2 => .ok { st2 with dir := oldDirectory }
end

/-- Loading nests at most `fuel` files deep. A module without items costs nothing. -/
def visitFile (fs : FS) : Nat → RecFn
  | 0 => fun st _ items =>
    match items with
    | [] => .ok st
    | _ :: _ => .error .fuel
  | n + 1 => fun st p items => visitItemsW fs (visitFile fs n) (.real p) st items

/-- modules.rs:121-148 `visit_crate`. `rootName` is `span_to_filename(krate.spans.inner_span)`,
`parsed0` the source map after `parse_crate` (the root file, or nothing for stdin). -/
def visitCrate (fs : FS) (fuel : Nat) (rootName : FileName) (rootSkip : Bool)
    (rootItems : List Decl) (ownership : Ownership) (recursive : Bool) :
    Except ErrKind (List (FileName × Mod)) :=
  let dirPath : Path := match rootName with
    | .real p => (parent p).getD []
    | .stdin => []
  let parsed0 : List Path := match rootName with
    | .real p => [p]
    | .stdin => []
  let st0 : St := ⟨⟨dirPath, ownership⟩, parsed0, []⟩
  let walked : Except ErrKind St :=
    if recursive then visitItemsW fs (visitFile fs fuel) rootName st0 rootItems else .ok st0
  match walked with
  | .error e => .error e
  | .ok st => .ok (insertReplace st.fileMap rootName ⟨rootItems, rootSkip, rootName⟩)

/-! ## `format_project`: which entries of the map are formatted -/

/-- The options and lookups `should_skip_module` consults. `ignored` is `IgnorePathSet::is_match`
(given extensionally), `generated` is `is_generated_file` of a file's text. -/
structure Config where
  skipChildren : Bool
  formatGeneratedFiles : Bool
  ignored : Path → Bool

/-- ignore_path.rs `IgnorePathSet::is_match`: never for stdin. -/
def ignoreFile (cfg : Config) : FileName → Bool
  | .real p => cfg.ignored p
  | .stdin => false

/-- `is_generated_file(src of the file holding module.span)`. -/
def generatedAt (fs : FS) : FileName → Bool
  | .real p => match nodeAt fs p with
    | some (.file _ g _) => g
    | _ => false
  | .stdin => false

/-- The decision of formatting.rs:59-92 `should_skip_module` on plain booleans. -/
def skipDecision (innerSkip skipChildren isMain inputIsStdin ignored formatGenerated generated : Bool) :
    Bool :=
  if innerSkip then true
  else if skipChildren && !isMain then true
  else if !inputIsStdin && ignored then true
  else if !inputIsStdin && !formatGenerated then generated
  else false

/-- formatting.rs:59-92 `should_skip_module`. -/
def shouldSkipModule (fs : FS) (cfg : Config) (inputIsStdin : Bool) (mainFile path : FileName)
    (m : Mod) : Bool :=
  skipDecision m.innerSkip cfg.skipChildren (path = mainFile) inputIsStdin
    (ignoreFile cfg path) cfg.formatGeneratedFiles (generatedAt fs m.spanFile)

/-- `Input`. For text the parsed crate is given (skip attribute, items). -/
inductive Input where
  | file (p : Path)
  | text (skip : Bool) (items : List Decl)

/-- formatting.rs:103-170 `format_project`: the names passed to `format_file`, in map order of the
model (the driver sorts). `.error .root` is the parse failure of the input itself. For stdin with a
crate-level skip the input is echoed and nothing is formatted. -/
def formatProject (fs : FS) (fuel : Nat) (input : Input) (cfg : Config) :
    Except ErrKind (List FileName) :=
  match input with
  | .text skip items =>
    match visitCrate fs fuel .stdin skip items .unownedViaBlock false with
    | .error e => .error e
    | .ok files => .ok (if skip then [] else keys files)
  | .file p =>
    let mainFile := FileName.real p
    if cfg.skipChildren && ignoreFile cfg mainFile then .ok []
    else
      match parseFileAsModule fs p with
      | .ok skip items =>
        let own := (toDirectoryOwnership fs p).getD .unownedViaBlock
        match visitCrate fs fuel mainFile skip items own (!cfg.skipChildren) with
        | .error e => .error e
        | .ok files =>
          .ok (keys (files.filter fun e => !shouldSkipModule fs cfg false mainFile e.1 e.2))
      | _ => .error .root

/-! ## Specification: rustc's rules

`rustc_expand::module`: a `mod name;` with `#[path = s]` is the file `dir/s`, treated like a `mod.rs`
(`Owned { relative: None }`); otherwise `default_submod_path` (plus rustfmt's documented fallback:
when the location nested under the relative offset has neither candidate, the declaring file's own
directory is tried).  An inline `mod name { .. }` changes the directory by `mod_dir_path`
(`Inline::Yes`) — *without* any probing of the file system.  A skipped declaration or file
contributes nothing (that is rustfmt's documented feature).  `UnownedViaBlock` is only used by
rustfmt as a stand-in for "not known to own a directory" on the input file and is treated like
`Owned { relative: None }`. -/

/-- Where a `mod name;` points, or why it does not resolve. `viaAttr` records whether a `#[path]`
decided (it determines the error kind when the target is missing). -/
inductive Loc where
  | located (p : Path) (own : Ownership) (viaAttr : Bool)
  | failed (k : ErrKind)
  deriving DecidableEq, Repr

/-- rustc_expand/src/module.rs:142-173 `mod_file_path` (+ the fallback). -/
def locate (fs : FS) (dir : Directory) (name : Comp) (attrs : List Attr) : Loc :=
  match submodPathFromAttr attrs dir.path with
  | some p => .located p (.owned none) true
  | none =>
    let relative : Option Comp := match dir.ownership with
      | .owned r => r
      | .unownedViaBlock => none
    match defaultSubmodPath fs name relative dir.path with
    | .ok (p, own) => .located p own false
    | .error .fileNotFound => .failed .notfound
    | .error .multipleCandidates => .failed .ambiguous

mutual
/-- The external declarations of an item list, in source order, each with its location, under the
directory `dir`. `probe = false`: rustc's rules; `probe = true`: rustfmt's directory rule. -/
def scanItems (probe : Bool) (fs : FS) : Directory → List Decl → List Loc
  | _, [] => []
  | dir, d :: ds => scanDecl probe fs dir d ++ scanItems probe fs dir ds

def scanDecl (probe : Bool) (fs : FS) : Directory → Decl → List Loc
  | dir, .ext name attrs => if hasSkip attrs then [] else [locate fs dir name attrs]
  | dir, .inline name attrs items =>
    if hasSkip attrs then []
    else scanItems probe fs (pushInlineModDirectory probe fs dir name attrs) items
end

/-- The error a located declaration produces when its target cannot be loaded. -/
def locErr (fs : FS) : Loc → Option ErrKind
  | .failed k => some k
  | .located p _ via =>
    match nodeAt fs p with
    | some (.file _ _ _) => none
    | some .dir => some .parse
    | none => some (if via then .pathattr else .notfound)

/-- The module directory of the file `p` reached with ownership `own`
(`dir_path = file_path.parent()`). -/
def dirOf (p : Path) (own : Ownership) : Directory := ⟨(parent p).getD [], own⟩

/-- A file of the crate together with the ownership under which its own `mod` items resolve. -/
structure Ctx where
  path : Path
  own : Ownership
  deriving DecidableEq, Repr

/-- The items of the file at `p` (none if it is not a file). -/
def itemsAt (fs : FS) (p : Path) : List Decl :=
  match nodeAt fs p with
  | some (.file _ _ items) => items
  | _ => []

/-- `p` is a file without `#![rustfmt::skip]`. -/
def LiveFile (fs : FS) (p : Path) : Prop := ∃ g items, nodeAt fs p = some (.file false g items)

/-- The located external declarations of the file `c.path` under ownership `c.own`. -/
def ctxLocs (probe : Bool) (fs : FS) (c : Ctx) : List Loc :=
  scanItems probe fs (dirOf c.path c.own) (itemsAt fs c.path)

/-- **Declarative specification.** The files of the crate: the root, and every live file that a
declaration of a file of the crate locates. -/
inductive Reach (probe : Bool) (fs : FS) (root : Ctx) : Ctx → Prop
  | root : Reach probe fs root root
  | step {c : Ctx} {p : Path} {own : Ownership} {via : Bool} :
      Reach probe fs root c → Loc.located p own via ∈ ctxLocs probe fs c → LiveFile fs p →
      Reach probe fs root ⟨p, own⟩

/-- The specification reports an error of kind `k`: some declaration of some file of the crate
fails to resolve with that kind. -/
def SpecErr (probe : Bool) (fs : FS) (root : Ctx) (k : ErrKind) : Prop :=
  ∃ c l, Reach probe fs root c ∧ l ∈ ctxLocs probe fs c ∧ locErr fs l = some k

/-- No file of the crate is reached under two different ownerships (e.g. once as `foo.rs` by
`mod foo;` and once through a `#[path = "foo.rs"]`, which makes it `mod.rs`-like). -/
def UniqueOwnership (probe : Bool) (fs : FS) (root : Ctx) : Prop :=
  ∀ c₁ c₂, Reach probe fs root c₁ → Reach probe fs root c₂ → c₁.path = c₂.path → c₁.own = c₂.own

/-- rustfmt's directory rule for inline modules (the `exists()` probe) agrees with rustc's on every
file of the crate. -/
def ProbeAgrees (fs : FS) (root : Ctx) : Prop :=
  ∀ c, Reach false fs root c → ctxLocs true fs c = ctxLocs false fs c

/-- The contexts below a list of located declarations, in order, first error wins. `recF` is the
recursion into a loaded file (stack, file, ownership, items). -/
def reachLocsW (fs : FS)
    (recF : List Path → Path → Ownership → List Decl → Except ErrKind (List Ctx))
    (stack : List Path) : List Loc → Except ErrKind (List Ctx)
  | [] => .ok []
  | .failed k :: _ => .error k
  | .located p own via :: ls =>
    match nodeAt fs p with
    | none => .error (if via then .pathattr else .notfound)
    | some .dir => .error .parse
    | some (.file true _ _) => reachLocsW fs recF stack ls
    | some (.file false _ items) =>
      if p ∈ stack then .error .circular
      else
        match recF stack p own items with
        | .error e => .error e
        | .ok ps =>
          match reachLocsW fs recF stack ls with
          | .error e => .error e
          | .ok qs => .ok (⟨p, own⟩ :: ps ++ qs)

/-- rustc's `parse_external_mod` as a tree recursion: the contexts below the file `p`.
`stack` is `module.file_path_stack` (circular inclusion is an error), the fuel bounds the nesting. -/
def reachFile (probe : Bool) (fs : FS) :
    Nat → List Path → Path → Ownership → List Decl → Except ErrKind (List Ctx)
  | 0 => fun _ _ _ items =>
    match items with
    | [] => .ok []
    | _ :: _ => .error .fuel
  | n + 1 => fun stack p own items =>
    reachLocsW fs (reachFile probe fs n) (p :: stack) (scanItems probe fs (dirOf p own) items)

/-- **Executable specification.** The files (other than the root) that belong to the crate rooted
at `root` according to rustc's rules, or the first error in source order. -/
def reachable (fs : FS) (fuel : Nat) (root : Path) (rootItems : List Decl) (rootOwn : Ownership) :
    Except ErrKind (List Path) :=
  match reachFile false fs (fuel + 1) [] root rootOwn rootItems with
  | .error e => .error e
  | .ok cs => .ok (cs.map (·.path))

/-! ## Decidable side conditions of the refinement theorem

The theorems of `RF/Props/C13.lean` have three hypotheses; each has a computable check here (sound,
see `RF/Lemmas/Modules.lean`), so that the harness can tell whether a generated tree is inside the
proved fragment. -/

def attrsPlain : List Attr → Bool
  | [] => true
  | .cfgAttrPath _ :: _ => false
  | _ :: rest => attrsPlain rest

mutual
/-- No `#[cfg_attr(.., path = "..")]` on any `mod name;` of the tree. -/
def itemsPlain : List Decl → Bool
  | [] => true
  | d :: ds => declPlain d && itemsPlain ds
def declPlain : Decl → Bool
  | .ext _ attrs => attrsPlain attrs
  | .inline _ _ items => itemsPlain items
end

/-- Every file entry of the tree is free of `cfg_attr(path)`. -/
def fsPlainB (fs : FS) : Bool :=
  fs.all fun e => match e.2 with
    | .file _ _ items => itemsPlain items
    | .dir => true

def liveB (fs : FS) (p : Path) : Bool :=
  match nodeAt fs p with
  | some (.file false _ _) => true
  | _ => false

/-- `S` is closed under "locates a live file". -/
def closedB (probe : Bool) (fs : FS) (S : List Ctx) : Bool :=
  S.all fun c => (ctxLocs probe fs c).all fun l => match l with
    | .located p own _ => !liveB fs p || decide ((⟨p, own⟩ : Ctx) ∈ S)
    | .failed _ => true

/-- No two contexts of `S` share a path with different ownerships. -/
def uniqueB (S : List Ctx) : Bool :=
  S.all fun c₁ => S.all fun c₂ => decide (c₁.path ≠ c₂.path) || decide (c₁.own = c₂.own)

/-- The probe makes no difference on any context of `S`. -/
def probeAgreesB (fs : FS) (S : List Ctx) : Bool :=
  S.all fun c => decide (ctxLocs true fs c = ctxLocs false fs c)

/-- The live files the declarations of `c` locate. -/
def childrenOf (probe : Bool) (fs : FS) (c : Ctx) : List Ctx :=
  (ctxLocs probe fs c).filterMap fun l => match l with
    | .located p own _ => if liveB fs p then some ⟨p, own⟩ else none
    | .failed _ => none

def addNew (acc : List Ctx) (c : Ctx) : List Ctx := if c ∈ acc then acc else acc ++ [c]

/-- One round of adding the children of every member. -/
def expand (probe : Bool) (fs : FS) (S : List Ctx) : List Ctx :=
  S.foldl (fun acc c => (childrenOf probe fs c).foldl addNew acc) S

def closure (probe : Bool) (fs : FS) : Nat → List Ctx → List Ctx
  | 0, S => S
  | n + 1, S => closure probe fs n (expand probe fs S)

/-- Are the hypotheses of `resolver_refines_spec_partial` met for input `root` with ownership `own`?
Computes the closure under rustc's rules by `rounds` rounds of expansion (errors ignored) and checks:
the tree is plain, the computed set contains the root and is closed, no path occurs with two
ownerships, the probe changes nothing on it.  `true` implies the hypotheses (`hypsB_sound`);
`false` means "not established" (e.g. too few rounds). -/
def hypsB (fs : FS) (rounds : Nat) (root : Path) (own : Ownership) : Bool :=
  let S := closure false fs rounds [⟨root, own⟩]
  fsPlainB fs && decide ((⟨root, own⟩ : Ctx) ∈ S) && closedB false fs S && uniqueB S
    && probeAgreesB fs S

/-- Remove duplicates, keeping first occurrences. -/
def dedup : List Path → List Path
  | [] => []
  | p :: ps => if p ∈ ps then dedup ps else p :: dedup ps

/-- **Specification of the files that get formatted** for a file input: the root and the files
reachable by rustc's rules, minus the documented exclusions (a crate-level skip on the input,
every child under `skip_children`, `ignore` matches, `@generated` files unless
`format_generated_files`).  With `skip_children` an ignored input formats nothing and the children
are not even looked at (so a missing child is no error). -/
def specFormatted (fs : FS) (fuel : Nat) (root : Path) (cfg : Config) :
    Except ErrKind (List Path) :=
  if cfg.skipChildren && cfg.ignored root then .ok []
  else
    match nodeAt fs root with
    | some (.file rootSkip _ rootItems) =>
      let own := (toDirectoryOwnership fs root).getD .unownedViaBlock
      let files : Except ErrKind (List Path) :=
        if cfg.skipChildren then .ok []
        else reachable fs fuel root rootItems own
      match files with
      | .error e => .error e
      | .ok ps =>
        .ok ((dedup (root :: ps)).filter fun p =>
          !(p = root && rootSkip) && !(cfg.skipChildren && p ≠ root) && !cfg.ignored p
            && (cfg.formatGeneratedFiles || !generatedAt fs (.real p)))
    | _ => .error .root

end RF.Modules
