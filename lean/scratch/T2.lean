import RF.Lemmas.TokEquiv
namespace RF.Tok

def clsDelim (t : Tok) : Bool := t.isOpen || t.isClose
def clsTry (t : Tok) : Bool := t.isI kwTry || t.isP '!' || t.isP '?' || clsDelim t
def clsAbi (t : Tok) : Bool := isAbiC t
def clsVis (t : Tok) : Bool := t.isI kwIn || t.isP ':'
def clsEmpty (t : Tok) : Bool := t.isP '<' || t.isP '>' || t.isI kwFor || t.isI kwWhere || t.isP ':'
def clsPipe (t : Tok) : Bool := t.isP '|'
def clsBlock (t : Tok) : Bool := clsDelim t || t.isP ','
def clsSemi (t : Tok) : Bool := t.isP ';'
def clsComma (t : Tok) : Bool := t.isP ','

theorem actLocal_drop (S : Tok → Bool) (t : Tok) (h : S t = true) : ActLocal S t { out := [] } :=
  ⟨by simp [outside_cons, h], by simp, by simp⟩

theorem isO_isOpen {t : Tok} {c} (h : t.isO c = true) : t.isOpen = true := by
  simp [Tok.isO, Tok.isOpen] at *; exact h.1
theorem isC_isClose {t : Tok} {c} (h : t.isC c = true) : t.isClose = true := by
  simp [Tok.isC, Tok.isClose] at *; exact h.1

macro "rule_cases" h:ident : tactic =>
  `(tactic| (repeat' (split at $h:ident)) <;> (try (exact absurd $h (by simp))))

theorem ruleAbi_local : RuleLocal clsAbi ruleAbi := by
  intro enc lo p2 p1 t rest a h
  unfold ruleAbi at h
  rule_cases h
  all_goals (simp only [drop_, Option.some.injEq] at h; subst h; apply actLocal_drop; simp_all [clsAbi])

theorem ruleVis_local : RuleLocal clsVis ruleVis := by
  intro enc lo p2 p1 t rest a h
  unfold ruleVis at h
  rule_cases h
  all_goals (simp only [drop_, Option.some.injEq] at h; subst h; apply actLocal_drop; simp_all [clsVis])

theorem ruleEmpty_local : RuleLocal clsEmpty ruleEmpty := by
  intro enc lo p2 p1 t rest a h
  unfold ruleEmpty at h
  rule_cases h
  all_goals (simp only [drop_, Option.some.injEq] at h; subst h; apply actLocal_drop; simp_all [clsEmpty])

theorem rulePipe_local : RuleLocal clsPipe rulePipe := by
  intro enc lo p2 p1 t rest a h
  unfold rulePipe at h
  rule_cases h
  all_goals (simp only [drop_, Option.some.injEq] at h; subst h; apply actLocal_drop; simp_all [clsPipe])

theorem ruleSemi_local : RuleLocal clsSemi ruleSemi := by
  intro enc lo p2 p1 t rest a h
  unfold ruleSemi at h
  rule_cases h
  all_goals (simp only [drop_, Option.some.injEq] at h; subst h; apply actLocal_drop; simp_all [clsSemi])

theorem ruleComma_local : RuleLocal clsComma ruleComma := by
  intro enc lo p2 p1 t rest a h
  unfold ruleComma at h
  rule_cases h
  all_goals (simp only [drop_, Option.some.injEq] at h; subst h; apply actLocal_drop; simp_all [clsComma])

end RF.Tok
