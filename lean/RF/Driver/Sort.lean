import RF.Model.Proto
import RF.Model.Sort
/-!
Line-protocol operations for the sorting family (C11; the tree encoding is shared with C10).

  sort.version <a> <b>                -> ord          `version_sort(a, b)`
  sort.legacy <a> <b>                 -> ord          identifier comparison of style editions ≤ 2021
  sort.ident <v> <a> <b>              -> ord          identifier comparison of `UseSegment::cmp`
                                                      (2024: `version_sort` after `trim_start_matches("r#")`)
  sort.strcmp <a> <b>                 -> ord          `str::cmp`
  sort.chunks <a>                     -> chunks       items of `VersionChunkIter` up to its first `None`
  sort.fits <a>                       -> 0|1          oracle `allRunsFit`: every digit run < 2^64
  sort.trimraw <a>                    -> string       `trim_start_matches("r#")`
  sort.classes <a>                    -> two digits   `starts_with(char::is_uppercase)`, `is_upper_snake_case`
  sort.parseusize <a>                 -> number | none   `a.parse::<usize>().ok()`
  sort.seg <v> <seg> <seg>            -> ord          `UseSegment::cmp`
  sort.rmalias <seg>                  -> seg          `UseSegment::remove_alias`
  sort.segna <v> <seg> <seg>          -> ord          `a.remove_alias().cmp(&b.remove_alias())`
  sort.tree <v> <tree> <tree>         -> ord          `UseTree::cmp`
  sort.canon <v> <tree>               -> tree         oracle `canonTree` (aliases erased; 2024: `r#` erased)
  sort.treefits <tree>                -> 0|1          oracle: `allRunsFit` of every identifier name of the tree
  sort.stable <v> <trees>             -> trees        stable sort by `UseTree::cmp` (`Vec<UseTree>::sort()`)
  sort.stablestr <v> <list>           -> list         stable sort of strings by the `mod` comparison
  sort.items <v> <item> <item>        -> ord | panic  `compare_items` (`panic` = `unreachable!()`)
  sort.itemsort <v> <items>           -> items | panic   stable sort by `compare_items`
  sort.groups <cfg> <gitems>          -> groups | hang   `visit_items_with_reordering` splitting

ord      `lt` | `eq` | `gt`
v        `1` for style edition ≥ 2024, `0` for ≤ 2021
chunks   `_` or `,`-joined: `u` (underscore) | `s:<string>` | `n:<value>:<zeros>:<source string>`
alias    `~` for `None`, otherwise the string (`-` is `Some("")`)
seg      `(i:<name>:<alias>)` ident | `(s:<alias>)` self | `(u:<alias>)` super | `(c:<alias>)` crate
         | `(g)` glob | `(l<tree>…)` nested list, e.g. `(l[(i:61:~)][(g)])`
tree     `[` seg… `]` — the segments of `UseTree.path`, concatenated, e.g. `[(i:61:~)(i:62:63)]`
trees    `_` or trees concatenated
item     `m:<name>` for `mod name;`, `e:<name>:<alias>` for `extern crate name [as alias];`
items    `_` or `;`-joined
cfg      three digits: reorder_imports, reorder_modules, group_imports == Preserve
gitem    `<kind>:<macro_use 0|1>:<skip 0|1>:<lo>:<hi>`, kind `e` extern crate, `m` mod declaration,
         `u` use, `o` anything else; gitems `_` or `;`-joined
groups   `_` or `;`-joined: `r<kind>:<number of items>` for a run handed to the sorter (kind
         `e`|`m`|`u`), `s` for a single item visited on its own
All strings are hex of UTF-8 (`-` = empty) as in `RF.Proto`.
-/
namespace RF.Driver.Sort
open RF.Proto RF.Sort RF.Imports RF.Reorder

def encOrd : Ordering → String
  | .lt => "lt"
  | .eq => "eq"
  | .gt => "gt"

def decV (s : String) : Option Bool :=
  if s == "1" then some true else if s == "0" then some false else none

def decBit (s : String) : Option Bool := decV s

def encBit (b : Bool) : String := if b then "1" else "0"

def encChunk : Chunk → String
  | .underscore => "u"
  | .str s => "s:" ++ encChars s
  | .number v z src => s!"n:{v}:{z}:{encChars src}"

def encChunks (cs : List Chunk) : String :=
  if cs.isEmpty then "_" else String.intercalate "," (cs.map encChunk)

def encAlias : Option (List Char) → String
  | none => "~"
  | some a => encChars a

def decAlias (s : String) : Option (Option (List Char)) :=
  if s == "~" then some none else (decChars s).map some

mutual
def encSeg : Seg → String
  | .ident n a => "(i:" ++ encChars n ++ ":" ++ encAlias a ++ ")"
  | .slf a => "(s:" ++ encAlias a ++ ")"
  | .super a => "(u:" ++ encAlias a ++ ")"
  | .crate a => "(c:" ++ encAlias a ++ ")"
  | .glob => "(g)"
  | .list ts => "(l" ++ encTreeList ts ++ ")"
termination_by structural a => a
def encTreeList : List Tree → String
  | [] => ""
  | t :: ts => encTree t ++ encTreeList ts
termination_by structural a => a
def encTree : Tree → String
  | .mk p => "[" ++ encPath p ++ "]"
termination_by structural a => a
def encPath : List Seg → String
  | [] => ""
  | s :: ss => encSeg s ++ encPath ss
termination_by structural a => a
end

def encTrees (ts : List Tree) : String := if ts.isEmpty then "_" else encTreeList ts

def isTokChar (c : Char) : Bool := c.isDigit || ('a' ≤ c && c ≤ 'f') || c == '-' || c == '~'

/-- Splits off a maximal token of hex / `-` / `~` characters. -/
def takeTok (cs : List Char) : String × List Char :=
  (String.ofList (cs.takeWhile isTokChar), cs.dropWhile isTokChar)

/- Recursive-descent parser of the tree encoding; `fuel` bounds the nesting + length. -/
mutual
def parseSeg : Nat → List Char → Option (Seg × List Char)
  | 0, _ => none
  | fuel + 1, cs =>
    match cs with
    | '(' :: 'g' :: ')' :: rest => some (.glob, rest)
    | '(' :: 'i' :: ':' :: rest =>
      let (n, rest) := takeTok rest
      match rest with
      | ':' :: rest =>
        let (a, rest) := takeTok rest
        match rest, decChars n, decAlias a with
        | ')' :: rest, some n, some a => some (.ident n a, rest)
        | _, _, _ => none
      | _ => none
    | '(' :: 'l' :: rest =>
      match parseTreeList fuel rest with
      | some (ts, ')' :: rest) => some (.list ts, rest)
      | _ => none
    | '(' :: k :: ':' :: rest =>
      let (a, rest) := takeTok rest
      match rest, decAlias a with
      | ')' :: rest, some a =>
        if k = 's' then some (.slf a, rest)
        else if k = 'u' then some (.super a, rest)
        else if k = 'c' then some (.crate a, rest)
        else none
      | _, _ => none
    | _ => none
def parseTreeList : Nat → List Char → Option (List Tree × List Char)
  | 0, _ => none
  | fuel + 1, cs =>
    match cs with
    | '[' :: _ =>
      match parseTree fuel cs with
      | some (t, rest) =>
        match parseTreeList fuel rest with
        | some (ts, rest) => some (t :: ts, rest)
        | none => none
      | none => none
    | _ => some ([], cs)
def parseTree : Nat → List Char → Option (Tree × List Char)
  | 0, _ => none
  | fuel + 1, cs =>
    match cs with
    | '[' :: rest =>
      match parsePath fuel rest with
      | some (p, ']' :: rest) => some (.mk p, rest)
      | _ => none
    | _ => none
def parsePath : Nat → List Char → Option (List Seg × List Char)
  | 0, _ => none
  | fuel + 1, cs =>
    match cs with
    | '(' :: _ =>
      match parseSeg fuel cs with
      | some (s, rest) =>
        match parsePath fuel rest with
        | some (ss, rest) => some (s :: ss, rest)
        | none => none
      | none => none
    | _ => some ([], cs)
end

def decTree (s : String) : Option Tree :=
  let cs := s.toList
  match parseTree (2 * cs.length + 4) cs with
  | some (t, []) => some t
  | _ => none

def decSeg (s : String) : Option Seg :=
  let cs := s.toList
  match parseSeg (2 * cs.length + 4) cs with
  | some (t, []) => some t
  | _ => none

def decTrees (s : String) : Option (List Tree) :=
  if s == "_" then some [] else
  let cs := s.toList
  match parseTreeList (2 * cs.length + 4) cs with
  | some (ts, []) => some ts
  | _ => none

def decItem (s : String) : Option Item :=
  match s.splitOn ":" with
  | ["m", n] => (decChars n).map fun n => ⟨.mod, n, none⟩
  | ["e", n, a] =>
    match decChars n, decAlias a with
    | some n, some a => some ⟨.externCrate, n, a⟩
    | _, _ => none
  | _ => none

def encItem (i : Item) : String :=
  match i.kind with
  | .mod => "m:" ++ encChars i.name
  | .externCrate => "e:" ++ encChars i.name ++ ":" ++ encAlias i.rename

def decItems (s : String) : Option (List Item) :=
  if s == "_" then some [] else (s.splitOn ";").mapM decItem

def joinOr (xs : List String) : String := if xs.isEmpty then "_" else String.intercalate ";" xs

def decGItem (s : String) : Option GItem :=
  match s.splitOn ":" with
  | [k, m, sk, lo, hi] =>
    let kind : Option AstKind :=
      if k == "e" then some .externCrate else if k == "m" then some .modDecl
      else if k == "u" then some .use else if k == "o" then some .other else none
    match kind, decBit m, decBit sk, lo.toNat?, hi.toNat? with
    | some kind, some m, some sk, some lo, some hi => some ⟨kind, m, sk, lo, hi⟩
    | _, _, _, _, _ => none
  | _ => none

def decGItems (s : String) : Option (List GItem) :=
  if s == "_" then some [] else (s.splitOn ";").mapM decGItem

def decCfg (s : String) : Option GConfig :=
  match s.toList with
  | [a, b, c] =>
    match decBit (String.singleton a), decBit (String.singleton b), decBit (String.singleton c) with
    | some a, some b, some c => some ⟨a, b, c⟩
    | _, _, _ => none
  | _ => none

def encRKind : RKind → String
  | .externCrate => "e"
  | .mod => "m"
  | .use => "u"
  | .other => "o"

def encGroup : Group → String
  | .run k is => s!"r{encRKind k}:{is.length}"
  | .single _ => "s"

/-- The comparison used to sort items of one kind; `none` when two kinds are mixed. -/
def itemSort (v : Bool) (is : List Item) : Option (List Item) :=
  match is with
  | [] => some []
  | i :: _ =>
    if is.all (fun j => j.kind == i.kind) then
      some (stableSort (fun a b => (compareItems v a b).getD .eq) is)
    else none

def handle (op : String) (args : List String) : Option String :=
  match op, args with
  | "sort.version", [a, b] => do
    let a ← decChars a
    let b ← decChars b
    pure (encOrd (versionSort a b))
  | "sort.legacy", [a, b] => do
    let a ← decChars a
    let b ← decChars b
    pure (encOrd (legacyIdentCmp a b))
  | "sort.ident", [v, a, b] => do
    let v ← decV v
    let a ← decChars a
    let b ← decChars b
    pure (encOrd (identCmp v a b))
  | "sort.strcmp", [a, b] => do
    let a ← decChars a
    let b ← decChars b
    pure (encOrd (strCmp a b))
  | "sort.chunks", [a] => do
    let a ← decChars a
    pure (encChunks (chunks a))
  | "sort.fits", [a] => do
    let a ← decChars a
    pure (encBit (allRunsFit a))
  | "sort.trimraw", [a] => do
    let a ← decChars a
    pure (encChars (trimRaw a))
  | "sort.classes", [a] => do
    let a ← decChars a
    pure (encBit (startsUpper a) ++ encBit (isUpperSnakeCase a))
  | "sort.parseusize", [a] => do
    let a ← decChars a
    pure (match parseUsize a with
      | some v => toString v
      | none => "none")
  | "sort.rmalias", [a] => do
    let a ← decSeg a
    pure (encSeg (removeAlias a))
  | "sort.treefits", [a] => do
    let a ← decTree a
    pure (encBit ((treeNames a).all allRunsFit))
  | "sort.seg", [v, a, b] => do
    let v ← decV v
    let a ← decSeg a
    let b ← decSeg b
    pure (encOrd (segCmp v a b))
  | "sort.segna", [v, a, b] => do
    let v ← decV v
    let a ← decSeg a
    let b ← decSeg b
    pure (encOrd (segCmpCore v false a b))
  | "sort.tree", [v, a, b] => do
    let v ← decV v
    let a ← decTree a
    let b ← decTree b
    pure (encOrd (treeCmp v a b))
  | "sort.canon", [v, a] => do
    let v ← decV v
    let a ← decTree a
    pure (encTree (canonTree v a))
  | "sort.stable", [v, ts] => do
    let v ← decV v
    let ts ← decTrees ts
    pure (encTrees (stableSort (treeCmp v) ts))
  | "sort.stablestr", [v, l] => do
    let v ← decV v
    let l ← decList l
    pure (encList ((stableSort (nameCmp v) (l.map String.toList)).map String.ofList))
  | "sort.items", [v, a, b] => do
    let v ← decV v
    let a ← decItem a
    let b ← decItem b
    pure (match compareItems v a b with
      | some o => encOrd o
      | none => "panic")
  | "sort.itemsort", [v, is] => do
    let v ← decV v
    let is ← decItems is
    pure (match itemSort v is with
      | some r => joinOr (r.map encItem)
      | none => "panic")
  | "sort.groups", [c, is] => do
    let c ← decCfg c
    let is ← decGItems is
    pure (match splitGroups c is with
      | some gs => joinOr (gs.map encGroup)
      | none => "hang")
  | _, _ => none

end RF.Driver.Sort
