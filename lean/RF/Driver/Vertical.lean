import RF.Model.Proto
import RF.Model.Vertical
import RF.Driver.Lists
/-!
Line-protocol operations for the alignment machinery (`src/vertical.rs`, model `RF/Model/Vertical.lean`).

Encodings (strings as in RF.Proto: hex of UTF-8, `-` for the empty string)
  field     `<skip 0|1>:<measW | ~>:<head>:<spacing>:<alignW>:<value>:<ok 0|1>:<post>`
  fields    fields joined by `;`, `_` for none
  cfg       `<threshold> <trailing_comma a|n|v> <hard_tabs 0|1> <tab_spaces> <max_width>`   (5 tokens)

Operations
  vert.blank <gap>                         -> 0|1                  the test `has_blank_line` of `group_aligned_items`
  vert.groups <threshold> <fields>         -> `<end>:<blank>:<max>:<min>` joined by `;`
        the groups `rewrite_with_alignment` visits (index of each group's last field, separator is a blank line)
        with `struct_field_prefix_max_min_width` of each group
  vert.rewrite <cfg> <block_indent> <one_line_width> <first_pre> <fields>  -> string | err   `rewrite_with_alignment`
        with `rewrite_comment` := `rewriteCommentLight`
  vert.gaps <cfg> <block_indent> <fields>  -> strings joined by `,`
        the text a comment-free vertical result has between consecutive fields (`gapWithin` / `gapBetween`)
ORACLES (judge the output of the real formatter)
  vert.oracle.inorder <strings> <out>      -> ok | bad    the strings occur in `out`, disjoint, in order
  vert.oracle.comments <strings> <out>     -> ok | bad    the squeezed strings occur in `squeeze out`, in order
  vert.oracle.tokens <strings> <out>       -> ok | bad    the same test, on names and values
  vert.oracle.align <threshold> <w:c;...>  -> ok | bad    `alignOK` on (prefix width, value column) of one group
-/
namespace RF.Driver.Vertical
open RF.Proto RF.Lists RF.Shape RF.Vertical RF.Driver.Lists

def decField (s : String) : Option Field :=
  match s.splitOn ":" with
  | [sk, mw, head, sp, aw, value, ok, post] => do
    let sk ← decBool sk
    let mw ← (if mw == "~" then some none else mw.toNat?.map some)
    let head ← decChars head
    let sp ← decChars sp
    let aw ← aw.toNat?
    let value ← decChars value
    let ok ← decBool ok
    let post ← decChars post
    pure ⟨sk, mw, head, sp, aw, value, ok, post⟩
  | _ => none

def decFields (s : String) : Option (List Field) :=
  if s == "_" then some [] else (s.splitOn ";").mapM decField

def decCfg : List String → Option VConfig
  | [th, tc, ht, ts, mw] => do
    let th ← th.toNat?
    let tc ← decSepT tc
    let ht ← decBool ht
    let ts ← ts.toNat?
    let mw ← mw.toNat?
    pure ⟨th, tc, ⟨ht, ts, mw, 80⟩⟩
  | _ => none

def groupGaps (indentStr : List Char) : List (List Field × Bool) → List (List Char)
  | [] => []
  | (g, b) :: rest =>
    ((rereadGroup indentStr b g).map (·.post)) ++ groupGaps indentStr rest

def encGroup (x : (Nat × Bool) × (Nat × Nat)) : String :=
  s!"{x.1.1}:{encB x.1.2}:{x.2.1}:{x.2.2}"

def decPair (p : String) : Option (Nat × Nat) :=
  match p.splitOn ":" with
  | [a, b] => do
    let a ← a.toNat?
    let b ← b.toNat?
    pure (a, b)
  | _ => none

def handle (op : String) (args : List String) : Option String :=
  match op, args with
  | "vert.blank", [gap] => some <| (do
      let gap ← decChars gap
      pure (encB (hasBlankLine gap))).getD "?"
  | "vert.groups", [th, fields] => some <| (do
      let th ← th.toNat?
      let fields ← decFields fields
      let gs := groups ⟨th, .vertical, ⟨false, 4, 100, 80⟩⟩ fields
      let ends := groupEnds 0 gs
      let mm : List (Nat × Nat) := gs.map fun (g : List Field × Bool) => prefixMaxMinWidth g.1
      pure (String.intercalate ";" ((ends.zip mm).map encGroup))).getD "?"
  | "vert.rewrite", [th, tc, ht, ts, mw, bi, olw, pre, fields] => some <| (do
      let c ← decCfg [th, tc, ht, ts, mw]
      let bi ← bi.toNat?
      let olw ← olw.toNat?
      let pre ← decChars pre
      let fields ← decFields fields
      pure (match rewriteWithAlignment c (rewriteCommentLight c.config) ⟨bi, 0⟩ pre fields olw with
        | some r => encChars r
        | none => "err")).getD "?"
  | "vert.gaps", [th, tc, ht, ts, mw, bi, fields] => some <| (do
      let c ← decCfg [th, tc, ht, ts, mw]
      let bi ← bi.toNat?
      let fields ← decFields fields
      let gaps := (groupGaps (indentString ⟨bi, 0⟩ c.config) (groups c fields)).dropLast
      pure (if gaps.isEmpty then "_" else String.intercalate "," (gaps.map encChars))).getD "?"
  | "vert.oracle.inorder", [xs, out] => some <| (do
      let xs ← decList xs
      let out ← decChars out
      pure (if occursInOrder (xs.map String.toList) out then "ok" else "bad")).getD "?"
  | "vert.oracle.tokens", [xs, out] => some <| (do
      let xs ← decList xs
      let out ← decChars out
      pure (if occursInOrder (xs.map fun (x : String) => squeeze x.toList) (squeeze out) then "ok" else "bad")).getD "?"
  | "vert.oracle.comments", [xs, out] => some <| (do
      let xs ← decList xs
      let out ← decChars out
      pure (if occursInOrder (xs.map fun (x : String) => squeeze x.toList) (squeeze out) then "ok" else "bad")).getD "?"
  | "vert.oracle.align", [th, ps] => some <| (do
      let th ← th.toNat?
      let ps ← (ps.splitOn ";").mapM decPair
      pure (if alignOK th ps then "ok" else "bad")).getD "?"
  | _, _ => none

end RF.Driver.Vertical
