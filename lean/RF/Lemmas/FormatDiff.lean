import RF.Model.FormatDiff
/-!
Lemmas about the `rustfmt-format-diff` model (C19).
-/
namespace RF.Lemmas.FormatDiff
open RF.FormatDiff

/-! ### Characters -/

theorem isDigit_plus : isDigit '+' = false := by decide
theorem isDigit_nl : isDigit '\n' = false := by decide
theorem isDigit_comma : isDigit ',' = false := by decide
theorem isSpace_nl : isSpace '\n' = true := by decide

theorem ne_plus_of_isDigit {c : Char} (h : isDigit c = true) : c ≠ '+' := by
  intro hc; subst hc; simp [isDigit_plus] at h

theorem isDot_of_isDigit {c : Char} (h : isDigit c = true) : isDot c = true := by
  simp only [isDot, bne_iff_ne, ne_eq]
  intro hc; subst hc; simp [isDigit_nl] at h

theorem isDot_of_not_space {c : Char} (h : isSpace c = false) : isDot c = true := by
  simp only [isDot, bne_iff_ne, ne_eq]
  intro hc; subst hc; simp [isSpace_nl] at h

/-! ### `takeWhile` / `dropWhile` -/

theorem takeWhile_append_dropWhile (p : Char → Bool) (s : List Char) :
    s.takeWhile p ++ s.dropWhile p = s := List.takeWhile_append_dropWhile

theorem all_takeWhile (p : Char → Bool) (s : List Char) : ∀ c ∈ s.takeWhile p, p c = true := by
  intro c hc
  induction s with
  | nil => cases hc
  | cons x xs ih =>
    simp only [List.takeWhile] at hc
    split at hc
    · rename_i hx
      rcases List.mem_cons.mp hc with rfl | hc
      · exact hx
      · exact ih hc
    · cases hc

/-! ### The hunk pattern -/

theorem plusNum_of_ne_plus (c : Char) (r : List Char) (h : c ≠ '+') : plusNum (c :: r) = none := by
  unfold plusNum
  split
  · rename_i heq
    exact absurd (List.cons.inj heq).1 h
  · rfl

theorem hunkGreedy_skip (c : Char) (r : List Char) (h1 : c ≠ '+') (h2 : isDot c = true) :
    hunkGreedy (c :: r) = hunkGreedy r := by
  rw [hunkGreedy]
  simp only [h2, if_true, plusNum_of_ne_plus c r h1]
  cases hunkGreedy r <;> rfl

theorem hunkLazy_skip (c : Char) (r : List Char) (h1 : c ≠ '+') (h2 : isDot c = true) :
    hunkLazy (c :: r) = hunkLazy r := by
  rw [hunkLazy]
  simp only [h2, if_true, plusNum_of_ne_plus c r h1]

theorem hunkGreedy_skip_prefix (pre t : List Char) (h : ∀ c ∈ pre, c ≠ '+' ∧ isDot c = true) :
    hunkGreedy (pre ++ t) = hunkGreedy t := by
  induction pre with
  | nil => rfl
  | cons c pre ih =>
    have hc := h c List.mem_cons_self
    rw [List.cons_append, hunkGreedy_skip c _ hc.1 hc.2]
    exact ih (fun x hx => h x (List.mem_cons_of_mem _ hx))

theorem hunkLazy_skip_prefix (pre t : List Char) (h : ∀ c ∈ pre, c ≠ '+' ∧ isDot c = true) :
    hunkLazy (pre ++ t) = hunkLazy t := by
  induction pre with
  | nil => rfl
  | cons c pre ih =>
    have hc := h c List.mem_cons_self
    rw [List.cons_append, hunkLazy_skip c _ hc.1 hc.2]
    exact ih (fun x hx => h x (List.mem_cons_of_mem _ hx))

theorem noPlusDigit_tail (c : Char) (r : List Char) (h : noPlusDigit (c :: r) = true) :
    noPlusDigit r = true := by
  cases r with
  | nil => rfl
  | cons d r' =>
    simp only [noPlusDigit, Bool.and_eq_true] at h
    exact h.2

theorem numPair_none_of_head (d : Char) (r : List Char) (h : isDigit d = false) :
    numPair (d :: r) = none := by
  simp [numPair, List.takeWhile, h]

theorem plusNum_none_of_clean (s : List Char) (h : noPlusDigit s = true) : plusNum s = none := by
  unfold plusNum
  split
  · rename_i r
    cases r with
    | nil => simp [numPair]
    | cons d r' =>
      have hd : isDigit d = false := by
        cases hd : isDigit d with
        | false => rfl
        | true => simp [noPlusDigit, hd] at h
      rw [numPair_none_of_head d r' hd]
  · rfl

/-- Where there is no `+digit` the pattern does not match, whatever the star does. -/
theorem hunkGreedy_none_of_clean (s : List Char) (h : noPlusDigit s = true) :
    hunkGreedy s = none := by
  induction s with
  | nil => rfl
  | cons c r ih =>
    rw [hunkGreedy, ih (noPlusDigit_tail c r h), plusNum_none_of_clean _ h]
    simp only [ite_self]

theorem hunkLazy_none_of_clean (s : List Char) (h : noPlusDigit s = true) :
    hunkLazy s = none := by
  induction s with
  | nil => rfl
  | cons c r ih =>
    rw [hunkLazy, ih (noPlusDigit_tail c r h), plusNum_none_of_clean _ h]
    simp

/-- What `numPair` consumed consists of digits and commas. -/
theorem numPair_decomp (s g1 : List Char) (g3 : Option (List Char)) (rest : List Char)
    (h : numPair s = some (g1, g3, rest)) :
    ∃ mid, s = mid ++ rest ∧ (∀ c ∈ mid, isDigit c = true ∨ c = ',') ∧
      g1 = s.takeWhile isDigit ∧ g1 ≠ [] := by
  unfold numPair at h
  simp only at h
  split at h
  · cases h
  · rename_i hne
    have hne' : s.takeWhile isDigit ≠ [] := by simpa using hne
    have hsplit := takeWhile_append_dropWhile isDigit s
    have hd := all_takeWhile isDigit s
    split at h
    · rename_i r' hr
      split at h
      · simp only [Option.some.injEq, Prod.mk.injEq] at h
        obtain ⟨rfl, _, rfl⟩ := h
        exact ⟨s.takeWhile isDigit, hsplit.symm, fun c hc => Or.inl (hd c hc), rfl, hne'⟩
      · simp only [Option.some.injEq, Prod.mk.injEq] at h
        obtain ⟨rfl, _, rfl⟩ := h
        refine ⟨s.takeWhile isDigit ++ ',' :: r'.takeWhile isDigit, ?_, ?_, rfl, hne'⟩
        · rw [List.append_assoc, List.cons_append, takeWhile_append_dropWhile, ← hr, hsplit]
        · intro c hc
          rcases List.mem_append.mp hc with hc | hc
          · exact Or.inl (hd c hc)
          · rcases List.mem_cons.mp hc with rfl | hc
            · exact Or.inr rfl
            · exact Or.inl (all_takeWhile isDigit r' c hc)
    · simp only [Option.some.injEq, Prod.mk.injEq] at h
      obtain ⟨rfl, _, rfl⟩ := h
      exact ⟨s.takeWhile isDigit, hsplit.symm, fun c hc => Or.inl (hd c hc), rfl, hne'⟩

theorem numPair_g3_ne_nil (s g1 g : List Char) (rest : List Char)
    (h : numPair s = some (g1, some g, rest)) : g ≠ [] := by
  unfold numPair at h
  simp only at h
  split at h
  · cases h
  · split at h
    · split at h
      · simp at h
      · rename_i hne
        simp only [Option.some.injEq, Prod.mk.injEq] at h
        obtain ⟨_, rfl, _⟩ := h
        simpa using hne
    · simp at h

/-- On a strict unified hunk header both variants of the pattern capture the post-image numbers
— the greedy one provided nothing after the post-image `+` looks like `+digit`. -/
theorem hunkMatch_strict (lazy : Bool) (line : List Char) (b c d : Nat) (after : List Char)
    (h : strictHunk line = some (b, c, d, after))
    (hclean : lazy = false → noPlusDigit after = true) :
    ∃ g1 g3, hunkMatch lazy line = some (g1, g3) ∧
      g1.all isAsciiDigit = true ∧ g1 ≠ [] ∧ digitsToNat g1 = c ∧
      ((g3 = none ∧ d = 1) ∨
        ∃ g, g3 = some g ∧ g.all isAsciiDigit = true ∧ g ≠ [] ∧ digitsToNat g = d) := by
  unfold strictHunk at h
  split at h
  · rename_i r
    split at h
    · rename_i ga gb r1 hnp1
      split at h
      · rename_i r2
        split at h
        · rename_i gc gd r3 hnp2
          split at h
          · split at h
            · rename_i hascii
              simp only [Bool.and_eq_true] at hascii
              simp only [Option.some.injEq, Prod.mk.injEq] at h
              obtain ⟨_, hc, hd, hafter⟩ := h
              subst hafter
              obtain ⟨mid, hmid, hmidc, _, _⟩ := numPair_decomp r ga gb _ hnp1
              obtain ⟨_, _, _, _, hgc⟩ := numPair_decomp r2 gc gd _ hnp2
              -- the text between `@@` and the post-image `+`
              have hpre : ∀ x ∈ ' ' :: '-' :: (mid ++ [' ']), x ≠ '+' ∧ isDot x = true := by
                intro x hx
                simp only [List.mem_cons, List.mem_append, List.not_mem_nil, or_false] at hx
                rcases hx with rfl | rfl | hx | rfl
                · decide
                · decide
                · rcases hmidc x hx with hx | rfl
                  · exact ⟨ne_plus_of_isDigit hx, isDot_of_isDigit hx⟩
                  · decide
                · decide
              have hshape : ' ' :: '-' :: r = (' ' :: '-' :: (mid ++ [' '])) ++ '+' :: r2 := by
                rw [hmid]; simp
              have hplus : plusNum ('+' :: r2) = some (gc, gd) := by
                simp only [plusNum, hnp2]
              have hm : hunkMatch lazy ('@' :: '@' :: ' ' :: '-' :: r) = some (gc, gd) := by
                cases lazy with
                | true =>
                  simp only [hunkMatch, if_true]
                  rw [hshape, hunkLazy_skip_prefix _ _ hpre, hunkLazy, hplus]
                | false =>
                  simp only [hunkMatch, Bool.false_eq_true, if_false]
                  rw [hshape, hunkGreedy_skip_prefix _ _ hpre, hunkGreedy,
                    hunkGreedy_none_of_clean r2 (hclean rfl), hplus]
                  simp
              refine ⟨gc, gd, hm, hascii.1.1.2, hgc, hc, ?_⟩
              cases gd with
              | none => exact Or.inl ⟨rfl, hd.symm⟩
              | some g =>
                refine Or.inr ⟨g, rfl, ?_, numPair_g3_ne_nil r2 gc g _ hnp2, hd⟩
                simpa using hascii.2
            · cases h
          · cases h
        · cases h
      · cases h
    · cases h
  · cases h

/-! ### Line kinds and the two patterns -/

theorem headerMatch_isSome_outKind (skip : Nat) (l : List Char) (f : List Char)
    (h : headerMatch skip l = some f) : outKind l = .header := by
  unfold headerMatch at h
  split at h
  · rename_i s rest
    split at h
    · rename_i hs
      simp [outKind, hs]
    · cases h
  · cases h

theorem hunkMatch_isSome_outKind (lazy : Bool) (l : List Char) (m)
    (h : hunkMatch lazy l = some m) : outKind l = .hunkLine := by
  unfold hunkMatch at h
  split at h
  · rfl
  · cases h

theorem bodyKind_hunkMatch (lazy : Bool) (l : List Char) (k) (h : bodyKind l = some k) :
    hunkMatch lazy l = none := by
  unfold hunkMatch
  split
  · simp [bodyKind] at h
  · rfl

/-! ### The header pattern against its declarative reading -/

theorem skipToSlash_append (p1 p2 t : List Char) (h1 : ∀ c ∈ p1, c ≠ '/' ∧ isDot c = true) :
    skipToSlash (p1 ++ '/' :: p2 ++ t) = some (p2 ++ t) := by
  induction p1 with
  | nil => simp [skipToSlash]
  | cons c p1 ih =>
    have hc := h1 c List.mem_cons_self
    simp only [List.cons_append, skipToSlash, hc.1, if_false, hc.2, if_true]
    exact ih (fun x hx => h1 x (List.mem_cons_of_mem _ hx))

theorem dropWhile_ne_slash_decomp (p : List Char) (r : List Char)
    (h : p.dropWhile (fun c => c != '/') = '/' :: r) :
    ∃ p1, p = p1 ++ '/' :: r ∧ ∀ c ∈ p1, c ≠ '/' := by
  refine ⟨p.takeWhile (fun c => c != '/'), ?_, ?_⟩
  · rw [← h, List.takeWhile_append_dropWhile]
  · intro c hc
    have := all_takeWhile (fun c => c != '/') p c hc
    simpa using this

theorem dropWhile_head (p : List Char) (x : Char) (r : List Char)
    (h : p.dropWhile (fun c => c != '/') = x :: r) : x = '/' := by
  have := List.head_dropWhile_not (fun c => c != '/') (l := p) (by rw [h]; simp)
  simpa [h] using this

/-- If the path token has at least `n` slashes, `(?:.*?/){n}` stops where the declarative
component dropper does. -/
theorem skipComponents_spec (n : Nat) (p t out : List Char)
    (hp : ∀ c ∈ p, isSpace c = false)
    (h : dropComponents n p = some out) :
    skipComponents n (p ++ t) = some (out ++ t) ∧ ∀ c ∈ out, isSpace c = false := by
  induction n generalizing p with
  | zero =>
    simp only [dropComponents, Option.some.injEq] at h
    subst h
    exact ⟨rfl, hp⟩
  | succ n ih =>
    simp only [dropComponents] at h
    split at h
    · cases h
    · rename_i x r hdw
      have hx := dropWhile_head p x r hdw
      subst hx
      obtain ⟨p1, rfl, hp1⟩ := dropWhile_ne_slash_decomp p r hdw
      have hr : ∀ c ∈ r, isSpace c = false := fun c hc =>
        hp c (List.mem_append_right _ (List.mem_cons_of_mem _ hc))
      have := skipToSlash_append p1 r t (fun c hc =>
        ⟨hp1 c hc, isDot_of_not_space (hp c (List.mem_append_left _ hc))⟩)
      simp only [skipComponents, List.append_assoc, List.cons_append] at this ⊢
      rw [this]
      exact ih r hr h

theorem nonSpaceRun_append (out t : List Char) (ho : ∀ c ∈ out, isSpace c = false)
    (ht : t = [] ∨ ∃ x t', t = x :: t' ∧ isSpace x = true) : nonSpaceRun (out ++ t) = out := by
  unfold nonSpaceRun
  induction out with
  | nil =>
    rcases ht with rfl | ⟨x, t', rfl, hx⟩
    · rfl
    · simp [hx]
  | cons c out ih =>
    have hc := ho c List.mem_cons_self
    simp only [List.cons_append, List.takeWhile, hc, Bool.not_false]
    rw [ih (fun x hx => ho x (List.mem_cons_of_mem _ hx))]

theorem dropWhile_not_space_head (rest : List Char) :
    rest.dropWhile (fun c => !isSpace c) = [] ∨
      ∃ x t', rest.dropWhile (fun c => !isSpace c) = x :: t' ∧ isSpace x = true := by
  cases h : rest.dropWhile (fun c => !isSpace c) with
  | nil => exact Or.inl rfl
  | cons x t' =>
    right
    refine ⟨x, t', rfl, ?_⟩
    have := List.head_dropWhile_not (fun c => !isSpace c) (l := rest) (by rw [h]; simp)
    simpa [h] using this

/-- Whenever the declarative reading of a `+++ ` line yields a path, the regular expression
captures the same path. -/
theorem headerMatch_of_spec (skip : Nat) (l f : List Char) (h : specHeader skip l = some f) :
    headerMatch skip l = some f := by
  unfold specHeader at h
  unfold headerMatch
  split at h
  · rename_i s rest
    split at h
    · rename_i hs
      simp only [hs, if_true]
      have hsplit := takeWhile_append_dropWhile (fun c => !isSpace c) rest
      have hp : ∀ c ∈ rest.takeWhile (fun c => !isSpace c), isSpace c = false := by
        intro c hc
        have := all_takeWhile (fun c => !isSpace c) rest c hc
        simpa using this
      obtain ⟨h1, h2⟩ := skipComponents_spec skip _ (rest.dropWhile (fun c => !isSpace c)) f hp h
      rw [hsplit] at h1
      rw [h1]
      simp only [Option.some.injEq]
      exact nonSpaceRun_append f _ h2 (dropWhile_not_space_head rest)
    · cases h
  · cases h

/-! ### Numbers -/

theorem pow32 : (2 : Nat) ^ 32 = 4294967296 := by rfl

theorem parseU32_lt (ds : List Char) (v : Nat) (h : parseU32 ds = .ok v) : v < 2 ^ 32 := by
  unfold parseU32 at h
  split at h
  · simp only at h
    split at h
    · cases h; assumption
    · cases h
  · cases h

theorem parseU32_ok (ds : List Char) (h1 : ds.all isAsciiDigit = true) (h2 : ds ≠ [])
    (h3 : digitsToNat ds < 2 ^ 32) : parseU32 ds = .ok (digitsToNat ds) := by
  unfold parseU32
  have : ds.isEmpty = false := by cases ds <;> simp_all
  rw [if_pos (by simp [h1, this])]
  simp only
  rw [if_pos h3]

theorem wrap_eq (s c : Nat) (hc : 1 ≤ c) (h : s + c - 1 < 4294967296) (hs : s < 4294967296)
    (hcc : c < 4294967296) :
    ((s + c) % 4294967296 + 4294967296 - 1) % 4294967296 = s + c - 1 := by omega

theorem endLine_ok (checked : Bool) (s c : Nat) (hc : 1 ≤ c) (h : s + c < 2 ^ 32) :
    endLine checked s c = .ok (s + c - 1) := by
  unfold endLine
  rw [pow32] at *
  cases checked with
  | true => rw [if_pos rfl, if_pos h]
  | false =>
    rw [if_neg (by simp)]
    rw [wrap_eq s c hc (by omega) (by omega) (by omega)]

/-- In a release build the wrapping computation gives the right end line whenever it fits. -/
theorem endLine_unchecked (s c : Nat) (hc : 1 ≤ c) (hs : s < 2 ^ 32) (hcc : c < 2 ^ 32)
    (h : s + c - 1 < 2 ^ 32) : endLine false s c = .ok (s + c - 1) := by
  unfold endLine
  rw [pow32] at *
  rw [if_neg (by simp)]
  rw [wrap_eq s c hc h hs hcc]

/-! ### `scan_diff` against the specification -/

/-- What the specification says a hunk header contributes. -/
def hunkContribution (accepts : List Char → Bool) (cur : Option (List Char)) (c d : Nat) :
    List FileRange :=
  match cur with
  | some f => if accepts f && d != 0 then [⟨f, c, c + d - 1⟩] else []
  | none => []

theorem scanLine_plain (cfg : Cfg) (cur : Option (List Char)) (l : List Char)
    (h1 : headerMatch cfg.skip l = none) (h2 : hunkMatch cfg.lazy l = none) :
    scanLine cfg cur l = .ok (cur, none) := by
  unfold scanLine
  simp only [h1, h2]
  cases cur with
  | none => rfl
  | some f => simp only; split <;> rfl

theorem scanLine_header (cfg : Cfg) (cur : Option (List Char)) (l f : List Char)
    (h1 : headerMatch cfg.skip l = some f) :
    scanLine cfg cur l = .ok (some f, none) := by
  have h2 : hunkMatch cfg.lazy l = none := by
    cases h : hunkMatch cfg.lazy l with
    | none => rfl
    | some m =>
      have a := headerMatch_isSome_outKind _ _ _ h1
      have b := hunkMatch_isSome_outKind _ _ _ h
      rw [a] at b; cases b
  unfold scanLine
  simp only [h1, h2]
  split <;> rfl

theorem scanLine_hunk (cfg : Cfg) (cur : Option (List Char)) (l : List Char) (b c d : Nat)
    (after : List Char) (h : strictHunk l = some (b, c, d, after))
    (hclean : cfg.lazy = false → noPlusDigit after = true) (hfit : c + d < 2 ^ 32) :
    scanLine cfg cur l =
      .ok (cur, (hunkContribution cfg.accepts cur c d).head?) := by
  obtain ⟨g1, g3, hm, ha1, hn1, hv1, hg3⟩ := hunkMatch_strict cfg.lazy l b c d after h hclean
  have h1 : headerMatch cfg.skip l = none := by
    cases hh : headerMatch cfg.skip l with
    | none => rfl
    | some f =>
      have a := headerMatch_isSome_outKind _ _ _ hh
      have b := hunkMatch_isSome_outKind _ _ _ hm
      rw [a] at b; cases b
  unfold scanLine
  simp only [h1, hm]
  cases cur with
  | none => rfl
  | some f =>
    simp only [hunkContribution]
    cases hacc : cfg.accepts f with
    | false => simp
    | true =>
      simp only [Bool.not_true, Bool.false_eq_true, if_false, Bool.true_and]
      rw [parseU32_ok g1 ha1 hn1 (by omega), hv1]
      simp only
      rcases hg3 with ⟨rfl, rfl⟩ | ⟨g, rfl, ha3, hn3, hv3⟩
      · simp only [Nat.succ_ne_zero, if_false, endLine_ok cfg.checked c 1 (Nat.le_refl _) hfit]
        simp
      · simp only [parseU32_ok g ha3 hn3 (by omega), hv3]
        by_cases hd0 : d = 0
        · simp [hd0]
        · simp only [hd0, if_false, endLine_ok cfg.checked c d (by omega) hfit]
          simp [hd0]

theorem specRanges_hunk (accepts : List Char → Bool) (cur : Option (List Char)) (c d : Nat)
    (after : List Char) (es : List Ev) :
    specRanges accepts cur (.hunk c d after :: es) =
      (hunkContribution accepts cur c d).head?.toList ++ specRanges accepts cur es := by
  simp only [specRanges, hunkContribution]
  cases cur with
  | none => rfl
  | some f => simp only; split <;> rfl

/-- The scanner, started in any state at any point of a well-formed diff, pushes what the
specification asks for. -/
theorem scanLoop_eq_spec (cfg : Cfg) (lines : List (List Char)) :
    ∀ (o n : Nat) (cur : Option (List Char)) (evs : List Ev),
      specWalk cfg.skip o n lines = some evs →
      (cfg.lazy = false → sectionClean evs = true) →
      bodyClean cfg.skip evs = true →
      fitsU32 evs = true →
      scanLoop cfg cur lines = .ok (specRanges cfg.accepts cur evs) := by
  induction lines with
  | nil =>
    intro o n cur evs h _ _ _
    simp only [specWalk] at h
    split at h
    · cases h; rfl
    · cases h
  | cons l ls ih =>
    intro o n cur evs h hsec hbody hfit
    simp only [specWalk] at h
    split at h
    · -- outside a hunk
      split at h
      · -- `+++ ` header
        rename_i hk
        split at h
        · rename_i f hf
          simp only [Option.map_eq_some_iff] at h
          obtain ⟨es, hes, rfl⟩ := h
          have hm := headerMatch_of_spec _ _ _ hf
          simp only [scanLoop, scanLine_header cfg cur l f hm]
          rw [ih 0 0 (some f) es hes (fun hl => by simpa [sectionClean] using hsec hl)
            (by simpa [bodyClean] using hbody) (by simpa [fitsU32] using hfit)]
          simp [specRanges]
        · cases h
      · -- hunk header
        rename_i hk
        split at h
        · rename_i b c d after hs
          simp only [Option.map_eq_some_iff] at h
          obtain ⟨es, hes, rfl⟩ := h
          have hsec' : cfg.lazy = false → noPlusDigit after = true ∧ sectionClean es = true := by
            intro hl; simpa [sectionClean] using hsec hl
          have hfit' : c + d < 2 ^ 32 ∧ fitsU32 es = true := by simpa [fitsU32] using hfit
          simp only [scanLoop,
            scanLine_hunk cfg cur l b c d after hs (fun hl => (hsec' hl).1) hfit'.1]
          rw [ih b d cur es hes (fun hl => (hsec' hl).2) (by simpa [bodyClean] using hbody)
            hfit'.2, specRanges_hunk]
        · cases h
      · -- any other line
        rename_i hk
        simp only [Option.map_eq_some_iff] at h
        obtain ⟨es, hes, rfl⟩ := h
        have h1 : headerMatch cfg.skip l = none := by
          cases hh : headerMatch cfg.skip l with
          | none => rfl
          | some f => have := headerMatch_isSome_outKind _ _ _ hh; rw [hk] at this; cases this
        have h2 : hunkMatch cfg.lazy l = none := by
          cases hh : hunkMatch cfg.lazy l with
          | none => rfl
          | some m => have := hunkMatch_isSome_outKind _ _ _ hh; rw [hk] at this; cases this
        simp only [scanLoop, scanLine_plain cfg cur l h1 h2]
        rw [ih 0 0 cur es hes (fun hl => by simpa [sectionClean] using hsec hl)
          (by simpa [bodyClean] using hbody) (by simpa [fitsU32] using hfit)]
        simp [specRanges]
    · -- inside a hunk
      split at h
      · rename_i a b hk
        split at h
        · simp only [Option.map_eq_some_iff] at h
          obtain ⟨es, hes, rfl⟩ := h
          have hb : (headerMatch cfg.skip l).isNone = true ∧ bodyClean cfg.skip es = true := by
            simpa [bodyClean] using hbody
          have h1 : headerMatch cfg.skip l = none := by simpa using hb.1
          have h2 := bodyKind_hunkMatch cfg.lazy l _ hk
          simp only [scanLoop, scanLine_plain cfg cur l h1 h2]
          rw [ih _ _ cur es hes (fun hl => by simpa [sectionClean] using hsec hl) hb.2
            (by simpa [fitsU32] using hfit)]
          simp [specRanges]
        · cases h
      · cases h

/-! ### Simple facts about one line and the whole scan -/

theorem endLine_lt (checked : Bool) (s c e : Nat) (h : endLine checked s c = .ok e) :
    e < 2 ^ 32 := by
  unfold endLine at h
  rw [pow32] at *
  cases checked with
  | true =>
    rw [if_pos rfl] at h
    split at h
    · cases h; omega
    · cases h
  | false =>
    rw [if_neg (by simp)] at h
    simp only [Except.ok.injEq] at h
    rw [← h]
    exact Nat.mod_lt _ (by omega)

theorem scanLine_range_accepted (cfg : Cfg) (cur cur' : Option (List Char)) (l : List Char)
    (r : FileRange) (h : scanLine cfg cur l = .ok (cur', some r)) :
    cfg.accepts r.file = true ∧ cur' = some r.file ∧ r.lo < 2 ^ 32 ∧ r.hi < 2 ^ 32 := by
  unfold scanLine at h
  simp only at h
  split at h
  · cases h
  · rename_i file hcur
    split at h
    · cases h
    · rename_i hacc
      split at h
      · cases h
      · split at h
        · cases h
        · rename_i start hstart
          split at h
          · cases h
          · split at h
            · cases h
            · split at h
              · cases h
              · rename_i e he
                simp only [Except.ok.injEq, Prod.mk.injEq, Option.some.injEq] at h
                obtain ⟨h1, rfl⟩ := h
                exact ⟨by simpa using hacc, by rw [← h1, hcur], parseU32_lt _ _ hstart,
                  endLine_lt _ _ _ _ he⟩

theorem scanLoop_all_accepted (cfg : Cfg) (lines : List (List Char)) :
    ∀ (cur : Option (List Char)) (rs : List FileRange),
      scanLoop cfg cur lines = .ok rs →
      ∀ r ∈ rs, cfg.accepts r.file = true ∧ r.lo < 2 ^ 32 ∧ r.hi < 2 ^ 32 := by
  induction lines with
  | nil =>
    intro cur rs h r hr
    simp only [scanLoop, Except.ok.injEq] at h
    subst h; cases hr
  | cons l ls ih =>
    intro cur rs h r hr
    simp only [scanLoop] at h
    split at h
    · cases h
    · rename_i cur' o hline
      split at h
      · cases h
      · rename_i rs' hrest
        simp only [Except.ok.injEq] at h
        subst h
        rcases List.mem_append.mp hr with hr | hr
        · cases o with
          | none => cases hr
          | some x =>
            simp only [Option.toList, List.mem_singleton] at hr
            subst hr
            have := scanLine_range_accepted cfg cur cur' l _ hline
            exact ⟨this.1, this.2.2⟩
        · exact ih cur' rs' hrest r hr

theorem scanLine_rejecting (cfg : Cfg) (hrej : ∀ f, cfg.accepts f = false)
    (cur : Option (List Char)) (l : List Char) :
    ∃ cur', scanLine cfg cur l = .ok (cur', none) := by
  unfold scanLine
  simp only
  split
  · exact ⟨_, rfl⟩
  · simp only [hrej, Bool.not_false, if_true]
    exact ⟨_, rfl⟩

theorem scanLoop_rejecting (cfg : Cfg) (hrej : ∀ f, cfg.accepts f = false)
    (lines : List (List Char)) : ∀ cur, scanLoop cfg cur lines = .ok [] := by
  induction lines with
  | nil => intro cur; rfl
  | cons l ls ih =>
    intro cur
    obtain ⟨cur', h⟩ := scanLine_rejecting cfg hrej cur l
    simp only [scanLoop, h, ih cur']
    rfl

/-- While the current file does not pass the filter and the line is not a header, the line is a
no-op — it cannot even panic. -/
theorem scanLine_nonmatching (cfg : Cfg) (file : List Char) (l : List Char)
    (hacc : cfg.accepts file = false) (hh : headerMatch cfg.skip l = none) :
    scanLine cfg (some file) l = .ok (some file, none) := by
  unfold scanLine
  simp only [hh, hacc, Bool.not_false, if_true]

theorem filesOf_nil_iff (rs : List FileRange) : filesOf rs = [] ↔ rs = [] := by
  cases rs <;> simp [filesOf]

theorem mem_filesOf (rs : List FileRange) (f : List Char) :
    f ∈ filesOf rs ↔ ∃ r ∈ rs, r.file = f := by
  induction rs with
  | nil => simp [filesOf]
  | cons r rs ih =>
    simp only [filesOf, List.mem_cons, List.mem_filter, ih, bne_iff_ne, ne_eq]
    constructor
    · rintro (rfl | ⟨⟨x, hx, rfl⟩, _⟩)
      · exact ⟨r, Or.inl rfl, rfl⟩
      · exact ⟨x, Or.inr hx, rfl⟩
    · rintro ⟨x, rfl | hx, rfl⟩
      · exact Or.inl rfl
      · by_cases h : x.file = r.file
        · exact Or.inl h
        · exact Or.inr ⟨⟨x, hx, rfl⟩, h⟩

theorem filesOf_nodup (rs : List FileRange) : (filesOf rs).Nodup := by
  induction rs with
  | nil => simp [filesOf]
  | cons r rs ih =>
    simp only [filesOf, List.nodup_cons, List.mem_filter, bne_self_eq_false, Bool.false_eq_true,
      and_false, not_false_eq_true, true_and]
    exact ih.filter _

/-! ### The hand-written matchers are the backtracking semantics of the pattern literals -/

theorem dropWhile_length_le (p : Char → Bool) (r : List Char) :
    (r.dropWhile p).length ≤ r.length := by
  have := congrArg List.length (takeWhile_append_dropWhile p r)
  simp only [List.length_append] at this
  omega

theorem take_length_sub_dropWhile (p : Char → Bool) (s : List Char) :
    s.take (s.length - (s.dropWhile p).length) = s.takeWhile p := by
  induction s with
  | nil => rfl
  | cons x r ih =>
    cases hx : p x with
    | true =>
      have hle := dropWhile_length_le p r
      have : (x :: r).length - (r.dropWhile p).length = (r.length - (r.dropWhile p).length) + 1 := by
        simp only [List.length_cons]; omega
      rw [List.dropWhile_cons_of_pos hx, List.takeWhile_cons_of_pos hx, this, List.take_succ_cons, ih]
    | false =>
      rw [List.dropWhile_cons_of_neg (by simp [hx]), List.takeWhile_cons_of_neg (by simp [hx])]
      simp

theorem take_cons_sub (p : Char → Bool) (x : Char) (r : List Char) :
    (x :: r).take ((x :: r).length - (r.dropWhile p).length) = x :: r.takeWhile p := by
  have hle := dropWhile_length_le p r
  have : (x :: r).length - (r.dropWhile p).length = (r.length - (r.dropWhile p).length) + 1 := by
    simp only [List.length_cons]; omega
  rw [this, List.take_succ_cons, take_length_sub_dropWhile]

/-- A continuation that cannot fail. -/
def Total (k : List Char → Caps → Option Caps) : Prop := ∀ s c, ∃ m, k s c = some m

theorem starGreedy_total (p : Char → Bool) (k : List Char → Caps → Option Caps)
    (hk : Total k) (s : List Char) (c : Caps) :
    starGreedy p k s c = k (s.dropWhile p) c := by
  induction s with
  | nil => rfl
  | cons x r ih =>
    cases hx : p x with
    | true =>
      obtain ⟨m, hm⟩ := hk (r.dropWhile p) c
      rw [starGreedy, if_pos hx, ih, hm, List.dropWhile_cons_of_pos hx, hm]
    | false =>
      rw [starGreedy, if_neg (by simp [hx]), List.dropWhile_cons_of_neg (by simp [hx])]

theorem run_seq (a b : Re) (k : List Char → Caps → Option Caps) (s : List Char) (c : Caps) :
    (Re.seq a b).run k s c = a.run (fun s' c' => b.run k s' c') s c := by
  rw [Re.run]

theorem run_chr (p : Char → Bool) (k : List Char → Caps → Option Caps) (s : List Char) (c : Caps) :
    (Re.chr p).run k s c =
      match s with
      | x :: r => if p x then k r c else none
      | [] => none := by
  cases s <;> rfl

theorem run_lit (ch : Char) (k : List Char → Caps → Option Caps) (s : List Char) (c : Caps) :
    (Re.lit ch).run k s c =
      match s with
      | x :: r => if x = ch then k r c else none
      | [] => none := by
  cases s with
  | nil => rfl
  | cons x r => simp [Re.lit, Re.run]

theorem run_group_plus_total (i : Nat) (p : Char → Bool) (k : List Char → Caps → Option Caps)
    (hk : Total k) (s : List Char) (c : Caps) :
    (Re.group i (Re.plus p)).run k s c =
      if (s.takeWhile p).isEmpty then none
      else k (s.dropWhile p) ((i, s.takeWhile p) :: c) := by
  cases s with
  | nil => rfl
  | cons x r =>
    cases hx : p x with
    | false =>
      simp only [Re.run, Re.plus, hx, Bool.false_eq_true, if_false,
        List.takeWhile_cons_of_neg (show ¬ p x = true by simp [hx])]
      rfl
    | true =>
      simp only [Re.run, Re.plus, hx, if_true, List.takeWhile_cons_of_pos hx,
        List.dropWhile_cons_of_pos hx]
      rw [starGreedy_total p _ (fun s' c' => hk _ _), take_cons_sub]
      rfl

/-- What `(\d+)(,(\d+))?` at the end of the pattern binds. -/
def numCaps (c : Caps) : Option (List Char × Option (List Char) × List Char) → Option Caps
  | none => none
  | some (g1, none, _) => some ((1, g1) :: c)
  | some (g1, some g3, _) => some ((2, ',' :: g3) :: (3, g3) :: (1, g1) :: c)

def acc : List Char → Caps → Option Caps := fun _ c => some c

theorem total_acc : Total acc := fun _ c => ⟨c, rfl⟩

def numTailRe : Re := .opt (.group 2 (.seq (.lit ',') (.group 3 (.plus isDigit))))

theorem run_numTail (s1 : List Char) (c1 : Caps) :
    numTailRe.run acc s1 c1 =
      match s1 with
      | ',' :: r' =>
        if (r'.takeWhile isDigit).isEmpty then some c1
        else some ((2, ',' :: r'.takeWhile isDigit) :: (3, r'.takeWhile isDigit) :: c1)
      | _ => some c1 := by
  unfold numTailRe
  rw [Re.run, Re.run, Re.run, run_lit]
  cases s1 with
  | nil => rfl
  | cons y r' =>
    by_cases hy : y = ','
    · subst hy
      simp only [if_true]
      rw [run_group_plus_total 3 isDigit _ (fun s' c' => total_acc _ _)]
      by_cases he : (r'.takeWhile isDigit).isEmpty = true
      · simp only [he, if_true]; rfl
      · simp only [he, Bool.false_eq_true, if_false, take_cons_sub]; rfl
    · simp only [hy, if_false]
      split
      · rename_i heq; exact absurd (List.cons.inj heq).1 hy
      · rfl

theorem total_numTail : Total (numTailRe.run acc) := by
  intro s c
  rw [run_numTail]
  split
  · split <;> exact ⟨_, rfl⟩
  · exact ⟨_, rfl⟩

theorem run_num (s : List Char) (c : Caps) :
    (Re.group 1 (.plus isDigit)).run (numTailRe.run acc) s c = numCaps c (numPair s) := by
  rw [run_group_plus_total 1 isDigit _ total_numTail, run_numTail]
  unfold numPair
  simp only
  by_cases he : (s.takeWhile isDigit).isEmpty = true
  · simp only [he, if_true]; rfl
  · simp only [he, Bool.false_eq_true, if_false]
    split
    · rename_i r' hr
      simp only [hr]
      by_cases he' : (r'.takeWhile isDigit).isEmpty = true
      · simp only [he', if_true]; rfl
      · simp only [he', Bool.false_eq_true, if_false]; rfl
    · rename_i hr
      split
      · rename_i r' hr'
        exact absurd hr' (hr r')
      · rfl

/-- `\+(\d+)(,(\d+))?` then accept. -/
def plusK : List Char → Caps → Option Caps :=
  (Re.lit '+').run (fun s c => (Re.group 1 (.plus isDigit)).run (numTailRe.run acc) s c)

def pairCaps (c : Caps) : Option (List Char × Option (List Char)) → Option Caps
  | none => none
  | some (g1, none) => some ((1, g1) :: c)
  | some (g1, some g3) => some ((2, ',' :: g3) :: (3, g3) :: (1, g1) :: c)

theorem plusK_eq (s : List Char) (c : Caps) : plusK s c = pairCaps c (plusNum s) := by
  unfold plusK
  rw [run_lit]
  unfold plusNum
  cases s with
  | nil => rfl
  | cons x r =>
    by_cases hx : x = '+'
    · subst hx
      simp only [if_true, run_num]
      cases numPair r with
      | none => rfl
      | some t =>
        obtain ⟨g1, g3, rest⟩ := t
        cases g3 <;> rfl
    · simp only [hx, if_false]
      split
      · rename_i heq; exact absurd (List.cons.inj heq).1 hx
      · rfl

theorem starGreedy_hunk (s : List Char) (c : Caps) :
    starGreedy isDot plusK s c = pairCaps c (hunkGreedy s) := by
  induction s with
  | nil => rfl
  | cons x r ih =>
    rw [starGreedy, hunkGreedy, ih, plusK_eq]
    cases isDot x with
    | true =>
      simp only [if_true]
      cases hunkGreedy r with
      | none => rfl
      | some t => obtain ⟨g1, g3⟩ := t; cases g3 <;> rfl
    | false => simp

theorem starLazy_hunk (s : List Char) (c : Caps) :
    starLazy isDot plusK s c = pairCaps c (hunkLazy s) := by
  induction s with
  | nil => rfl
  | cons x r ih =>
    rw [starLazy, hunkLazy, ih, plusK_eq]
    cases plusNum (x :: r) with
    | none =>
      simp only [pairCaps]
      cases isDot x <;> simp
    | some t => obtain ⟨g1, g3⟩ := t; cases g3 <;> rfl

/-- The hunk matcher is the backtracking semantics of the pattern, for both variants and every
line: same success, same groups 1 and 3. -/
theorem hunkRe_eq (lazy : Bool) (line : List Char) :
    (hunkRe lazy).captures line = pairCaps [] (hunkMatch lazy line) := by
  unfold Re.captures hunkRe hunkMatch
  rw [run_seq, run_lit]
  cases line with
  | nil => rfl
  | cons a t =>
    by_cases ha : a = '@'
    · subst ha
      simp only [if_true]
      rw [run_seq, run_lit]
      cases t with
      | nil => rfl
      | cons b rest =>
        by_cases hb : b = '@'
        · subst hb
          simp only [if_true]
          cases lazy with
          | true => exact starLazy_hunk rest []
          | false => exact starGreedy_hunk rest []
        · simp only [hb, if_false]
          split
          · rename_i heq
            exact absurd (List.cons.inj (List.cons.inj heq).2).1 hb
          · rfl
    · simp only [ha, if_false]
      split
      · rename_i heq; exact absurd (List.cons.inj heq).1 ha
      · rfl


/-! header pattern -/

def compRe : Re := .seq (.star false isDot) (.lit '/')

theorem run_comp (k : List Char → Caps → Option Caps) (s : List Char) (c : Caps) :
    compRe.run k s c = starLazy isDot (fun s' c' => (Re.lit '/').run k s' c') s c := by
  rw [compRe, run_seq, Re.run]

theorem run_rep (n : Nat) (a : Re) (k : List Char → Caps → Option Caps) (s : List Char) (c : Caps) :
    (Re.rep n a).run k s c = iterK (fun k' => a.run k') n k s c := by
  rw [Re.run]

def nameK : List Char → Caps → Option Caps :=
  (Re.group 1 (.star true (fun x => !isSpace x))).run acc

theorem nameK_eq (s : List Char) (c : Caps) : nameK s c = some ((1, nonSpaceRun s) :: c) := by
  unfold nameK nonSpaceRun
  rw [Re.run, Re.run, starGreedy_total _ _ (fun s' c' => total_acc _ _), take_length_sub_dropWhile]
  rfl

theorem skipComponents_mono (n : Nat) : ∀ (s r : List Char),
    skipComponents (n + 1) s = some r → ∃ r', skipComponents n s = some r' := by
  induction n with
  | zero => intro s r _; exact ⟨s, rfl⟩
  | succ n ih =>
    intro s r h
    rw [skipComponents] at h
    split at h
    · rename_i t ht
      obtain ⟨r', hr'⟩ := ih t r h
      exact ⟨r', by simp only [skipComponents, ht, hr']⟩
    · cases h

theorem starLazy_comp (n : Nat) (k : List Char → Caps → Option Caps) (c : Caps)
    (hk : ∀ s, k s c = (skipComponents n s).bind (fun r => nameK r c)) (s : List Char) :
    starLazy isDot (fun s' c' => (Re.lit '/').run k s' c') s c =
      (skipToSlash s).bind (fun r => k r c) := by
  induction s with
  | nil => simp [starLazy, run_lit, skipToSlash]
  | cons x r ih =>
    rw [starLazy, run_lit, skipToSlash]
    by_cases hx : x = '/'
    · subst hx
      simp only [if_true, Option.bind_some]
      cases hkr : k r c with
      | some m => rfl
      | none =>
        simp only
        have hdot : isDot '/' = true := by decide
        rw [if_pos hdot, ih]
        -- no later start can succeed either
        cases hs : skipToSlash r with
        | none => rfl
        | some t =>
          simp only [Option.bind_some]
          rw [hk] at hkr ⊢
          cases hn : skipComponents n t with
          | none => rfl
          | some u =>
            exfalso
            have h1 : skipComponents (n + 1) r = some u := by simp only [skipComponents, hs, hn]
            obtain ⟨r', hr'⟩ := skipComponents_mono n r u h1
            rw [hr', Option.bind_some, nameK_eq] at hkr
            cases hkr
    · simp only [hx, if_false]
      cases isDot x with
      | true => simp only [if_true]; exact ih
      | false => simp

theorem iter_comp (n : Nat) (s : List Char) (c : Caps) :
    iterK (fun k' => compRe.run k') n nameK s c =
      (skipComponents n s).bind (fun r => nameK r c) := by
  induction n generalizing s with
  | zero => rfl
  | succ n ih =>
    show compRe.run (iterK (fun k' => compRe.run k') n nameK) s c = _
    rw [run_comp, starLazy_comp n _ c (fun s => ih s) s, skipComponents]
    cases skipToSlash s with
    | none => rfl
    | some t => simp only [Option.bind_some]; exact ih t

/-- The header matcher is the backtracking semantics of the pattern for every `N` and line. -/
theorem headerRe_eq (n : Nat) (line : List Char) :
    (headerRe n).captures line = (headerMatch n line).map (fun f => [(1, f)]) := by
  unfold Re.captures headerRe headerMatch
  rw [run_seq, run_lit]
  cases line with
  | nil => rfl
  | cons a t =>
  by_cases ha : a = '+'
  · subst ha
    simp only [if_true]
    rw [run_seq, run_lit]
    cases t with
    | nil => rfl
    | cons b t =>
    by_cases hb : b = '+'
    · subst hb
      simp only [if_true]
      rw [run_seq, run_lit]
      cases t with
      | nil => rfl
      | cons d t =>
      by_cases hd : d = '+'
      · subst hd
        simp only [if_true]
        rw [run_seq, run_chr]
        cases t with
        | nil => rfl
        | cons sp rest =>
          simp only
          cases hsp : isSpace sp with
          | false => simp
          | true =>
            simp only [if_true]
            rw [run_seq, run_rep]
            show iterK (fun k' => compRe.run k') n nameK rest [] = _
            rw [iter_comp n rest []]
            cases skipComponents n rest with
            | none => rfl
            | some r =>
              simp only [Option.bind_some, Option.map_some]
              exact nameK_eq r []
      · simp only [hd, if_false]
        split
        · rename_i heq
          exact absurd (List.cons.inj (List.cons.inj (List.cons.inj heq).2).2).1 hd
        · rfl
    · simp only [hb, if_false]
      split
      · rename_i heq
        exact absurd (List.cons.inj (List.cons.inj heq).2).1 hb
      · rfl
  · simp only [ha, if_false]
    split
    · rename_i heq; exact absurd (List.cons.inj heq).1 ha
    · rfl

end RF.Lemmas.FormatDiff
