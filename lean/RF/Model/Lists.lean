import RF.Model.Shape
import RF.Model.CharClasses
/-
Model of the list machinery of `src/lists.rs`: `ListItem` and its predicates, `ListFormatting`,
`needs_trailing_separator`, `SeparatorPlace::from_tactic` (config/lists.rs), `definitive_tactic`,
`calculate_width` / `total_item_width` / `comment_len`, `max_width_of_item_with_post_comment`,
`post_comment_alignment` and `write_list` (lists.rs:264-524), the loop transcribed statement by statement.

Strings are `List Char`.  `unicode_str_width` is the number of characters (TRUE ONLY for characters of
display width 1: the correspondence check restricts itself to printable ASCII, blanks and `\n`);
`str::len` (used by `comment_len` and for the separator) is the UTF-8 byte length, as in the code.

`rewrite_comment` (comment.rs) is NOT part of this model: `writeList` takes the comment rewriter as a
parameter `rc : orig → block_style → shape → Option String` (the `Config` argument of the real function
is the one fixed `Config` of the `ListFormatting`).  Every theorem about `writeList` holds for every `rc`,
under the hypotheses it names.  The driver instantiates `rc` with `rewriteCommentLight`
(`RF/Model/ListsRc.lean`), a model of `identify_comment` under `normalize_comments = false`,
`wrap_comments = false`, which is itself compared with the real `rewrite_comment` (`lists.rc`) and for
which the hypothesis "keeps the non-blank characters of a comment" is proved
(`RF/Lemmas/ListsRc.lean`).

The output of `write_list` is built as a list of tagged pieces (`Piece`): the code's `result` string is
`render pieces`; the tags (blank / separator / item / pre-comment / post-comment) record which statement
of the loop pushed the text and carry no behaviour (`last_line_width(&result)` and `result.is_empty()`
read `render pieces`).

`shape.indent.to_string(config)` comes from `RF.Model.Shape`; where that function panics (hard_tabs with
tab_spaces = 0) this model uses the empty string and the correspondence check stays away.
-/
namespace RF.Lists
open RF.Shape

/-! ## String helpers (std) -/

/-- Rust's `char::is_whitespace` (Unicode `White_Space`). -/
def isWhitespace (c : Char) : Bool :=
  let n := c.toNat
  (0x09 ≤ n && n ≤ 0x0D) || n == 0x20 || n == 0x85 || n == 0xA0 || n == 0x1680 ||
  (0x2000 ≤ n && n ≤ 0x200A) || n == 0x2028 || n == 0x2029 || n == 0x202F || n == 0x205F ||
  n == 0x3000

/-- `str::trim_start` -/
def trimStart (s : List Char) : List Char := s.dropWhile isWhitespace
/-- `str::trim_end`: drop the longest suffix of white space. -/
def trimEnd : List Char → List Char
  | [] => []
  | c :: cs =>
    let r := trimEnd cs
    if r.isEmpty && isWhitespace c then [] else c :: r
/-- `str::trim` -/
def trim (s : List Char) : List Char := trimEnd (trimStart s)

/-- `str::len`: UTF-8 byte length. -/
def byteLen (s : List Char) : Nat := (s.map Char.utf8Size).sum

/-- `unicode_str_width` = `UnicodeWidthStr::width` (unicode-width 0.1.14, `str_width` / `width_in_str`) for
strings of characters up to U+00A0, none of which is wide: `\n` has width 0, a `\r` directly before a
`\n` has width 0, every other character (tab and the other control characters included) has width 1. -/
def strWidth : List Char → Nat
  | [] => 0
  | c :: cs => (if c = '\n' || (c = '\r' && cs.head? = some '\n') then 0 else 1) + strWidth cs

/-- `s.contains('\n')` -/
def hasNewline (s : List Char) : Bool := s.contains '\n'

/-- `s.starts_with(p)` -/
abbrev startsWith (p s : List Char) : Bool := p.isPrefixOf s

/-- `s.contains(pat)` for a string pattern. -/
def containsStr (pat : List Char) : List Char → Bool
  | [] => pat.isEmpty
  | c :: cs => pat.isPrefixOf (c :: cs) || containsStr pat cs

/-- `s.split_inclusive('\n')`; `cur` is the current piece, reversed. -/
def splitInclusiveGo : List Char → List Char → List (List Char)
  | cur, [] => if cur.isEmpty then [] else [cur.reverse]
  | cur, c :: rest =>
    if c = '\n' then (c :: cur).reverse :: splitInclusiveGo [] rest
    else splitInclusiveGo (c :: cur) rest

/-- One element of `str::lines()`: strip the `\n`, then one `\r` if a `\n` was stripped. -/
def stripLineEnding (l : List Char) : List Char :=
  match l.reverse with
  | '\n' :: '\r' :: r => r.reverse
  | '\n' :: r => r.reverse
  | _ => l

/-- `str::lines()` -/
def rustLines (s : List Char) : List (List Char) := (splitInclusiveGo [] s).map stripLineEnding

/-- `utils::first_line_width`: `s.splitn(2, '\n').next()` -/
def firstLineWidth (s : List Char) : Nat := strWidth (s.takeWhile (· ≠ '\n'))

/-- `utils::last_line_width`: `s.rsplitn(2, '\n').next()` -/
def lastLineWidth (s : List Char) : Nat := strWidth (s.reverse.takeWhile (· ≠ '\n'))

/-- `utils::starts_with_newline` -/
def startsWithNewline (s : List Char) : Bool :=
  startsWith ['\n'] s || startsWith ['\r', '\n'] s

/-! ## Enumerations (config/lists.rs) -/

inductive DefinitiveListTactic where
  | vertical | horizontal | mixed
  | specialMacro (numArgsBefore : Nat)
  deriving Repr, DecidableEq

inductive ListTactic where
  | vertical | horizontal | horizontalVertical
  | limitedHorizontalVertical (limit : Nat)
  | mixed
  deriving Repr, DecidableEq

inductive SeparatorTactic where
  | always | never | vertical
  deriving Repr, DecidableEq

inductive SeparatorPlace where
  | front | back
  deriving Repr, DecidableEq

def SeparatorPlace.isFront (p : SeparatorPlace) : Bool := p == .front
def SeparatorPlace.isBack (p : SeparatorPlace) : Bool := p == .back

/-- `SeparatorPlace::from_tactic`, config/lists.rs:76-92 -/
def SeparatorPlace.fromTactic (default : SeparatorPlace) (tactic : DefinitiveListTactic)
    (sep : List Char) : SeparatorPlace :=
  match tactic with
  | .vertical => default
  | _ => if sep = [','] then .back else default

/-- `lists::Separator` and `Separator::len`, lists.rs:210-224 -/
inductive Separator where
  | comma | verticalBar
  deriving Repr, DecidableEq

def Separator.len : Separator → Nat
  | .comma => 2
  | .verticalBar => 3

/-! ## ListItem (lists.rs:111-206) -/

inductive ListItemCommentStyle where
  | sameLine | differentLine | none
  deriving Repr, DecidableEq

/-- `item = none` stands for `Err(_)` (a failed rewrite). -/
structure ListItem where
  preComment : Option (List Char)
  preCommentStyle : ListItemCommentStyle
  item : Option (List Char)
  postComment : Option (List Char)
  newLines : Bool
  deriving Repr, DecidableEq

/-- `opt.as_ref().map_or(false, p)` -/
def optAny (p : List Char → Bool) : Option (List Char) → Bool
  | some s => p s
  | none => false

/-- `comment.trim_start().starts_with("//")` -/
def startsWithSlashes (comment : List Char) : Bool := startsWith ['/', '/'] (trimStart comment)

/-- The position of the last character `CharClasses` tags `StartComment`; `i` is the position of the
head of the list. -/
def lastCommentStart : Nat → List (RF.CharClasses.Kind × Char) → Option Nat → Option Nat
  | _, [], acc => acc
  | i, (k, _) :: rest, acc =>
    lastCommentStart (i + 1) rest (if k = RF.CharClasses.Kind.startComment then some i else acc)

/-- `comment::ends_with_line_comment`: the last comment of the string is a line comment. -/
def endsWithLineComment (s : List Char) : Bool :=
  match lastCommentStart 0 (RF.CharClasses.classes s) none with
  | some i => startsWith ['/', '/'] (s.drop i)
  | none => false

/-- `is_or_ends_with_line_comment` inside `has_single_line_comment`: `/* a */ // b` counts too. -/
def isOrEndsWithLineComment (comment : List Char) : Bool :=
  startsWithSlashes comment || endsWithLineComment comment

namespace ListItem

/-- `ListItem::from_str` -/
def fromStr (s : List Char) : ListItem := ⟨none, .none, some s, none, false⟩

/-- lists.rs:145-147 -/
def innerAsRef (self : ListItem) : List Char := self.item.getD []

/-- lists.rs:149-156 -/
def isDifferentGroup (self : ListItem) : Bool :=
  hasNewline self.innerAsRef || self.preComment.isSome || optAny hasNewline self.postComment

/-- lists.rs:158-168 -/
def isMultiline (self : ListItem) : Bool :=
  hasNewline self.innerAsRef || optAny hasNewline self.preComment ||
    optAny hasNewline self.postComment

/-- lists.rs:170-178 -/
def hasSingleLineComment (self : ListItem) : Bool :=
  optAny isOrEndsWithLineComment self.preComment || optAny isOrEndsWithLineComment self.postComment

/-- lists.rs:180-182 -/
def hasComment (self : ListItem) : Bool := self.preComment.isSome || self.postComment.isSome

/-- `fn empty` inside `is_substantial` -/
def emptyOpt : Option (List Char) → Bool
  | some s => s.isEmpty
  | none => true

/-- lists.rs:195-205 (`empty_result` treats `Err` like an empty string) -/
def isSubstantial (self : ListItem) : Bool :=
  !(emptyOpt self.preComment && emptyOpt self.item && emptyOpt self.postComment)

end ListItem

/-- lists.rs:847-860 -/
def commentLen : Option (List Char) → Nat
  | some s =>
    let textLen := byteLen (trim s)
    if textLen > 0 then textLen + 6 else textLen
  | none => 0

/-- lists.rs:841-845 -/
def totalItemWidth (item : ListItem) : Nat :=
  commentLen item.preComment + commentLen item.postComment +
    (match item.item with | some s => strWidth s | none => 0)

/-- lists.rs:830-839: (count, total width) -/
def calculateWidth (items : List ListItem) : Nat × Nat :=
  items.foldl (fun acc it => (acc.1 + 1, acc.2 + totalItemWidth it)) (0, 0)

/-- `definitive_tactic`, lists.rs:226-261 -/
def definitiveTactic (items : List ListItem) (tactic : ListTactic) (sep : Separator) (width : Nat) :
    DefinitiveListTactic :=
  let preLineComments := items.any ListItem.hasSingleLineComment
  if preLineComments then .vertical else
  match tactic with
  | .horizontal => .horizontal
  | .vertical => .vertical
  | _ =>
    let limit := match tactic with
      | .limitedHorizontalVertical limit => min width limit
      | _ => width
    let (sepCount, totalWidth) := calculateWidth items
    let totalSepLen := sep.len * (sepCount - 1)
    let realTotal := totalWidth + totalSepLen
    if realTotal ≤ limit && !items.any ListItem.isMultiline then .horizontal
    else match tactic with
      | .mixed => .mixed
      | _ => .vertical

/-! ## ListFormatting (lists.rs:19-103) -/

/-- The fields of `ListFormatting`; `config` is reduced to what `write_list` reads itself
(`max_width`, `normalize_comments`) plus what `Indent::to_string` reads (`hard_tabs`, `tab_spaces`). -/
structure ListFormatting where
  tactic : DefinitiveListTactic
  separator : List Char
  trailingSeparator : SeparatorTactic
  separatorPlace : SeparatorPlace
  shape : Shape
  endsWithNewline : Bool
  preserveNewline : Bool
  nested : Bool
  alignComments : Bool
  config : Config
  normalizeComments : Bool
  deriving Repr, DecidableEq

/-- `ListFormatting::new` -/
def ListFormatting.new (shape : Shape) (config : Config) (normalizeComments : Bool) : ListFormatting :=
  { tactic := .vertical, separator := [','], trailingSeparator := .never, separatorPlace := .back,
    shape := shape, endsWithNewline := true, preserveNewline := false, nested := false,
    alignComments := true, config := config, normalizeComments := normalizeComments }

/-- `ListFormatting::needs_trailing_separator`, lists.rs:93-102 -/
def ListFormatting.needsTrailingSeparator (self : ListFormatting) : Bool :=
  match self.trailingSeparator with
  | .always => true
  | .vertical => self.tactic == .vertical
  | .never => self.tactic == .vertical && self.separatorPlace.isFront

/-- `indent.to_string(config)`; empty where the real function panics. -/
def indentString (indent : Indent) (config : Config) : List Char :=
  match indent.to_string config with
  | .ok s => s
  | .error _ => []

/-! ## The helpers of `write_list` -/

/-- `max_width_of_item_with_post_comment`, lists.rs:526-557, on `items.skip(i)`.
`first` and `max_width` are the loop's two variables. -/
def maxWidthGo (overhead maxBudget : Nat) : List ListItem → Bool → Nat → Nat
  | [], _, maxWidth => maxWidth
  | item :: rest, first, maxWidth =>
    let innerItemWidth := strWidth item.innerAsRef
    if !first && (item.isDifferentGroup || item.postComment.isNone ||
        innerItemWidth + overhead > maxBudget) then maxWidth
    else
      let maxWidth := if maxWidth < innerItemWidth then innerItemWidth else maxWidth
      if item.newLines then maxWidth
      else maxWidthGo overhead maxBudget rest false maxWidth

def maxWidthOfItemWithPostComment (itemsFromI : List ListItem) (overhead maxBudget : Nat) : Nat :=
  maxWidthGo overhead maxBudget itemsFromI true 0

/-- lists.rs:559-561 -/
def postCommentAlignment (itemMaxWidth : Option Nat) (innerItemWidth : Nat) : Nat :=
  itemMaxWidth.getD 0 - innerItemWidth

/-! ## Pieces -/

inductive PieceKind where
  | blank      -- `' '`, `'\n'`, `indent_str`, alignment spaces
  | sep        -- `formatting.separator` (back) or `formatting.separator.trim()` (front)
  | item       -- `inner_item`
  | pre        -- the rewritten pre-comment
  | post       -- the rewritten post-comment
  deriving Repr, DecidableEq

structure Piece where
  kind : PieceKind
  text : List Char
  deriving Repr, DecidableEq

/-- The string the code holds in `result`. -/
def render (ps : List Piece) : List Char := ps.flatMap (·.text)

abbrev bl (s : List Char) : Piece := ⟨.blank, s⟩

/-- The type of the comment rewriter: `rewrite_comment(orig, block_style, shape, config)`. -/
abbrev Rc := List Char → Bool → Shape → Option (List Char)

/-- The mutable variables of the loop in `write_list`. -/
structure State where
  pieces : List Piece
  trailingSeparator : Bool
  itemMaxWidth : Option Nat
  prevItemHadPostComment : Bool
  prevItemIsNestedImport : Bool
  lineLen : Nat
  deriving Repr, DecidableEq

def State.init (f : ListFormatting) : State :=
  { pieces := [], trailingSeparator := f.needsTrailingSeparator, itemMaxWidth := none,
    prevItemHadPostComment := false, prevItemIsNestedImport := false, lineLen := 0 }

/-- What one iteration knows before it pushes anything (lists.rs:287-307). -/
structure IterEnv where
  i : Nat
  first : Bool
  last : Bool
  innerItem : List Char
  itemSepLen : Nat
  itemLastLineWidth : Nat
  indentStr : List Char
  sepPlace : SeparatorPlace

/-- lists.rs:313-362: the blank written in front of the item according to the tactic.  Returns the
pushed pieces and the new `(separate, trailing_separator, line_len)`. -/
def tacticBlank (f : ListFormatting) (e : IterEnv) (item : ListItem) (rendered : List Char)
    (separate trailingSeparator prevPost prevNested : Bool) (lineLen : Nat) :
    List Piece × Bool × Bool × Nat :=
  match f.tactic with
  | .horizontal =>
    if !e.first then ([bl [' ']], separate, trailingSeparator, lineLen)
    else ([], separate, trailingSeparator, lineLen)
  | .specialMacro numArgsBefore =>
    if e.i = 0 then ([], separate, trailingSeparator, lineLen)
    else if e.i < numArgsBefore then ([bl [' ']], separate, trailingSeparator, lineLen)
    else if e.i ≤ numArgsBefore + 1 then
      ([bl ['\n'], bl e.indentStr], separate, trailingSeparator, lineLen)
    else ([bl [' ']], separate, trailingSeparator, lineLen)
  | .vertical =>
    if !e.first && !e.innerItem.isEmpty && !rendered.isEmpty then
      ([bl ['\n'], bl e.indentStr], separate, trailingSeparator, lineLen)
    else ([], separate, trailingSeparator, lineLen)
  | .mixed =>
    let totalWidth := totalItemWidth item + e.itemSepLen
    let (ps, lineLen, trailingSeparator) :=
      if (lineLen > 0 && lineLen + 1 + totalWidth > f.shape.width) || prevPost ||
          (f.nested && (prevNested || (!e.first && containsStr [':', ':'] e.innerItem))) then
        ([bl ['\n'], bl e.indentStr], 0, if f.endsWithNewline then true else trailingSeparator)
      else if lineLen > 0 then ([bl [' ']], lineLen + 1, trailingSeparator)
      else ([], lineLen, trailingSeparator)
    let separate :=
      if e.last && f.endsWithNewline then f.trailingSeparator != .never else separate
    (ps, separate, trailingSeparator, lineLen + totalWidth)

/-- lists.rs:376-386: `keep_comment`. -/
def keepPreComment (f : ListFormatting) (e : IterEnv) (item : ListItem) : Bool :=
  if f.normalizeComments || item.preCommentStyle == .differentLine then false
  else totalItemWidth item + e.itemSepLen + 1 ≤ f.shape.width

/-- lists.rs:364-400: the pre-comment and the blank after it.  Returns the pushed pieces, the new
`line_len` and whether `item_max_width` is reset. -/
def preCommentPieces (f : ListFormatting) (rc : Rc) (e : IterEnv) (item : ListItem) (lineLen : Nat) :
    Option (List Piece × Nat × Bool) :=
  match item.preComment with
  | none => some ([], lineLen, false)
  | some comment =>
    let blockMode := f.tactic == .horizontal
    match rc comment blockMode f.shape with
    | none => none
    | some c =>
      if !e.innerItem.isEmpty then
        if f.tactic != .horizontal then
          if keepPreComment f e item then some ([⟨.pre, c⟩, bl [' ']], lineLen, true)
          else
            some ([⟨.pre, c⟩, bl ['\n'], bl e.indentStr],
              (match item.item with | some s => strWidth s | none => 0), true)
        else some ([⟨.pre, c⟩, bl [' ']], lineLen, true)
      else some ([⟨.pre, c⟩], lineLen, true)

/-- lists.rs:402-406: separator in front (if any) and the item itself. -/
def itemPieces (f : ListFormatting) (e : IterEnv) (separate : Bool) : List Piece :=
  (if separate && e.sepPlace.isFront && !e.first then [⟨.sep, trim f.separator⟩, bl [' ']] else []) ++
    [⟨.item, e.innerItem⟩]

/-- lists.rs:408-420: post-comment in horizontal mode. -/
def horizontalPostPieces (f : ListFormatting) (rc : Rc) (item : ListItem) : Option (List Piece) :=
  match f.tactic, item.postComment with
  | .horizontal, some comment =>
    match rc comment true (Shape.legacy f.shape.width Indent.empty) with
    | none => none
    | some c => some [bl [' '], ⟨.post, c⟩]
  | _, _ => some []

/-- lists.rs:422-424 -/
def backSepPieces (f : ListFormatting) (e : IterEnv) (separate : Bool) : List Piece :=
  if separate && e.sepPlace.isBack then [⟨.sep, f.separator⟩] else []

/-- The closure `rewrite_post_comment`, lists.rs:430-465.  Returns the new `item_max_width` and the
rewritten comment. -/
def rewritePostComment (f : ListFormatting) (rc : Rc) (e : IterEnv) (itemsFromI : List ListItem)
    (comment : List Char) (overhead : Nat) (itemMaxWidth : Option Nat) :
    Option Nat × Option (List Char) :=
  let itemMaxWidth :=
    if itemMaxWidth.isNone && !e.last && !hasNewline e.innerItem then
      some (maxWidthOfItemWithPostComment itemsFromI overhead f.config.max_width)
    else itemMaxWidth
  let overhead :=
    if startsWithNewline comment then 0
    else match itemMaxWidth with
      | some maxWidth => maxWidth + 2
      | none => e.itemLastLineWidth + 1
  let width := (checkedSub f.shape.width overhead).getD 1
  let offset := f.shape.indent.add_usize overhead
  let commentShape := Shape.legacy width offset
  let blockStyle :=
    if !f.endsWithNewline && e.last then true
    else if startsWithNewline comment then false
    else hasNewline (trim comment) || strWidth (trim comment) > width
  (itemMaxWidth, rc (trimStart comment) blockStyle commentShape)

/-- lists.rs:470-487: `if formatting.align_comments { … }`.  Returns the alignment blanks, the new
`item_max_width` and the (possibly re-rewritten) comment. -/
def alignPostComment (f : ListFormatting) (rc : Rc) (e : IterEnv) (itemsFromI : List ListItem)
    (comment : List Char) (overhead : Nat) (rendered : List Char) (itemMaxWidth : Option Nat)
    (formattedComment : List Char) : Option (List Piece × Option Nat × List Char) :=
  if f.alignComments then
    let commentAlignment := postCommentAlignment itemMaxWidth (strWidth e.innerItem)
    if firstLineWidth formattedComment + lastLineWidth rendered + commentAlignment + 1 >
        f.config.max_width then
      match rewritePostComment f rc e itemsFromI comment overhead none with
      | (_, none) => none
      | (itemMaxWidth, some formattedComment) =>
        let commentAlignment := postCommentAlignment itemMaxWidth (strWidth e.innerItem)
        some ([bl (List.replicate (commentAlignment + 1) ' ')], itemMaxWidth, formattedComment)
    else
      some ([bl (List.replicate (commentAlignment + 1) ' ')], itemMaxWidth, formattedComment)
  else some ([], itemMaxWidth, formattedComment)

/-- lists.rs:488-497: the additional space. -/
def extraSpace (f : ListFormatting) (e : IterEnv) (separate : Bool) (itemMaxWidth : Option Nat) :
    List Piece :=
  if !f.alignComments ||
      (e.last && itemMaxWidth.isSome && !separate && !f.separator.isEmpty) then [bl [' ']]
  else []

/-- lists.rs:426-508: post-comment outside horizontal mode.  `rendered` is `result` at this point.
Returns the pushed pieces and the new `item_max_width`. -/
def verticalPostPieces (f : ListFormatting) (rc : Rc) (e : IterEnv) (item : ListItem)
    (itemsFromI : List ListItem) (rendered : List Char) (separate : Bool) (itemMaxWidth : Option Nat) :
    Option (List Piece × Option Nat) :=
  match item.postComment with
  | some comment =>
    if f.tactic != .horizontal then
      let overhead := lastLineWidth rendered + firstLineWidth (trim comment)
      match rewritePostComment f rc e itemsFromI comment overhead itemMaxWidth with
      | (_, none) => none
      | (itemMaxWidth, some formattedComment) =>
        if !startsWithNewline comment then
          match alignPostComment f rc e itemsFromI comment overhead rendered itemMaxWidth
              formattedComment with
          | none => none
          | some (ps, itemMaxWidth, formattedComment) =>
            let extra := extraSpace f e separate itemMaxWidth
            let itemMaxWidth := if hasNewline formattedComment then none else itemMaxWidth
            some (ps ++ extra ++ [⟨.post, formattedComment⟩], itemMaxWidth)
        else
          let itemMaxWidth := if hasNewline formattedComment then none else itemMaxWidth
          some ([bl ['\n'], bl e.indentStr, ⟨.post, formattedComment⟩], itemMaxWidth)
    else some ([], none)
  | none => some ([], none)

/-- lists.rs:510-517 -/
def preserveNewlinePieces (f : ListFormatting) (e : IterEnv) (item : ListItem) : List Piece :=
  if f.preserveNewline && !e.last && f.tactic == .vertical && item.newLines then [bl ['\n']] else []

/-- lists.rs:291-294: the initial value of `separate`. -/
def separate0 (sepPlace : SeparatorPlace) (i : Nat) (last trailingSeparator : Bool) : Bool :=
  match sepPlace with
  | .front => !(i == 0)
  | .back => !last || trailingSeparator

/-- lists.rs:287-307: what the iteration computes before it decides to write anything. -/
def mkEnv (f : ListFormatting) (indentStr : List Char) (sepPlace : SeparatorPlace) (i : Nat)
    (item : ListItem) (rest : List ListItem) (innerItem : List Char) (separate : Bool) : IterEnv :=
  let itemSepLen := if separate then byteLen f.separator else 0
  let itemLastLine :=
    if item.isMultiline then (rustLines innerItem).getLast?.getD [] else innerItem
  let itemLastLineWidth := strWidth itemLastLine + itemSepLen
  let itemLastLineWidth :=
    if startsWith indentStr itemLastLine then itemLastLineWidth - strWidth indentStr
    else itemLastLineWidth
  ⟨i, i == 0, rest.isEmpty, innerItem, itemSepLen, itemLastLineWidth, indentStr, sepPlace⟩

/-- lists.rs:313-520: everything a substantial item causes. -/
def stepBody (f : ListFormatting) (rc : Rc) (e : IterEnv) (item : ListItem) (rest : List ListItem)
    (st : State) (separate : Bool) : Option State :=
  match tacticBlank f e item (render st.pieces) separate st.trailingSeparator
      st.prevItemHadPostComment st.prevItemIsNestedImport st.lineLen with
  | (p1, separate, trailingSeparator, lineLen) =>
    match preCommentPieces f rc e item lineLen with
    | none => none
    | some (p2, lineLen, resetMax) =>
      let itemMaxWidth := if resetMax then none else st.itemMaxWidth
      let p3 := itemPieces f e separate
      match horizontalPostPieces f rc item with
      | none => none
      | some p4 =>
        let p5 := backSepPieces f e separate
        let soFar := st.pieces ++ p1 ++ p2 ++ p3 ++ p4 ++ p5
        match verticalPostPieces f rc e item (item :: rest) (render soFar) separate itemMaxWidth with
        | none => none
        | some (p6, itemMaxWidth) =>
          let p7 := preserveNewlinePieces f e item
          some
            { pieces := soFar ++ p6 ++ p7
              trailingSeparator := trailingSeparator
              itemMaxWidth := if p7.isEmpty then itemMaxWidth else none
              prevItemHadPostComment := item.postComment.isSome
              prevItemIsNestedImport := containsStr [':', ':'] e.innerItem
              lineLen := lineLen }

/-- One iteration of the `while let` loop, lists.rs:286-521.  `rest` are the items after this one
(`iter.peek().is_none()` is `rest.isEmpty`; `cloned_items.skip(i)` is `item :: rest`). -/
def step (f : ListFormatting) (rc : Rc) (indentStr : List Char) (sepPlace : SeparatorPlace)
    (i : Nat) (item : ListItem) (rest : List ListItem) (st : State) : Option State :=
  match item.item with
  | none => none
  | some innerItem =>
    let separate := separate0 sepPlace i rest.isEmpty st.trailingSeparator
    if !item.isSubstantial then some st
    else stepBody f rc (mkEnv f indentStr sepPlace i item rest innerItem separate) item rest st separate

/-- The loop. -/
def loop (f : ListFormatting) (rc : Rc) (indentStr : List Char) (sepPlace : SeparatorPlace) :
    Nat → List ListItem → State → Option State
  | _, [], st => some st
  | i, item :: rest, st =>
    match step f rc indentStr sepPlace i item rest st with
    | none => none
    | some st' => loop f rc indentStr sepPlace (i + 1) rest st'

/-- `write_list` with the tags kept. -/
def writeListPieces (f : ListFormatting) (rc : Rc) (items : List ListItem) : Option (List Piece) :=
  let sepPlace := SeparatorPlace.fromTactic f.separatorPlace f.tactic f.separator
  let indentStr := indentString f.shape.indent f.config
  (loop f rc indentStr sepPlace 0 items (State.init f)).map (·.pieces)

/-- `write_list`, lists.rs:264-524.  `none` is `Err(_)`. -/
def writeList (f : ListFormatting) (rc : Rc) (items : List ListItem) : Option (List Char) :=
  (writeListPieces f rc items).map render

/-! ## Content specification (what the output must contain, blanks aside)

Used twice: as the statement of the theorems in `RF/Props/Lists.lean` (about `writeList`, for every
comment rewriter that keeps the non-blank characters of a comment) and as the oracle that judges the
output of the real `write_list`. -/

/-- A string without its white space. -/
def squeeze (s : List Char) : List Char := s.filter (fun c => !isWhitespace c)

/-- Whether the item with index `i` (`last`: no item follows it) is written with a separator:
the value of `separate` at lists.rs:402/422.  Static: it depends on the formatting and on the position
only. -/
def separateSpec (f : ListFormatting) (sepPlace : SeparatorPlace) (i : Nat) (last : Bool) : Bool :=
  if f.tactic == .mixed && last && f.endsWithNewline then f.trailingSeparator != .never
  else match sepPlace with
    | .front => i != 0
    | .back => !last || f.needsTrailingSeparator

/-- The non-blank characters one item contributes, in the order the code writes them. -/
def itemContent (f : ListFormatting) (sepPlace : SeparatorPlace) (i : Nat) (last : Bool)
    (item : ListItem) : List Char :=
  if !item.isSubstantial then [] else
  let sepOn := separateSpec f sepPlace i last
  let sepB := if sepOn && sepPlace.isBack then squeeze f.separator else []
  squeeze (item.preComment.getD []) ++
    (if sepOn && sepPlace.isFront && i != 0 then squeeze f.separator else []) ++
    squeeze item.innerAsRef ++
    (if f.tactic == .horizontal then squeeze (item.postComment.getD []) ++ sepB
     else sepB ++ squeeze (item.postComment.getD []))

def contentGo (f : ListFormatting) (sepPlace : SeparatorPlace) : Nat → List ListItem → List Char
  | _, [] => []
  | i, item :: rest => itemContent f sepPlace i rest.isEmpty item ++ contentGo f sepPlace (i + 1) rest

/-- The non-blank characters of `write_list`'s result. -/
def contentSpec (f : ListFormatting) (items : List ListItem) : List Char :=
  contentGo f (SeparatorPlace.fromTactic f.separatorPlace f.tactic f.separator) 0 items

/-- `out` has the strings `xs` as disjoint substrings, in this order (leftmost matching, which finds
an embedding whenever there is one). -/
def dropThrough (x : List Char) : List Char → Option (List Char)
  | [] => if x.isEmpty then some [] else none
  | c :: cs => if x.isPrefixOf (c :: cs) then some ((c :: cs).drop x.length) else dropThrough x cs

def occursInOrder : List (List Char) → List Char → Bool
  | [], _ => true
  | x :: xs, out =>
    match dropThrough x out with
    | some rest => occursInOrder xs rest
    | none => false

/-- The item strings that `write_list` must emit. -/
def itemStrings (items : List ListItem) : List (List Char) :=
  (items.filter ListItem.isSubstantial).map ListItem.innerAsRef

/-- The comments of the written items in source order (pre-comment, then post-comment), squeezed. -/
def commentStrings (items : List ListItem) : List (List Char) :=
  (items.filter ListItem.isSubstantial).flatMap fun it =>
    (it.preComment.toList ++ it.postComment.toList).map squeeze

end RF.Lists
