//! Boundary-width universe (C02, C09): layout decisions of the rewriters flip where the one-line form of a
//! construct is exactly `max_width` wide, which a handful of sampled widths never hits.  The universe is
//!   B = items x { max_width w : 20 <= w <= 200 }
//! where the items are the top-level items of every fixture (cut at token level with rustc_lexer, kept when
//! the snippet formats cleanly on its own).  It does not depend on the seed or on the working tree; the
//! elements that are dirty on the pinned tree are listed in corpus/c02_boundary_dirty.txt.  A run does not take
//! B blindly: for an item it takes the widths next to the lengths of the lines of the item's own output at
//! max_width 200 (the one-line forms), which is where a construct is exactly as wide as the page.
use std::collections::{BTreeSet, HashSet};
use std::time::Duration;

use crate::corpus::Program;
use crate::gen::*;
use crate::pool::{self, Job};

#[derive(Clone, Debug)]
pub struct Item {
    /// `<fixture>#<k>`
    pub id: String,
    pub src: String,
    pub cfg: Vec<(String, String)>,
}

pub const MAX_ITEM_BYTES: usize = 3000;
pub const MAX_ITEM_LINES: usize = 60;

fn significant(t: &Tok) -> bool {
    !matches!(t.class, TokClass::Ws | TokClass::LineComment { .. } | TokClass::BlockComment { .. })
}

/// cuts a source text into top-level items (leading comments and attributes stay with the item that follows)
pub fn split_items(src: &str) -> Vec<String> {
    let toks = lex(src);
    let mut res = vec![];
    let mut cur = String::new();
    let mut depth = 0i64;
    let mut has_sig = false;
    let n = toks.len();
    let mut i = 0;
    while i < n {
        let t = &toks[i];
        cur.push_str(&t.text);
        if significant(t) {
            has_sig = true;
        }
        match t.class {
            TokClass::Open => depth += 1,
            TokClass::Close => depth -= 1,
            _ => {}
        }
        let mut end = false;
        if depth == 0 && has_sig {
            if t.class == TokClass::Punct && t.text == ";" {
                end = true;
            } else if t.class == TokClass::Close && t.text == "}" {
                // `}` closes an item unless an expression goes on (`const X: T = S { .. };`, `} else {`)
                let next = toks[i + 1..].iter().find(|x| significant(x));
                end = match next {
                    None => true,
                    Some(x) if x.class == TokClass::Punct => x.text == "#",
                    Some(x) if x.class == TokClass::Ident => !matches!(x.text.as_str(), "else" | "as"),
                    Some(x) => matches!(x.class, TokClass::RawIdent | TokClass::Lifetime),
                };
            } else if t.class == TokClass::Close && t.text == "]" {
                // an attribute: belongs to the item that follows
                end = false;
            }
        }
        if depth < 0 {
            // unbalanced fixture: give up on the rest
            return res;
        }
        if end {
            // take the rest of the line (a trailing comment belongs to the item)
            let mut j = i + 1;
            while j < n {
                let x = &toks[j];
                match x.class {
                    TokClass::Ws => {
                        if let Some(p) = x.text.find('\n') {
                            cur.push_str(&x.text[..=p]);
                            // the remainder of the blank is dropped (blank lines between items)
                            j += 1;
                            break;
                        }
                        cur.push_str(&x.text);
                        j += 1;
                    }
                    TokClass::LineComment { doc: false } => {
                        cur.push_str(&x.text);
                        j += 1;
                    }
                    _ => break,
                }
            }
            i = j;
            res.push(std::mem::take(&mut cur));
            has_sig = false;
            continue;
        }
        i += 1;
    }
    res
}

/// the items of the fixtures: cut, de-duplicated, small, and formatting cleanly on their own under the fixture's options
pub fn items(progs: &[Program]) -> Vec<Item> {
    let mut seen = HashSet::new();
    let mut cand = vec![];
    for p in progs {
        // inner attributes / whole-file switches make the first item special: the splitter keeps them with it
        for (k, s) in split_items(&p.src).into_iter().enumerate() {
            let body = s.trim_start_matches('\n').to_string();
            if body.trim().is_empty() || body.len() > MAX_ITEM_BYTES || body.lines().count() > MAX_ITEM_LINES {
                continue;
            }
            // CR: a file on disk and a text given to the session differ under newline_style=Auto (known finding F5a)
            if body.contains("#![") || body.contains("rustfmt-") || body.contains('\r') {
                continue;
            }
            let mut cfg = p.cfg.clone();
            cfg.retain(|(k, _)| k != "max_width");
            if !seen.insert((body.clone(), cfg_text(&cfg))) {
                continue;
            }
            cand.push(Item { id: format!("{}#{}", p.name, k), src: body, cfg });
        }
    }
    cand
}

/// the widths at which some line of `out` (the item's text at max_width 200) is exactly, or within one column of, the page width
pub fn boundary_widths(out: &str) -> Vec<usize> {
    let mut ws = BTreeSet::new();
    for l in out.lines() {
        let len = l.chars().count();
        for w in [len.saturating_sub(1), len, len + 1] {
            if (20..=200).contains(&w) {
                ws.insert(w);
            }
        }
    }
    ws.into_iter().collect()
}

pub fn elem_id(item: &Item, w: usize) -> String {
    format!("{}|bw{}", item.id, w)
}

/// formats every item at max_width 200 on the working tree and returns, per item, its boundary widths
/// (empty when the item does not format cleanly on its own)
pub fn plan(items: &[Item], timeout: Duration) -> Vec<Vec<usize>> {
    let jobs: Vec<Job> = items.iter().map(|it| Job { src: it.src.clone(), cfg: merge_cfg(&it.cfg, &[("max_width".into(), "200".into())]), file_lines: None }).collect();
    let res = pool::run_jobs(&jobs, crate::util::jobs(), timeout);
    res.iter().map(|r| if r.clean() && !r.out.is_empty() { boundary_widths(&r.out) } else { vec![] }).collect()
}

pub fn load_list(name: &str) -> HashSet<String> {
    let rel = format!("corpus/{}", name);
    let text = std::fs::read_to_string(&rel).or_else(|_| std::fs::read_to_string(format!("/verif/{}", rel))).unwrap_or_default();
    text.lines().map(|l| l.split('\t').next().unwrap_or("").trim().to_string()).filter(|l| !l.is_empty() && !l.starts_with('#')).collect()
}

/// measurement mode (not a registered check): `rfverif boundary count|sweep02 [lo hi]`
pub fn main(args: &[String]) -> i32 {
    let progs = crate::corpus::programs(&["tests/target", "tests/source"]);
    let its = items(&progs);
    let mode = args.get(0).map(|s| s.as_str()).unwrap_or("count");
    let t0 = std::time::Instant::now();
    let pl = plan(&its, Duration::from_secs(20));
    let usable = pl.iter().filter(|w| !w.is_empty()).count();
    let planned: usize = pl.iter().map(|w| w.len()).sum();
    eprintln!("{} items, {} format cleanly at 200, {} (item, boundary width) pairs, plan took {:?}", its.len(), usable, planned, t0.elapsed());
    if mode == "count" {
        return 0;
    }
    let lo: usize = args.get(1).and_then(|s| s.parse().ok()).unwrap_or(20);
    let hi: usize = args.get(2).and_then(|s| s.parse().ok()).unwrap_or(200);
    if mode == "sweep02" {
        // every (usable item, width in lo..=hi): two passes; prints `id<TAB>kind` for the dirty ones
        let mut cases = vec![];
        for (it, ws) in its.iter().zip(pl.iter()) {
            if ws.is_empty() {
                continue;
            }
            for w in lo..=hi {
                cases.push(crate::c02::Case { id: elem_id(it, w), src: it.src.clone(), cfg: merge_cfg(&it.cfg, &[("max_width".into(), w.to_string())]) });
            }
        }
        eprintln!("{} cases", cases.len());
        for chunk in cases.chunks(200_000) {
            let res = crate::c02::judge(chunk, Duration::from_secs(10));
            for (c, (v, _, _)) in chunk.iter().zip(res.iter()) {
                match v {
                    crate::c02::Verdict::NotIdempotent => println!("{}\tnot-idempotent", c.id),
                    crate::c02::Verdict::SecondPassFailed(m) => println!("{}\tsecond-pass-failed {}", c.id, m.chars().take(60).collect::<String>()),
                    crate::c02::Verdict::Timeout => println!("{}\ttimeout", c.id),
                    _ => {}
                }
            }
            eprintln!("chunk done at {:?}", t0.elapsed());
        }
    }
    0
}
