import RF.Lemmas.CargoFmt

/-!
# C18  `cargo fmt` formats the right targets with the right editions

Theorems about `RF.Model.CargoFmt`, the model of `src/cargo-fmt/main.rs`.  Quantification: every
world `env` (`cargo metadata` answers per manifest, `canonicalize`, `exists`, working directory),
every option set, every status function `run` of the spawned rustfmt processes.  `fuel` only bounds
the depth of the `--all` recursion (`all_terminates`, `all_fuel_independent`).

Vocabulary (defined in `RF.Lemmas.CargoFmt`):
* `paths T`            the paths of a target set, ascending;
* `srcCanon env t`     `canonicalize(src_path)` or, when that fails, `src_path` itself;
* `Reach env root m`   manifest `m` is reached from `root` along path dependencies the code follows
                       (manifest exists and is not a package of the same metadata answer);
* `SpecPath env root p` `p` is the source path of a target of a package of a reachable answer;
* `NameFun env root`   followed dependencies with equal names have equal manifests;
* `Declared env y`     `y` was built by `Target::from_target` from a target some answer declares.

Findings (each proved below on a concrete world):
* `all_is_transitive_closure_counterexample` — `visited` holds dependency *names*: a second path dependency
  with the same package name in another directory is never formatted by `--all`;
* `root_subdir_counterexample` (F9) — from a sub-directory of a member of a workspace with two or
  more members, plain `cargo fmt` fails with "Failed to find targets";
* `root_manifest_path_counterexample` — `--manifest-path <ws>/Cargo.toml` compares the workspace
  root *directory* with the manifest *file*, so it formats only the root package (nothing for a
  virtual workspace) where `cd <ws>; cargo fmt` formats every member;
* `signal_counterexample` (F9) — a rustfmt killed by a signal is folded to exit status 0.
-/
namespace RF.Props.C18
open RF.CargoFmt RF.Lemmas.CargoFmt

/-! ## Concrete worlds used by the examples and counter-examples -/

def S (s : String) : Str := s.toList
def P (s : String) : Path := parsePath s.toList
def lib (src : String) (e : Edition) : MTarget := ⟨S src, [S "lib"], e⟩
def pkg (name dir : String) (ts : List MTarget) (deps : List Dep := []) : Package :=
  ⟨S name, S (dir ++ "/Cargo.toml"), ts, deps⟩

/-- Virtual workspace `/ws` with members `a` (2021) and `b` (2018). -/
def wsMd : Metadata :=
  { workspaceRoot := S "/ws"
    packages := [pkg "a" "/ws/a" [lib "/ws/a/src/lib.rs" .e2021],
                 pkg "b" "/ws/b" [lib "/ws/b/src/lib.rs" .e2018]] }

/-- `cargo metadata` finds the workspace from anywhere below `/ws`. -/
def wWs (cwd : String) : World :=
  { answers := [(none, .ok wsMd), (some (P "/ws/Cargo.toml"), .ok wsMd)], links := [], cwd := P cwd }

/-- Members `a`, `b` depend on two *different* packages both called `util` (versions differ). -/
def clashMd : Metadata :=
  { workspaceRoot := S "/ws"
    packages := [pkg "a" "/ws/a" [lib "/ws/a/src/lib.rs" .e2021] [⟨S "util", some (S "/x/util")⟩],
                 pkg "b" "/ws/b" [lib "/ws/b/src/lib.rs" .e2021] [⟨S "util", some (S "/y/util")⟩]] }
def utilMd (dir : String) : Metadata :=
  { workspaceRoot := S dir, packages := [pkg "util" dir [lib (dir ++ "/src/lib.rs") .e2021]] }
def wClash : World :=
  { answers := [(none, .ok clashMd), (some (P "/x/util/Cargo.toml"), .ok (utilMd "/x/util")),
                (some (P "/y/util/Cargo.toml"), .ok (utilMd "/y/util"))]
    links := [], cwd := P "/ws" }

/-- Two packages share one source file, with different editions. -/
def sharedMd : Metadata :=
  { workspaceRoot := S "/ws"
    packages := [pkg "a" "/ws/a" [lib "/ws/shared.rs" .e2018, lib "/ws/a/src/lib.rs" .e2018],
                 pkg "b" "/ws/b" [lib "/ws/shared.rs" .e2021]] }
def wShared : World := { answers := [(none, .ok sharedMd)], links := [], cwd := P "/ws" }

/-! ## Selection: `--all` -/

/-- `--all` collects exactly the source files of all targets of all packages of all manifests
reachable through local path dependencies — provided equal dependency names mean equal manifests
(`NameFun`; see the counter-example below). -/
theorem all_is_transitive_closure_partial {env : Env} {fuel : Nat} {root : Option Path} {T : TSet}
    (hfun : NameFun env root) (h : getTargets env fuel .all root = some (.ok T)) (p : Path) :
    p ∈ paths T ↔ SpecPath env root p := by
  obtain ⟨_, st, hrec, rfl⟩ := getTargets_ok h
  exact recursive_paths_iff hfun hrec p

/-- In a finite world the hypothesis is decidable (`World.namesFunctional`). -/
theorem nameFun_of_world {w : World} (h : w.namesFunctional = true) (root : Option Path) :
    NameFun w.env root :=
  world_nameFun h root

/-- Non-vacuity, and the test case of the repository (`e` outside the workspace depends back on a
member): member `a` → `/ext/e` → `/ext/e/f`, and `/ext/e` → `/ws/a` again. -/
def chainMd : Metadata :=
  { workspaceRoot := S "/ws"
    packages := [pkg "a" "/ws/a" [lib "/ws/a/src/lib.rs" .e2021] [⟨S "e", some (S "/ext/e")⟩, ⟨S "serde", none⟩],
                 pkg "b" "/ws/b" [lib "/ws/b/src/lib.rs" .e2018] [⟨S "a", some (S "/ws/a")⟩]] }
def eMd : Metadata :=
  { workspaceRoot := S "/ext/e"
    packages := [pkg "e" "/ext/e" [lib "/ext/e/src/lib.rs" .e2015]
      [⟨S "f", some (S "/ext/e/f")⟩, ⟨S "a", some (S "/ws/a")⟩, ⟨S "gone", some (S "/nowhere")⟩]] }
def fMd : Metadata :=
  { workspaceRoot := S "/ext/e/f", packages := [pkg "f" "/ext/e/f" [lib "/ext/e/f/src/lib.rs" .e2015]] }
def wChain : World :=
  { answers := [(none, .ok chainMd), (some (P "/ws/a/Cargo.toml"), .ok chainMd),
                (some (P "/ext/e/Cargo.toml"), .ok eMd), (some (P "/ext/e/f/Cargo.toml"), .ok fMd)]
    links := [], cwd := P "/ws" }

example : NameFun wChain.env none ∧
    getTargets wChain.env wChain.fuel .all none =
      some (.ok [⟨P "/ext/e/f/src/lib.rs", S "lib", .e2015⟩, ⟨P "/ext/e/src/lib.rs", S "lib", .e2015⟩,
                 ⟨P "/ws/a/src/lib.rs", S "lib", .e2021⟩, ⟨P "/ws/b/src/lib.rs", S "lib", .e2018⟩]) :=
  ⟨nameFun_of_world (by decide) none, by decide⟩

/-- Without `NameFun` the statement fails: `a → /x/util` and `b → /y/util` are two packages named
`util`; after the first, the name is in `visited` and `/y/util/src/lib.rs` is never collected. -/
theorem all_is_transitive_closure_counterexample :
    getTargets wClash.env wClash.fuel .all none =
      some (.ok [⟨P "/ws/a/src/lib.rs", S "lib", .e2021⟩, ⟨P "/ws/b/src/lib.rs", S "lib", .e2021⟩,
                 ⟨P "/x/util/src/lib.rs", S "lib", .e2021⟩]) ∧
    SpecPath wClash.env none (P "/y/util/src/lib.rs") := by
  refine ⟨by decide, ?_⟩
  refine ⟨some (P "/y/util/Cargo.toml"), utilMd "/y/util", ?_, by decide, _, List.mem_singleton.mpr rfl,
    _, List.mem_singleton.mpr rfl, by decide⟩
  refine Reach.step (m := none) (n := S "util") .root ⟨clashMd, by decide, ?_⟩
  exact ⟨pkg "b" "/ws/b" [lib "/ws/b/src/lib.rs" .e2021] [⟨S "util", some (S "/y/util")⟩], by decide,
    ⟨S "util", some (S "/y/util")⟩, by decide, S "/y/util", rfl, rfl, by decide, by decide⟩

/-- Hence the unconditional statement is false. -/
theorem all_is_transitive_closure_unconditional_false :
    ¬ ∀ (env : Env) (fuel : Nat) (root : Option Path) (T : TSet),
      getTargets env fuel .all root = some (.ok T) → ∀ p, p ∈ paths T ↔ SpecPath env root p := by
  intro h
  obtain ⟨h1, h2⟩ := all_is_transitive_closure_counterexample
  have := (h _ _ _ _ h1 (P "/y/util/src/lib.rs")).mpr h2
  revert this
  decide

/-- The recursion ends: with more fuel than there are names of path dependencies the model never
runs out (each recursive call is preceded by a new name entering `visited`). -/
theorem all_terminates {env : Env} {names : List Str} (hb : NamesBound env names) (fuel : Nat)
    (hf : names.length < fuel) (root : Option Path) :
    (getTargets env fuel .all root).isSome = true := by
  have := recursive_fuel_suffices hb fuel hf root []
  unfold getTargets
  cases hr : getTargetsRecursive env fuel root ⟨[], []⟩ with
  | none => simp [hr] at this
  | some r =>
    cases r with
    | error e => rfl
    | ok st => obtain ⟨ts, _⟩ := st; cases ts <;> rfl

example : NamesBound wClash.env wClash.depNames ∧ wClash.depNames.length < wClash.fuel :=
  ⟨world_namesBound _, by decide⟩

/-- Whatever fuel suffices gives the same answer. -/
theorem all_fuel_independent {env : Env} {f f' : Nat} {root : Option Path} {r r' : Except Err TSet}
    (h : getTargets env f .all root = some r) (h' : getTargets env f' .all root = some r') : r = r' := by
  unfold getTargets at h h'
  cases h1 : getTargetsRecursive env f root ⟨[], []⟩ with
  | none => simp [h1] at h
  | some a =>
    cases h2 : getTargetsRecursive env f' root ⟨[], []⟩ with
    | none => simp [h2] at h'
    | some b =>
      have := recursive_fuel_indep h1 h2
      subst this
      rw [h1] at h
      rw [h2] at h'
      exact Option.some.inj (h.symm.trans h')

/-! ## Selection: `-p` -/

/-- `-p n₁ n₂ …`: every named package exists, and the set holds exactly the source files of the
targets of the (first) package of each given name. -/
theorem hitlist_exact {env : Env} {fuel : Nat} {mp : Option Path} {names : List Str} {T : TSet}
    (h : getTargets env fuel (.some names) mp = some (.ok T)) :
    ∃ md, env.metadata mp = .ok md ∧ (∀ n ∈ names, ∃ q ∈ md.packages, q.name = n) ∧
      ∀ p, p ∈ paths T ↔ ∃ n ∈ names, FirstNamed env md.packages n p := by
  obtain ⟨_, h⟩ := getTargets_ok h
  simp only at h
  cases hmd : env.metadata mp with
  | error e => simp [getTargetsWithHitlist, hmd] at h
  | ok md =>
    have := hitlist_spec (names := names) hmd
    rw [h] at this
    exact ⟨md, rfl, this.1, this.2.2⟩

example : getTargets (wWs "/ws").env 1 (.some [S "b"]) none =
    some (.ok [⟨P "/ws/b/src/lib.rs", S "lib", .e2018⟩]) := by decide

/-- A name given with `-p` that no package of the workspace bears is an error, and the error names
the least such name (byte order) — unless a selected package's target has an empty `kind`, in which
case `target.kind[0]` panics first. -/
theorem unknown_package_error {env : Env} {fuel : Nat} {mp : Option Path} {names : List Str}
    {md : Metadata} (hmd : env.metadata mp = .ok md) {n : Str} (hn : n ∈ names)
    (hmiss : ∀ q ∈ md.packages, q.name ≠ n) :
    ∃ e, getTargets env fuel (.some names) mp = some (.error e) ∧
      (e = .kindPanic ∨ ∃ n', e = .notMember n' ∧ n' ∈ names ∧ (∀ q ∈ md.packages, q.name ≠ n') ∧
        ∀ n'' ∈ names, (∀ q ∈ md.packages, q.name ≠ n'') → cmpStr n' n'' ≠ .gt) := by
  have := hitlist_spec (names := names) hmd
  unfold getTargets
  cases hr : getTargetsWithHitlist env mp names [] with
  | ok s =>
    rw [hr] at this
    obtain ⟨q, hq, hqn⟩ := this.1 n hn
    exact absurd hqn (hmiss q hq)
  | error e =>
    rw [hr] at this
    refine ⟨e, by simp [hr], ?_⟩
    rcases this with ⟨h, _⟩ | h
    · exact .inl h
    · exact .inr h

example : Normal { check := true, packages := [S "nope"] } := ⟨by decide, by decide, by decide⟩

/-- … and nothing is formatted: `cargo fmt -p <unknown>` exits non-zero without starting rustfmt. -/
theorem unknown_package_error_first {env : Env} {fuel : Nat} {run : List Str → Status} {o : Opts}
    (hn : Normal o) (hall : o.formatAll = false) {md : Metadata}
    (hmd : env.metadata (o.manifestPath.map parsePath) = .ok md) {n : Str} (hmem : n ∈ o.packages)
    (hmiss : ∀ q ∈ md.packages, q.name ≠ n) :
    ∃ out, execute env fuel run o = some out ∧ out.trace = [] ∧ out.exit ≠ 0 := by
  rw [execute_normal hn]
  have hstrat : Strategy.fromOpts o = .some o.packages := by
    unfold Strategy.fromOpts
    cases hp : o.packages with
    | nil => simp [hp] at hmem
    | cons a r => simp [hall]
  cases rustfmtArgs o with
  | error e => exact ⟨_, rfl, rfl, by simp⟩
  | ok args =>
    simp only
    cases hmp : o.manifestPath with
    | none =>
      simp only [hmp, Option.map_none] at hmd
      obtain ⟨e, he, _⟩ := unknown_package_error (fuel := fuel) hmd hmem hmiss
      simp only [formatCrate_cases, hstrat, he]
      exact ⟨_, rfl, rfl, errExit_ne_zero e⟩
    | some s =>
      simp only [hmp, Option.map_some] at hmd
      obtain ⟨e, he, _⟩ := unknown_package_error (fuel := fuel) hmd hmem hmiss
      simp only
      split
      · exact ⟨_, rfl, rfl, by simp⟩
      · simp only [formatCrate_cases, hstrat, he]
        exact ⟨_, rfl, rfl, errExit_ne_zero e⟩

example : getTargets (wWs "/ws").env 1 (.some [S "zz", S "b", S "c"]) none =
    some (.error (.notMember (S "c"))) := by decide

/-! ## Selection: the current package -/

/-- Plain `cargo fmt`: the targets of the only package; else of every member when the working
directory (or, literally, the `--manifest-path` *file*) is the workspace root; else of the package
whose canonical manifest is `<cwd>/Cargo.toml` (resp. the canonical `--manifest-path`). -/
theorem root_is_current_package {env : Env} {fuel : Nat} {mp : Option Path} {T : TSet}
    (h : getTargets env fuel .root mp = some (.ok T)) :
    ∃ md wsRoot here, env.metadata mp = .ok md ∧ env.canon (parsePath md.workspaceRoot) = some wsRoot ∧
      currentManifest env mp = some here ∧
      ∀ p, p ∈ paths T ↔ ∃ pkg ∈ md.packages, RootSelected env mp md wsRoot here pkg ∧
        ∃ t ∈ pkg.targets, srcCanon env t = p := by
  obtain ⟨_, h⟩ := getTargets_ok h
  obtain ⟨md, wsRoot, here, h1, h2, h3, _, h5⟩ := rootOnly_spec h
  exact ⟨md, wsRoot, here, h1, h2, h3, h5⟩

example : getTargets (wWs "/ws/a").env 1 .root none =
    some (.ok [⟨P "/ws/a/src/lib.rs", S "lib", .e2021⟩]) := by decide

/-- F9: in `/ws/a/src` (inside member `a`; `cargo metadata` finds the workspace) nothing is
selected, although `/ws/a` selects `a`. -/
theorem root_subdir_counterexample :
    getTargets (wWs "/ws/a/src").env 1 .root none = some (.error .noTargets) ∧
    getTargets (wWs "/ws/a").env 1 .root none = some (.ok [⟨P "/ws/a/src/lib.rs", S "lib", .e2021⟩]) := by
  decide

/-- `cd /ws; cargo fmt` takes every member, `cargo fmt --manifest-path /ws/Cargo.toml` none (virtual
workspace): `in_workspace_root` compares the directory `/ws` with the file `/ws/Cargo.toml`. -/
theorem root_manifest_path_counterexample :
    getTargets (wWs "/ws").env 1 .root none =
      some (.ok [⟨P "/ws/a/src/lib.rs", S "lib", .e2021⟩, ⟨P "/ws/b/src/lib.rs", S "lib", .e2018⟩]) ∧
    getTargets (wWs "/elsewhere").env 1 .root (some (P "/ws/Cargo.toml")) = some (.error .noTargets) := by
  decide

/-! ## The set -/

/-- Whatever the strategy, the result is strictly ascending by path (component order) — so no path
occurs twice — and is not empty. -/
theorem targets_sorted_nonempty {env : Env} {fuel : Nat} {strategy : Strategy} {mp : Option Path}
    {T : TSet} (h : getTargets env fuel strategy mp = some (.ok T)) :
    T ≠ [] ∧ T.Pairwise (fun a b => cmpPath a.path b.path = .lt) ∧ (paths T).Nodup :=
  ⟨(getTargets_ok h).1, getTargets_sorted h, sorted_paths_nodup (getTargets_sorted h)⟩

/-- Every element was built from a declared target: it carries that target's edition, first kind
and canonicalised source path. -/
theorem targets_declared {env : Env} {fuel : Nat} {strategy : Strategy} {mp : Option Path} {T : TSet}
    (h : getTargets env fuel strategy mp = some (.ok T)) :
    ∀ y ∈ T, ∃ m md, env.metadata m = .ok md ∧ ∃ pkg ∈ md.packages, ∃ t ∈ pkg.targets,
      y.path = srcCanon env t ∧ y.edition = t.edition ∧ t.kind.head? = some y.kind := by
  intro y hy
  obtain ⟨m, md, hmd, pkg, hpkg, t, ht, hft⟩ := getTargets_declared h y hy
  exact ⟨m, md, hmd, pkg, hpkg, t, ht, fromTarget_ok hft⟩

/-- `Target`'s `Eq`/`Ord` look at the path only and `BTreeSet::insert` keeps the element it already
has: of several targets with the same canonical path, the one inserted **first** (package order of
the metadata answer, then target order) supplies edition and kind; later ones are dropped. -/
theorem shared_path_first_inserted_wins {env : Env} (ts : List MTarget) {T : TSet}
    (h : insertTargets env ts [] = .ok T) :
    ∀ y ∈ T, ∃ pre t post, ts = pre ++ t :: post ∧ Target.fromTarget env t = .ok y ∧
      ∀ u ∈ pre, srcCanon env u ≠ y.path := by
  intro y hy
  rcases insertTargets_first_wins ts [] h (by simp [Sorted]) y hy with h0 | ⟨_, h0⟩
  · simp at h0
  · exact h0

/-- `a` (2018) and `b` (2021) both list `/ws/shared.rs`: it is formatted once, as edition 2018. -/
theorem shared_path_example :
    getTargets wShared.env 1 .all none =
      some (.ok [⟨P "/ws/a/src/lib.rs", S "lib", .e2018⟩, ⟨P "/ws/shared.rs", S "lib", .e2018⟩]) := by
  decide

/-! ## Invocations -/

/-- Every selected file is handed to rustfmt exactly once: the files of all invocations together
are a permutation of the set's paths, without repetition. -/
theorem each_file_once {env : Env} {fuel : Nat} {strategy : Strategy} {mp : Option Path} {T : TSet}
    (h : getTargets env fuel strategy mp = some (.ok T)) (args : List Str) :
    ((planInvocations T args).flatMap (·.files)).Perm (paths T) ∧
    ((planInvocations T args).flatMap (·.files)).Nodup := by
  have hperm : ((planInvocations T args).flatMap (·.files)).Perm (paths T) := by
    have := (byEdition_spec T).2.2.2
    unfold planInvocations
    rw [List.flatMap_map]
    exact this
  exact ⟨hperm, hperm.nodup_iff.mpr (sorted_paths_nodup (getTargets_sorted h))⟩

/-- One invocation per edition that occurs, in ascending edition order, none empty; the files of an
invocation are exactly the paths of the set's targets of that edition, in path order; the
arguments are the same for all. -/
theorem invocations_by_edition (T : TSet) (args : List Str) :
    (planInvocations T args).Pairwise (fun a b => a.edition.year < b.edition.year) ∧
    (∀ i ∈ planInvocations T args, i.files ≠ [] ∧ i.args = args ∧
      i.files = (T.filter (fun t => t.edition = i.edition)).map (·.path)) ∧
    (∀ t ∈ T, ∃ i ∈ planInvocations T args, i.edition = t.edition) := by
  obtain ⟨h1, h2, h3, _⟩ := byEdition_spec T
  unfold planInvocations
  refine ⟨?_, ?_, ?_⟩
  · rw [List.pairwise_map]; exact h1
  · intro i hi
    rw [List.mem_map] at hi
    obtain ⟨⟨e, fs⟩, hm, rfl⟩ := hi
    obtain ⟨ha, hb⟩ := h2 e fs hm
    exact ⟨ha, rfl, hb⟩
  · intro t ht
    obtain ⟨fs, hm⟩ := h3 t ht
    exact ⟨_, List.mem_map.mpr ⟨_, hm, rfl⟩, rfl⟩

/-- Each file is passed in the invocation that carries the edition of *its* element of the set (the
only element with that path), and that element has the edition declared for a target with that
source path — the first inserted one when several share the path
(`shared_path_first_inserted_wins`). -/
theorem edition_of_target {env : Env} {fuel : Nat} {strategy : Strategy} {mp : Option Path} {T : TSet}
    (h : getTargets env fuel strategy mp = some (.ok T)) (args : List Str) :
    ∀ i ∈ planInvocations T args, ∀ p ∈ i.files,
      ∃ y ∈ T, y.path = p ∧ y.edition = i.edition ∧ (∀ y' ∈ T, y'.path = p → y' = y) ∧
        ∃ m md, env.metadata m = .ok md ∧ ∃ pkg ∈ md.packages, ∃ t ∈ pkg.targets,
          srcCanon env t = p ∧ t.edition = i.edition := by
  intro i hi p hp
  obtain ⟨_, hfiles⟩ := (invocations_by_edition T args).2.1 i hi
  rw [hfiles.2, List.mem_map] at hp
  obtain ⟨y, hy, rfl⟩ := hp
  rw [List.mem_filter] at hy
  have hed : y.edition = i.edition := by simpa using hy.2
  obtain ⟨m, md, hmd, pkg, hpkg, t, ht, h1, h2, _⟩ := targets_declared h y hy.1
  refine ⟨y, hy.1, rfl, hed, ?_, m, md, hmd, pkg, hpkg, t, ht, h1.symm, by rw [← h2, hed]⟩
  intro y' hy' hpath
  exact sorted_path_unique (getTargets_sorted h) y' hy' y hy.1 hpath

example : (planInvocations [⟨P "/ws/a/src/lib.rs", S "lib", .e2021⟩, ⟨P "/ws/b/src/lib.rs", S "lib", .e2018⟩]
    [S "--check"]).map (·.argv) =
    [[S "/ws/b/src/lib.rs", S "--edition", S "2018", S "--check"],
     [S "/ws/a/src/lib.rs", S "--edition", S "2021", S "--check"]] := by decide

/-- What `args_passthrough` says about one formatting run. -/
def PassedThrough (env : Env) (fuel : Nat) (run : List Str → Status) (strategy : Strategy)
    (mp : Option Path) (args : List Str) (out : Outcome) : Prop :=
  out.trace = [] ∨
  ∃ T, getTargets env fuel strategy mp = some (.ok T) ∧
    (out.trace.map (·.1) <+: (planInvocations T args).map Invocation.argv) ∧
    ((∀ a, run a ≠ .spawnErr) → out.trace.map (·.1) = (planInvocations T args).map Invocation.argv) ∧
    (∀ x ∈ out.trace, x.2 = run x.1) ∧
    ∀ i ∈ planInvocations T args,
      i.argv = i.files.map Path.render ++ [sEdition, i.edition.str] ++ args

theorem formatCrate_passthrough {env : Env} {fuel : Nat} {run : List Str → Status}
    {strategy : Strategy} {mp : Option Path} {args : List Str} {out : Outcome}
    (hfc : formatCrate env fuel run strategy args mp = some out) :
    PassedThrough env fuel run strategy mp args out := by
  rw [formatCrate_cases] at hfc
  cases hg : getTargets env fuel strategy mp with
  | none => simp [hg] at hfc
  | some r =>
    cases r with
    | error e => simp [hg] at hfc; subst hfc; exact Or.inl rfl
    | ok T =>
      simp only [hg, Option.some.injEq] at hfc
      subst hfc
      obtain ⟨h1, h2, h3⟩ := runRustfmt_trace run T args
      refine Or.inr ⟨T, hg, h1, h3, h2, ?_⟩
      intro i hi
      obtain ⟨_, hia, _⟩ := (invocations_by_edition T args).2.1 i hi
      simp [Invocation.argv, hia]

/-- The argument vector of every rustfmt process `cargo fmt` starts when it formats is
`files ++ ["--edition", <edition>] ++ args`, where `args` is the translated argument list
(`check_and_options_passed`), identical for all processes; the processes are a prefix of the
planned ones (all of them when no spawn fails), and nothing else is started. -/
theorem args_passthrough {env : Env} {fuel : Nat} {run : List Str → Status} {o : Opts} {out : Outcome}
    (hn : Normal o) (h : execute env fuel run o = some out) :
    out.trace = [] ∨
    ∃ args, rustfmtArgs o = .ok args ∧
      PassedThrough env fuel run (Strategy.fromOpts o) (o.manifestPath.map parsePath) args out := by
  rw [execute_normal hn] at h
  cases hargs : rustfmtArgs o with
  | error e => simp [hargs] at h; subst h; exact .inl rfl
  | ok args =>
    simp only [hargs] at h
    cases hmp : o.manifestPath with
    | none =>
      simp only [hmp] at h
      exact .inr ⟨args, rfl, formatCrate_passthrough h⟩
    | some s =>
      simp only [hmp] at h
      split at h
      · cases h; exact .inl rfl
      · exact .inr ⟨args, rfl, formatCrate_passthrough h⟩

example : ∃ out, execute (wWs "/ws").env 1 (fun _ => .code 0) { check := true } = some out ∧
    out.trace.map (·.1) =
      [[S "/ws/b/src/lib.rs", S "--edition", S "2018", S "--check"],
       [S "/ws/a/src/lib.rs", S "--edition", S "2021", S "--check"]] ∧ out.exit = 0 :=
  ⟨_, rfl, by decide, by decide⟩

/-- The arguments after `--` come first and unchanged; `--check` is among the arguments when asked
for, and is added at most once (not at all when the user already wrote it after `--`); the
message-format translation only appends (`message_format_table`). -/
theorem check_and_options_passed {o : Opts} {args : List Str} (h : rustfmtArgs o = .ok args) :
    ∃ extra, args = o.rustfmtOptions ++ extra ∧
      (o.check = true → sCheck ∈ args) ∧
      args.count sCheck =
        (if o.check = true ∧ o.rustfmtOptions.count sCheck = 0 then 1
         else o.rustfmtOptions.count sCheck) :=
  rustfmtArgs_shape h

example :
    rustfmtArgs { rustfmtOptions := [S "--config", S "w=80"], check := true, messageFormat := some (S "short") } =
      .ok [S "--config", S "w=80", S "--check", S "-l"] := by
  decide

/-- `--version`, or an information flag after `--`, is forwarded to a single rustfmt process and
nothing is formatted. -/
theorem info_flags_forwarded {env : Env} {fuel : Nat} {run : List Str → Status} {o : Opts}
    (hq : (o.verbose && o.quiet) = false) :
    (o.version = true → ∃ c, execute env fuel run o = some ⟨c, [([sVersion], run [sVersion])]⟩) ∧
    (o.version = false → o.rustfmtOptions.any isInfoFlag = true →
      ∃ c, execute env fuel run o = some ⟨c, [(o.rustfmtOptions, run o.rustfmtOptions)]⟩) := by
  constructor
  · intro hv
    unfold execute
    simp only [hq, hv, Bool.false_eq_true, if_false, if_true, rustfmtInfo]
    exact ⟨_, rfl⟩
  · intro hv hi
    unfold execute
    simp only [hq, hv, hi, Bool.false_eq_true, if_false, if_true, rustfmtInfo]
    exact ⟨_, rfl⟩

/-! ## Exit status -/

/-- Exact form: the exit status of a formatting run is non-zero iff a process could not be started
or some process ended with a non-zero exit *code*. -/
theorem exit_formula (run : List Str → Status) (T : TSet) (args : List Str) :
    let r := runRustfmt run T args
    runExit r.2 ≠ 0 ↔ (∃ a, (a, Status.spawnErr) ∈ r.1) ∨ (∃ a n, (a, Status.code n) ∈ r.1 ∧ n ≠ 0) :=
  runRustfmt_exit run T args

/-- When no rustfmt process is killed by a signal: `cargo fmt` exits non-zero exactly when some
rustfmt invocation failed (did not start, or exited non-zero). -/
theorem exit_nonzero_iff_failed_partial (run : List Str → Status) (T : TSet) (args : List Str)
    (hsig : ∀ x ∈ (runRustfmt run T args).1, x.2 ≠ .signal) :
    runExit (runRustfmt run T args).2 ≠ 0 ↔ ∃ x ∈ (runRustfmt run T args).1, x.2.success = false := by
  refine (exit_formula run T args).trans ?_
  constructor
  · rintro (⟨a, ha⟩ | ⟨a, n, ha, hn⟩)
    · exact ⟨_, ha, rfl⟩
    · refine ⟨_, ha, ?_⟩
      cases n with
      | zero => simp at hn
      | succ n => rfl
  · rintro ⟨⟨a, s⟩, hx, hs⟩
    cases s with
    | code n =>
      cases n with
      | zero => simp [Status.success] at hs
      | succ n => exact .inr ⟨a, n + 1, hx, by simp⟩
    | signal => exact absurd rfl (hsig _ hx)
    | spawnErr => exact .inl ⟨a, hx⟩

example : ∃ run : List Str → Status,
    (∀ x ∈ (runRustfmt run [⟨P "/a.rs", S "lib", .e2021⟩] []).1, x.2 ≠ .signal) ∧
    runExit (runRustfmt run [⟨P "/a.rs", S "lib", .e2021⟩] []).2 = 3 :=
  ⟨fun _ => .code 3, by decide, by decide⟩

/-- The same at the level of the whole command, when no process is killed by a signal: `cargo fmt`
exits 0 exactly when the flags were accepted, the selection succeeded, **every** planned rustfmt
process was run and each of them exited 0. -/
theorem exit_zero_iff_all_succeeded_partial {env : Env} {fuel : Nat} {run : List Str → Status}
    {o : Opts} {out : Outcome} (hn : Normal o) (h : execute env fuel run o = some out)
    (hsig : ∀ x ∈ out.trace, x.2 ≠ .signal) :
    out.exit = 0 ↔
      ∃ args T, rustfmtArgs o = .ok args ∧
        (∀ s, o.manifestPath = some s → cargoToml.isSuffixOf s = true) ∧
        getTargets env fuel (Strategy.fromOpts o) (o.manifestPath.map parsePath) = some (.ok T) ∧
        out.trace.map (·.1) = (planInvocations T args).map Invocation.argv ∧
        ∀ x ∈ out.trace, x.2 = .code 0 := by
  rw [execute_normal hn] at h
  cases hargs : rustfmtArgs o with
  | error e =>
    simp [hargs] at h; subst h
    simp
  | ok args =>
    simp only [hargs] at h
    have key : ∀ mp, o.manifestPath.map parsePath = mp →
        (∀ s, o.manifestPath = some s → cargoToml.isSuffixOf s = true) →
        formatCrate env fuel run (Strategy.fromOpts o) args mp = some out →
        (out.exit = 0 ↔ ∃ args' T, Except.ok args = Except.ok (ε := MsgErr) args' ∧
          (∀ s, o.manifestPath = some s → cargoToml.isSuffixOf s = true) ∧
          getTargets env fuel (Strategy.fromOpts o) (o.manifestPath.map parsePath) = some (.ok T) ∧
          out.trace.map (·.1) = (planInvocations T args').map Invocation.argv ∧
          ∀ x ∈ out.trace, x.2 = .code 0) := by
      intro mp hmp hsuf hfc
      rw [formatCrate_cases] at hfc
      rw [hmp]
      cases hg : getTargets env fuel (Strategy.fromOpts o) mp with
      | none => simp [hg] at hfc
      | some r =>
        cases r with
        | error e =>
          simp [hg] at hfc; subst hfc
          have := errExit_ne_zero e
          simp [this]
        | ok T =>
          simp only [hg, Option.some.injEq] at hfc
          subst hfc
          simp only at hsig ⊢
          have hform := exit_formula run T args
          simp only at hform
          constructor
          · intro h0
            have hno : ¬ ((∃ a, (a, Status.spawnErr) ∈ (runRustfmt run T args).1) ∨
                ∃ a n, (a, Status.code n) ∈ (runRustfmt run T args).1 ∧ n ≠ 0) :=
              fun hc => (hform.mpr hc) h0
            have hsp : ∀ x ∈ (runRustfmt run T args).1, x.2 ≠ .spawnErr := by
              intro x hx hs
              exact hno (.inl ⟨x.1, by rw [← hs]; exact hx⟩)
            refine ⟨args, T, rfl, hsuf, rfl, (runRustfmt_full run T args hsp).1, ?_⟩
            intro x hx
            match hx2 : x.2 with
            | .code 0 => rfl
            | .code (n + 1) => exact absurd (.inr ⟨x.1, n + 1, by rw [← hx2]; exact hx, by simp⟩) hno
            | .signal => exact absurd hx2 (hsig x hx)
            | .spawnErr => exact absurd hx2 (hsp x hx)
          · rintro ⟨args', T', ha, _, hT, _, hall⟩
            cases ha
            cases hT
            apply Classical.byContradiction
            intro hne
            rcases hform.mp hne with ⟨a, ha⟩ | ⟨a, n, ha, hn0⟩
            · have := hall _ ha; simp at this
            · have := hall _ ha; simp at this; exact hn0 this
    cases hmp : o.manifestPath with
    | none =>
      simp only [hmp] at h
      have := key none (by simp [hmp]) (by simp [hmp]) h
      simpa [hmp] using this
    | some s =>
      simp only [hmp] at h
      split at h
      · rename_i hbad
        cases h
        simp only [Bool.not_eq_true'] at hbad
        constructor
        · intro h0; simp at h0
        · rintro ⟨_, _, _, hsuf, _⟩
          have := hsuf s rfl
          rw [hbad] at this
          cases this
      · rename_i hgood
        simp only [Bool.not_eq_true', Bool.not_eq_false] at hgood
        have := key (some (parsePath s)) (by simp [hmp]) (by intro s' hs'; cases hmp.symm.trans hs'; exact hgood) h
        simpa [hmp] using this

example : ∃ out, execute (wWs "/ws").env 1 (fun a => if a.head? = some (S "/ws/a/src/lib.rs") then .code 1 else .code 0)
    { formatAll := true } = some out ∧ out.exit = 1 ∧ out.trace.length = 2 :=
  ⟨_, rfl, by decide, by decide⟩

/-- F9: the hypothesis is needed.  The only rustfmt process is killed by a signal
(`code() == None`); `cargo fmt` reports success. -/
theorem signal_counterexample :
    let r := runRustfmt (fun _ => .signal) [⟨P "/a.rs", S "lib", .e2021⟩] []
    runExit r.2 = 0 ∧ ∃ x ∈ r.1, x.2.success = false := by
  decide

/-- The exit status is the first non-zero exit code in spawning order. -/
theorem exit_is_first_failure (ss pre post : List Status) (n : Nat) (hn : n ≠ 0)
    (h : ss = pre ++ .code n :: post) (hpre : ∀ s ∈ pre, ∀ k, s = .code k → k = 0) :
    foldStatus ss = n :=
  foldStatus_first ss pre post n hn h hpre

example : foldStatus [.code 0, .signal, .code 2, .code 5] = 2 := by decide

/-- Any failure to select targets ends `cargo fmt` with status 1 (101 for the `kind[0]` panic)
before any rustfmt is started. -/
theorem selection_error_formats_nothing {env : Env} {fuel : Nat} {run : List Str → Status}
    {strategy : Strategy} {args : List Str} {mp : Option Path} {e : Err}
    (h : getTargets env fuel strategy mp = some (.error e)) :
    formatCrate env fuel run strategy args mp = some ⟨errExit e, []⟩ ∧ errExit e ≠ 0 := by
  rw [formatCrate_cases, h]
  exact ⟨rfl, errExit_ne_zero e⟩

/-! ## Flags -/

/-- `--message-format`: `short` appends `-l` unless `-l`/`--files-with-diff` is there; `json`
refuses an argument starting with `--emit`, then `--check` (so also `cargo fmt --check
--message-format json`, since `--check` was pushed before), else appends `--emit json`; `human`
changes nothing; any other value is an error. -/
theorem message_format_table (fmt : Str) (args : List Str) :
    convertMessageFormat fmt args =
      if fmt = sShort then .ok (if hasListFlag args then args else args ++ [sL])
      else if fmt = sJson then
        (if hasEmit args then .error .emitWithJson
         else if hasCheck args then .error .checkWithJson
         else .ok (args ++ [sEmit, sJson]))
      else if fmt = sHuman then .ok args
      else .error .invalid :=
  convert_table fmt args

example : rustfmtArgs ({ check := true, messageFormat := some (S "json") } : Opts) = .error .checkWithJson := by
  decide
example : convertMessageFormat (S "json") [S "--emit=files"] = .error .emitWithJson := by decide
example : convertMessageFormat (S "xml") [] = .error .invalid := by decide

/-- A `--manifest-path` whose text does not end in `Cargo.toml` ends `cargo fmt` with status 1
before `cargo metadata` or rustfmt is run. -/
theorem manifest_path_must_be_cargo_toml {env : Env} {fuel : Nat} {run : List Str → Status} {o : Opts}
    (hn : Normal o) {s : Str} (hs : o.manifestPath = some s) (hbad : cargoToml.isSuffixOf s = false) :
    execute env fuel run o = some ⟨1, []⟩ := by
  rw [execute_normal hn]
  cases rustfmtArgs o with
  | error e => rfl
  | ok args => simp [hs, hbad]

example : cargoToml.isSuffixOf (S "/ws/Cargo.tom") = false := by decide

/-- The test is textual (`str::ends_with`): `/ws/notCargo.toml` passes it. -/
example : cargoToml.isSuffixOf (S "/ws/notCargo.toml") = true := by decide

end RF.Props.C18
