import RF.Lemmas.Project
import RF.Lemmas.ParseErrors

/-!
# C05  A failing run never damages source files

Theorems about `RF.Model.Project` (the interpreter `runProject` of a phase list over an abstract crate)
instantiated with the lists **generated from the current source**: `RF.Gen.Phases.formatProject` (order of the
phases of `format_project`), `RF.Gen.Phases.formatFile` (steps of `format_file`),
`RF.Gen.Phases.formatInputInner` (steps of `format_input_inner`) and `RF.Gen.Emitters.fsOps` (the
file-system calls of each emitter).  The multi-root statements use the command-line loop of
`RF.Model.Session` with the formatter parameter instantiated by `projectF`.

Quantification: every tree of files (`Tree`), every fault kind at every position, every `Cfg` (all
seven emitters, `skip_children`), every pair of text passes `FileOps`, every command line.

The main theorem is `phasesSafe formatProject = true` (by `decide`, on the generated list) combined with
the general lemma `fault_implies_no_write_of_safe`; `order_matters` shows that the statement fails for
the list with the format loop moved before module resolution.

Finding: `other_roots_unaffected` is **false** of the code: a root whose local `rustfmt.toml` is malformed
makes `format` return (`load_config(..)?`, main.rs:358-359) and the roots after it on the command line are
not formatted (`other_roots_unaffected_counterexample`; reproduced on the binary with
`rustfmt a/x.rs b/y.rs c/z.rs`, `b/rustfmt.toml` = `max_width = [`: `a/x.rs` rewritten, `c/z.rs` untouched,
exit 1).  A `required_version` mismatch, a missing path, a syntax error do *not* stop the loop.
-/
namespace RF.Props.C05
open RF.Session RF.Project RF.Gen.Phases RF.Gen.Emitters RF.Lemmas.Project RF.Lemmas.Session
open RF.ParseErrors RF.Gen.ParseErrs RF.Gen.ModArms RF.Lemmas.ParseErrors

/-- The formatter proper, as the generated lists describe it. -/
abbrev genF (ops : FileOps) (kind : EmitterKind) : Config Cfg → Tree → List Effect × Option Flags :=
  projectF formatProject formatFile ops kind

/-! ## The order of the phases -/

/-- **The generated phase list is safe**: `ParseSess::new`, `parse_crate` and `visit_crate` all come
before the one format loop, each value is produced before it is used, and the filter sits between
resolution and the loop. -/
theorem phases_safe : phasesSafe formatProject = true := by decide

/-- The generated step list of `format_file` ends in its only emission. -/
theorem file_steps_safe : fileStepsSafe formatFile = true := by decide

/-- **General lemma.**  For *any* phase list that passes the static check: if the root cannot be processed
(fault in the root file, or — unless `skip_children` — in any file module resolution reaches, or a `mod`
with no file or two) the effect log is empty, and the failure is recorded (`Err`, or `Ok` with
`has_parsing_errors`) unless the root is not even looked at (ignored root under `skip_children`). -/
theorem fault_implies_no_write_of_safe (ps : List Phase) (hs : phasesSafe ps = true)
    (steps : List FileStep) (ops : FileOps) (kind : EmitterKind) (cfg : Cfg) (root : Tree) (hf : faulty cfg root = true) :
    (runProject ps steps ops kind cfg root).log = [] ∧
    ((cfg.skipChildren && root.file.ignored) = false → (runProject ps steps ops kind cfg root).flagged = true) := by
  simp only [phasesSafe, Bool.and_eq_true] at hs
  exact exec_fault ⟨steps, ops, kind, cfg, root⟩ hf ps {} false false false hs.1 (by simp) (by simp)

/-- **A failing root writes nothing** (the generated order; files given by their parse *status* — the statement
over diagnostics, ignore lists and recoverable errors is `fault_implies_no_write` below): any fault in the root or in any file that
module resolution reaches ⇒ no file-system call at all for that root, in every emit mode, and the
failure is recorded. -/
theorem fault_implies_no_write_status (ops : FileOps) (kind : EmitterKind) (cfg : Cfg) (root : Tree) (hf : faulty cfg root = true) :
    (runProject formatProject formatFile ops kind cfg root).log = [] ∧
    ((cfg.skipChildren && root.file.ignored) = false →
      (runProject formatProject formatFile ops kind cfg root).flagged = true) :=
  fault_implies_no_write_of_safe formatProject phases_safe formatFile ops kind cfg root hf

/-- Which flag: a fault in the root file gives `Ok(report)` with `has_parsing_errors`; a fault below it
gives `Err(ModuleResolutionError)`, which `format_and_emit_report` turns into `has_operational_errors`. -/
theorem fault_flag (ops : FileOps) (kind : EmitterKind) (cfg : Cfg) (root : Tree)
    (hg : cfg.ignoreGlobOk = true) (hi : (cfg.skipChildren && root.file.ignored) = false) :
    (root.file.parse ≠ .ok →
      (runProject formatProject formatFile ops kind cfg root) = ⟨.ok { parsing := true }, []⟩) ∧
    (root.file.parse = .ok → (!cfg.skipChildren && faultM root.mods) = true →
      (runProject formatProject formatFile ops kind cfg root) = ⟨.err, []⟩) := by
  constructor
  · intro hp
    simp only [runProject, formatProject, exec_cons]
    rw [step_new_ok hg]; simp only
    rw [step_ign_next rfl hi]; simp only
    rw [step_parse_fault rfl hp]
  · intro hp hm
    simp only [runProject, formatProject, exec_cons]
    rw [step_new_ok hg]; simp only
    rw [step_ign_next rfl hi]; simp only
    rw [step_parse_ok rfl hp]; simp only
    rw [step_res_err rfl ((visitCrate_none_iff _ _).2 hm)]

/-- **… and the process exits with 1**, on any command line the failing root is part of.  `c` is the
configuration in effect for the root (`--config-path`'s, or the one found next to the file). -/
theorem fault_implies_exit_one (ops : FileOps) (kind : EmitterKind) (g : Config Cfg) (usePath check : Bool)
    (args : List (Arg Cfg Tree)) (lc : Option (Config Cfg)) (root : Tree) (c : Config Cfg)
    (ha : Arg.file lc root ∈ args) (hc : (if usePath then some g else lc) = some c)
    (hd : c.disableAll = false) (hi : (c.opts.skipChildren && root.file.ignored) = false)
    (hf : faulty c.opts root = true) :
    (runCli (genF ops kind) g usePath args).exit check = 1 := by
  rw [exit_eq_pure]
  apply pureExit_one_of_mem _ _ _ _ _ _ ha
  have hout : argOut (genF ops kind) g usePath (Arg.file lc root) = some (.formatted (outOf (genF ops kind) c root)) := by
    cases usePath with
    | true => simp at hc; subst hc; simp [argOut]
    | false => simp at hc; subst hc; simp [argOut]
  rw [pureLoop_single, hout]
  simp only [pureExit, sumFlags, List.foldr_cons, List.foldr_nil, add_none, Bool.false_eq_true, if_false]
  obtain ⟨_, hflag⟩ := fault_implies_no_write_status ops kind c.opts root hf
  have hflag := hflag hi
  unfold outOf
  cases hv : c.versionOk with
  | false => simp [Entry.flags, exitFormat]
  | true =>
    simp only [hd, Bool.not_true, Bool.false_eq_true, if_false]
    simp only [genF, projectF, Entry.flags]
    simp only [Result.flagged] at hflag
    cases ho : (runProject formatProject formatFile ops kind c.opts root).outcome with
    | err => simp [exitFormat, Outcome.toReport]
    | stuck => simp [exitFormat, Outcome.toReport]
    | ok fl =>
      rw [ho] at hflag
      simp only at hflag
      simp [exitFormat, hflag, Outcome.toReport]

/-- **Sensitivity.**  The theorem depends on the order: with the format loop moved before module
resolution (everything else as generated) there is a crate — a healthy, unformatted root declaring a module
whose file does not parse — in which the root is rewritten although the run fails. -/
theorem order_matters :
    let bad : List Phase := [.newParseSess, .ignoreRootCheck, .parseCrate, .formatLoop, .resolveModules, .filterFiles]
    phasesSafe bad = false ∧
    ∃ (ops : FileOps) (kind : EmitterKind) (cfg : Cfg) (root : Tree), faulty cfg root = true ∧
      (runProject bad formatFile ops kind cfg root).log ≠ [] ∧
      (runProject bad formatFile ops kind cfg root).outcome = .err := by
  refine ⟨by decide, ⟨fun t => t, fun t _ => t⟩, .files, {},
    .node { path := 0, parse := .ok, orig := ['a'], visited := ['b'] }
      (.found (.node { path := 1, parse := .unclosed, orig := ['c'], visited := ['c'] } .nil) .nil),
    by decide, by decide, by decide⟩

/-- A well-scoped phase list (in particular the generated one) never uses a value before it exists. -/
theorem never_stuck (ops : FileOps) (kind : EmitterKind) (cfg : Cfg) (root : Tree) :
    (runProject formatProject formatFile ops kind cfg root).outcome ≠ .stuck := by
  have hs := phases_safe
  simp only [phasesSafe, Bool.and_eq_true] at hs
  exact exec_not_stuck ⟨formatFile, ops, kind, cfg, root⟩ formatProject {} false false false false hs.1 (by simp) (by simp)

/-- **Only the format loop touches the file system**: every other phase of `format_project` leaves the effect
log exactly as it found it, whether it goes on or leaves the function. -/
theorem only_the_loop_writes (e : Env) (p : Phase) (s : St) (hp : p ≠ .formatLoop) :
    match step e p s with
    | .next s' => s'.log = s.log
    | .done r => r.log = s.log := by
  cases p with
  | formatLoop => exact absurd rfl hp
  | newParseSess => by_cases h : e.cfg.ignoreGlobOk = true <;> simp [step, h]
  | ignoreRootCheck =>
    cases h1 : s.psess <;> cases h2 : (e.cfg.skipChildren && e.root.file.ignored) <;> simp [step, h1, h2]
  | parseCrate =>
    cases h1 : s.psess
    · simp [step, h1]
    · by_cases h2 : e.root.file.parse = .ok <;> simp [step, h1, h2]
  | resolveModules =>
    cases h1 : s.krate with
    | none => simp [step, h1]
    | some k => cases h2 : visitCrate (!e.cfg.skipChildren) k <;> simp [step, h1, h2]
  | filterFiles => simp [step]

/-- **No write precedes the last parse** (the generated order): the two phases that parse source files —
`parse_crate` (the root) and `visit_crate` (every out-of-line module) — both come before the one format loop, and
nothing that parses comes after it.  With `only_the_loop_writes`: when the first file is written, every file of
the crate has been parsed and module resolution has succeeded. -/
theorem all_parsing_precedes_the_loop :
    (formatProject.takeWhile (· ≠ .formatLoop)).count .parseCrate = 1 ∧
    (formatProject.takeWhile (· ≠ .formatLoop)).count .resolveModules = 1 ∧
    ((formatProject.dropWhile (· ≠ .formatLoop)).all fun p => p != .parseCrate && p != .resolveModules) = true := by
  decide

/-- what one test of `should_skip_module` asks of a file (a path input is never standard input) -/
def skipCondHolds (cfg : Cfg) (mainPath : Nat) (f : File) : SkipCond → Bool
  | .skipAttr => f.skipAttr
  | .skipChildrenNotMain => cfg.skipChildren && f.path != mainPath
  | .ignored => f.ignored
  | .generated => f.generated

/-- The filter of the model is the filter of the source: `shouldSkip` is the disjunction of the tests the
translator finds in `should_skip_module` (inner `#![rustfmt::skip]`; `skip_children` and not the main file; on
the `ignore` list; a generated file under `format_generated_files = false`). -/
theorem should_skip_matches_source (cfg : Cfg) (mainPath : Nat) (f : File) :
    shouldSkip cfg mainPath f = shouldSkipConds.any (skipCondHolds cfg mainPath f) := by
  simp [shouldSkip, shouldSkipConds, skipCondHolds, Bool.or_assoc]

/-- **A file that is filtered out is never written** (the generated order): every file-system call of a run is
on the path of a file of the tree that passes the filter — not on the `ignore` list, no `#![rustfmt::skip]`, not
a child under `skip_children`, not a generated file. -/
theorem skipped_file_never_written (ops : FileOps) (kind : EmitterKind) (cfg : Cfg) (root : Tree) :
    ∀ x ∈ (runProject formatProject formatFile ops kind cfg root).log,
      ∃ f ∈ allFilesT root, x.path = f.path ∧ shouldSkip cfg root.file.path f = false := by
  intro x hx
  simp only [runProject, formatProject, exec_cons] at hx
  cases hg : cfg.ignoreGlobOk with
  | false => rw [step_new_bad hg] at hx; cases hx
  | true =>
    rw [step_new_ok hg] at hx; simp only at hx
    cases hi : (cfg.skipChildren && root.file.ignored) with
    | true => rw [step_ign_ret rfl hi] at hx; cases hx
    | false =>
      rw [step_ign_next rfl hi] at hx; simp only at hx
      by_cases hp : root.file.parse = .ok
      · rw [step_parse_ok rfl hp] at hx; simp only at hx
        cases hv : visitCrate (!cfg.skipChildren) root with
        | none => rw [step_res_err rfl hv] at hx; cases hx
        | some files =>
          rw [step_res_ok rfl hv] at hx; simp only at hx
          rw [step_filter] at hx; simp only at hx
          have hl := formatLoop_log formatFile ops kind file_steps_safe
            (files.filter fun f => !shouldSkip cfg root.file.path f) {} []
          cases hfl : formatLoop formatFile ops kind (files.filter fun f => !shouldSkip cfg root.file.path f) {} [] with
          | mk o log =>
            rw [hfl] at hl
            have hmem : x ∈ log := by
              cases o with
              | none => rw [step_loop_err hfl] at hx; exact hx
              | some rep => rw [step_loop_ok hfl] at hx; simpa [exec] using hx
            rcases hl x hmem with h1 | ⟨f, hf, hw⟩
            · cases h1
            · obtain ⟨hf1, hf2⟩ := List.mem_filter.1 hf
              exact ⟨f, visitCrate_mem _ _ _ hv f hf1, hw.1, by simpa using hf2⟩
      · rw [step_parse_fault rfl hp] at hx; cases hx

/-! ## Configuration faults -/

/-- The generated order of `format_input_inner` is the one `RF.Session.formatInput` hard-wires: running the
generated step list gives exactly the output of the session model with `format_project` as formatter. -/
theorem input_steps_match_session (ops : FileOps) (kind : EmitterKind) (c : Config Cfg) (root : Tree) :
    let r := runInput formatInputInner formatProject formatFile ops kind c root
    let o := (formatInput (genF ops kind) (Session.new c) root).2
    o.emitted.getD [] = r.log ∧
    o.report = r.outcome.toReport := by
  simp only [formatInput_snd, Session.new, outOf, formatInputInner, runInput]
  cases c.versionOk <;> cases c.disableAll <;> simp [genF, projectF, Outcome.toReport, Flags.none]

/-- **Configuration faults come before any parsing.**
(1) a `required_version` mismatch returns `Err(VersionMismatch)` before `format_project` is entered —
whatever the crate looks like, nothing is parsed, nothing is written;
(2) an `ignore` list that does not compile fails `ParseSess::new`, the first phase: `Err`, nothing written;
(3) a malformed local `rustfmt.toml` (`load_config` returns `Err`) never reaches the session: nothing is
recorded for that path, and the process exits with 1. -/
theorem config_fault_before_parse (ops : FileOps) (kind : EmitterKind) :
    (∀ (c : Config Cfg) (root : Tree), c.versionOk = false →
      runInput formatInputInner formatProject formatFile ops kind c root = ⟨.err, []⟩) ∧
    (∀ (cfg : Cfg) (root : Tree), cfg.ignoreGlobOk = false →
      runProject formatProject formatFile ops kind cfg root = ⟨.err, []⟩) ∧
    (∀ (g : Config Cfg) (check : Bool) (args : List (Arg Cfg Tree)) (i : Nat) (root : Tree),
      args[i]? = some (.file none root) →
      (runCli (genF ops kind) g false args).entries.length ≤ i ∧
      (runCli (genF ops kind) g false args).aborted = true ∧
      (runCli (genF ops kind) g false args).exit check = 1) := by
  refine ⟨?_, ?_, ?_⟩
  · intro c root hv
    simp [formatInputInner, runInput, hv]
  · intro cfg root hg
    simp only [runProject, formatProject, exec_cons]
    rw [step_new_bad hg]
  · intro g check args i root ha
    obtain ⟨h1, h2, _⟩ := cliLoop_eq (genF ops kind) false args (Session.new g)
    obtain ⟨h3, h4⟩ := pureLoop_abort (genF ops kind) g false args i _ ha (by simp [argOut])
    simp only [Session.new] at h1 h2
    simp only [runCli, Run.exit, Session.new, h1, h2, h3, h4, if_true, and_self]

/-- The version check is what protects: with it moved behind `format_project` a healthy unformatted file
under a mismatching `required_version` is rewritten. -/
theorem version_check_order_matters :
    ∃ (ops : FileOps) (kind : EmitterKind) (c : Config Cfg) (root : Tree), c.versionOk = false ∧
      (runInput [.disableAllCheck, .formatProject, .versionCheck] formatProject formatFile ops kind c root).log ≠ [] :=
  ⟨⟨fun t => t, fun t _ => t⟩, .files, ⟨false, false, {}⟩,
    .node { path := 0, parse := .ok, orig := ['a'], visited := ['b'] } .nil, rfl, by decide⟩

/-! ## Other roots -/

/-- **Other roots are unaffected (partial).**  If no path *before* position `i` fails to load its
configuration, what is recorded for path `i` — its effect log, its report — is what a run on that path
alone records, whatever the other roots are and do (syntax errors, missing paths, version mismatches,
emitter failures, before or after it). -/
theorem other_roots_unaffected_partial (ops : FileOps) (kind : EmitterKind) (g : Config Cfg) (usePath : Bool)
    (args : List (Arg Cfg Tree)) (i : Nat) (a : Arg Cfg Tree) (ha : args[i]? = some a)
    (hpre : (runCli (genF ops kind) g usePath (args.take i)).aborted = false) :
    (runCli (genF ops kind) g usePath args).entries[i]? = (runCli (genF ops kind) g usePath [a]).entries[0]? := by
  obtain ⟨h1, _, _⟩ := cliLoop_eq (genF ops kind) usePath args (Session.new g)
  obtain ⟨h1', _, _⟩ := cliLoop_eq (genF ops kind) usePath [a] (Session.new g)
  obtain ⟨_, h2, _⟩ := cliLoop_eq (genF ops kind) usePath (args.take i) (Session.new g)
  simp only [runCli] at hpre ⊢
  rw [h2] at hpre
  rw [h1, h1']
  exact pureLoop_frame _ _ _ args i a ha hpre

/-- With `--config-path` no per-file configuration is loaded, and the statement holds without hypothesis. -/
theorem other_roots_unaffected_config_path (ops : FileOps) (kind : EmitterKind) (g : Config Cfg)
    (args : List (Arg Cfg Tree)) (i : Nat) (a : Arg Cfg Tree) (ha : args[i]? = some a) :
    (runCli (genF ops kind) g true args).entries[i]? = (runCli (genF ops kind) g true [a]).entries[0]? := by
  apply other_roots_unaffected_partial ops kind g true args i a ha
  obtain ⟨_, h2, _⟩ := cliLoop_eq (genF ops kind) true (args.take i) (Session.new g)
  simp only [runCli]
  rw [h2]
  have : noAbort (genF ops kind) (Session.new g).config true (args.take i) := by
    intro b _
    cases b <;> simp [argOut]
  exact (pureLoop_noAbort _ _ _ _ this).2

/-- The unrestricted statement is **false** of the code: a healthy, unformatted root that comes after a
root whose local configuration is malformed is rewritten when run alone, and not touched in the joint run. -/
theorem other_roots_unaffected_counterexample :
    ¬ (∀ (ops : FileOps) (kind : EmitterKind) (g : Config Cfg) (usePath : Bool) (args : List (Arg Cfg Tree)) (i : Nat)
        (a : Arg Cfg Tree), args[i]? = some a →
        (runCli (genF ops kind) g usePath args).entries[i]? = (runCli (genF ops kind) g usePath [a]).entries[0]?) := by
  intro h
  let c : Config Cfg := ⟨true, false, {}⟩
  let healthy : Tree := .node { path := 0, parse := .ok, orig := ['a'], visited := ['b'] } .nil
  have := h ⟨fun t => t, fun t _ => t⟩ .files c false [.file none healthy, .file (some c) healthy] 1
    (.file (some c) healthy) rfl
  revert this
  decide

/-! ## What is written -/

/-- The complete result of the per-file pipeline, in the generated order: visitor output, one newline
appended, `format_lines`' truncation, newline style. -/
theorem complete_def (ops : FileOps) (f : File) :
    complete formatFile ops f = ops.newlineStyle (ops.formatLines (f.visited ++ ['\n'])) f.orig := rfl

/-- **Writes are complete.**  Every file-system call in the log of a root — under *any* phase order — is
one of `RF.Gen.Emitters.fsOps` of the configured emitter, on the path of a file of the tree, carries the
complete result of the per-file pipeline for that file, and that result differs from the file's bytes. -/
theorem writes_are_complete (ps : List Phase) (ops : FileOps) (kind : EmitterKind) (cfg : Cfg) (root : Tree) :
    ∀ x ∈ (runProject ps formatFile ops kind cfg root).log,
      ∃ f ∈ allFilesT root, x.path = f.path ∧ x.text = complete formatFile ops f ∧
        complete formatFile ops f ≠ f.orig ∧ x.op ∈ fsOps kind := by
  intro x hx
  rcases exec_log_complete ⟨formatFile, ops, kind, cfg, root⟩ file_steps_safe ps {} (by simp) (by simp) x hx with h | h
  · cases h
  · exact h

/-- … for every step list that ends in its only emission (the general lemma behind it). -/
theorem writes_are_complete_of_safe (ps : List Phase) (steps : List FileStep) (hs : fileStepsSafe steps = true)
    (ops : FileOps) (kind : EmitterKind) (cfg : Cfg) (root : Tree) :
    ∀ x ∈ (runProject ps steps ops kind cfg root).log,
      ∃ f ∈ allFilesT root, x.path = f.path ∧ x.text = complete steps ops f ∧
        complete steps ops f ≠ f.orig ∧ x.op ∈ fsOps kind := by
  intro x hx
  rcases exec_log_complete ⟨steps, ops, kind, cfg, root⟩ hs ps {} (by simp) (by simp) x hx with h | h
  · cases h
  · exact h

/-- The guard of `fsOps`: a file whose formatted text equals its bytes causes no file-system call, and
the emitters other than `files` / `filesWithBackup` never cause one. -/
theorem no_write_when_equal_or_not_files (kind : EmitterKind) (f : File) (text : Text) :
    emitFile kind f f.orig = some [] ∧
    (kind ≠ .files → kind ≠ .filesWithBackup → ∀ effs, emitFile kind f text = some effs → effs = []) := by
  constructor
  · simp [emitFile]
  · intro h1 h2 effs h
    unfold emitFile at h
    split at h
    · split at h
      · cases h
      · cases kind <;> simp_all [fsOps]
    · cases h; rfl

/-- Sensitivity of the step list: with the emission moved before `apply_newline_style` what is written
is not the complete text. -/
theorem file_step_order_matters :
    let bad : List FileStep := [.visit, .appendNewline, .formatLines, .emit, .applyNewlineStyle]
    fileStepsSafe bad = false ∧
    ∃ (ops : FileOps) (f : File) (fs : FileSt), runFile bad ops .files f = some fs ∧
      ∃ e ∈ fs.effects, e.text ≠ complete bad ops f :=
  ⟨by decide, ⟨fun t => t, fun t _ => t ++ ['\r']⟩, { path := 0, parse := .ok, orig := ['a'], visited := ['b'] },
    ⟨['b', '\n', '\r'], {}, [⟨0, .write .file, ['b', '\n']⟩]⟩, by decide, _, List.mem_singleton.2 rfl, by decide⟩

/-! ## Non-vacuity -/

def idOps : FileOps := ⟨fun t => t, fun t _ => t⟩

/-- root `0` (unformatted) with modules `1` (formatted) and `2` (unformatted); `2` declares `3` -/
def demoTree (p3 : Parse) : Tree :=
  .node { path := 0, parse := .ok, orig := ['a'], visited := ['A'] }
    (.found (.node { path := 2, parse := .ok, orig := ['c'], visited := ['C'] }
        (.found (.node { path := 3, parse := p3, orig := ['d', '\n'], visited := ['d'] } .nil) .nil))
      (.found (.node { path := 1, parse := .ok, orig := ['b', '\n'], visited := ['b'] } .nil) .nil))

/-- the healthy tree is written: files 0 and 2, in path order, complete texts; files 1 and 3 are equal
to their formatted text and are not touched — so "the log is empty" is not a property of every run -/
example : (runProject formatProject formatFile idOps .files {} (demoTree .ok)) =
    ⟨.ok {}, [⟨0, .write .file, ['A', '\n']⟩, ⟨2, .write .file, ['C', '\n']⟩]⟩ := by decide

/-- the same tree with an unclosed delimiter in the deepest module: hypothesis of
`fault_implies_no_write_status` holds, nothing is written -/
example : faulty {} (demoTree .unclosed) = true ∧
    (runProject formatProject formatFile idOps .files {} (demoTree .unclosed)) = ⟨.err, []⟩ := by decide

/-- … with the backup emitter the healthy tree yields three calls per file -/
example : ((runProject formatProject formatFile idOps .filesWithBackup {} (demoTree .ok)).log.map (·.op)) =
    [.write .tmp, .rename .file .bk, .rename .tmp .file, .write .tmp, .rename .file .bk, .rename .tmp .file] := by
  decide

/-- a failing root followed by a healthy one on one command line: exit 1, the healthy root is written
exactly as alone (`fault_implies_exit_one`, `other_roots_unaffected_partial` are not vacuous) -/
example :
    let c : Config Cfg := ⟨true, false, {}⟩
    let r := runCli (genF idOps .files) c false [.file (some c) (demoTree .panic), .missing, .file (some c) (demoTree .ok)]
    r.exit false = 1 ∧ r.entries.map entryLog =
      [[], [], [⟨0, .write .file, ['A', '\n']⟩, ⟨2, .write .file, ['C', '\n']⟩]] := by decide

def demoCfg : Config Cfg := ⟨true, false, {}⟩
def demoArgs : List (Arg Cfg Tree) :=
  [.file (some demoCfg) (demoTree .panic), .missing, .file (some demoCfg) (demoTree .ok)]

/-- the hypotheses of `fault_flag` (second half), `fault_implies_exit_one` and
`other_roots_unaffected_partial` hold together on that command line: the ignore list compiles, the root is
not ignored, the root parses and a module below it does not; the effective configuration is the local
one; nothing before position 2 aborts -/
example :
    demoCfg.opts.ignoreGlobOk = true ∧ (demoCfg.opts.skipChildren && (demoTree .panic).file.ignored) = false ∧
    (demoTree .panic).file.parse = .ok ∧ (!demoCfg.opts.skipChildren && faultM (demoTree .panic).mods) = true ∧
    Arg.file (some demoCfg) (demoTree .panic) ∈ demoArgs ∧
    (if false then some demoCfg else some demoCfg) = some demoCfg ∧
    demoCfg.disableAll = false ∧ faulty demoCfg.opts (demoTree .panic) = true ∧
    demoArgs[2]? = some (.file (some demoCfg) (demoTree .ok)) ∧
    (runCli (genF idOps .files) demoCfg false (demoArgs.take 2)).aborted = false :=
  ⟨by decide, by decide, by decide, by decide, List.mem_cons_self, rfl, rfl, by decide, rfl, by decide⟩

/-- `config_fault_before_parse` (3): a command line whose second path has a malformed local configuration —
one entry (the first path, written), aborted, exit 1 -/
example :
    let args : List (Arg Cfg Tree) :=
      [.file (some demoCfg) (demoTree .ok), .file none (demoTree .ok), .file (some demoCfg) (demoTree .ok)]
    args[1]? = some (.file none (demoTree .ok)) ∧
    ((runCli (genF idOps .files) demoCfg false args).entries.map entryLog).length = 1 ∧
    (runCli (genF idOps .files) demoCfg false args).exit false = 1 :=
  ⟨rfl, by decide, by decide⟩

/-- The flag half of `fault_implies_no_write_status` needs its hypothesis: a root on the `ignore` list under
`skip_children` is not parsed at all, so its unclosed delimiter goes unnoticed — empty report, exit 0
(and nothing is written either).  The same holds under `disable_all_formatting`. -/
theorem fault_flag_counterexample :
    ∃ (cfg : Cfg) (root : Tree), faulty cfg root = true ∧
      runProject formatProject formatFile idOps .files cfg root = ⟨.ok {}, []⟩ ∧
      (runCli (genF idOps .files) ⟨true, false, cfg⟩ true [.file none root]).exit true = 0 :=
  ⟨{ skipChildren := true },
    .node { path := 0, parse := .unclosed, orig := ['a'], visited := ['b'], ignored := true } .nil,
    by decide, by decide, by decide⟩

/-! ## The parse-error bookkeeping (`SilentOnIgnoredFilesEmitter`, `can_reset`, `reset_errors`)

Everything below is about the tables of `RF.Gen.ParseErrs`, which `translate/c05_errors.py` regenerates from
src/parse/session.rs and src/parse/parser.rs on every run: `genEmit` (the two blocks of the emitter) and
`genParse` (the arms of `parse_file_as_module` / `parse_crate`).  Quantification: every state the session can
be in (in particular every history of earlier files), every sequence of diagnostics (level × location of the
primary span), every way the rustc parser's call can end. -/

/-- **The generated emitter blocks meet their specification** (finite check over the two flags): the block
for a diagnostic that cannot be ignored raises `has_non_ignorable_parser_errors`, *clears `can_reset`* and
hands the diagnostic on; the block for an ignored file touches nothing but `can_reset`, and raises it only
while no non-ignorable diagnostic has been seen. -/
theorem emit_prog_ok : emitProgOk genEmit = true := by decide

/-- **`ParseSess::has_errors` emits the parser's stashed diagnostics before it looks** (generated from the
source).  Without it a stashed error counts without ever reaching the emitter: `stash_flush_matters`. -/
theorem stash_is_flushed : hasErrorsEmitsStashed = true := by decide

/-- Closed form of the session after any sequence of *emitted* diagnostics, from any state. -/
theorem emit_closed_form (ds : List Diag) (s : Sess) :
    (emitNowAll genEmit s ds).hasNonIgn = (s.hasNonIgn || ds.any (fun d => !d.ignorable)) ∧
    (emitNowAll genEmit s ds).canReset =
      (if ds.any (fun d => !d.ignorable) then false else (s.canReset || (!s.hasNonIgn && !ds.isEmpty))) ∧
    (emitNowAll genEmit s ds).errCount = s.errCount + ds.countP Diag.isError ∧
    (emitNowAll genEmit s ds).shown = s.shown + ds.countP (fun d => !d.ignorable) ∧
    (emitNowAll genEmit s ds).stash = s.stash :=
  emitNowAll_of_ok genEmit emit_prog_ok ds s

/-- … and of a sequence leaving the parser, where some diagnostics are stashed instead of emitted. -/
theorem emit_stash_closed_form (ds : List Diag) (s : Sess) :
    emitAll genEmit s ds =
      { emitNowAll genEmit s (ds.filter fun d => !d.stashed) with stash := s.stash ++ ds.filter fun d => d.stashed } :=
  emitAll_split genEmit emit_prog_ok ds s

/-- **`can_reset` ⇒ only ignored files have complained.**  If the shared flag is up after a sequence of
diagnostics in a fresh session, every diagnostic that went through the emitter was non-fatal and had its
primary span in a local file on the ignore list. -/
theorem can_reset_implies_only_ignored (ds : List Diag)
    (h : (emitAll genEmit Sess.init ds).canReset = true) :
    ∀ d ∈ ds, d.stashed = false → d.level ≠ .fatal ∧ d.loc = .localFile true := by
  rw [emit_stash_closed_form] at h
  simp only at h
  obtain ⟨_, h2, _, _⟩ := emit_closed_form (ds.filter fun d => !d.stashed) Sess.init
  rw [h2] at h
  intro d hd hs
  by_cases ha : (ds.filter fun d => !d.stashed).any (fun d => !d.ignorable) = true
  · simp [ha] at h
  · have : d.ignorable = true := by
      cases hi : d.ignorable with
      | true => rfl
      | false =>
        exact absurd (List.any_eq_true.2 ⟨d, List.mem_filter.2 ⟨hd, by simp [hs]⟩, by simp [hi]⟩) ha
    simpa [Diag.ignorable] using this

/-- The invariant behind it, from any state (`reset_errors()` touches neither flag, and emitting the stash is
emitting, so it holds along every run of a session): `can_reset` is never up together with
`has_non_ignorable_parser_errors`, and if it is up after a sequence, the whole sequence was ignorable. -/
theorem can_reset_invariant (ds : List Diag) (s : Sess) (hs : s.canReset = true → s.hasNonIgn = false) :
    ((emitNowAll genEmit s ds).canReset = true → (emitNowAll genEmit s ds).hasNonIgn = false) ∧
    ((emitNowAll genEmit s ds).canReset = true → ∀ d ∈ ds, d.ignorable = true) := by
  obtain ⟨h1, h2, _, _⟩ := emit_closed_form ds s
  rw [h1, h2]
  by_cases ha : ds.any (fun d => !d.ignorable) = true
  · simp [ha]
  · have hall : ∀ d ∈ ds, d.ignorable = true := by
      intro d hd
      cases hi : d.ignorable with
      | true => rfl
      | false => exact absurd (List.any_eq_true.2 ⟨d, hd, by simp [hi]⟩) ha
    simp only [ha, Bool.false_eq_true, if_false, Bool.or_false]
    refine ⟨?_, fun _ => hall⟩
    intro hc
    cases hn : s.hasNonIgn with
    | false => rfl
    | true =>
      simp only [hn, Bool.not_true, Bool.false_and, Bool.or_false] at hc
      exact absurd (hs hc) (by simp [hn])

/-- The emitter is idempotent on a repeated diagnostic (so rustc's optional de-duplication of identical
diagnostics, which skips the emitter call, cannot change either flag). -/
theorem emitter_step_idempotent (s : Sess) (d : Diag) :
    (emitterStep genEmit (emitterStep genEmit s d) d).hasNonIgn = (emitterStep genEmit s d).hasNonIgn ∧
    (emitterStep genEmit (emitterStep genEmit s d) d).canReset = (emitterStep genEmit s d).canReset := by
  rw [emitterStep_of_ok genEmit emit_prog_ok, emitterStep_of_ok genEmit emit_prog_ok s d]
  by_cases hi : d.ignorable = true <;> by_cases hn : s.hasNonIgn = true <;> simp [hi, hn]

/-- **A hard error is never lost on the way to the decision.**  An error that is fatal or lies outside the
ignored files — emitted by the parser or only stashed — has, once `has_errors()` has emitted the stash,
raised `has_non_ignorable_parser_errors`, taken `can_reset` down and left a non-zero error count, whatever
came before it and whatever else the same call produced. -/
theorem hard_error_poisons (s : Sess) (ds : List Diag) (h : ds.any Diag.hardError = true) :
    (flushStash genEmit (emitAll genEmit s ds)).hasNonIgn = true ∧
    (flushStash genEmit (emitAll genEmit s ds)).canReset = false ∧
    (flushStash genEmit (emitAll genEmit s ds)).errCount ≠ 0 :=
  flush_poisoned genEmit emit_prog_ok ds s h

/-- emitting the stash empties it -/
theorem flush_empties_stash (s : Sess) : (flushStash genEmit s).stash = [] := by
  unfold flushStash
  rw [(emit_closed_form _ _).2.2.2.2]

/-- **The decisions of `parse_file_as_module`, as the generated arms have them**: the diagnostics leave the
parser; on `Ok`, `has_errors()` emits the stash and the file is accepted when no error is counted, accepted
after `reset_errors()` when `can_reset` is up, and a `ParseError` otherwise; an `Err(e)` from the parser emits
`e`, resets if `can_reset`, and is a `ParseError`; an unwinding call is a `ParseError` if the path exists and
a `ParsePanicError` if not. -/
theorem parse_file_decisions (s : Sess) (fp : FileParse) :
    parseFile genParse s fp =
      (let s1 := emitAll genEmit s fp.diags
       match fp.raw with
       | .ok =>
         let s2 := flushStash genEmit s1
         if s2.errCount = 0 then (s2, some .ok)
         else if s2.canReset = true then (s2.reset, some .ok) else (s2, some .parseError)
       | .err e =>
         let s2 := dcxEmit genEmit s1 e
         ((if s2.canReset = true then s2.reset else s2), some .parseError)
       | .unwound => (s1, some (if fp.pathExists = true then .parseError else .parsePanicError))) := by
  unfold parseFile
  cases fp.raw with
  | ok =>
    simp only [genParse, fileArms, selectArm, patMatches, evalGuard, hasErrorsCall, hasErrorsEmitsStashed, if_true,
      runPStmts, runPStmt, Sess.hasErrors, flush_empties_stash, List.any_nil, Bool.or_false]
    by_cases h0 : (flushStash genEmit (emitAll genEmit s fp.diags)).errCount = 0
    · simp [h0]
    · by_cases hc : (flushStash genEmit (emitAll genEmit s fp.diags)).canReset = true <;> simp [h0, hc]
  | err e => rfl
  | unwound =>
    simp only [genParse, fileArms, selectArm, patMatches, evalGuard, runPStmts, runPStmt]
    by_cases hp : fp.pathExists = true <;> simp [hp]

/-- … and of `parse_crate` (the root): the same two ways of being accepted; every failing arm of
`ParserBuilder::build` / `parse_crate_mod` is an `Err`. -/
theorem parse_crate_decisions (s : Sess) (fp : FileParse) :
    parseCrate genParse s fp =
      (let s1 := emitAll genEmit s fp.diags
       match fp.raw with
       | .ok =>
         let s2 := flushStash genEmit s1
         if s2.errCount = 0 then (s2, some .ok)
         else if s2.canReset = true then (s2.reset, some .ok) else (s2, some .parseError)
       | .err e =>
         (dcxEmit genEmit s1 e,
          some (match fp.stage with | .build => .parserCreationError | .crateMod => .parsePanicError))
       | .unwound => (s1, some .parsePanicError)) := by
  unfold parseCrate
  cases fp.raw with
  | ok =>
    simp only [genParse, crateArms, selectArm, patMatches, evalGuard, hasErrorsCall, hasErrorsEmitsStashed, if_true,
      runPStmts, runPStmt, Sess.hasErrors, flush_empties_stash, List.any_nil, Bool.or_false]
    by_cases h0 : (flushStash genEmit (emitAll genEmit s fp.diags)).errCount = 0
    · simp [h0]
    · by_cases hc : (flushStash genEmit (emitAll genEmit s fp.diags)).canReset = true <;> simp [h0, hc]
  | err e => cases fp.stage <;> rfl
  | unwound => cases fp.stage <;> rfl

/-- The generated matches are exhaustive: a call always has a result. -/
theorem parse_never_stuck (s : Sess) (fp : FileParse) :
    (parseFile genParse s fp).2 ≠ none ∧ (parseCrate genParse s fp).2 ≠ none := by
  rw [parse_file_decisions, parse_crate_decisions]
  constructor
  · cases fp.raw <;> simp only [] <;> (repeat' split) <;> simp
  · cases fp.raw <;> simp only [] <;> (repeat' split) <;> simp

/-- **A fault is never reset.**  A file whose parse does not end in `Ok`, or that reports an error which is
fatal or lies outside the ignored files (emitted or stashed), is *not accepted* — by `parse_file_as_module`
and by `parse_crate`, in every state of the session (whatever ignored or non-ignored files were parsed
before, whether or not `can_reset` is up when the call starts, whatever is still stashed) and whatever other
diagnostics the same call produces before or after. -/
theorem non_ignored_error_never_reset : NeverAccepts genParse := by
  have key : ∀ (s : Sess) (fp : FileParse), fp.fault = true → fp.raw = .ok →
      (flushStash genEmit (emitAll genEmit s fp.diags)).errCount ≠ 0 ∧
      (flushStash genEmit (emitAll genEmit s fp.diags)).canReset = false := by
    intro s fp hf hr
    simp only [FileParse.fault, FileParse.allDiags, hr, bne_self_eq_false, Bool.false_or] at hf
    obtain ⟨_, h1, h2⟩ := hard_error_poisons s fp.diags hf
    exact ⟨h2, h1⟩
  constructor
  · intro s fp hf
    rw [parse_file_decisions]
    cases hr : fp.raw with
    | ok =>
      obtain ⟨h1, h2⟩ := key s fp hf hr
      simp [h1, h2]
    | err e => simp
    | unwound => by_cases hp : fp.pathExists = true <;> simp [hp]
  · intro s fp hf
    rw [parse_crate_decisions]
    cases hr : fp.raw with
    | ok =>
      obtain ⟨h1, h2⟩ := key s fp hf hr
      simp [h1, h2]
    | err e => cases fp.stage <;> simp
    | unwound => simp

/-- when nothing is stashed, the session after the call's diagnostics and the `has_errors()` call is the
session after emitting them -/
theorem no_stash_flush (s : Sess) (ds : List Diag) (hs : s.stash = []) (hd : ∀ d ∈ ds, d.stashed = false) :
    flushStash genEmit (emitAll genEmit s ds) = emitNowAll genEmit s ds := by
  rw [emit_stash_closed_form]
  have h1 : (ds.filter fun d => !d.stashed) = ds := List.filter_eq_self.2 (fun d hm => by simp [hd d hm])
  have h2 : (ds.filter fun d => d.stashed) = [] := List.filter_eq_nil_iff.2 (fun d hm => by simp [hd d hm])
  rw [h1, h2, hs]
  unfold flushStash
  simp only [List.append_nil, List.filter_nil, emitNowAll]
  apply sess_eq <;> simp only
  exact ((emit_closed_form ds s).2.2.2.2.trans hs).symm

/-- Exactly when a module file is accepted (nothing stashed): the parser returned `Ok`, and either nothing is
counted (before *and* during the call) or nothing that is not ignorable has ever been seen by this session
while at least one ignorable diagnostic has. -/
theorem accepted_iff (s : Sess) (fp : FileParse) (hs : s.stash = []) (hd : ∀ d ∈ fp.diags, d.stashed = false) :
    (parseFile genParse s fp).2 = some .ok ↔
      fp.raw = .ok ∧
      ((s.errCount = 0 ∧ fp.diags.countP Diag.isError = 0) ∨
       (fp.diags.any (fun d => !d.ignorable) = false ∧ (s.canReset = true ∨ (s.hasNonIgn = false ∧ fp.diags ≠ [])))) := by
  rw [parse_file_decisions]
  obtain ⟨_, h2, h3, _⟩ := emit_closed_form fp.diags s
  cases hr : fp.raw with
  | err e => simp
  | unwound => by_cases hp : fp.pathExists = true <;> simp [hp]
  | ok =>
    simp only [true_and, no_stash_flush s fp.diags hs hd]
    by_cases h0 : (emitNowAll genEmit s fp.diags).errCount = 0
    · have : s.errCount = 0 ∧ fp.diags.countP Diag.isError = 0 := by omega
      simp [h0, this]
    · have hne : ¬ (s.errCount = 0 ∧ fp.diags.countP Diag.isError = 0) := by omega
      by_cases hc : (emitNowAll genEmit s fp.diags).canReset = true
      · simp only [h0, hc, if_false, if_true, true_iff]
        right
        rw [h2] at hc
        by_cases ha : fp.diags.any (fun d => !d.ignorable) = true
        · simp [ha] at hc
        · simp only [ha, Bool.false_eq_true, if_false, Bool.or_eq_true, Bool.and_eq_true, Bool.not_eq_true',
            List.isEmpty_eq_false_iff] at hc
          exact ⟨by simpa using ha, hc⟩
      · simp only [h0, hc, if_false, hne, false_or]
        constructor
        · intro h; cases h
        · intro ⟨ha, hcr⟩
          exfalso
          apply hc
          rw [h2]
          simp only [ha, Bool.false_eq_true, if_false, Bool.or_eq_true, Bool.and_eq_true, Bool.not_eq_true',
            List.isEmpty_eq_false_iff]
          exact hcr

/-- An accepted file leaves neither a counted error nor a stashed diagnostic behind (so the next file starts
from a clean count). -/
theorem accepted_leaves_no_errors (s : Sess) (fp : FileParse) (h : (parseFile genParse s fp).2 = some .ok) :
    (parseFile genParse s fp).1.errCount = 0 ∧ (parseFile genParse s fp).1.stash = [] := by
  rw [parse_file_decisions] at h ⊢
  cases hr : fp.raw with
  | err e => simp [hr] at h
  | unwound => by_cases hp : fp.pathExists = true <;> simp [hr, hp] at h
  | ok =>
    simp only [hr] at h ⊢
    by_cases h0 : (flushStash genEmit (emitAll genEmit s fp.diags)).errCount = 0
    · simp [h0, flush_empties_stash]
    · by_cases hc : (flushStash genEmit (emitAll genEmit s fp.diags)).canReset = true
      · simp [h0, hc, Sess.reset]
      · simp [h0, hc] at h

/-- What `ignore` is for: while this session has seen nothing that is not ignorable, a file whose diagnostics
are all non-fatal and lie in ignored files is accepted (its errors are reset), however many they are. -/
theorem ignored_errors_are_reset (s : Sess) (fp : FileParse) (hs : s.hasNonIgn = false) (hst : s.stash = [])
    (hr : fp.raw = .ok) (hd : ∀ d ∈ fp.diags, d.ignorable = true ∧ d.stashed = false) (hne : fp.diags ≠ []) :
    (parseFile genParse s fp).2 = some .ok := by
  rw [accepted_iff s fp hst (fun d hm => (hd d hm).2)]
  refine ⟨hr, Or.inr ⟨?_, Or.inr ⟨hs, hne⟩⟩⟩
  cases ha : fp.diags.any (fun d => !d.ignorable) with
  | false => rfl
  | true =>
    obtain ⟨d, hm, hh⟩ := List.any_eq_true.1 ha
    simp [(hd d hm).1] at hh

/-- A call on a path that exists ends in `Ok` or in `ParseError` — never in `ParsePanicError`, which is what the
arms of `find_external_module` treat as "the file is not there" (an unwinding parser on an existing file is a
lexer error: `Err(..) if path.exists() => Err(ParseError)`). -/
theorem existing_file_is_parse_error : ExistingIsParseError genParse := by
  intro s fp he
  rw [parse_file_decisions]
  cases fp.raw with
  | ok => simp only []; (repeat' split) <;> simp
  | err e => simp
  | unwound => simp [he]

/-- **The generated arms of `find_external_module` / `find_mods_outside_of_ast` never go on past a file that
does not parse** (finite check): a `ParseError` on a nested-path candidate or on the default file is an error of
module resolution, with or without other candidates; an accepted file is left out exactly when it has
`#![rustfmt::skip]`. -/
theorem mod_prog_ok : modProgOk genMods = true := by decide

theorem tables_safe : Safe genParse genMods :=
  ⟨non_ignored_error_never_reset, existing_file_is_parse_error, mod_prog_ok⟩

/-- The arms for a plain `mod m;` (no candidate: `outside_mods_empty`) and for `#[path = ".."] mod m;` agree with
what `RF.Project.visitTree` hard-wires for `Mods.found`: `Ok` with `#![rustfmt::skip]` → left out, `Ok` → taken,
every `Err` → module resolution fails. -/
theorem plain_mod_arms_agree (ret : Option Ret) (sk : Bool) :
    selectM pathArms ret sk true = (if ret = some .ok then (if sk then .skip else .use) else .fail) ∧
    selectM dfltArms ret sk true = (if ret = some .ok then (if sk then .skip else .use) else .fail) := by
  cases ret with
  | none => cases sk <;> decide
  | some r => cases r <;> cases sk <;> decide

/-! ### lifted into the project model -/

/-- **A failing root writes nothing** — files given by their diagnostics.  `pi` says, for every path, what
the rustc parser does on that file (any sequence of diagnostics of any level located anywhere, emitted or
stashed, then `Ok`, `Err` or an unwinding); each file carries whether it is on the `ignore` list; the session
state is threaded through the files in the order `format_project` parses them, so that what an earlier (ignored
or healthy) file did to `can_reset` and to the error count is what a later file meets; what
`find_external_module` does with each parse result is read off the generated arms.  If the root file or any file
that module resolution reaches — the default file of a `mod`, a `#[path]` target, a candidate of a nested
`#[cfg_attr(.., path = "..")]`, anything below one that is taken — has a fault (the parser does not return
`Ok`, or it reports an error that is fatal or has its primary span outside the ignored files; in particular a
*recoverable* or a *stashed* syntax error in a file that is not ignored), or a `mod` has no file or two, then
no file-system call is made for that root in any emit mode, and the failure is recorded. -/
theorem fault_implies_no_write (pi : Nat → FileParse) (ops : FileOps) (kind : EmitterKind) (cfg : Cfg) (root : Tree)
    (hf : faultyE pi cfg root = true) :
    (runProjectE genParse genMods pi formatProject formatFile ops kind cfg root).log = [] ∧
    ((cfg.skipChildren && root.file.ignored) = false →
      (runProjectE genParse genMods pi formatProject formatFile ops kind cfg root).flagged = true) := by
  have h := fault_implies_no_write_status ops kind cfg (annotateRoot genParse genMods pi cfg root)
    (annotateRoot_faulty genParse genMods tables_safe pi cfg root hf)
  rw [(annotateRoot_file genParse genMods pi cfg root).1] at h
  exact h

/-- **An ignored file is never written**, whatever its diagnostics did to the session: every file-system call of
a run is on the path of a file that is not on the `ignore` list, has no `#![rustfmt::skip]` and is not a
generated file. -/
theorem ignored_file_never_written (pi : Nat → FileParse) (ops : FileOps) (kind : EmitterKind) (cfg : Cfg) (root : Tree) :
    ∀ x ∈ (runProjectE genParse genMods pi formatProject formatFile ops kind cfg root).log,
      ∃ f ∈ allFilesT (annotateRoot genParse genMods pi cfg root),
        x.path = f.path ∧ f.ignored = false ∧ f.skipAttr = false ∧ f.generated = false := by
  intro x hx
  obtain ⟨f, hf, hp, hs⟩ := skipped_file_never_written ops kind cfg (annotateRoot genParse genMods pi cfg root) x hx
  refine ⟨f, hf, hp, ?_⟩
  simp only [shouldSkip, Bool.or_eq_false_iff] at hs
  exact ⟨hs.1.2, hs.1.1.1, hs.2⟩

/-- … and the process exits with 1 on any command line that contains that root. -/
theorem fault_implies_exit_one_diags (pi : Nat → FileParse) (ops : FileOps) (kind : EmitterKind) (g : Config Cfg)
    (usePath check : Bool) (args : List (Arg Cfg Tree)) (lc : Option (Config Cfg)) (root : Tree) (c : Config Cfg)
    (ha : Arg.file lc (annotateRoot genParse genMods pi c.opts root) ∈ args) (hc : (if usePath then some g else lc) = some c)
    (hd : c.disableAll = false) (hi : (c.opts.skipChildren && root.file.ignored) = false)
    (hf : faultyE pi c.opts root = true) :
    (runCli (genF ops kind) g usePath args).exit check = 1 :=
  fault_implies_exit_one ops kind g usePath check args lc _ c ha hc hd
    (by rw [(annotateRoot_file genParse genMods pi c.opts root).1]; exact hi)
    (annotateRoot_faulty genParse genMods tables_safe pi c.opts root hf)

/-! ### sensitivity and non-vacuity -/

/-- a non-fatal error whose primary span lies in the file itself -/
def ownErr (ignored : Bool) : Diag := { level := .error, loc := .localFile ignored }
/-- a recoverable syntax error: the parser reports it and returns `Ok` -/
def recoverable (ignored : Bool) : FileParse := { diags := [ownErr ignored] }
def clean : FileParse := {}

/-- root `0` (healthy, unformatted) declares `mod a;` (file 1, **on the ignore list**) and then `mod b;` (file 2,
not ignored); both are unformatted -/
def ignTree : Tree :=
  .node { path := 0, parse := .ok, orig := ['r'], visited := ['R'] }
    (.found (.node { path := 1, parse := .ok, orig := ['a'], visited := ['A'], ignored := true } .nil)
      (.found (.node { path := 2, parse := .ok, orig := ['b'], visited := ['B'] } .nil) .nil))

/-- the ignored file has a recoverable error; the file after it may have one too -/
def ignPi (b : FileParse) : Nat → FileParse
  | 1 => recoverable true
  | 2 => b
  | _ => clean

/-- the emitter with `self.can_reset.store(false, …)` removed from `handle_non_ignoreable_error` -/
def emitWithoutClear : EmitProg := ⟨[.setHasNonIgn true, .forward], ignoredFileBranch⟩

/-- **Sensitivity: clearing `can_reset` matters.**  Without that one store the check `emitProgOk` fails, and
there is a crate — an ignored module with a recoverable error, then a module that is *not* ignored with a
recoverable error of its own — on which the run resets the second module's error, reports success and rewrites
the root and the faulty module.  With the generated blocks the same crate fails with nothing written. -/
theorem can_reset_clear_matters :
    emitProgOk emitWithoutClear = false ∧
    faultyE (ignPi (recoverable false)) {} ignTree = true ∧
    runProjectE { genParse with emit := emitWithoutClear } genMods (ignPi (recoverable false)) formatProject formatFile idOps .files {} ignTree =
      ⟨.ok {}, [⟨0, .write .file, ['R', '\n']⟩, ⟨2, .write .file, ['B', '\n']⟩]⟩ ∧
    runProjectE genParse genMods (ignPi (recoverable false)) formatProject formatFile idOps .files {} ignTree = ⟨.err, []⟩ := by
  decide

/-- **Sensitivity: emitting the stash matters** (the defect D4 of the pinned tree, repaired in `has_errors`).
If `has_errors()` only looks, a stashed error (`static X = 1;`) in a file that is *not* ignored never reaches the
emitter; after an ignored file with a recoverable error `can_reset` is still up, the count is reset, the file
is accepted and the root and the faulty file are rewritten.  With the generated value the crate fails. -/
theorem stash_flush_matters :
    let stashedErr : FileParse := { diags := [{ level := .error, loc := .localFile false, stashed := true }] }
    faultyE (ignPi stashedErr) {} ignTree = true ∧
    runProjectE { genParse with flush := false } genMods (ignPi stashedErr) formatProject formatFile idOps .files {} ignTree =
      ⟨.ok {}, [⟨0, .write .file, ['R', '\n']⟩, ⟨2, .write .file, ['B', '\n']⟩]⟩ ∧
    runProjectE genParse genMods (ignPi stashedErr) formatProject formatFile idOps .files {} ignTree = ⟨.err, []⟩ := by
  decide

/-- root `0` declares `#[cfg_attr(pred, path = "alt.rs")] mod m;` as its LAST module: candidate `alt.rs` (file 1,
healthy), default file `m.rs` (file 2); `3` is what the file map holds for the path of `m.rs` when it is
registered with the declaring item's module: the bytes of `m.rs`, the text of the *root* -/
def cfgTree : Tree :=
  .node { path := 0, parse := .ok, orig := ['r'], visited := ['R'] }
    (.cfgAttr (.cons .use (.node { path := 1, parse := .ok, orig := ['a'], visited := ['A'] } .nil) .nil) .found .file
      (.node { path := 2, parse := .ok, orig := ['m'], visited := ['M'] } .nil)
      { path := 2, parse := .ok, orig := ['m'], visited := ['R'] } .nil)

/-- a lexer-fatal error: one `Fatal` diagnostic in the file, the call unwinds -/
def lexFatal : FileParse := { diags := [{ level := .fatal, loc := .localFile false }], raw := .unwound }

/-- **Sensitivity: how an unwinding parser is classified matters.**  If `parse_file_as_module` reports every
caught unwind as `ParsePanicError` (instead of `ParseError` when the path exists), the arm of
`find_external_module` meant for "the default file is not there, but a candidate is" takes a default file with a
lexer error: resolution goes on, the root and the candidate are rewritten, and the broken file is overwritten
with the text of its parent.  With the generated arms the crate fails with nothing written. -/
theorem unwind_classification_matters :
    let pi : Nat → FileParse := fun | 2 => lexFatal | _ => clean
    let arms' : List Arm := [⟨.okSome, .noErrors, [], .ok⟩, ⟨.okSome, .canReset, [.resetErrors], .ok⟩,
      ⟨.okAny, .always, [], .parseError⟩, ⟨.unwound, .always, [], .parsePanicError⟩]
    faultyE pi {} cfgTree = true ∧
    runProjectE { genParse with fileArms := arms' } genMods pi formatProject formatFile idOps .files {} cfgTree =
      ⟨.ok {}, [⟨0, .write .file, ['R', '\n']⟩, ⟨1, .write .file, ['A', '\n']⟩, ⟨2, .write .file, ['R', '\n']⟩]⟩ ∧
    runProjectE genParse genMods pi formatProject formatFile idOps .files {} cfgTree = ⟨.err, []⟩ := by
  decide

/-- **Sensitivity: a candidate that does not parse must fail the run** (the defect D5 of the pinned tree,
repaired in `find_mods_outside_of_ast`).  With the old arm `Err(..) => continue` a crate whose last module is
`#[cfg_attr(a, path = "good.rs")] #[cfg_attr(b, path = "bad.rs")] mod m;` (no `m.rs`), `bad.rs` with a syntax
error, is formatted and written. -/
theorem candidate_failure_matters :
    let pi : Nat → FileParse := fun | 2 => recoverable false | _ => clean
    let t : Tree := .node { path := 0, parse := .ok, orig := ['r'], visited := ['R'] }
      (.cfgAttr (.cons .use (.node { path := 1, parse := .ok, orig := ['a'], visited := ['A'] } .nil)
          (.cons .use (.node { path := 2, parse := .ok, orig := ['b'], visited := ['B'] } .nil) .nil)) .notFound .candidates
        (.node { path := 9, parse := .ok, orig := [], visited := [] } .nil) { path := 9, parse := .ok, orig := [], visited := [] } .nil)
    let old : ModProg := { genMods with alt := [⟨.okSkip, .always, .skip⟩, ⟨.ok, .always, .use⟩, ⟨.errAny, .always, .skip⟩] }
    modProgOk old = false ∧ faultyE pi {} t = true ∧
    runProjectE genParse old pi formatProject formatFile idOps .files {} t =
      ⟨.ok {}, [⟨0, .write .file, ['R', '\n']⟩, ⟨1, .write .file, ['A', '\n']⟩]⟩ ∧
    runProjectE genParse genMods pi formatProject formatFile idOps .files {} t = ⟨.err, []⟩ := by
  decide

/-- the cfg_attr crate with healthy files: the candidate and the default file are both formatted; with a default
file that carries `#![rustfmt::skip]` nothing below the declaration is (the candidates are dropped as well) -/
example :
    runProjectE genParse genMods (fun _ => clean) formatProject formatFile idOps .files {} cfgTree =
      ⟨.ok {}, [⟨0, .write .file, ['R', '\n']⟩, ⟨1, .write .file, ['A', '\n']⟩, ⟨2, .write .file, ['M', '\n']⟩]⟩ ∧
    runProjectE genParse genMods (fun _ => clean) formatProject formatFile idOps .files {}
      (.node { path := 0, parse := .ok, orig := ['r'], visited := ['R'] }
        (.cfgAttr (.cons .use (.node { path := 1, parse := .ok, orig := ['a'], visited := ['A'] } .nil) .nil) .found .file
          (.node { path := 2, parse := .ok, orig := ['m'], visited := ['M'], skipAttr := true } .nil)
          { path := 2, parse := .ok, orig := ['m'], visited := ['R'] } .nil)) =
      ⟨.ok {}, [⟨0, .write .file, ['R', '\n']⟩]⟩ := by decide

/-- the hypothesis of `fault_implies_no_write` is not always true, and the conclusion is not always true either:
with the second module healthy the ignored module's error is reset and the run writes the two files that are
not ignored (never the ignored one) -/
example : faultyE (ignPi clean) {} ignTree = false ∧
    runProjectE genParse genMods (ignPi clean) formatProject formatFile idOps .files {} ignTree =
      ⟨.ok {}, [⟨0, .write .file, ['R', '\n']⟩, ⟨2, .write .file, ['B', '\n']⟩]⟩ := by decide

/-- order does not help the faulty module: visited *before* the ignored one it fails as well; an ignored module
alone is skipped and the root written; and an ignored module whose parse ends in `Err` (an unrecoverable error)
fails the run although all its diagnostics are dropped -/
example :
    let swapped : Nat → FileParse := fun | 1 => recoverable false | 2 => recoverable true | _ => clean
    let t : Tree := .node { path := 0, parse := .ok, orig := ['r'], visited := ['R'] }
      (.found (.node { path := 1, parse := .ok, orig := ['a'], visited := ['A'] } .nil)
        (.found (.node { path := 2, parse := .ok, orig := ['b'], visited := ['B'], ignored := true } .nil) .nil))
    runProjectE genParse genMods swapped formatProject formatFile idOps .files {} t = ⟨.err, []⟩ ∧
    runProjectE genParse genMods (ignPi clean) formatProject formatFile idOps .files {}
      (.node { path := 0, parse := .ok, orig := ['r'], visited := ['R'] }
        (.found (.node { path := 1, parse := .ok, orig := ['a'], visited := ['A'], ignored := true } .nil) .nil)) =
      ⟨.ok {}, [⟨0, .write .file, ['R', '\n']⟩]⟩ ∧
    runProjectE genParse genMods (fun | 1 => { diags := [], raw := .err (ownErr true) } | _ => clean) formatProject formatFile idOps .files {}
      ignTree = ⟨.err, []⟩ := by decide

/-- the hypotheses of `can_reset_implies_only_ignored`, `can_reset_invariant`, `hard_error_poisons`,
`ignored_errors_are_reset` and `accepted_leaves_no_errors` are satisfiable by non-trivial values; the last
line is a quirk the model predicted and the binary confirmed: after a mere *warning* in a file that is not
ignored, the recoverable error of an ignored file is no longer reset and the run fails -/
example :
    (emitAll genEmit Sess.init [ownErr true, { level := .warning, loc := .localFile true }]).canReset = true ∧
    (emitAll genEmit Sess.init [ownErr true, ownErr false, ownErr true]).canReset = false ∧
    [ownErr true, { level := .fatal, loc := .localFile true }].any Diag.hardError = true ∧
    (parseFile genParse Sess.init (recoverable true)) = (⟨false, true, 0, 0, []⟩, some .ok) ∧
    (parseFile genParse ⟨false, true, 0, 0, []⟩ (recoverable false)) = (⟨true, false, 1, 1, []⟩, some .parseError) ∧
    (parseFile genParse ⟨true, false, 0, 1, []⟩ (recoverable true)) = (⟨true, false, 1, 1, []⟩, some .parseError) := by decide

end RF.Props.C05
