//! (skeleton) dump of verif_hooks::optin::analyze
use rustfmt_nightly::verif_hooks::optin as ho;

use crate::pool;

pub fn dump(file: &str, extra: Option<&String>) -> i32 {
    let src = std::fs::read_to_string(file).unwrap_or_default();
    let mut cfg: Vec<(String, String)> = vec![];
    if let Some(extra) = extra {
        for kv in extra.split(',') {
            if let Some((k, v)) = kv.split_once('=') {
                cfg.push((k.to_string(), v.to_string()));
            }
        }
    }
    let config = pool::build_config(&cfg, &None).unwrap();
    match ho::analyze(&src, &config) {
        None => println!("does not parse"),
        Some(recs) => {
            for r in recs {
                println!("{} {}..{} {:?}", r.kind, r.lo, r.hi, r.kv);
            }
        }
    }
    for (f, v, s) in ho::keywords() {
        println!("kw {} {} {:?}", f, v, s);
    }
    0
}
