import RF.Model.Lists
import RF.Model.ListsRc
import RF.Model.ListsItemize
/-
Model of `src/vertical.rs`: the alignment of struct fields, struct-literal fields and the fields of enum
struct variants under `struct_field_align_threshold`:
`group_aligned_items` (:275-299), `struct_field_prefix_max_min_width` (:189-205),
`rewrite_aligned_items_inner` (:207-270, incl. the one-line second pass :245-257) and
`rewrite_with_alignment` (:111-187), statement by statement, on top of the list model
(`RF/Model/Lists.lean` `definitiveTactic` / `writeList`, `RF/Model/ListsItemize.lean` `itemize`).

What is abstract.  A field (`ast::FieldDef` / `ast::ExprField` behind the trait `AlignedItem`) is the data the
four trait methods yield:
  * `skip`      `AlignedItem::skip` (`contains_skip(&attrs)`);
  * `measW`     `trimmed_last_line_width(rewrite_prefix(..))`, `none` = `rewrite_prefix` failed;
  * `rewrite_aligned_item(.., prefix_max_width = w)` = `head ++ spacing ++ pad ++ value` with
    `pad = (w - alignW)` blanks (`lhs_max_width.saturating_sub(overhead)` in `rewrite_struct_field`,
    `prefix_max_width.saturating_sub(name.len())` in `rewrite_field`); no padding for a skipped field (both
    rewriters return the field's source text); `ok = false` = the rewrite failed.
    `head` is the attributes and the name (`attr_prefix` / `attrs_str + name`), `spacing` the blank or the
    `": "` in front of the padding, `value` the type or the initialiser.
    For a `FieldDef` `measW = some alignW` (both come from the same `combine_strs_with_missing_comments`
    call); for an `ExprField` with attributes the two differ (`rewrite_prefix` may put a short attribute on
    the name's line, `rewrite_field` never does).
  * `post`      the source text from the end of the field to the start of the next one (for the last field:
    to `span.hi()`, closing brace included).
The decomposition is obtained from the real rewriters by the hook (`rewrite_aligned_item` at several widths)
and checked on every case of the correspondence by comparing the whole result.  It holds for a type /
initialiser that stays on its line (a multi-line value is re-laid-out by the real rewriters when the padding
moves it; out of the model).

Positions are counted in characters (`BytePos` counts bytes; equal on ASCII, to which the correspondence
restricts itself).  `none` = `None` / a panic (`span_after` finds no comma).
-/
namespace RF.Vertical
open RF.Lists RF.Shape

/-- What the four methods of `AlignedItem` yield for one field, plus the source text behind it. -/
structure Field where
  skip : Bool
  measW : Option Nat
  head : List Char
  spacing : List Char
  alignW : Nat
  value : List Char
  ok : Bool
  post : List Char
  deriving Repr, DecidableEq

/-- The padding `rewrite_aligned_item` inserts for `prefix_max_width = w`. -/
def padOf (f : Field) (w : Nat) : Nat := if f.skip then 0 else w - f.alignW

/-- `field.rewrite_aligned_item(context, item_shape, w)`; `none` = `Err`. -/
def alignedItem (f : Field) (w : Nat) : Option (List Char) :=
  if f.ok then some (f.head ++ f.spacing ++ List.replicate (padOf f w) ' ' ++ f.value) else none

/-- The part of the configuration the file reads. -/
structure VConfig where
  threshold : Nat                    -- struct_field_align_threshold
  trailingComma : SeparatorTactic    -- trailing_comma
  config : Config                    -- hard_tabs, tab_spaces, max_width (comment_width unused)
  deriving Repr, DecidableEq

/-- `lines.join("\n")` -/
def joinLines : List (List Char) → List Char
  | [] => []
  | [l] => l
  | l :: ls => l ++ '\n' :: joinLines ls

/-- `str::split('\n')` -/
def splitNl : List Char → List (List Char)
  | [] => [[]]
  | c :: rest =>
    if c = '\n' then [] :: splitNl rest
    else match splitNl rest with
      | l :: ls => (c :: l) :: ls
      | [] => [[c]]

/-- vertical.rs:284-296: the test `has_blank_line` on the text between two fields: of the pieces between the
line feeds, all but the first (the rest of the field's line) and the last (the indentation of the next field):
is one of them blank? -/
def hasBlankLine (gap : List Char) : Bool :=
  ((splitNl gap).drop 1).dropLast.any fun l => (trim l).isEmpty

/-- The same test as the pinned tree had it before the repair `f2802f1` (lines of the text but the first,
joined again and cut into lines again, without the last one): `str::lines` drops an empty last line, so the
blank line in front of a field that starts at column 0 was not seen (`RF/Props/Vertical.lean`,
`hasBlankLine_before_repair_counterexample`). -/
def hasBlankLineBefore (gap : List Char) : Bool :=
  let snippet := joinLines ((rustLines gap).drop 1)
  (rustLines snippet).dropLast.any fun l => (trim l).isEmpty

/-- The loop of `group_aligned_items`, vertical.rs:279-300, from index `idx` on the remaining fields.
Returns (the separator is `"\n"`, index of the last field of the group). -/
def groupGo : Nat → List Field → Bool × Nat
  | idx, f :: g :: rest =>
    if f.skip then (false, idx)
    else if hasBlankLine f.post then (true, idx)
    else groupGo (idx + 1) (g :: rest)
  | idx, _ => (false, idx)

/-- `group_aligned_items(context, fields)` (`fields` is not empty at either call site). -/
def groupAlignedItems (fields : List Field) : Bool × Nat := groupGo 0 fields

/-- vertical.rs:118-122: the group the next call of `rewrite_aligned_items_inner` handles. -/
def groupOf (c : VConfig) (fields : List Field) : Bool × Nat :=
  if c.threshold > 0 then groupAlignedItems fields else (false, fields.length - 1)

/-- `fold_ok` of `struct_field_prefix_max_min_width`; `none` = some `rewrite_prefix` failed. -/
def maxMinGo : List Field → Nat × Nat → Option (Nat × Nat)
  | [], acc => some acc
  | f :: rest, (mx, mn) =>
    match f.measW with
    | none => none
    | some len => maxMinGo rest (max mx len, min mn len)

/-- `struct_field_prefix_max_min_width`, vertical.rs:189-205.  `usize::MAX` is 2^64 - 1. -/
def prefixMaxMinWidth (fields : List Field) : Nat × Nat :=
  (maxMinGo fields (0, 18446744073709551615)).getD (0, 0)

/-- vertical.rs:217-222: `field_prefix_max_width` after the threshold test. -/
def fieldPrefixMaxWidth (c : VConfig) (fields : List Field) : Nat :=
  let (mx, mn) := prefixMaxMinWidth fields
  if mx - mn > c.threshold then 0 else mx

/-- The `SourceItem`s `itemize_list` walks: the rewritten field and the text behind it. -/
def sourceItems (fields : List Field) (w : Nat) : List SourceItem :=
  fields.map fun f => ⟨alignedItem f w, f.post⟩

/-- vertical.rs:245-257: the second pass of a one-line list: every item whose rewrite succeeded is rewritten
again without alignment; the comments and `new_lines` of the `ListItem` stay. -/
def oneLinePass : List Field → List ListItem → List ListItem
  | f :: fs, it :: its =>
    (if it.item.isSome then { it with item := alignedItem f 0 } else it) :: oneLinePass fs its
  | _, its => its

/-- `rewrite_aligned_items_inner`, vertical.rs:207-270.  `firstPre` is the source text from `span.lo()` to the
first field; the last field's `post` reaches to `span.hi()`. -/
def rewriteAlignedItemsInner (c : VConfig) (rc : Rc) (offset : Indent) (firstPre : List Char)
    (fields : List Field) (oneLineWidth : Nat) (forceTrailingSeparator : Bool) : Option (List Char) :=
  match (Shape.indented offset c.config).sub_width_opt 1 with
  | none => none
  | some itemShape =>
    let w := fieldPrefixMaxWidth c fields
    match itemize [','] ['}'] false firstPre (sourceItems fields w) with
    | none => none
    | some items =>
      let tactic := definitiveTactic items .horizontalVertical .comma oneLineWidth
      let items := if tactic = .horizontal then oneLinePass fields items else items
      let separatorTactic := if forceTrailingSeparator then SeparatorTactic.always else c.trailingComma
      let fmt : ListFormatting :=
        { ListFormatting.new itemShape c.config false with
          tactic := tactic, trailingSeparator := separatorTactic, preserveNewline := true }
      writeList fmt rc items

/-- `snippet.lines().position(|line| line.trim_end().ends_with("*/"))` -/
def blockEndLine : List (List Char) → Option Nat
  | [] => none
  | l :: ls => if endsWith "*/".toList (trimEnd l) then some 0 else (blockEndLine ls).map (· + 1)

/-- vertical.rs:125-159: how many characters of the text `gap` between the last field of the group and the
first field of the rest still belong to the group (`init_last_pos - init_hi`).  `none` = `span_after` panics
(no comma outside comments). -/
def initCut (gap : List Char) : Option Nat :=
  match findUncommented gap [','] with
  | none => none
  | some i =>
    let snippet := gap.drop (i + 1)
    if startsWith "//".toList (trimStart snippet) then
      let offset := match (rustLines snippet).head? with | some l => byteLen l | none => 0
      some (i + 1 + offset + 1)
    else if startsWith "/*".toList (trimStart snippet) then
      let commentLines := (blockEndLine (rustLines snippet)).getD 0
      let offset := byteLen (joinLines ((rustLines snippet).take (commentLines + 1)))
      some (i + 1 + offset + 1)
    else some (i + 1)

/-- The last field of a group with its `post` cut at `init_last_pos`. -/
def cutLast (fields : List Field) (k : Nat) : List Field :=
  match fields.reverse with
  | [] => []
  | l :: r => (({ l with post := l.post.take k } : Field) :: r).reverse

/-- `rewrite_with_alignment`, vertical.rs:111-187; `fuel` bounds the recursion on `rest` (one unit per
group; `fields.length` suffices).  The result of the group is followed by the separator (`"\n"` for a blank
line, nothing otherwise), a line break and the indentation, and by the rest. -/
def rewriteGo (c : VConfig) (rc : Rc) (indent : Indent) :
    Nat → List Char → List Field → Nat → Option (List Char)
  | 0, _, _, _ => none
  | fuel + 1, firstPre, fields, oneLineWidth =>
    let (blank, groupIndex) := groupOf c fields
    let init := fields.take (groupIndex + 1)
    let rest := fields.drop (groupIndex + 1)
    let spaces : List Char := if blank then ['\n'] else []
    if rest.isEmpty then
      (rewriteAlignedItemsInner c rc indent firstPre init oneLineWidth false).map (· ++ spaces)
    else
      match init.getLast? with
      | none => none
      | some l =>
        match initCut l.post with
        | none => none
        | some k =>
          if k > l.post.length then none else
          match rewriteAlignedItemsInner c rc indent firstPre (cutLast init k) 0 true with
          | none => none
          | some result =>
            match rewriteGo c rc indent fuel (l.post.drop k) rest 0 with
            | none => none
            | some restStr =>
              some (result ++ spaces ++ ['\n'] ++ indentString indent c.config ++ restStr)

/-- `rewrite_with_alignment(fields, context, shape, span, one_line_width)` with `shape.indent = indent`. -/
def rewriteWithAlignment (c : VConfig) (rc : Rc) (indent : Indent) (firstPre : List Char)
    (fields : List Field) (oneLineWidth : Nat) : Option (List Char) :=
  rewriteGo c rc indent fields.length firstPre fields oneLineWidth

/-! ## The groups as a list (what the recursion of `rewrite_with_alignment` visits) -/

/-- The groups `rewrite_with_alignment` cuts, each with "its separator is a blank line". -/
def groupsGo (c : VConfig) : Nat → List Field → List (List Field × Bool)
  | 0, _ => []
  | _, [] => []
  | fuel + 1, f :: fs =>
    let (blank, groupIndex) := groupOf c (f :: fs)
    ((f :: fs).take (groupIndex + 1), blank) :: groupsGo c fuel ((f :: fs).drop (groupIndex + 1))

def groups (c : VConfig) (fields : List Field) : List (List Field × Bool) :=
  groupsGo c fields.length fields

/-- The index of the last field of every group (what the hook reports). -/
def groupEnds : Nat → List (List Field × Bool) → List (Nat × Bool)
  | _, [] => []
  | start, (g, b) :: rest => (start + g.length - 1, b) :: groupEnds (start + g.length) rest

/-! ## What stands between two fields of the result, and the groups of a second pass

`rewrite_with_alignment` joins two groups with `spaces ++ "\n" ++ indent`; inside a group written vertically
`write_list` joins two items without comments with `",\n" ++ indent`, and with one more `"\n"` in front when
`preserve_newline` is on and the item has `new_lines` (`has_extra_newline` of the source). -/

/-- The text between two comment-free fields of one group in a vertical result. -/
def gapWithin (newLines : Bool) (indentStr : List Char) : List Char :=
  ',' :: (if newLines then ['\n'] else []) ++ '\n' :: indentStr

/-- The text between the last field of a group and the first of the next, no comments around. -/
def gapBetween (blank : Bool) (indentStr : List Char) : List Char :=
  ',' :: (if blank then ['\n'] else []) ++ '\n' :: indentStr

/-- `item.new_lines` of field `f` as `ListItems::next` computes it for a field that is not the last of the
list: `has_extra_newline(post_snippet, comment_end)`. -/
def newLinesOf (f : Field) : Bool :=
  match getCommentEnd f.post [','] ['}'] false with
  | some ce => (hasExtraNewline f.post ce).getD false
  | none => false

/-- The fields as a second pass reads them from a comment-free vertical result: the text behind every field
but the last is what the first pass wrote there. -/
def rereadGroup (indentStr : List Char) (blank : Bool) : List Field → List Field
  | [] => []
  | [f] => [{ f with post := gapBetween blank indentStr }]
  | f :: g :: rest =>
    { f with post := gapWithin (newLinesOf f) indentStr } :: rereadGroup indentStr blank (g :: rest)

/-! ## Oracles on the real formatter's output -/

/-- `alignment_exact` as a predicate on what a second look at the output measures: for every field of one
group its prefix width (`trimmed_last_line_width` of name and colon) and the width of the text in front of its
value (prefix, blank, padding; `0` for a skipped field, whose text is not touched: it counts for the widths
only).  With `max - min` within the threshold every value starts at `max + 1`; otherwise nothing is padded. -/
def alignOK (threshold : Nat) (fs : List (Nat × Nat)) : Bool :=
  let mx := (fs.map (·.1)).foldl max 0
  let mn := (fs.map (·.1)).foldl min 18446744073709551615
  if mx - mn > threshold then fs.all fun p => p.2 == 0 || p.2 == p.1 + 1
  else fs.all fun p => p.2 == 0 || p.2 == mx + 1

end RF.Vertical
