/-!
Model of the state that is shared between the inputs of one rustfmt invocation (C15, used by C05 and C06):
`Session { config, errors }`, `ReportedErrors`, `Session::format_input_inner`, `Session::override_config`,
`format_and_emit_report`, the loop of `format` in `src/bin/main.rs`, and the two exit formulas.

The formatter proper (`format_project` and everything below it) is a **parameter**

    F : Config κ → ι → ρ × Option Flags

It receives the effective configuration and the input, and nothing else.  Its result is what it emitted
(`ρ`: bytes on stdout, files written, …) and `some flags` for `Ok(report)` (the `ReportedErrors` of the fresh
`FormatReport` of this input) or `none` for `Err(ErrorKind)`.  That the real `format_project` reads no
other state is the recorded assumption; it is discharged on the code side by the inventory
`RF.Gen.State` (see `RF.Props.C15.state_inventory_is_pinned`).

Not modelled here: the emitter accumulators (`JsonEmitter::num_emitted_files` decides whether a `,` is
printed before an entry; checkstyle header/footer) — they change separators in the concatenated stdout
stream, never the per-file entry; `Session.source_file` is write-only (`push` in `handle_formatted_file`,
read only by `#[cfg(test)]` code).
-/
namespace RF.Session

/-- `struct ReportedErrors` (src/formatting.rs:372-394), fields in source order. -/
structure Flags where
  operational : Bool := false   -- has_operational_errors
  parsing : Bool := false       -- has_parsing_errors
  formatting : Bool := false    -- has_formatting_errors
  macroFailure : Bool := false  -- has_macro_format_failure
  check : Bool := false         -- has_check_errors
  diff : Bool := false          -- has_diff
  unformatted : Bool := false   -- has_unformatted_code_errors
  deriving DecidableEq, Repr

/-- `ReportedErrors::default()` -/
def Flags.none : Flags := {}

/-- `ReportedErrors::add` (src/formatting.rs:398-406): field-wise `|=`. -/
def Flags.add (a b : Flags) : Flags :=
  { operational := a.operational || b.operational
    parsing := a.parsing || b.parsing
    formatting := a.formatting || b.formatting
    macroFailure := a.macroFailure || b.macroFailure
    check := a.check || b.check
    diff := a.diff || b.diff
    unformatted := a.unformatted || b.unformatted }

/-- the seven fields as a list, in source order (driver encoding, and the order `Flags.le` is stated in) -/
def Flags.toList (f : Flags) : List Bool :=
  [f.operational, f.parsing, f.formatting, f.macroFailure, f.check, f.diff, f.unformatted]

def Flags.ofList : List Bool → Option Flags
  | [a, b, c, d, e, g, h] => some ⟨a, b, c, d, e, g, h⟩
  | _ => Option.none

/-- `a ≤ b`: every flag set in `a` is set in `b`. -/
def Flags.le (a b : Flags) : Bool :=
  (!a.operational || b.operational) && (!a.parsing || b.parsing) && (!a.formatting || b.formatting) &&
  (!a.macroFailure || b.macroFailure) && (!a.check || b.check) && (!a.diff || b.diff) &&
  (!a.unformatted || b.unformatted)

/-- `Session::has_no_errors` (src/lib.rs:510-518) -/
def Flags.hasNoErrors (f : Flags) : Bool :=
  !(f.operational || f.parsing || f.formatting || f.check || f.diff || f.unformatted || f.macroFailure)

/-- exit status of `format` (src/bin/main.rs:387-395); `check` is `options.check` (`--check`). -/
def exitFormat (check : Bool) (f : Flags) : Nat :=
  if f.operational || f.parsing || ((f.diff || f.check) && check) then 1 else 0

/-- exit status of `format_string` (standard input, src/bin/main.rs:323-328): `has_diff` and
`has_check_errors` are not consulted, whatever `--check` says (finding F4 of DESIGN.md §4). -/
def exitStdin (f : Flags) : Nat :=
  if f.operational || f.parsing then 1 else 0

/-- The part of `Config` that `format_input_inner` itself looks at, plus everything else (`opts`). -/
structure Config (κ : Type) where
  versionOk : Bool      -- `version_meets_requirement()`
  disableAll : Bool     -- `disable_all_formatting()`
  opts : κ
  deriving DecidableEq, Repr

/-- `struct Session` (src/lib.rs:441-447) restricted to the fields that are read between inputs. -/
structure Session (κ : Type) where
  config : Config κ
  errors : Flags

/-- `Session::new`: `errors: ReportedErrors::default()` -/
def Session.new {κ} (c : Config κ) : Session κ := ⟨c, Flags.none⟩

/-- `Session::add_operational_error` (src/lib.rs:482) -/
def Session.addOperational {κ} (s : Session κ) : Session κ :=
  { s with errors := { s.errors with operational := true } }

/-- What one call of `Session::format` produced: `emitted = none` when the formatter was not run at all
(version mismatch, `disable_all_formatting`), `report = none` for `Err(_)`. -/
structure Out (ρ : Type) where
  emitted : Option ρ
  report : Option Flags
  deriving DecidableEq, Repr

/-- `Session::format_input_inner` (src/formatting.rs:30-56): version check, `disable_all_formatting`
(an empty report; standard input is echoed, which the model does not record), then
`format_project(input, &self.config.clone(), self, …)` and `self.errors.add(report flags)` on `Ok` only. -/
def formatInput {κ ι ρ} (F : Config κ → ι → ρ × Option Flags) (s : Session κ) (i : ι) :
    Session κ × Out ρ :=
  if !s.config.versionOk then (s, ⟨Option.none, Option.none⟩)
  else if s.config.disableAll then (s, ⟨Option.none, some Flags.none⟩)
  else
    match F s.config i with
    | (r, some fl) => ({ s with errors := s.errors.add fl }, ⟨some r, some fl⟩)
    | (r, Option.none) => (s, ⟨some r, Option.none⟩)

/-- `format_and_emit_report` (src/bin/main.rs:398-415): `Err` ⇒ `session.add_operational_error()`. -/
def formatAndEmitReport {κ ι ρ} (F : Config κ → ι → ρ × Option Flags) (s : Session κ) (i : ι) :
    Session κ × Out ρ :=
  match formatInput F s i with
  | (s', o) => if o.report.isNone then (s'.addOperational, o) else (s', o)

/-- `Session::override_config` (src/lib.rs:472-480): swap, run, swap back.  `f` receives `&mut Session`
and may in principle assign `config`; the second swap puts back whatever was saved by the first. -/
def overrideConfig {κ α} (s : Session κ) (c : Config κ) (f : Session κ → Session κ × α) :
    Session κ × α :=
  let saved := s.config                       -- after the first swap the local `config` holds the old one
  match f { s with config := c } with
  | (s', a) => ({ s' with config := saved }, a)

/-- One path of the command line, as `format` (main.rs:348-377) sees it. -/
inductive Arg (κ ι : Type) where
  /-- `!file.exists()` or `file.is_dir()` -/
  | missing
  /-- an existing file; `localCfg` is the result of `load_config(Some(parent), options)` for it:
  `none` = `Err` (malformed TOML, unreadable config file, unknown value).  It is only consulted when no
  `--config-path` was given. -/
  | file (localCfg : Option (Config κ)) (input : ι)

/-- What the loop recorded for one path. -/
inductive Entry (ρ : Type) where
  | missing
  | formatted (o : Out ρ)
  deriving DecidableEq, Repr

/-- The body of the `for file in files` loop for one path; `none` = the `?` on `load_config` left
`format` (and `main` exits with 1; the remaining paths are not looked at).  `usePath` = `config_path.is_some()`. -/
def argStep {κ ι ρ} (F : Config κ → ι → ρ × Option Flags) (usePath : Bool) (s : Session κ) :
    Arg κ ι → Option (Session κ × Entry ρ)
  | .missing => some (s.addOperational, .missing)
  | .file lc i =>
    if usePath then
      match formatAndEmitReport F s i with
      | (s', o) => some (s', .formatted o)
    else
      match lc with
      | Option.none => Option.none
      | some c =>
        match overrideConfig s c (fun t => formatAndEmitReport F t i) with
        | (s', o) => some (s', .formatted o)

/-- Result of the whole loop. -/
structure Run (κ ρ : Type) where
  sess : Session κ
  entries : List (Entry ρ)     -- one per path processed, in command-line order
  aborted : Bool               -- a `load_config(..)?` returned `Err`

/-- `for file in files { … }` of `format`. -/
def cliLoop {κ ι ρ} (F : Config κ → ι → ρ × Option Flags) (usePath : Bool) :
    Session κ → List (Arg κ ι) → Run κ ρ
  | s, [] => ⟨s, [], false⟩
  | s, a :: rest =>
    match argStep F usePath s a with
    | Option.none => ⟨s, [], true⟩
    | some (s', e) =>
      let r := cliLoop F usePath s' rest
      ⟨r.sess, e :: r.entries, r.aborted⟩

/-- `format` (main.rs:331-396) from `Session::new(config, …)` on; `global` is the result of the first
`load_config(None, options)` (its failure leaves `format` before any file is looked at: `runCli` is then
not reached and the exit status is 1). -/
def runCli {κ ι ρ} (F : Config κ → ι → ρ × Option Flags) (global : Config κ) (usePath : Bool)
    (args : List (Arg κ ι)) : Run κ ρ :=
  cliLoop F usePath (Session.new global) args

/-- exit status of the process for a `format` run: `Err` from `format` ⇒ 1 (main.rs:38-44). -/
def Run.exit {κ ρ} (check : Bool) (r : Run κ ρ) : Nat :=
  if r.aborted then 1 else exitFormat check r.sess.errors

/-- The flags one entry contributes to `session.errors`. -/
def Entry.flags {ρ} : Entry ρ → Flags
  | .missing => { operational := true }
  | .formatted o =>
    match o.report with
    | some fl => fl
    | Option.none => { operational := true }

/-- An API session (`Session::format` called repeatedly under one config): outputs in order. -/
def formatAll {κ ι ρ} (F : Config κ → ι → ρ × Option Flags) : Session κ → List ι → Session κ × List (Out ρ)
  | s, [] => (s, [])
  | s, i :: rest =>
    match formatInput F s i with
    | (s', o) =>
      match formatAll F s' rest with
      | (s'', os) => (s'', o :: os)

/-- `fold` of flag vectors with `ReportedErrors::add`, as `session.errors` accumulates them. -/
def foldFlags (fs : List Flags) : Flags := fs.foldl Flags.add Flags.none

end RF.Session
