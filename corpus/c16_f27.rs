/*
 * .)🦊 * / }
 * * / 🦊 .
 * 　 http://example.com/a/very/long/url/that/cannot/be/broken/anywhere/at/all/index.html http://example.com/a/very/long/url/that/cannot/be/broken/anywhere/at/all/index.html TODO: ~~~ `code`
 */
struct S {
    /// \ > quote, , ? (
    a: u32, // # Heading  > > # Heading .
}
/*   . \1. item) */
fn h() {}
/**
 * 	; 1. item 10) item @generatedé '
 * ?
 */
fn f() {
    let s = "  . a::b 🦊🦊";
    //    | a | b |~~~ é ?
    call(a, "+ item :registry_index_crates_io_proc_macro_expansion_cache_entry_with_a_long_name 　 ;~~~ [link]: http://x.y", b);
}
/// + item a::b
/// `code` .
/// [a][b]	 FIXME(x): 10) item ```rust http://example.com/a/very/long/url/that/cannot/be/broken/anywhere/at/all/index.html 日本語のテキスト
/// */    another '*/
fn h() {}
